From Coq Require Import NArith ZArith List Lia Bool.
From Coq Require Import ZifyN ZifyNat ZifyBool.
Require Import Bytes Hex Convert Convert3gpp.
Import ListNotations.
Open Scope N_scope.
Ltac Zify.zify_post_hook ::= Z.div_mod_to_equations.

Definition upto (n:nat) : list N := map N.of_nat (seq 0 n).
Lemma in_upto n x : x < N.of_nat n -> In x (upto n).
Proof. intro H. unfold upto. apply in_map_iff. exists (N.to_nat x). split; [lia|]. apply in_seq. lia. Qed.

Lemma sweep256 (P:N -> bool) : forallb P (upto 256) = true -> forall x, x < 256 -> P x = true.
Proof. intros F x Hx. rewrite forallb_forall in F. apply F. apply in_upto. exact Hx. Qed.

Lemma firstn_len_app {A} (c rest:list A) : firstn (length c) (c ++ rest) = c.
Proof. induction c as [|x c IH]; [destruct rest; reflexivity|]. cbn [length app firstn]. f_equal. exact IH. Qed.
Lemma skipn_len_app {A} (c rest:list A) : skipn (length c) (c ++ rest) = rest.
Proof. induction c as [|x c IH]; [reflexivity|]. exact IH. Qed.

(* ---- hex *)
Lemma hexval_hexchar_fin : forallb (fun v => match hexval (hexchar v) with Some w => w =? v | None => false end) (upto 16) = true.
Proof. vm_compute. reflexivity. Qed.
Lemma hexval_hexchar v : v < 16 -> hexval (hexchar v) = Some v.
Proof.
  intro H. pose proof hexval_hexchar_fin as F. rewrite forallb_forall in F. specialize (F v (in_upto 16 v H)).
  destruct (hexval (hexchar v)) as [w|]; [|discriminate]. f_equal. lia.
Qed.
Lemma hex_roundtrip bs : bytes_ok bs = true -> hex_decode_go (hex_encode bs) = (bs, true).
Proof.
  induction bs as [|x bs IH]; intro H; [reflexivity|].
  cbn [bytes_ok forallb] in H. apply andb_true_iff in H. destruct H as [Hx Hb]. unfold byte_ok in Hx.
  cbn [hex_encode hex_decode_go]. rewrite !hexval_hexchar by lia. rewrite (IH Hb). f_equal. f_equal. lia.
Qed.

(* ---- S-NSSAI *)
Lemma snssai_sst_only sst : (0 <= sst < 256)%Z -> snssai_decode (snssai_to_nas sst []) = Some (Z.to_N sst, None).
Proof. intro H. unfold snssai_to_nas. rewrite Z.mod_small by lia. reflexivity. Qed.
Lemma snssai_sst_sd sst a b c : (0 <= sst < 256)%Z -> a < 256 -> b < 256 -> c < 256 ->
  snssai_decode (snssai_to_nas sst (hex_encode [a; b; c])) = Some (Z.to_N sst, Some [a; b; c]).
Proof.
  intros H Ha Hb Hc. unfold snssai_to_nas. rewrite Z.mod_small by lia.
  assert (R : hex_decode_go (hex_encode [a; b; c]) = ([a; b; c], true)).
  { apply hex_roundtrip. cbn [bytes_ok forallb]. unfold byte_ok. lia. }
  destruct (hex_encode [a; b; c]) as [|h t] eqn:E; [discriminate E|]. rewrite R. reflexivity.
Qed.

(* ---- AMF identifier *)
Lemma amf_bits_fin : forallb (fun b => (N.shiftr (N.land b 192) 6 =? b / 64) && (N.land b 63 =? b mod 64)) (upto 256) = true.
Proof. vm_compute. reflexivity. Qed.
Lemma amf_id_roundtrip v : v < 16777216 ->
  amf_id_to_nas (hex_encode (N_to_be 3 v)) = Some (amf_id_fields v).
Proof.
  intro Hv. unfold amf_id_to_nas.
  assert (E : N_to_be 3 v = [(v / 256 / 256) mod 256; (v / 256) mod 256; v mod 256]) by reflexivity.
  rewrite E. rewrite hex_roundtrip by (cbn [bytes_ok forallb]; unfold byte_ok; lia).
  cbn [fst]. unfold amf_id_fields.
  pose proof (sweep256 _ amf_bits_fin (v mod 256)) as S. cbv beta in S.
  assert (Hb : v mod 256 < 256) by lia. specialize (S Hb). apply andb_true_iff in S. destruct S as [S1 S2].
  rewrite N.shiftl_mul_pow2. change (2 ^ 2) with 4.
  f_equal. f_equal; [f_equal|]; lia.
Qed.

(* ---- transport layer address *)
Lemma firstn_all2 {A} (l:list A) n : length l = n -> firstn n l = l.
Proof. intro H. subst n. apply firstn_all. Qed.
Ltac explode4 l H := do 4 (destruct l as [|? l]; [discriminate H|]); destruct l; [|discriminate H].
Ltac explode16 l H := do 16 (destruct l as [|? l]; [discriminate H|]); destruct l; [|discriminate H].
Lemma ip_v4_roundtrip a : length a = 4%nat ->
  let '(b, l) := ip_to_ngap (Some a) None in
  ngap_to_ip b l = Some (Some a, None) /\ tla_decode b l = Some (TlaV4 a).
Proof. intro H. explode4 a H. split; reflexivity. Qed.
Lemma ip_v6_roundtrip b : length b = 16%nat ->
  let '(o, l) := ip_to_ngap None (Some b) in
  ngap_to_ip o l = Some (None, Some b) /\ tla_decode o l = Some (TlaV6 b).
Proof. intro H. explode16 b H. split; reflexivity. Qed.
Lemma ip_dual_roundtrip a b : length a = 4%nat -> length b = 16%nat ->
  let '(o, l) := ip_to_ngap (Some a) (Some b) in
  ngap_to_ip o l = Some (Some a, Some b) /\ tla_decode o l = Some (TlaBoth a b).
Proof. intros Ha Hb. explode4 a Ha. explode16 b Hb. split; reflexivity. Qed.

(* ---- protocol configuration options *)
Definition wf_unit (u:pcu) : bool := (u_id u <? 65536) && (u_len u =? N.of_nat (length (u_contents u))) && (u_len u <? 256).
Definition body (us:list pcu) : list N :=
  flat_map (fun u => [(u_id u / 256) mod 256; u_id u mod 256; u_len u mod 256] ++ u_contents u) us.

Lemma loop_done f num rd st cur acc : (num <= 0)%Z -> pco_loop (S f) num rd st cur acc = POk acc.
Proof. intro H. cbn [pco_loop]. destruct (num <=? 0)%Z eqn:E; [reflexivity | lia]. Qed.
Lemma loop_rid f num a b r cur acc : (0 < num)%Z ->
  pco_loop (S f) num (a :: b :: r) RID cur acc
  = pco_loop f (num - 2) r RLen {| u_id := a * 256 + b; u_len := 0; u_contents := [] |} acc.
Proof. intro H. cbn [pco_loop]. destruct (num <=? 0)%Z eqn:E; [lia | reflexivity]. Qed.
Lemma loop_rlen f num l r cid acc : (0 < num)%Z ->
  pco_loop (S f) num (l :: r) RLen {| u_id := cid; u_len := 0; u_contents := [] |} acc
  = pco_loop f (num - 1) r RContent {| u_id := cid; u_len := l; u_contents := [] |}
      (if l =? 0 then acc ++ [{| u_id := cid; u_len := l; u_contents := [] |}] else acc).
Proof. intro H. cbn [pco_loop u_id u_len u_contents]. destruct (num <=? 0)%Z eqn:E; [lia | reflexivity]. Qed.
Lemma loop_rcontent_zero f num rd cid acc : (0 < num)%Z ->
  pco_loop (S f) num rd RContent {| u_id := cid; u_len := 0; u_contents := [] |} acc
  = pco_loop f num rd RID {| u_id := cid; u_len := 0; u_contents := [] |} acc.
Proof. intro H. cbn [pco_loop u_len]. destruct (num <=? 0)%Z eqn:E; [lia | reflexivity]. Qed.
Lemma loop_rcontent_pos f num c rest cid l acc : (0 < num)%Z -> 0 < l -> N.to_nat l = length c ->
  pco_loop (S f) num (c ++ rest) RContent {| u_id := cid; u_len := l; u_contents := [] |} acc
  = pco_loop f (num - Z.of_N l) rest RID {| u_id := cid; u_len := l; u_contents := c |}
      (acc ++ [{| u_id := cid; u_len := l; u_contents := c |}]).
Proof.
  intros H Hl Hn. cbn [pco_loop u_len u_id u_contents]. destruct (num <=? 0)%Z eqn:E; [lia|].
  replace (0 <? l) with true by lia. rewrite Hn.
  replace (Nat.ltb (length (c ++ rest)) (length c)) with false by (symmetry; apply Nat.ltb_ge; rewrite app_length; lia).
  rewrite firstn_len_app, skipn_len_app. reflexivity.
Qed.

Lemma body_cons u us : body (u :: us) = (u_id u / 256) mod 256 :: u_id u mod 256 :: u_len u mod 256 :: u_contents u ++ body us.
Proof. reflexivity. Qed.

Lemma pco_loop_units : forall us fuel cur acc,
  forallb wf_unit us = true -> (3 * length us + 1 <= fuel)%nat ->
  pco_loop fuel (Z.of_nat (length (body us))) (body us) RID cur acc = POk (acc ++ us).
Proof.
  induction us as [|u us IH]; intros fuel cur acc Hwf Hf.
  - destruct fuel as [|f]; [cbn in Hf; lia|]. rewrite loop_done by (cbn; lia). rewrite app_nil_r. reflexivity.
  - cbn [forallb] in Hwf. apply andb_true_iff in Hwf. destruct Hwf as [Hu Hus].
    unfold wf_unit in Hu. apply andb_true_iff in Hu. destruct Hu as [Hu Hl256]. apply andb_true_iff in Hu. destruct Hu as [Hid Hlen].
    destruct u as [uid ulen uc]. cbn [u_id u_len u_contents] in *.
    cbn [length] in Hf.
    destruct fuel as [|[|[|f]]]; try lia.
    rewrite body_cons. cbn [u_id u_len u_contents].
    set (B := body us) in *.
    assert (Eid : (uid / 256) mod 256 * 256 + uid mod 256 = uid) by lia.
    assert (El : ulen mod 256 = ulen) by lia. rewrite El.
    rewrite loop_rid by (cbn [length]; lia). rewrite Eid.
    rewrite loop_rlen by (cbn [length]; lia).
    destruct (ulen =? 0) eqn:Ez.
    + assert (uc = []) by (destruct uc; [reflexivity | cbn [length] in Hlen; lia]). subst uc.
      assert (ulen = 0) by lia. subst ulen. cbn [app length].
      destruct us as [|u' us'].
      * subst B. cbn [body flat_map length]. rewrite loop_done by lia. reflexivity.
      * rewrite loop_rcontent_zero.
        2:{ subst B. rewrite body_cons. cbn [length]. lia. }
        replace (Z.of_nat (S (S (S (length B)))) - 2 - 1)%Z with (Z.of_nat (length B)) by lia.
        rewrite IH by (assumption || lia). rewrite <- app_assoc. reflexivity.
    + rewrite loop_rcontent_pos by (try (cbn [length]; rewrite app_length); lia).
      match goal with |- context [pco_loop f ?n B RID] =>
        replace n with (Z.of_nat (length B)) by (cbn [length]; rewrite app_length; lia) end.
      rewrite IH by (assumption || lia). rewrite <- app_assoc. reflexivity.
Qed.

Theorem pco_roundtrip us : forallb wf_unit us = true -> pco_unmarshal (pco_marshal us) = POk us.
Proof.
  intro H. unfold pco_unmarshal, pco_marshal. fold (body us). cbn [length].
  replace (Z.of_nat (S (length (body us))) - 1)%Z with (Z.of_nat (length (body us))) by lia.
  apply (pco_loop_units us _ pcu0 [] H).
  assert (length us <= length (body us))%nat.
  { clear H. induction us as [|u us IH]; [cbn; lia|]. rewrite body_cons. cbn [length]. rewrite app_length. lia. }
  lia.
Qed.

(* the standard's reader sees the same units *)
Lemma pco_units_body : forall us fuel, forallb wf_unit us = true -> (length (body us) < fuel)%nat ->
  pco_units fuel (body us) = Some (map (fun u => (u_id u, u_contents u)) us).
Proof.
  induction us as [|u us IH]; intros fuel Hwf Hf.
  - destruct fuel; [lia|]. reflexivity.
  - cbn [forallb] in Hwf. apply andb_true_iff in Hwf. destruct Hwf as [Hu Hus].
    unfold wf_unit in Hu. apply andb_true_iff in Hu. destruct Hu as [Hu Hl256]. apply andb_true_iff in Hu. destruct Hu as [Hid Hlen].
    destruct u as [uid ulen uc]. cbn [u_id u_len u_contents] in *.
    rewrite body_cons in *. cbn [u_id u_len u_contents length] in *. rewrite app_length in Hf.
    destruct fuel as [|f]; [lia|]. cbn [pco_units].
    assert (El : ulen mod 256 = ulen) by lia. rewrite El.
    assert (Hn : N.to_nat ulen = length uc) by lia. rewrite Hn.
    replace (Nat.ltb (length (uc ++ body us)) (length uc)) with false by (symmetry; apply Nat.ltb_ge; rewrite app_length; lia).
    rewrite firstn_len_app, skipn_len_app.
    rewrite IH by (assumption || lia). cbn [map u_id u_contents]. f_equal. f_equal. f_equal. lia.
Qed.
Theorem pco_spec_reads us : forallb wf_unit us = true ->
  pco_decode (pco_marshal us) = Some (map (fun u => (u_id u, u_contents u)) us).
Proof. intro H. unfold pco_decode, pco_marshal. fold (body us). apply pco_units_body; [assumption | lia]. Qed.

(* ---- DNN *)
Theorem dnn_roundtrip d : (length d < 256)%nat ->
  dnn_unmarshal (dnn_marshal d) = Some d /\ dnn_lv_decode (dnn_marshal d) = Some d.
Proof.
  intro H. unfold dnn_marshal, dnn_unmarshal, dnn_lv_decode. split; [reflexivity|].
  replace (N.of_nat (length d) =? N.of_nat (length d) mod 256) with true by lia. reflexivity.
Qed.
