(* C09, sub-field layer: what the structural conformance check of Model/NasAccConform.v MEANS (independent of the regenerated
   descriptors).
   [accessor_semantics]: for ALL octet values the conforming getter returns the value the table's field holds and the conforming
      setter stores into exactly that field (model semantics = table semantics).
   [field_store_load]: the table semantics itself: load after store gives the stored value back, the length and every bit
      outside the field are unchanged.
   Octet-level facts about masks and shifts are established by exhaustive sweeps over 0..255 (and over the 1024 values of a
   10-bit field): forallb ... = true by computation, lifted with forallb_forall. *)
From Coq Require Import NArith Arith Bool String List Lia.
Require Import NasAcc TS24501Fields NasAccConform.
Import ListNotations.
Open Scope N_scope.

(* ------------------------------------------------------------------ finite ranges *)
Fixpoint rng_from (n:nat) (a:N) : list N := match n with O => [] | S n' => a :: rng_from n' (N.succ a) end.
Definition rng (n:nat) : list N := rng_from n 0.
Lemma in_rng_from n : forall a x, a <= x -> x < a + N.of_nat n -> In x (rng_from n a).
Proof.
  induction n as [|n IH]; intros a x H1 H2; [lia|]. cbn [rng_from].
  destruct (N.eq_dec a x) as [->|Hne]; [now left|]. right. apply IH; lia.
Qed.
Lemma in_rng x n : x < N.of_nat n -> In x (rng n).
Proof. intro H. apply in_rng_from; lia. Qed.
Lemma forallb_rng (P:N -> bool) n : forallb P (rng n) = true -> forall x, x < N.of_nat n -> P x = true.
Proof. intros H x Hx. rewrite forallb_forall in H. apply H. now apply in_rng. Qed.
Lemma forallb_seq0 (P:nat -> bool) n : forallb P (seq 0 n) = true -> forall i, (i < n)%nat -> P i = true.
Proof. intros H i Hi. rewrite forallb_forall in H. apply H. apply in_seq. lia. Qed.

Lemma bits_ok_range hi lo : bits_ok hi lo = true -> (1 <= lo /\ lo <= hi /\ hi <= 8)%nat.
Proof.
  unfold bits_ok. rewrite !andb_true_iff. intros [[H1 H2] H3].
  apply Nat.leb_le in H1. apply Nat.leb_le in H2. apply Nat.leb_le in H3. lia.
Qed.
Lemma pw_le_256 w : (w <= 8)%nat -> pw w <= 256.
Proof. intro H. unfold pw. change 256 with (2 ^ 8). apply N.pow_le_mono_r; lia. Qed.

(* ------------------------------------------------------------------ octet-level sweeps *)
(* getter: mask, shift *)
Definition G_check (hi lo:nat) (mask x:N) : bool :=
  N.shiftr (N.land x mask) (N.of_nat (lo - 1)) =? (x / pw (lo - 1)) mod pw (hi - lo + 1).
Definition G_cond (hi lo:nat) (mask:N) : bool :=
  let sh := N.of_nat (lo - 1) in bits_ok hi lo && (N.shiftl (N.shiftr mask sh) sh =? fmask hi lo).
Lemma G_fin :
  forallb (fun hi => forallb (fun lo => forallb (fun mask =>
    if G_cond hi lo mask then forallb (G_check hi lo mask) (rng 256) else true) (rng 256)) (seq 0 9)) (seq 0 9) = true.
Proof. vm_cast_no_check (eq_refl true). Qed.
Lemma G_all hi lo mask x :
  bits_ok hi lo = true -> mask < 256 -> N.shiftl (N.shiftr mask (N.of_nat (lo - 1))) (N.of_nat (lo - 1)) = fmask hi lo -> x < 256 ->
  N.shiftr (N.land x mask) (N.of_nat (lo - 1)) = (x / pw (lo - 1)) mod pw (hi - lo + 1).
Proof.
  intros Hb Hm He Hx. pose proof (bits_ok_range _ _ Hb) as R.
  pose proof G_fin as F. apply forallb_seq0 with (i := hi) in F; [|lia].
  apply forallb_seq0 with (i := lo) in F; [|lia]. apply forallb_rng with (x := mask) in F; [|exact Hm].
  unfold G_cond in F. rewrite Hb, He, N.eqb_refl in F. cbn [andb] in F.
  apply forallb_rng with (x := x) in F; [|exact Hx]. unfold G_check in F. now apply N.eqb_eq in F.
Qed.

(* setter: keep mask, value mask, shift, + or |; and the store/load facts of the table's arithmetic *)
Definition stored (hi lo:nat) (x v:N) : N :=
  x - ((x / pw (lo - 1)) mod pw (hi - lo + 1)) * pw (lo - 1) + v * pw (lo - 1).
Definition S_check (hi lo:nat) (x v:N) : bool :=
  let sh := N.of_nat (lo - 1) in
  let a := N.land x (255 - fmask hi lo) in let b := u8 (N.shiftl (N.land v (pw (hi - lo + 1) - 1)) sh) in
  let x' := stored hi lo x v in
  (comb OpPlus a b =? x') && (comb OpOr a b =? x') && (x' <? 256) &&
  ((x' / pw (lo - 1)) mod pw (hi - lo + 1) =? v) &&
  forallb (fun b => if (lo - 1 <=? b)%nat && (b <? hi)%nat then true
                    else Bool.eqb (N.testbit x' (N.of_nat b)) (N.testbit x (N.of_nat b))) (seq 0 8).
Lemma S_fin :
  forallb (fun hi => forallb (fun lo =>
    if bits_ok hi lo then forallb (fun x => forallb (S_check hi lo x) (rng (2 ^ (hi - lo + 1)))) (rng 256) else true) (seq 0 9)) (seq 0 9) = true.
Proof. vm_cast_no_check (eq_refl true). Qed.
Lemma pw_nat w : pw w = N.of_nat (2 ^ w).
Proof. unfold pw. rewrite Nat2N.inj_pow. reflexivity. Qed.
Lemma S_all hi lo x v : bits_ok hi lo = true -> x < 256 -> v < pw (hi - lo + 1) -> S_check hi lo x v = true.
Proof.
  intros Hb Hx Hv. pose proof (bits_ok_range _ _ Hb) as R.
  pose proof S_fin as F. apply forallb_seq0 with (i := hi) in F; [|lia].
  apply forallb_seq0 with (i := lo) in F; [|lia]. rewrite Hb in F.
  apply forallb_rng with (x := x) in F; [|exact Hx]. apply forallb_rng with (x := v) in F; [exact F|].
  now rewrite <- pw_nat.
Qed.

(* ------------------------------------------------------------------ lists *)
Lemma upd_put st i x : upd st i x = put st i x.
Proof. revert i. induction st as [|y r IH]; intros [|i]; cbn; try reflexivity; now rewrite IH. Qed.

Lemma put_spec st i x st' : put st i x = Some st' ->
  List.length st' = List.length st /\ nth_error st' i = Some x /\ (forall j, j <> i -> nth_error st' j = nth_error st j).
Proof.
  revert i st'. induction st as [|y r IH]; intros [|i] st'; cbn; try discriminate.
  - intro H. inversion H; subst. repeat split. intros [|j] Hj; [congruence|reflexivity].
  - destruct (put r i x) as [r'|] eqn:E; [|discriminate]. intro H. inversion H; subst.
    destruct (IH _ _ E) as (L & Hn & Ho). cbn. repeat split; [now rewrite L|exact Hn|].
    intros [|j] Hj; [reflexivity|]. cbn. apply Ho. congruence.
Qed.
Lemma put_some st i x y : nth_error st i = Some y -> exists st', put st i x = Some st'.
Proof.
  revert i. induction st as [|z r IH]; intros [|i]; cbn; try discriminate; eauto.
  intro H. destruct (IH _ H) as [r' E]. rewrite E. eauto.
Qed.
Lemma put_nth st i x st' d : put st i x = Some st' -> forall j, nth j st' d = if (j =? i)%nat then x else nth j st d.
Proof.
  revert i st'. induction st as [|y r IH]; intros [|i] st'; cbn; try discriminate.
  - intro H. inversion H; subst. intros [|j]; reflexivity.
  - destruct (put r i x) as [r'|] eqn:E; [|discriminate]. intro H. inversion H; subst.
    intros [|j]; [reflexivity|]. cbn. now apply IH.
Qed.

Lemma octets_ok_nth st i x : octets_ok st = true -> nth_error st i = Some x -> x < 256.
Proof.
  unfold octets_ok. intros H E. rewrite forallb_forall in H. apply nth_error_In in E. apply H in E. now apply N.ltb_lt.
Qed.
Lemma octets_ok_put st i x st' : octets_ok st = true -> x < 256 -> put st i x = Some st' -> octets_ok st' = true.
Proof.
  revert i st'. induction st as [|y r IH]; intros [|i] st'; cbn; try discriminate.
  - intros H Hx E. inversion E; subst. cbn. apply andb_true_iff in H as [_ H]. rewrite H.
    now apply N.ltb_lt in Hx as ->.
  - intros H Hx. destruct (put r i x) as [r'|] eqn:E; [|discriminate]. intro E'. inversion E'; subst. cbn.
    apply andb_true_iff in H as [H1 H2]. rewrite H1. cbn. eapply IH; eauto.
Qed.

(* ------------------------------------------------------------------ 2. model = table semantics *)
Ltac split_andb H := repeat (let H1 := fresh H in apply andb_true_iff in H as [H H1]).

Lemma get_bits_sem o hi lo g st : get_conforms (FBits o hi lo) g = true -> octets_ok st = true ->
  acc_get g st = spec_get (FBits o hi lo) st.
Proof.
  intros H Hst. destruct g; cbn [get_conforms] in H; try discriminate.
  split_andb H. apply Nat.eqb_eq in H. subst i. apply N.ltb_lt in H2. apply N.eqb_eq in H1, H0. subst shift.
  cbn [acc_get spec_get]. destruct (nth_error st o) as [x|] eqn:E; [|reflexivity].
  do 2 f_equal. apply G_all; auto. eapply octets_ok_nth; eauto.
Qed.

Lemma set_bits_sem o hi lo s st v : set_conforms (FBits o hi lo) s = true -> octets_ok st = true ->
  value_fits (FBits o hi lo) st v = true -> acc_set s st v = spec_set (FBits o hi lo) st v.
Proof.
  intros H Hst Hv. destruct s; cbn [set_conforms] in H; try discriminate.
  split_andb H. apply Nat.eqb_eq in H. subst i. apply N.eqb_eq in H0, H1, H2. subst keep vmask shift.
  unfold spec_set. rewrite Hv. cbn [negb]. destruct v as [n|bs]; [|cbn in Hv; discriminate].
  cbn [value_fits] in Hv. apply N.ltb_lt in Hv.
  cbn [acc_set]. destruct (nth_error st o) as [x|] eqn:E; [|reflexivity].
  rewrite upd_put. f_equal.
  pose proof (S_all hi lo x n H3 (octets_ok_nth _ _ _ Hst E) Hv) as C. unfold S_check in C. cbv zeta in C.
  split_andb C. destruct op; [apply N.eqb_eq in C|apply N.eqb_eq in C3]; assumption.
Qed.

Lemma get_octets_sem first count g st : get_conforms (FOctets first count) g = true ->
  acc_get g st = spec_get (FOctets first count) st.
Proof.
  intros H. destruct g; cbn [get_conforms] in H; try discriminate.
  split_andb H. apply Nat.eqb_eq in H, H1, H2. subst lo hi n.
  cbn [acc_get spec_get]. replace (first + count - first)%nat with count by lia. rewrite Nat.min_id, Nat.sub_diag.
  cbn [repeat]. rewrite app_nil_r.
  replace (first <=? first + count)%nat with true by (symmetry; apply Nat.leb_le; lia). reflexivity.
Qed.

Lemma set_octets_sem first count s st v : set_conforms (FOctets first count) s = true ->
  value_fits (FOctets first count) st v = true -> acc_set s st v = spec_set (FOctets first count) st v.
Proof.
  intros H Hv. destruct s; cbn [set_conforms] in H; try discriminate.
  split_andb H. apply Nat.eqb_eq in H, H1, H2. subst lo hi n.
  unfold spec_set. rewrite Hv. cbn [negb]. destruct v as [x|bs]; [cbn in Hv; discriminate|].
  cbn [value_fits] in Hv. apply andb_true_iff in Hv as [Hl _]. cbn [acc_set]. rewrite Hl.
  apply Nat.eqb_eq in Hl.
  replace (first <=? first + count)%nat with true by (symmetry; apply Nat.leb_le; lia). cbn [andb]. rewrite andb_true_r.
  destruct (first + count <=? List.length st)%nat; [|reflexivity].
  unfold copy_into. replace (first + count - first)%nat with count by lia. rewrite Hl, Nat.min_id.
  rewrite <- Hl at 1. rewrite firstn_all. reflexivity.
Qed.

Lemma get_rest_sem first g st : get_conforms (FRest first) g = true -> acc_get g st = spec_get (FRest first) st.
Proof.
  intros H. destruct g; cbn [get_conforms] in H; try discriminate. apply Nat.eqb_eq in H. subst k. reflexivity.
Qed.

Lemma set_rest_sem first s st v : set_conforms (FRest first) s = true ->
  value_fits (FRest first) st v = true -> acc_set s st v = spec_set (FRest first) st v.
Proof.
  intros H Hv. destruct s; cbn [set_conforms] in H; try discriminate. apply Nat.eqb_eq in H. subst k.
  unfold spec_set. rewrite Hv. cbn [negb]. destruct v as [x|bs]; [cbn in Hv; discriminate|].
  cbn [value_fits] in Hv. apply andb_true_iff in Hv as [Hl _]. apply Nat.eqb_eq in Hl. cbn [acc_set].
  destruct (first <=? List.length st)%nat; [|reflexivity].
  unfold copy_into. replace (List.length st - first)%nat with (List.length bs) by lia. rewrite Nat.min_id, firstn_all.
  rewrite Hl, skipn_all, app_nil_r. reflexivity.
Qed.

(* two-octet fields *)
Lemma span_ok_range w : span_ok w = true -> w = 10%nat.
Proof. unfold span_ok. apply Nat.eqb_eq. Qed.

Definition G16_check (w:nat) (x y:N) : bool :=
  u16 (u16 (N.shiftl x (N.of_nat (w - 8))) + (y / pw (16 - w)) mod pw (w - 8)) =? (256 * x + y) / pw (16 - w).
Lemma G16_fin : forallb (fun w => forallb (fun x => forallb (G16_check w x) (rng 256)) (rng 256)) (seq 10 1) = true.
Proof. vm_cast_no_check (eq_refl true). Qed.

Lemma get_span_sem o w g st : get_conforms (FSpan o w) g = true -> octets_ok st = true ->
  acc_get g st = spec_get (FSpan o w) st.
Proof.
  intros H Hst. destruct g; cbn [get_conforms] in H; try discriminate.
  split_andb H. apply Nat.eqb_eq in H, H5. subst i j. apply N.eqb_eq in H0, H2, H3. subst sh1 sh2. apply N.ltb_lt in H1.
  pose proof (span_ok_range _ H4) as R.
  cbn [acc_get spec_get]. destruct (nth_error st o) as [x|] eqn:Ex; [|reflexivity].
  destruct (nth_error st (S o)) as [y|] eqn:Ey; [|reflexivity]. do 2 f_equal.
  pose proof (octets_ok_nth _ _ _ Hst Ex) as Hx. pose proof (octets_ok_nth _ _ _ Hst Ey) as Hy.
  assert (Hb : bits_ok 8 (17 - w) = true) by (unfold bits_ok; rewrite !andb_true_iff, !Nat.leb_le; lia).
  replace (16 - w)%nat with (17 - w - 1)%nat in * by lia.
  rewrite (G_all 8 (17 - w) mask2 y Hb H1 H0 Hy).
  replace (8 - (17 - w) + 1)%nat with (w - 8)%nat by lia.
  pose proof G16_fin as F. rewrite forallb_forall in F. specialize (F w).
  assert (Hin : In w (seq 10 1)) by (apply in_seq; lia). specialize (F Hin).
  apply forallb_rng with (x := x) in F; [|exact Hx]. apply forallb_rng with (x := y) in F; [|exact Hy].
  unfold G16_check in F. apply N.eqb_eq in F. replace (16 - w)%nat with (17 - w - 1)%nat in F by lia. exact F.
Qed.

Definition S16_check (w:nat) (y v:N) : bool :=
  let X := v * pw (16 - w) + y mod pw (16 - w) in
  (N.land (u8 (N.shiftr v (N.of_nat (w - 8)))) 255 =? X / 256) &&
  (u8 (N.land y (255 - fmask 8 (17 - w)) + u8 (N.shiftl (u8 (N.land v (pw (w - 8) - 1))) (N.of_nat (16 - w)))) =? X mod 256).
Lemma S16_fin : forallb (fun w => forallb (fun y => forallb (S16_check w y) (rng (2 ^ w))) (rng 256)) (seq 10 1) = true.
Proof. vm_cast_no_check (eq_refl true). Qed.
Definition M16_check (w:nat) (x y:N) : bool := (256 * x + y) mod pw (16 - w) =? y mod pw (16 - w).
Lemma M16_fin : forallb (fun w => forallb (fun x => forallb (M16_check w x) (rng 256)) (rng 256)) (seq 10 1) = true.
Proof. vm_cast_no_check (eq_refl true). Qed.

Lemma set_span_sem o w s st v : set_conforms (FSpan o w) s = true -> octets_ok st = true ->
  value_fits (FSpan o w) st v = true -> acc_set s st v = spec_set (FSpan o w) st v.
Proof.
  intros H Hst Hv. destruct s; cbn [set_conforms] in H; try discriminate.
  split_andb H. apply Nat.eqb_eq in H, H6. subst i j. apply N.eqb_eq in H0, H1, H2, H3, H4. subst sh1 m1 keep2 vmask2 sh2.
  pose proof (span_ok_range _ H5) as R.
  unfold spec_set. rewrite Hv. cbn [negb]. destruct v as [n|bs]; [|cbn in Hv; discriminate].
  cbn [value_fits] in Hv. apply N.ltb_lt in Hv. cbn [acc_set]. rewrite !upd_put.
  destruct (nth_error st o) as [x|] eqn:Ex.
  2:{ destruct (put st o _) as [st1|] eqn:E1; [|reflexivity]. exfalso.
      destruct (put_spec _ _ _ _ E1) as (L & Hn & _). apply nth_error_None in Ex.
      assert (Hne : nth_error st1 o <> None) by congruence. apply nth_error_Some in Hne. lia. }
  destruct (nth_error st (S o)) as [y|] eqn:Ey.
  2:{ destruct (put st o _) as [st1|] eqn:E1; [|reflexivity]. destruct (put_spec _ _ _ _ E1) as (_ & _ & Ho).
      rewrite (Ho (S o)) by lia. rewrite Ey. reflexivity. }
  pose proof (octets_ok_nth _ _ _ Hst Ex) as Hx. pose proof (octets_ok_nth _ _ _ Hst Ey) as Hy.
  pose proof S16_fin as F. rewrite forallb_forall in F. specialize (F w).
  assert (Hin : In w (seq 10 1)) by (apply in_seq; lia). specialize (F Hin).
  apply forallb_rng with (x := y) in F; [|exact Hy]. apply forallb_rng with (x := n) in F; [|now rewrite <- pw_nat].
  unfold S16_check in F. cbv zeta in F. apply andb_true_iff in F as [F1 F2]. apply N.eqb_eq in F1, F2.
  pose proof M16_fin as M. rewrite forallb_forall in M. specialize (M w Hin).
  apply forallb_rng with (x := x) in M; [|exact Hx]. apply forallb_rng with (x := y) in M; [|exact Hy].
  unfold M16_check in M. apply N.eqb_eq in M. rewrite M, <- F1.
  destruct (put st o _) as [st1|] eqn:E1; [|reflexivity].
  destruct (put_spec _ _ _ _ E1) as (_ & _ & Ho). rewrite (Ho (S o)) by lia. rewrite Ey, upd_put, F2. reflexivity.
Qed.

Theorem accessor_semantics c k g s : field_conforms c k g s = true ->
  forall st, octets_ok st = true ->
    acc_get g st = spec_get k st /\ (forall v, value_fits k st v = true -> acc_set s st v = spec_set k st v).
Proof.
  unfold field_conforms. intros H st Hst. apply andb_true_iff in H as [H Hs]. apply andb_true_iff in H as [_ Hg].
  destruct k.
  - split; [now apply get_bits_sem|intros; now apply set_bits_sem].
  - split; [now apply get_span_sem|intros; now apply set_span_sem].
  - split; [now apply get_octets_sem|intros; now apply set_octets_sem].
  - split; [now apply get_rest_sem|intros; now apply set_rest_sem].
Qed.

(* ------------------------------------------------------------------ 3. the table semantics: store then load *)
(* the kinds for which the statements below are proved (two-octet fields of 9..11 bits) *)
Definition kind_proved (k:fkind) : bool :=
  match k with FSpan _ w => span_ok w | _ => kind_ok k end.

Lemma octets_ok_app a b : octets_ok (a ++ b) = octets_ok a && octets_ok b.
Proof. unfold octets_ok. apply forallb_app. Qed.
Lemma In_firstn {A} (x:A) n l : In x (firstn n l) -> In x l.
Proof. intro H. rewrite <- (firstn_skipn n l). apply in_or_app. now left. Qed.
Lemma In_skipn {A} (x:A) n l : In x (skipn n l) -> In x l.
Proof. intro H. rewrite <- (firstn_skipn n l). apply in_or_app. now right. Qed.
Lemma octets_ok_firstn n st : octets_ok st = true -> octets_ok (firstn n st) = true.
Proof. unfold octets_ok. rewrite !forallb_forall. intros H x Hx. apply H. eapply In_firstn; eauto. Qed.
Lemma octets_ok_skipn n st : octets_ok st = true -> octets_ok (skipn n st) = true.
Proof. unfold octets_ok. rewrite !forallb_forall. intros H x Hx. apply H. eapply In_skipn; eauto. Qed.
Lemma nth_firstn_lt {A} (d:A) n l i : (i < n)%nat -> nth i (firstn n l) d = nth i l d.
Proof.
  revert n i. induction l as [|y r IH]; intros [|n] [|i] H; cbn; try reflexivity; try lia. apply IH. lia.
Qed.
Lemma nth_skipn {A} (d:A) k l i : nth i (skipn k l) d = nth (k + i) l d.
Proof.
  revert l. induction k as [|k IH]; intros [|y r]; cbn; try reflexivity. - now destruct i. - apply IH.
Qed.

(* two-octet store: the arithmetic of the table on the pair (x, y), independent of x below bit 16-w *)
Definition L16_check (w:nat) (y n:N) : bool :=
  let X := n * pw (16 - w) + y mod pw (16 - w) in
  (X / 256 <? 256) && ((256 * (X / 256) + X mod 256) / pw (16 - w) =? n) && ((X mod 256) mod pw (16 - w) =? y mod pw (16 - w)).
Lemma L16_fin : forallb (fun w => forallb (fun y => forallb (L16_check w y) (rng (2 ^ w))) (rng 256)) (seq 10 1) = true.
Proof. vm_cast_no_check (eq_refl true). Qed.

Theorem field_store_load k st v st' : kind_proved k = true -> octets_ok st = true -> spec_set k st v = Some st' ->
  spec_get k st' = Some v /\ List.length st' = List.length st /\ octets_ok st' = true /\
  forall i b, (b < 8)%nat -> in_field k (List.length st) i b = false ->
    N.testbit (nth i st' 0) (N.of_nat b) = N.testbit (nth i st 0) (N.of_nat b).
Proof.
  intros Hk Hst. unfold spec_set. destruct (value_fits k st v) eqn:Hv; [|discriminate]. cbn [negb].
  destruct k as [o hi lo|o w|first count|first]; cbn [kind_proved kind_ok] in Hk.
  - (* bits of one octet *)
    destruct v as [n|bs]; [|discriminate]. cbn [value_fits] in Hv. apply N.ltb_lt in Hv.
    destruct (nth_error st o) as [x|] eqn:Ex; [|discriminate]. intro E.
    fold (bits_ok hi lo) in Hk. pose proof (octets_ok_nth _ _ _ Hst Ex) as Hx.
    pose proof (S_all hi lo x n Hk Hx Hv) as C. unfold S_check in C. cbv zeta in C. fold (stored hi lo x n) in E.
    split_andb C. apply N.ltb_lt in C2. apply N.eqb_eq in C1.
    destruct (put_spec _ _ _ _ E) as (L & Hn & Ho).
    split; [cbn [spec_get]; rewrite Hn; now rewrite C1|]. split; [exact L|]. split; [eapply octets_ok_put; eauto|].
    intros i b Hb Hf. rewrite (put_nth _ _ _ _ 0 E). destruct (i =? o)%nat eqn:Ei; [|reflexivity].
    apply Nat.eqb_eq in Ei. subst i. rewrite (nth_error_nth _ _ 0 Ex).
    cbn [in_field] in Hf. rewrite Nat.eqb_refl in Hf. cbn [andb] in Hf.
    rewrite forallb_forall in C0. specialize (C0 b). rewrite Hf in C0. apply eqb_prop. apply C0. apply in_seq. lia.
  - (* two octets *)
    destruct v as [n|bs]; [|discriminate]. cbn [value_fits] in Hv. apply N.ltb_lt in Hv.
    pose proof (span_ok_range _ Hk) as R.
    destruct (nth_error st o) as [x|] eqn:Ex; [|discriminate]. destruct (nth_error st (S o)) as [y|] eqn:Ey; [|discriminate].
    pose proof (octets_ok_nth _ _ _ Hst Ex) as Hx. pose proof (octets_ok_nth _ _ _ Hst Ey) as Hy.
    assert (Hin : In w (seq 10 1)) by (apply in_seq; lia).
    pose proof M16_fin as M. rewrite forallb_forall in M. specialize (M w Hin).
    apply forallb_rng with (x := x) in M; [|exact Hx]. apply forallb_rng with (x := y) in M; [|exact Hy].
    unfold M16_check in M. apply N.eqb_eq in M. rewrite M.
    pose proof L16_fin as F. rewrite forallb_forall in F. specialize (F w Hin).
    apply forallb_rng with (x := y) in F; [|exact Hy]. apply forallb_rng with (x := n) in F; [|now rewrite <- pw_nat].
    unfold L16_check in F. cbv zeta in F. set (X := n * pw (16 - w) + y mod pw (16 - w)) in *.
    split_andb F. apply N.ltb_lt in F. apply N.eqb_eq in F1.
    destruct (put st o (X / 256)) as [st1|] eqn:E1; [|discriminate]. intro E2.
    destruct (put_spec _ _ _ _ E1) as (L1 & Hn1 & Ho1). destruct (put_spec _ _ _ _ E2) as (L2 & Hn2 & Ho2).
    assert (Hm : X mod 256 < 256) by (apply N.mod_lt; lia).
    split; [cbn [spec_get]; rewrite (Ho2 o) by lia; rewrite Hn1, Hn2; now rewrite F1|].
    assert (Hok1 : octets_ok st1 = true) by (eapply octets_ok_put; [exact Hst|exact F|exact E1]).
    split; [congruence|]. split; [eapply octets_ok_put; [exact Hok1|exact Hm|exact E2]|].
    intros i b Hb Hf. rewrite (put_nth _ _ _ _ 0 E2), (put_nth _ _ _ _ 0 E1). cbn [in_field] in Hf.
    destruct (i =? o)%nat eqn:Ei; [cbn in Hf; discriminate|]. cbn [orb] in Hf.
    destruct (i =? S o)%nat eqn:Ej; [|reflexivity]. cbn [andb] in Hf.
    apply Nat.eqb_eq in Ej. subst i. rewrite (nth_error_nth _ _ 0 Ey).
    apply N.eqb_eq in F0. apply Nat.leb_gt in Hf. unfold pw in F0.
    rewrite <- (N.mod_pow2_bits_low (X mod 256) (N.of_nat (16 - w)) (N.of_nat b)) by lia.
    rewrite <- (N.mod_pow2_bits_low y (N.of_nat (16 - w)) (N.of_nat b)) by lia. now rewrite F0.
  - (* whole octets *)
    destruct v as [n|bs]; [discriminate|]. cbn [value_fits] in Hv. apply andb_true_iff in Hv as [Hl Hb]. apply Nat.eqb_eq in Hl.
    destruct (first + count <=? List.length st)%nat eqn:Hle; [|discriminate]. apply Nat.leb_le in Hle.
    intro E. inversion E; subst st'; clear E.
    assert (Lf : List.length (firstn first st) = first) by (apply firstn_length_le; lia).
    assert (Len : List.length (firstn first st ++ bs ++ skipn (first + count) st) = List.length st)
      by (rewrite !app_length, Lf, skipn_length; lia).
    split.
    { cbn [spec_get]. rewrite Len. replace (first + count <=? List.length st)%nat with true by (symmetry; now apply Nat.leb_le).
      do 2 f_equal. rewrite skipn_app, Lf, Nat.sub_diag. rewrite (skipn_all2 (firstn first st)) by lia. cbn [skipn app].
      rewrite firstn_app, Hl, Nat.sub_diag. cbn [firstn]. rewrite app_nil_r. apply firstn_all2. lia. }
    split; [exact Len|]. split.
    { rewrite !octets_ok_app. rewrite octets_ok_firstn, octets_ok_skipn by assumption. unfold octets_ok. now rewrite Hb. }
    intros i b _ Hf. cbn [in_field] in Hf. f_equal.
    destruct (first <=? i)%nat eqn:H1.
    + cbn [andb] in Hf. apply Nat.leb_le in H1. apply Nat.ltb_ge in Hf.
      rewrite app_nth2 by lia. rewrite Lf. rewrite app_nth2 by lia. rewrite nth_skipn. f_equal. lia.
    + apply Nat.leb_gt in H1. rewrite app_nth1 by lia. now apply nth_firstn_lt.
  - (* the rest of the value *)
    destruct v as [n|bs]; [discriminate|]. cbn [value_fits] in Hv. apply andb_true_iff in Hv as [Hl Hb]. apply Nat.eqb_eq in Hl.
    destruct (first <=? List.length st)%nat eqn:Hle; [|discriminate]. apply Nat.leb_le in Hle.
    intro E. inversion E; subst st'; clear E.
    assert (Lf : List.length (firstn first st) = first) by (apply firstn_length_le; lia).
    assert (Len : List.length (firstn first st ++ bs) = List.length st) by (rewrite app_length, Lf; lia).
    split.
    { cbn [spec_get]. rewrite Len. replace (first <=? List.length st)%nat with true by (symmetry; now apply Nat.leb_le).
      do 2 f_equal. rewrite skipn_app, Lf, Nat.sub_diag. rewrite (skipn_all2 (firstn first st)) by lia. reflexivity. }
    split; [exact Len|]. split.
    { rewrite octets_ok_app, octets_ok_firstn by assumption. unfold octets_ok. now rewrite Hb. }
    intros i b _ Hf. cbn [in_field] in Hf. f_equal.
    destruct (first <=? i)%nat eqn:H1.
    + cbn [andb] in Hf. apply Nat.ltb_ge in Hf. rewrite !nth_overflow by lia. reflexivity.
    + apply Nat.leb_gt in H1. rewrite app_nth1 by lia. now apply nth_firstn_lt.
Qed.
