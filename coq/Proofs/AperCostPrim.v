(* C14, time bound, part 2: steps taken by the primitive readers of the step-counting decoder (Model/AperDecCost.v).

   [cgood s0 K Q r]: the reader behaves as in Proofs/AperTotalPrim.v ([sgood]: value or error, cursor invariant kept,
   cursor not moved backwards, Q on success) and took at most  K + (bits the cursor moved)  steps - also when it
   ends in an error.  The bounded readers (alignment, constrained whole numbers, length determinants, BOOLEAN,
   ENUMERATED, CHOICE index) take a constant number of steps; INTEGER, OCTET STRING, BIT STRING and the open-type
   fragment loop pay for everything beyond a constant with input they consume: a fragment loop goes round again only
   after a fragment of at least 16384 units. *)
From Coq Require Import NArith ZArith List Bool Lia Arith String.
From Coq Require Import ZifyN ZifyNat ZifyBool.
Require Import GoSlice AperCommon AperEnc AperDec AperDecProofs AperTotalPrim AperTotalField AperTotalAlloc.
Require Import AperDecCost AperCostErase.
Import ListNotations.
Open Scope N_scope.
Ltac Zify.zify_post_hook ::= Z.div_mod_to_equations.

Local Arguments N.add : simpl never.
Local Arguments N.mul : simpl never.
Local Arguments N.sub : simpl never.
Local Arguments N.div : simpl never.
Local Arguments N.modulo : simpl never.
Local Arguments N.land : simpl never.
Local Arguments N.lor : simpl never.
Local Arguments N.shiftr : simpl never.
Local Arguments N.shiftl : simpl never.
Local Arguments N.pow : simpl never.

(* ------------------------------------------------------------------------------------------------ *)
(* readers with a constant number of steps (no hypothesis on the state) *)

Lemma octs_of_eq n : octs_of n = (n + 7) / 8.
Proof. unfold octs_of. apply shiftr3. Qed.
Lemma octs_of_le n : octs_of n <= n.
Proof. rewrite octs_of_eq. lia. Qed.
Lemma octs_of_mono n m : n <= m -> octs_of n <= octs_of m.
Proof. rewrite !octs_of_eq. intros H. lia. Qed.

Lemma cbind_cost {A B} a b c (r : cres A) (f : A -> dst -> cres B) :
  snd r <= a -> (forall x s, snd (f x s) <= b) -> a + b <=? c = true -> snd (cbind r f) <= c.
Proof.
  intros Hn Hf Hc. apply N.leb_le in Hc.
  destruct r as [[[x|e|q|] s] n]; cbn [cbind snd] in *; try lia.
  specialize (Hf x s). destruct (f x s) as [r' m]. cbn [snd] in *. lia.
Qed.

Lemma getBitsValueC_cost s n : snd (getBitsValueC s n) <= 1 + octs_of n.
Proof. unfold getBitsValueC. cbn [snd]. destruct (fst (getBitsValue s n)); lia. Qed.
Lemma getBitStringC_cost s n : snd (getBitStringC s n) <= 1 + octs_of n.
Proof. unfold getBitStringC. cbn [snd]. destruct (fst (getBitString s n)); lia. Qed.

Definition K_ALIGN : N := 2.
Definition K_CV : N := 12.

Lemma parseAlignBitsC_cost s : snd (parseAlignBitsC s) <= K_ALIGN.
Proof.
  unfold parseAlignBitsC, K_ALIGN. destruct (0 <? N.land (d_bitsOffset s) 7).
  - apply (cbind_cost 2 0); [| |reflexivity].
    + pose proof (getBitsValueC_cost s (8 - N.land (d_bitsOffset s) 7)) as H.
      pose proof (octs_of_mono (8 - N.land (d_bitsOffset s) 7) 8) as H8. change (octs_of 8) with 1 in H8. lia.
    + intros x s'. destruct (x =? 0); cbn; lia.
  - destruct (negb _); cbn; lia.
Qed.

Lemma parseConstraintValueC_cost s r : snd (parseConstraintValueC s r) <= K_CV.
Proof.
  unfold parseConstraintValueC, K_CV. destruct (r <=? 255)%Z.
  - destruct (r <? 0)%Z; [cbn; lia|]. cbn [ctick snd].
    pose proof (go_bits_le_8 r) as H9. pose proof (getBitsValueC_cost s (go_bits r)) as H.
    pose proof (octs_of_mono (go_bits r) 9 H9) as H8. change (octs_of 9) with 2 in H8. lia.
  - destruct (r <=? 65536)%Z; [|cbn; lia].
    apply (cbind_cost 2 10); [apply parseAlignBitsC_cost| |reflexivity].
    intros x s'. pose proof (getBitsValueC_cost s' ((if (r =? 256)%Z then 1 else 2) * 8)) as H.
    destruct (r =? 256)%Z; [change (octs_of (1 * 8)) with 1 in H|change (octs_of (2 * 8)) with 2 in H]; lia.
Qed.

Lemma parseLengthC_cost s r : snd (parseLengthC s r) <= K_CV.
Proof.
  unfold parseLengthC. destruct ((r <=? 65536) && (0 <? r))%Z.
  - apply (cbind_cost K_CV 0); [apply parseConstraintValueC_cost| |reflexivity].
    intros; cbn; lia.
  - apply (cbind_cost 2 10); [apply parseAlignBitsC_cost| |reflexivity].
    intros x s1. apply (cbind_cost 2 8); [| |reflexivity].
    + pose proof (getBitsValueC_cost s1 8) as H. change (octs_of 8) with 1 in H. lia.
    + intros fb s2. destruct (N.land fb 128 =? 0); [cbn; lia|]. destruct (N.land fb 64 =? 0).
      * apply (cbind_cost 2 6); [| |reflexivity].
        -- pose proof (getBitsValueC_cost s2 8) as H. change (octs_of 8) with 1 in H. lia.
        -- intros; cbn; lia.
      * destruct (_ || _); cbn; lia.
Qed.

Lemma parseBoolC_cost s : snd (parseBoolC s) <= 2.
Proof.
  unfold parseBoolC. apply (cbind_cost 2 0); [| |reflexivity].
  - pose proof (getBitsValueC_cost s 1) as H. change (octs_of 1) with 1 in H. lia.
  - intros; cbn; lia.
Qed.

Lemma parseEnumeratedC_cost s ext lb ub : snd (parseEnumeratedC s ext lb ub) <= K_CV.
Proof.
  unfold parseEnumeratedC. destruct ext; [cbn; unfold K_CV; lia|].
  destruct lb as [l|]; [|cbn; unfold K_CV; lia]. destruct ub as [u|]; [|cbn; unfold K_CV; lia].
  destruct (1 <? _)%Z; [apply parseConstraintValueC_cost|cbn; unfold K_CV; lia].
Qed.

Lemma getChoiceIndexC_cost s ext ub : snd (getChoiceIndexC s ext ub) <= K_CV.
Proof.
  unfold getChoiceIndexC. destruct ext; [cbn; unfold K_CV; lia|].
  destruct ub as [u|]; [|cbn; unfold K_CV; lia]. destruct (u <? 0)%Z; [cbn; unfold K_CV; lia|].
  apply (cbind_cost K_CV 0); [apply parseConstraintValueC_cost| |reflexivity].
  intros; cbn; lia.
Qed.

(* ------------------------------------------------------------------------------------------------ *)
(* behaviour and steps together *)

Definition cgood {A} (s0 : dst) (K : N) (Q : A -> dst -> Prop) (r : cres A) : Prop :=
  sgood s0 Q (fst r) /\ snd r <= K + (pos (snd (fst r)) - pos s0).

Lemma sgood_pos {A} s0 (Q : A -> dst -> Prop) (r : sres A) : sgood s0 Q r -> pos s0 <= pos (snd r).
Proof. destruct r as [[a|e|q|] s]; cbn [sgood snd]; try contradiction; [intros ((_ & _ & H) & _)|intros (_ & _ & H)]; exact H. Qed.

Lemma cgood_const {A} s0 K (Q : A -> dst -> Prop) (r : cres A) : sgood s0 Q (fst r) -> snd r <= K -> cgood s0 K Q r.
Proof. intros H1 H2. split; [exact H1|lia]. Qed.

Lemma cgood_bind {A B} s0 K1 K2 (P : A -> dst -> Prop) (Q : B -> dst -> Prop) (r : cres A) (f : A -> dst -> cres B) :
  cgood s0 K1 P r -> (forall a s1, adv s0 s1 -> P a s1 -> cgood s1 K2 Q (f a s1)) -> cgood s0 (K1 + K2) Q (cbind r f).
Proof.
  intros (H1 & H2) Hf. destruct r as [[[a|e|q|] s1] n]; cbn [fst snd sgood cbind] in *; try contradiction.
  - destruct H1 as (Ha & HP). destruct (Hf a s1 Ha HP) as (G1 & G2).
    destruct (f a s1) as [r' m]. cbn [fst snd] in *.
    pose proof (sgood_pos _ _ _ G1) as P12. destruct Ha as (D1 & B1 & P01).
    split; cbn [fst snd]; [|lia].
    eapply sgood_weaken; [split; [exact D1|split; [exact B1|exact P01]]|exact G1|intros a' s' _ H; exact H].
  - split; cbn [fst snd]; [exact H1|lia].
Qed.

Lemma cgood_tick {A} s0 k K (Q : A -> dst -> Prop) (r : cres A) : cgood s0 K Q r -> cgood s0 (k + K) Q (ctick k r).
Proof. intros (H1 & H2). split; [exact H1|]. cbn [ctick fst snd]. lia. Qed.

Lemma cgood_ok {A} s0 K (Q : A -> dst -> Prop) a s : adv s0 s -> Q a s -> cgood s0 K Q (cpure (Ok a, s)).
Proof. intros Ha HQ. split; [cbn; split; assumption|cbn [cpure snd]; lia]. Qed.
Lemma cgood_err {A} s0 K (Q : A -> dst -> Prop) e s : adv s0 s -> cgood s0 K Q (cpure (Err e, s)).
Proof. intros Ha. split; [cbn; assumption|cbn [cpure snd]; lia]. Qed.

Lemma cgood_weaken {A} s0 K K' (Q Q' : A -> dst -> Prop) (r : cres A) :
  dinv s0 -> K <= K' -> (forall a s', adv s0 s' -> Q a s' -> Q' a s') -> cgood s0 K Q r -> cgood s0 K' Q' r.
Proof.
  intros Hs HK HQ (H1 & H2). split; [|lia].
  eapply sgood_weaken; [apply adv_refl, Hs|exact H1|exact HQ].
Qed.

(* the two leaf readers: 1 step + the octets of the bit string, which the cursor passes over *)
Lemma getBitsValueC_cgood s n : dinv s ->
  cgood s 1 (fun v s' => pos s' = pos s + n /\ (octs s -> v < 2 ^ n)) (getBitsValueC s n).
Proof.
  intros Hs. split; [apply getBitsValue_good', Hs|].
  unfold getBitsValueC. cbn [fst snd]. pose proof (getBitsValue_spec s n Hs) as H. pose proof (octs_of_le n).
  destruct (getBitsValue s n) as [[v|e|q|] s']; cbn [fst snd]; try contradiction; [|lia].
  destruct H as (_ & Hp & _). lia.
Qed.

Lemma getBitStringC_cgood s n : dinv s ->
  cgood s 1 (fun v s' => pos s' = pos s + n /\ len v = (n + 7) / 8 /\ (octs s -> octets v)) (getBitStringC s n).
Proof.
  intros Hs. split; [apply getBitString_good', Hs|].
  unfold getBitStringC. cbn [fst snd]. pose proof (getBitString_spec s n Hs) as H. pose proof (octs_of_le n).
  destruct (getBitString s n) as [[v|e|q|] s']; cbn [fst snd]; try contradiction; [|lia].
  destruct H as (_ & Hp & _). lia.
Qed.

Lemma parseAlignBitsC_cgood s : dinv s -> cgood s K_ALIGN (fun _ s' => d_bitsOffset s' = 0) (parseAlignBitsC s).
Proof.
  intros Hs. apply cgood_const; [rewrite parseAlignBitsC_erase; apply parseAlignBits_good', Hs|apply parseAlignBitsC_cost].
Qed.

Lemma parseConstraintValueC_cgood s r : dinv s -> octs s ->
  cgood s K_CV (fun v s' => pos s + 1 <= pos s' /\ v <= cv_ub r) (parseConstraintValueC s r).
Proof.
  intros Hs Ho. apply cgood_const; [rewrite parseConstraintValueC_erase; apply parseConstraintValue_ub; assumption|apply parseConstraintValueC_cost].
Qed.

Lemma parseLengthC_cgood s r : dinv s -> octs s ->
  cgood s K_CV (fun vr s' => pos s + 1 <= pos s' /\ fst vr <= 65536 /\ (snd vr = true -> pos s + 8 <= pos s' /\ 16384 <= fst vr))
    (parseLengthC s r).
Proof.
  intros Hs Ho. apply cgood_const; [|apply parseLengthC_cost]. rewrite parseLengthC_erase.
  pose proof (parseLength_good' s r Hs Ho) as H. pose proof (parseLength_repeat s r) as Hr.
  destruct (parseLength s r) as [[[v rep]|e|q|] s']; cbn [sgood fst snd] in *; try contradiction; [|exact H].
  destruct H as (Ha & Hp & Hv & Hrep). split; [exact Ha|]. split; [exact Hp|]. split; [exact Hv|].
  intros ->. split; [apply Hrep; reflexivity|apply (Hr v s'); reflexivity].
Qed.

(* ---- INTEGER *)
Lemma bytelen_loop_dec_le : forall fuel b u k, u < 2 ^ (8 * (N.of_nat k + 1)) -> bytelen_loop_dec fuel b u <= b + N.of_nat k.
Proof.
  induction fuel as [|f IH]; intros b u k Hu; cbn [bytelen_loop_dec]; [lia|].
  destruct (N.shiftr u 8 =? 0) eqn:E; [lia|].
  destruct k as [|k].
  - exfalso. change (8 * (N.of_nat 0 + 1)) with 8 in Hu. apply lt_pow2_shiftr in Hu. lia.
  - specialize (IH (b + 1) (N.shiftr u 8) k).
    assert (N.shiftr u 8 < 2 ^ (8 * (N.of_nat k + 1))).
    { rewrite N.shiftr_div_pow2. apply N.div_lt_upper_bound; [apply N.pow_nonzero; discriminate|].
      rewrite <- N.pow_add_r. replace (8 + 8 * (N.of_nat k + 1)) with (8 * (N.of_nat (S k) + 1)) by lia. exact Hu. }
    specialize (IH H). lia.
Qed.

Lemma bytelen_le_8 z : bytelen_loop_dec 127 1 (u64z z) <= 8.
Proof.
  pose proof (bytelen_loop_dec_le 127 1 (u64z z) 7) as H. change (1 + N.of_nat 7) with 8 in H. apply H.
  change (2 ^ (8 * (N.of_nat 7 + 1))) with 18446744073709551616. unfold u64z.
  pose proof (Z.mod_pos_bound z 18446744073709551616 eq_refl). lia.
Qed.

Definition K_INT : N := 24.

Lemma parseIntegerC_cgood s ext lb ub : dinv s -> octs s -> cgood s K_INT anyres (parseIntegerC s ext lb ub).
Proof.
  intros Hs Ho. unfold parseIntegerC.
  destruct (if ext then (0, -1, -1)%Z else match lb with None => (0, -1, -1)%Z | Some l => match ub with Some u => (l, u, i64 (u - l + 1)) | None => (l, (-1)%Z, 0%Z) end end) as [[l u] vr].
  destruct (vr =? 1)%Z; [apply cgood_ok; [apply adv_refl, Hs|exact I]|].
  destruct ((0 <? vr) && (vr <=? 65536))%Z.
  - replace K_INT with (K_CV + 12) by reflexivity.
    eapply cgood_bind; [apply parseConstraintValueC_cgood; assumption|].
    intros v s' Ha _. apply cgood_ok; [apply adv_refl; apply Ha|exact I].
  - replace K_INT with (23 + (1 + 0)) by reflexivity.
    eapply cgood_bind with (P := anyres).
    + destruct (vr <=? 0)%Z.
      * replace 23 with (K_ALIGN + 21) by reflexivity.
        eapply cgood_bind; [apply parseAlignBitsC_cgood, Hs|].
        intros x s1 Ha1 Hb0. cbv beta in Hb0 |- *.
        pose proof (adv_dinv _ _ Ha1) as Hs1. pose proof Hs1 as (B1 & B2 & B3 & B4). unfold MAXLEN in B4.
        destruct (len (d_bytes s1) <=? d_byteOffset s1) eqn:E; [apply cgood_err; apply adv_refl, Hs1|].
        destruct (idx_ok (d_bytes s1) (d_byteOffset s1)) as [b ->]; [lia|].
        rewrite u64_small by (unfold TWO64; lia).
        split; [cbn [fst sgood]; split; [apply adv_skip; [exact Hs1|exact Hb0|lia]|exact I]|cbn [fst snd]; lia].
      * pose proof (bytelen_le_8 (vr - 1)) as HB.
        set (byteLen := bytelen_loop_dec 127 1 (u64z (vr - 1))) in *.
        pose proof (go_bits_le_8 (Z.of_N byteLen)) as HG.
        eapply cgood_weaken; [exact Hs| |intros a s' _ H; exact H|apply cgood_tick].
        2:{ eapply cgood_bind; [apply getBitsValueC_cgood, Hs|].
            intros tl s1 Ha1 _. cbv beta.
            eapply cgood_bind with (K2 := 0); [apply parseAlignBitsC_cgood; apply Ha1|].
            intros x s2 Ha2 _. apply cgood_ok; [apply adv_refl; apply Ha2|exact I]. }
        unfold K_ALIGN. lia.
    + intros rl s1 Ha1 _. cbv beta.
      eapply cgood_bind; [eapply cgood_weaken; [apply Ha1|apply N.le_refl| |apply getBitsValueC_cgood; apply Ha1]; intros; exact I|].
      intros rv s2 Ha2 _. cbv beta. destruct (vr <? 0)%Z; [|apply cgood_ok; [apply adv_refl; apply Ha2|exact I]].
      destruct (0 <? N.land rv _); apply cgood_ok; try (apply adv_refl; apply Ha2); exact I.
Qed.

(* ---- OCTET STRING *)
Definition K_LOOP : N := 15.     (* 1 + K_CV + K_ALIGN: what one turn of a fragment loop takes besides the octets it appends *)

Lemma ctick_parts {A} k (r : cres A) : fst (ctick k r) = fst r /\ snd (ctick k r) = k + snd r.
Proof. split; reflexivity. Qed.

Lemma oct_dec_loopC_cgood sr lb : (0 <= lb < 4294967296)%Z -> forall fuel s acc,
  dinv s -> octs s -> 8 * len (d_bytes s) < 8 * N.of_nat fuel + pos s ->
  cgood s K_LOOP (fun _ s' => pos s + 1 <= pos s') (oct_dec_loopC fuel s sr lb acc).
Proof.
  intros Hlb. induction fuel as [|f IH]; intros s acc Hs Ho Hf.
  - pose proof (dinv_pos s Hs). lia.
  - cbn [oct_dec_loopC]. replace K_LOOP with (1 + (K_CV + (K_ALIGN + 0))) by reflexivity. apply cgood_tick.
    eapply cgood_bind; [apply parseLengthC_cgood; assumption|].
    intros [length0 rep] s1 Ha1 (Hp1 & Hv & Hr). cbn [fst snd] in Hv, Hr. cbv beta iota.
    assert (Hraw : u64 (length0 + u64z lb) = length0 + Z.to_N lb).
    { rewrite u64z_small by lia. apply u64_small. unfold TWO64. lia. }
    rewrite Hraw. set (raw := length0 + Z.to_N lb).
    pose proof (adv_dinv _ _ Ha1) as Hs1.
    destruct (raw =? 0) eqn:E0; [apply cgood_ok; [apply adv_refl, Hs1|exact Hp1]|].
    eapply cgood_bind; [apply parseAlignBitsC_cgood, Hs1|].
    intros u s2 Ha12 Hb0. cbv beta in Hb0 |- *.
    pose proof (adv_dinv _ _ Ha12) as Hs2. pose proof Hs2 as (B1 & B2 & B3 & B4). unfold MAXLEN in B4.
    pose proof (adv_trans _ _ _ Ha1 Ha12) as Ha2.
    assert (Hp2 : pos s + 1 <= pos s2) by (destruct Ha12 as (_ & _ & ?); lia).
    rewrite (u64_small (raw + d_byteOffset s2)) by (unfold TWO64; lia).
    rewrite (u64_small (d_byteOffset s2 + raw)) by (unfold TWO64; lia).
    destruct (len (d_bytes s2) <? raw + d_byteOffset s2) eqn:E1; [apply cgood_err; apply adv_refl, Hs2|].
    rewrite slice_ok by lia. cbv zeta.
    set (chunk := firstn (N.to_nat (d_byteOffset s2 + raw - d_byteOffset s2)) (skipn (N.to_nat (d_byteOffset s2)) (d_bytes s2))).
    assert (Hcl : len chunk = raw) by (unfold chunk; rewrite len_chunk by lia; lia).
    set (s3 := mkdst (d_bytes s2) (d_byteOffset s2 + raw) (d_bitsOffset s2)).
    assert (Ha23 : adv s2 s3) by (apply adv_skip; [exact Hs2|exact Hb0|lia]).
    assert (Hp3 : pos s3 = pos s2 + 8 * raw) by (unfold s3, pos; cbn [d_bytes d_byteOffset d_bitsOffset]; lia).
    destruct rep.
    + destruct (Hr eq_refl) as (Hr8 & Hr16).
      assert (Hfuel : 8 * len (d_bytes s3) < 8 * N.of_nat f + pos s3).
      { rewrite (adv_len _ _ Ha23), (adv_len _ _ Ha2). destruct Ha12 as (_ & _ & P12). lia. }
      destruct (IH s3 (acc ++ chunk) (adv_dinv _ _ Ha23) (adv_octs _ _ Ha23 (adv_octs _ _ Ha2 Ho)) Hfuel) as (G1 & G2).
      destruct (ctick_parts (len chunk) (oct_dec_loopC f s3 sr lb (acc ++ chunk))) as (T1 & T2).
      split; [rewrite T1|rewrite T1, T2].
      * eapply sgood_weaken; [exact Ha23|exact G1|]. intros a s' _ H. cbv beta in *. lia.
      * pose proof (sgood_pos _ _ _ G1). unfold K_LOOP in G2. lia.
    + split; [cbn [ctick cpure fst snd sgood]; split; [exact Ha23|lia]|cbn [ctick cpure fst snd]; lia].
Qed.

Definition K_STR : N := 15.

Lemma parseOctetStringC_cgood s ext lbp ubp : dinv s -> octs s -> size_ok lbp ubp ->
  cgood s K_STR (fun _ s' => oct_nonempty lbp = true -> pos s + 1 <= pos s') (parseOctetStringC s ext lbp ubp).
Proof.
  intros Hs Ho Hsz. unfold parseOctetStringC.
  destruct (dec_size_bounds ext lbp ubp) as [[lb ub] sr] eqn:Eb.
  destruct (dec_size_bounds_spec _ _ _ _ _ _ Hsz Eb) as (Hlb & Hub).
  pose proof (dec_size_bounds_fixed _ _ _ _ _ _ Hsz Eb) as Hfix.
  destruct (sr =? 1)%Z eqn:E1.
  - assert (sr = 1%Z) by lia. specialize (Hub H). specialize (Hfix H).
    destruct (2 <? ub)%Z eqn:E2.
    + replace K_STR with (K_ALIGN + 13) by reflexivity.
      eapply cgood_bind; [apply parseAlignBitsC_cgood, Hs|].
      intros u s1 Ha1 Hb0. cbv beta in Hb0 |- *.
      pose proof (adv_dinv _ _ Ha1) as Hs1. pose proof Hs1 as (B1 & B2 & B3 & B4). unfold MAXLEN in B4.
      assert (Hi : i64 (i64n (d_byteOffset s1) + ub) = (Z.of_N (d_byteOffset s1) + ub)%Z).
      { unfold i64n. rewrite (i64_small (Z.of_N _)) by lia. apply i64_small. lia. }
      rewrite Hi. rewrite (u64z_small ub) by lia.
      rewrite (u64_small (d_byteOffset s1 + Z.to_N ub)) by (unfold TWO64; lia).
      destruct (Z.of_N (len (d_bytes s1)) <? Z.of_N (d_byteOffset s1) + ub)%Z eqn:E3; [apply cgood_err; apply adv_refl, Hs1|].
      rewrite slice_ok by lia.
      assert (Hsk : adv s1 (mkdst (d_bytes s1) (d_byteOffset s1 + Z.to_N ub) (d_bitsOffset s1))) by (apply adv_skip; [exact Hs1|exact Hb0|lia]).
      split.
      * cbn [fst sgood]. split; [exact Hsk|]. intros _. destruct Ha1 as (_ & _ & P1).
        unfold pos in *. cbn [d_bytes d_byteOffset d_bitsOffset]. lia.
      * cbn [fst snd]. rewrite len_chunk by lia. unfold pos. cbn [d_bytes d_byteOffset d_bitsOffset]. lia.
    + eapply cgood_weaken; [exact Hs| | |apply getBitStringC_cgood, Hs]; [unfold K_STR; lia|].
      intros v s' _ (Hp & _) Hne. specialize (Hfix Hne). rewrite (u64z_small (ub * 8)) in Hp by lia. lia.
  - eapply cgood_weaken; [exact Hs|apply N.le_refl| |apply oct_dec_loopC_cgood; try assumption].
    + intros a s' _ Hq _; exact Hq.
    + pose proof (dinv_pos s Hs). unfold len. lia.
Qed.

(* ---- BIT STRING *)
Lemma bits_dec_loopC_cgood sr lb : (0 <= lb < 4294967296)%Z -> forall fuel s acc accLen,
  dinv s -> octs s -> 8 * len (d_bytes s) < 8 * N.of_nat fuel + pos s ->
  cgood s K_LOOP anyres (bits_dec_loopC fuel s sr lb acc accLen).
Proof.
  intros Hlb. induction fuel as [|f IH]; intros s acc accLen Hs Ho Hf.
  - pose proof (dinv_pos s Hs). lia.
  - cbn [bits_dec_loopC]. replace K_LOOP with (1 + (K_CV + (K_ALIGN + 0))) by reflexivity. apply cgood_tick.
    eapply cgood_bind; [apply parseLengthC_cgood; assumption|].
    intros [length0 rep] s1 Ha1 (Hp1 & Hv & Hr). cbn [fst snd] in Hv, Hr. cbv beta iota.
    assert (Hraw : u64 (length0 + u64z lb) = length0 + Z.to_N lb).
    { rewrite u64z_small by lia. apply u64_small. unfold TWO64. lia. }
    rewrite Hraw. set (raw := length0 + Z.to_N lb). assert (Hrb : raw < 8589934592) by (unfold raw; lia).
    pose proof (adv_dinv _ _ Ha1) as Hs1.
    destruct (raw =? 0) eqn:E0; [apply cgood_ok; [apply adv_refl, Hs1|exact I]|].
    rewrite (u64_small (raw + 7)) by (unfold TWO64; lia). rewrite shiftr3, land7.
    set (sizes := (raw + 7) / 8). assert (Hsz : 1 <= sizes /\ sizes < 8589934592 /\ sizes <= raw) by (unfold sizes; lia).
    eapply cgood_bind; [apply parseAlignBitsC_cgood, Hs1|].
    intros u s2 Ha12 Hb0. cbv beta in Hb0 |- *.
    pose proof (adv_dinv _ _ Ha12) as Hs2. pose proof Hs2 as (B1 & B2 & B3 & B4). unfold MAXLEN in B4.
    pose proof (adv_trans _ _ _ Ha1 Ha12) as Ha2.
    rewrite (u64_small (d_byteOffset s2 + sizes)) by (unfold TWO64; lia).
    destruct (len (d_bytes s2) <? d_byteOffset s2 + sizes) eqn:E1; [apply cgood_err; apply adv_refl, Hs2|].
    rewrite slice_ok by lia. cbv zeta.
    rewrite sub64_1 by (unfold TWO64; lia).
    set (chunk := firstn (N.to_nat (d_byteOffset s2 + sizes - d_byteOffset s2)) (skipn (N.to_nat (d_byteOffset s2)) (d_bytes s2))).
    assert (Hcl : len chunk = sizes) by (unfold chunk; rewrite len_chunk by lia; lia).
    set (s3 := mkdst (d_bytes s2) (if raw mod 8 =? 0 then d_byteOffset s2 + sizes else d_byteOffset s2 + sizes - 1) (raw mod 8)).
    assert (Ha23 : adv s2 s3).
    { unfold s3. destruct (raw mod 8 =? 0) eqn:E8; apply adv_jump; try assumption; lia. }
    assert (Hp3 : pos s3 = pos s2 + raw).
    { unfold s3, pos, sizes; cbn [d_bytes d_byteOffset d_bitsOffset]. destruct (raw mod 8 =? 0) eqn:E8; lia. }
    destruct rep.
    + destruct (Hr eq_refl) as (Hr8 & Hr16).
      assert (Hfuel : 8 * len (d_bytes s3) < 8 * N.of_nat f + pos s3).
      { rewrite (adv_len _ _ Ha23), (adv_len _ _ Ha2). destruct Ha12 as (_ & _ & P12). lia. }
      destruct (IH s3 (acc ++ chunk) (u64 (accLen + raw)) (adv_dinv _ _ Ha23) (adv_octs _ _ Ha23 (adv_octs _ _ Ha2 Ho)) Hfuel) as (G1 & G2).
      destruct (ctick_parts (len chunk) (bits_dec_loopC f s3 sr lb (acc ++ chunk) (u64 (accLen + raw)))) as (T1 & T2).
      split; [rewrite T1|rewrite T1, T2].
      * eapply sgood_weaken; [exact Ha23|exact G1|]. intros; exact I.
      * pose proof (sgood_pos _ _ _ G1). unfold K_LOOP in G2. unfold sizes in *. lia.
    + split; [cbn [ctick cpure fst snd sgood]; split; [exact Ha23|exact I]|cbn [ctick cpure fst snd]; lia].
Qed.

Lemma parseBitStringC_cgood s ext lbp ubp : dinv s -> octs s -> size_ok lbp ubp ->
  cgood s K_STR anyres (parseBitStringC s ext lbp ubp).
Proof.
  intros Hs Ho Hsz. unfold parseBitStringC.
  destruct (dec_size_bounds ext lbp ubp) as [[lb ub] sr] eqn:Eb.
  destruct (dec_size_bounds_spec _ _ _ _ _ _ Hsz Eb) as (Hlb & Hub).
  destruct (sr =? 1)%Z eqn:E1.
  - assert (sr = 1%Z) by lia. specialize (Hub H).
    rewrite (u64z_small (ub + 7)) by lia. rewrite (u64z_small ub) by lia. rewrite shiftr3, land7.
    set (sizes := Z.to_N (ub + 7) / 8). assert (Hsz' : sizes <= 8192) by (unfold sizes; lia).
    destruct (2 <? sizes) eqn:E2.
    + replace K_STR with (K_ALIGN + 13) by reflexivity.
      eapply cgood_bind; [apply parseAlignBitsC_cgood, Hs|].
      intros u s1 Ha1 Hb0. cbv beta in Hb0 |- *.
      pose proof (adv_dinv _ _ Ha1) as Hs1. pose proof Hs1 as (B1 & B2 & B3 & B4). unfold MAXLEN in B4.
      rewrite (u64_small (d_byteOffset s1 + sizes)) by (unfold TWO64; lia).
      destruct (len (d_bytes s1) <? d_byteOffset s1 + sizes) eqn:E3; [apply cgood_err; apply adv_refl, Hs1|].
      rewrite slice_ok by lia.
      rewrite sub64_1 by (unfold TWO64; lia).
      split.
      * cbn [fst sgood]. split; [|exact I].
        destruct (0 <? Z.to_N ub mod 8) eqn:E8; apply adv_jump; try assumption; lia.
      * cbn [fst snd]. rewrite len_chunk by lia. unfold pos, sizes in *. cbn [d_bytes d_byteOffset d_bitsOffset].
        destruct (0 <? Z.to_N ub mod 8) eqn:E8; lia.
    + replace K_STR with (1 + 14) by reflexivity.
      eapply cgood_bind; [apply getBitStringC_cgood, Hs|].
      intros b s1 Ha1 _. apply cgood_ok; [apply adv_refl; apply Ha1|exact I].
  - apply bits_dec_loopC_cgood; try assumption.
    pose proof (dinv_pos s Hs). unfold len. lia.
Qed.

(* ---- open type: the fragment loop *)
Definition K_OPEN : N := 17.     (* K_LOOP + the alignment after the last fragment *)

Lemma open_dec_loopC_cgood : forall fuel s acc,
  dinv s -> octs s -> octets acc -> 8 * len (d_bytes s) < 8 * N.of_nat fuel + pos s ->
  cgood s K_OPEN (open_post s acc) (open_dec_loopC fuel s acc).
Proof.
  induction fuel as [|f IH]; intros s acc Hs Ho Hacc Hf.
  - pose proof (dinv_pos s Hs). lia.
  - cbn [open_dec_loopC]. replace K_OPEN with (1 + (K_CV + (K_ALIGN + 2))) by reflexivity. apply cgood_tick.
    eapply cgood_bind; [apply parseLengthC_cgood; assumption|].
    intros [raw rep] s1 Ha1 (Hp1 & Hv & Hr). cbn [fst snd] in Hv, Hr. cbv beta iota.
    pose proof (adv_dinv _ _ Ha1) as Hs1.
    destruct (raw =? 0) eqn:E0.
    { apply cgood_ok; [apply adv_refl, Hs1|]. unfold open_post. split; [exact Hacc|]. lia. }
    eapply cgood_bind; [apply parseAlignBitsC_cgood, Hs1|].
    intros u s2 Ha12 Hb0. cbv beta in Hb0 |- *.
    pose proof (adv_dinv _ _ Ha12) as Hs2. pose proof Hs2 as (B1 & B2 & B3 & B4). unfold MAXLEN in B4.
    pose proof (adv_trans _ _ _ Ha1 Ha12) as Ha2.
    assert (Hp2 : pos s1 <= pos s2) by (apply Ha12).
    rewrite (u64_small (raw + d_byteOffset s2)) by (unfold TWO64; lia).
    rewrite (u64_small (d_byteOffset s2 + raw)) by (unfold TWO64; lia).
    destruct (len (d_bytes s2) <? raw + d_byteOffset s2) eqn:E1; [apply cgood_err; apply adv_refl, Hs2|].
    rewrite slice_ok by lia. cbv zeta.
    set (chunk := firstn (N.to_nat (d_byteOffset s2 + raw - d_byteOffset s2)) (skipn (N.to_nat (d_byteOffset s2)) (d_bytes s2))).
    assert (Hcl : len chunk = raw) by (unfold chunk; rewrite len_chunk by lia; lia).
    assert (Hco : octets chunk) by (apply octets_chunk; apply (adv_octs _ _ Ha2 Ho)).
    set (s3 := mkdst (d_bytes s2) (d_byteOffset s2 + raw) (d_bitsOffset s2)).
    assert (Ha23 : adv s2 s3) by (apply adv_skip; [exact Hs2|exact Hb0|lia]).
    assert (Hp3 : pos s3 = pos s2 + 8 * raw) by (unfold s3, pos; cbn [d_bytes d_byteOffset d_bitsOffset]; lia).
    destruct rep.
    + destruct (Hr eq_refl) as (Hr8 & Hr16).
      assert (Hfuel : 8 * len (d_bytes s3) < 8 * N.of_nat f + pos s3).
      { rewrite (adv_len _ _ Ha23), (adv_len _ _ Ha2). lia. }
      destruct (IH s3 (acc ++ chunk) (adv_dinv _ _ Ha23) (adv_octs _ _ Ha23 (adv_octs _ _ Ha2 Ho)) (octets_app _ _ Hacc Hco) Hfuel) as (G1 & G2).
      destruct (ctick_parts (len chunk) (open_dec_loopC f s3 (acc ++ chunk))) as (T1 & T2).
      split; [rewrite T1|rewrite T1, T2].
      * eapply sgood_weaken; [exact Ha23|exact G1|].
        intros r s' Ha' (Q1 & Q2 & Q3). unfold open_post. split; [exact Q1|]. rewrite len_app in Q2. lia.
      * pose proof (sgood_pos _ _ _ G1). unfold K_OPEN in G2. lia.
    + replace 2 with (0 + (K_ALIGN + 0)) by reflexivity.
      assert (Hc : cgood s3 (K_ALIGN + 0) (open_post s acc)
                     (doc (_, s) <- parseAlignBitsC s3; cpure (Ok (acc ++ chunk), s))).
      { eapply cgood_bind; [apply parseAlignBitsC_cgood; apply Ha23|].
        intros u' s4 Ha34 _. apply cgood_ok; [apply adv_refl; apply Ha34|]. unfold open_post.
        split; [apply octets_app; assumption|]. rewrite len_app.
        assert (pos s3 <= pos s4) by (apply Ha34). lia. }
      destruct Hc as (G1 & G2).
      destruct (ctick_parts (len chunk) (doc (_, s) <- parseAlignBitsC s3; cpure (Ok (acc ++ chunk), s))) as (T1 & T2).
      split; [rewrite T1|rewrite T1, T2].
      * eapply sgood_weaken; [exact Ha23|exact G1|intros a s' _ H; exact H].
      * pose proof (sgood_pos _ _ _ G1). lia.
Qed.

(* the remaining readers in the same form *)
Lemma parseBoolC_cgood s : dinv s -> cgood s 2 (fun _ s' => pos s + 1 <= pos s') (parseBoolC s).
Proof. intros Hs. apply cgood_const; [rewrite parseBoolC_erase; apply parseBool_cons, Hs|apply parseBoolC_cost]. Qed.

Lemma parseEnumeratedC_cgood s ext lb ub : dinv s -> octs s -> cgood s K_CV anyres (parseEnumeratedC s ext lb ub).
Proof.
  intros Hs Ho. apply cgood_const; [rewrite parseEnumeratedC_erase; apply parseEnumerated_good'; assumption|apply parseEnumeratedC_cost].
Qed.

Lemma getChoiceIndexC_cgood s ext ub : dinv s -> octs s ->
  cgood s K_CV (fun pr s' => (1 <= pr)%Z /\ pos s + 1 <= pos s') (getChoiceIndexC s ext ub).
Proof.
  intros Hs Ho. apply cgood_const; [rewrite getChoiceIndexC_erase; apply getChoiceIndex_good'; assumption|apply getChoiceIndexC_cost].
Qed.

Lemma parseIntegerC_cgood_cons s y p : dinv s -> octs s ->
  cgood s K_INT (fun _ s' => int_consumes p = true -> y = false -> pos s + 1 <= pos s') (parseIntegerC s y (p_valueLB p) (p_valueUB p)).
Proof.
  intros Hs Ho. destruct (parseIntegerC_cgood s y (p_valueLB p) (p_valueUB p) Hs Ho) as (_ & H2).
  split; [rewrite parseIntegerC_erase; apply parseInteger_cons; assumption|exact H2].
Qed.

Global Opaque parseOctetStringC parseBitStringC parseLengthC parseConstraintValueC parseAlignBitsC parseIntegerC
  parseEnumeratedC parseBoolC getChoiceIndexC.
