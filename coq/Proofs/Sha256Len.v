(* SHA-256 and HMAC-SHA-256 return 32 octets for every input (needed to instantiate the key-derivation theorems,
   whose only assumption on the keyed hash is its output length). *)
From Coq Require Import NArith List Lia Bool.
Require Import Bytes SHA256.
Import ListNotations.
Open Scope N_scope.

Lemma round_len st kw : length st = 8%nat -> length (round st kw) = 8%nat.
Proof.
  intros L. destruct st as [|a [|b [|c [|d [|e [|f [|g [|h [|? ?]]]]]]]]]; try discriminate L. reflexivity.
Qed.

Lemma fold_round_len l : forall st, length st = 8%nat -> length (fold_left round l st) = 8%nat.
Proof. induction l as [|kw l IH]; intros st L; cbn [fold_left]; [exact L|]. apply IH, round_len, L. Qed.

Lemma compress_len h blk : length h = 8%nat -> length (compress h blk) = 8%nat.
Proof.
  intros L. unfold compress. rewrite map_length, combine_length, fold_round_len by exact L. rewrite L. reflexivity.
Qed.

Lemma fold_compress_len l : forall h, length h = 8%nat -> length (fold_left compress l h) = 8%nat.
Proof. induction l as [|b l IH]; intros h L; cbn [fold_left]; [exact L|]. apply IH, compress_len, L. Qed.

Lemma flat_word_bytes_len l : length (flat_map word_bytes l) = (4 * length l)%nat.
Proof.
  induction l as [|w l IH]; [reflexivity|]. cbn [flat_map]. rewrite app_length, IH. unfold word_bytes.
  rewrite N_to_be_length. cbn [length]. lia.
Qed.

Theorem sha256_length msg : length (sha256 msg) = 32%nat.
Proof. unfold sha256. rewrite flat_word_bytes_len, fold_compress_len; reflexivity. Qed.

Theorem hmac_sha256_length key msg : length (hmac_sha256 key msg) = 32%nat.
Proof. unfold hmac_sha256. apply sha256_length. Qed.
