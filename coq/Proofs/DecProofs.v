From Coq Require Import NArith ZArith List Lia Bool.
From Coq Require Import ZifyN ZifyNat ZifyBool.
Require Import Dec.
Import ListNotations.
Open Scope N_scope.
Ltac Zify.zify_post_hook ::= Z.div_mod_to_equations.
Local Arguments N.mul : simpl never.
Local Arguments N.add : simpl never.
Local Arguments N.pow : simpl never.
Local Arguments N.div : simpl never.
Local Arguments N.modulo : simpl never.
Local Arguments N.of_nat : simpl never.

Lemma undec_app_gen a l : fold_left (fun a d => a * 10 + d) l a = a * 10 ^ N.of_nat (length l) + undec l.
Proof.
  unfold undec. revert a. induction l as [|d l IH]; intro a; cbn [fold_left length].
  - change (N.of_nat 0) with 0. rewrite N.pow_0_r. lia.
  - rewrite IH. unfold undec. cbn [fold_left]. rewrite (IH (0 * 10 + d)). rewrite Nat2N.inj_succ, N.pow_succ_r'. ring.
Qed.

Lemma undec_app l1 l2 : undec (l1 ++ l2) = undec l1 * 10 ^ N.of_nat (length l2) + undec l2.
Proof. unfold undec at 1. rewrite fold_left_app. fold (undec l1). apply undec_app_gen. Qed.

Lemma undec_rev l : undec (rev l) = undec_le l.
Proof.
  induction l as [|d l IH]; [reflexivity|]. cbn [rev undec_le]. rewrite undec_app, IH. change (N.of_nat (length [d])) with 1. rewrite N.pow_1_r. unfold undec. cbn [fold_left]. lia.
Qed.

Lemma undec_repeat0 k : undec (repeat 0 k) = 0.
Proof. induction k as [|k IH]; [reflexivity|]. change (repeat 0 (S k)) with ([0] ++ repeat 0 k). rewrite undec_app, IH. unfold undec. cbn [fold_left]. lia. Qed.

Lemma dec_le_value fuel : forall n, n < 2 ^ N.of_nat fuel -> undec_le (dec_le fuel n) = n.
Proof.
  induction fuel as [|f IH]; intros n Hn.
  - cbn in Hn. assert (n = 0) by lia. subst. reflexivity.
  - cbn [dec_le]. destruct (n <? 10) eqn:E.
    + cbn. lia.
    + cbn [undec_le]. rewrite IH.
      * lia.
      * rewrite Nat2N.inj_succ, N.pow_succ_r' in Hn. lia.
Qed.

Lemma dec_fuel_enough n : n < 2 ^ N.of_nat (dec_fuel n).
Proof.
  unfold dec_fuel. rewrite Nat2N.inj_succ, N2Nat.id.
  destruct (N.eq_dec n 0) as [->|Hn]; [cbn; lia|].
  apply N.log2_spec. lia.
Qed.

Lemma undec_dec n : undec (dec n) = n.
Proof. unfold dec. rewrite undec_rev. apply dec_le_value, dec_fuel_enough. Qed.

Lemma undec_pad0 w n : undec (pad0 w n) = n.
Proof. unfold pad0. rewrite undec_app, undec_repeat0, undec_dec. lia. Qed.

Theorem pad0_inj w a b : pad0 w a = pad0 w b -> a = b.
Proof. intro H. rewrite <- (undec_pad0 w a), <- (undec_pad0 w b), H. reflexivity. Qed.

(* digits are digits *)
Lemma dec_le_digits fuel : forall n, digits_ok (dec_le fuel n) = true.
Proof.
  induction fuel as [|f IH]; intro n; [reflexivity|]. cbn [dec_le]. destruct (n <? 10) eqn:E.
  - cbn. unfold is_digit. rewrite E. reflexivity.
  - cbn [digits_ok forallb]. fold (digits_ok (dec_le f (n / 10))). rewrite IH. unfold is_digit.
    assert (n mod 10 <? 10 = true) by lia. rewrite H. reflexivity.
Qed.

Lemma digits_ok_app a b : digits_ok (a ++ b) = digits_ok a && digits_ok b.
Proof. unfold digits_ok. apply forallb_app. Qed.

Lemma digits_ok_rev a : digits_ok (rev a) = digits_ok a.
Proof.
  induction a as [|x a IH]; [reflexivity|]. cbn [rev]. rewrite digits_ok_app, IH. cbn. rewrite andb_true_r. apply andb_comm.
Qed.

Lemma digits_ok_repeat0 k : digits_ok (repeat 0 k) = true.
Proof. induction k; [reflexivity|]. cbn. assumption. Qed.

Lemma pad0_digits w n : digits_ok (pad0 w n) = true.
Proof. unfold pad0, dec. rewrite digits_ok_app, digits_ok_repeat0, digits_ok_rev, dec_le_digits. reflexivity. Qed.

(* number of digits *)
Lemma dec_le_length fuel : forall n k, n < 2 ^ N.of_nat fuel -> n < 10 ^ N.of_nat k -> (length (dec_le fuel n) <= Nat.max 1 k)%nat.
Proof.
  induction fuel as [|f IH]; intros n k Hf Hk; [cbn; lia|].
  cbn [dec_le]. destruct (n <? 10) eqn:E; [cbn [length]; clear; lia|].
  cbn [length]. destruct k as [|k]; [change (N.of_nat 0) with 0 in Hk; rewrite N.pow_0_r in Hk; lia|].
  specialize (IH (n / 10) k).
  rewrite Nat2N.inj_succ, N.pow_succ_r' in Hf, Hk.
  assert (length (dec_le f (n / 10)) <= Nat.max 1 k)%nat by (apply IH; lia).
  destruct k as [|k]; [change (N.of_nat 0) with 0 in Hk; rewrite N.pow_0_r in Hk; lia|]. lia.
Qed.

Lemma pad0_length w n : n < 10 ^ N.of_nat w -> (1 <= w)%nat -> length (pad0 w n) = w.
Proof.
  intros Hn Hw. unfold pad0. rewrite app_length, repeat_length.
  assert (length (dec n) <= w)%nat.
  { unfold dec. rewrite rev_length. pose proof (dec_le_length (dec_fuel n) n w (dec_fuel_enough n) Hn). lia. }
  lia.
Qed.

(* fixed-length digit lists are determined by their value *)
Lemma undec_le_bound l : digits_ok l = true -> undec_le l < 10 ^ N.of_nat (length l).
Proof.
  induction l as [|d l IH]; intro H; [cbn; lia|].
  cbn [digits_ok forallb] in H. apply andb_true_iff in H. destruct H as [Hd Hl]. unfold is_digit in Hd.
  cbn [undec_le length]. rewrite Nat2N.inj_succ, N.pow_succ_r'. specialize (IH Hl). lia.
Qed.

Lemma undec_le_inj l1 : forall l2, length l1 = length l2 -> digits_ok l1 = true -> digits_ok l2 = true ->
  undec_le l1 = undec_le l2 -> l1 = l2.
Proof.
  induction l1 as [|a l1 IH]; intros [|b l2] Hlen H1 H2 Hv; try discriminate; [reflexivity|].
  cbn [digits_ok forallb] in H1, H2. apply andb_true_iff in H1, H2. destruct H1 as [Ha H1], H2 as [Hb H2].
  unfold is_digit in Ha, Hb. cbn [undec_le] in Hv. injection Hlen as Hlen.
  assert (a = b) by lia. subst b. f_equal. apply IH; try assumption. lia.
Qed.

Lemma undec_inj l1 l2 : length l1 = length l2 -> digits_ok l1 = true -> digits_ok l2 = true ->
  undec l1 = undec l2 -> l1 = l2.
Proof.
  intros Hl H1 H2 Hv. rewrite <- (rev_involutive l1), <- (rev_involutive l2) in Hv. rewrite !undec_rev in Hv.
  apply undec_le_inj in Hv; [| rewrite !rev_length; assumption | rewrite digits_ok_rev; assumption | rewrite digits_ok_rev; assumption].
  rewrite <- (rev_involutive l1), <- (rev_involutive l2), Hv. reflexivity.
Qed.

Lemma undec_bound l : digits_ok l = true -> undec l < 10 ^ N.of_nat (length l).
Proof.
  intro H. pose proof (undec_le_bound (rev l)) as B. rewrite digits_ok_rev, rev_length in B.
  rewrite <- (rev_involutive l), undec_rev. rewrite rev_involutive. apply B, H.
Qed.

(* adding to the low digits leaves the high digits alone *)
Theorem pad0_prefix pre low i :
  digits_ok pre = true -> digits_ok low = true -> (1 <= length low)%nat ->
  undec low + i < 10 ^ N.of_nat (length low) ->
  pad0 (length pre + length low) (undec (pre ++ low) + i) = pre ++ pad0 (length low) (undec low + i).
Proof.
  intros Hp Hl Hlen Hcap.
  assert (Hpb := undec_bound pre Hp).
  apply undec_inj.
  - rewrite app_length, !pad0_length; try lia.
    rewrite undec_app, Nat2N.inj_add, N.pow_add_r. nia.
  - apply pad0_digits.
  - rewrite digits_ok_app, Hp, pad0_digits. reflexivity.
  - rewrite undec_pad0. rewrite (undec_app pre (pad0 _ _)). rewrite undec_pad0. rewrite undec_app.
    rewrite pad0_length by lia. lia.
Qed.
