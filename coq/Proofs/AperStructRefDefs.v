(* Side condition of the structural refusal theorem (C03.2): [supr] is [sup] (AperStructDefs.v) without the parts that say
   the value is valid - an INTEGER of a non-extensible type may be out of range, a mandatory pointer may be nil - and
   with two more requirements on what the encoder is handed: the octets of strings are octets, and the identifier of
   an open type is an INTEGER component (or a one-component wrapper of one), as in every NGAP information object. *)
From Coq Require Import String NArith ZArith List Bool.
Require Import GoSlice Bits AperCommon AperEnc AperDec AperStructDefs.
Import ListNotations.
Open Scope N_scope.

Definition int_okr (p : params) (z : Z) : bool :=
  match p_valueLB p, p_valueUB p with
  | Some l, Some u =>
      ((negb (p_valueExt p) || ((l <=? z) && (z <=? u))) && (-4611686018427387904 <? l) && (u <? 4611686018427387904)
       && ((u - l + 1 <=? 65536) || ((l =? 0) && (65536 <=? u))))%Z
  | _, _ => false
  end.

Section FieldSupr.
  Variable rec : ty -> params -> val -> bool.
  Variable recm : ty -> params -> val -> est -> res est.

  (* as open_sup, but the alternative chosen need not be the one registered under the identifier's value (then the
     library answers "open type ... mismatch"); the identifier is an INTEGER component or a one-component wrapper *)
  Definition open_supr (allf : list field) (allv : list val) (i : nat) (fp : params) (ft : ty) (x : val) : bool :=
    match ft, x with
    | TStruct cfs, VStruct cvs =>
        match cvs with
        | VInt present :: _ =>
            is_choice cfs && negb (p_valueExt fp) && (0 <? present)%Z && (present <? Z.of_nat (List.length cfs))%Z &&
            Nat.eqb (List.length cfs) (List.length cvs) &&
            let idx := find_field (p_refName fp) allf i 0 in
            negb (Nat.eqb idx i) &&
            match nth_error allf idx, nth_error allv idx, nth_error cfs (Z.to_nat present), nth_error cvs (Z.to_nat present) with
            | Some rf, Some rv, Some a, Some av =>
                ref_shape (f_ty rf) && negb (p_optional (f_params rf)) && negb (p_openType (f_params rf)) &&
                match p_refValue (f_params a), get_ref REF_FUEL (f_ty rf) rv with
                | Some r, Ok z => negb (r =? z)%Z
                                  || (Nat.eqb (find_alt (tl cfs) 1 r) (Z.to_nat present)
                                      && rec (f_ty a) (f_params a) av
                                      && nonempty_bytes (recm (f_ty a) (f_params a) av (mkest [] 0)))
                | _, _ => false
                end
            | _, _, _, _ => false
            end
        | _ => false
        end
    | _, _ => false
    end.

  Definition field_supr (allf : list field) (allv : list val) (i : nat) (f : field) (x : val) : bool :=
    let fp := f_params f in
    match f_ty f, x with
    | TPtr _, VNil => true
    | _, _ =>
        (negb (p_optional fp) || is_ptr (f_ty f)) &&
        (if p_openType fp then negb (p_optional fp) && open_supr allf allv i fp (f_ty f) x else rec (f_ty f) fp x)
    end.

  Fixpoint fields_supr (allf : list field) (allv : list val) (i : nat) (fs : list field) (vs : list val) : bool :=
    match fs, vs with
    | [], [] => true
    | f :: fr, x :: vr => field_supr allf allv i f x && fields_supr allf allv (S i) fr vr
    | _, _ => false
    end.
End FieldSupr.

Fixpoint supr_f (fuel : nat) (t : ty) (p : params) (v : val) : bool :=
  match fuel with
  | O => false
  | S f =>
      match t, v with
      | TInt, VInt z => int_okr p z
      | TEnum, VEnum i => enum_ok p && (i <? 18446744073709551616)
      | TBool, VBool _ => true
      | TBits, VBits _ n => str_ok p n
      | TOctets, VOctets bs | TString, VOctets bs => str_ok p (len bs) && forallb (fun b => b <? 256) bs
      | TPtr e, VPtr v' => supr_f f e p v'
      | TPtr _, VNil => true
      | TSlice e, VList l => slice_ok p (len l) && forallb (supr_f f e (clear_size p)) l
      | TStruct fs, VStruct vs =>
          if is_choice fs then
            choice_ok fs p &&
            match vs with
            | VInt present :: _ =>
                (0 <=? present)%Z &&
                (if (0 <? present)%Z && (present <? Z.of_nat (List.length fs))%Z then
                   match nth_error fs (Z.to_nat present), nth_error vs (Z.to_nat present) with
                   | Some a, Some av => supr_f f (f_ty a) (f_params a) av
                   | _, _ => true
                   end
                 else true)
            | _ => true
            end
          else (count_optional fs <=? 64) && fields_supr (supr_f f) (makeField f) fs vs 0 fs vs
      | _, _ => false
      end
  end.

Definition supr (t : ty) (p : params) (v : val) : bool := supr_f (S (ty_depth t)) t p v.
