(* C13, ranges - part 6: the wrappers with a list of PDU session ids (nil: the list IE is absent). *)
From Coq Require Import ZArith NArith List String Bool Lia.
From Coq Require Import ZifyN ZifyNat ZifyBool.
Require Import GoSlice AperCommon AperEnc AperDec NgapSchema AperCheck BuildersT TS38413 Builders Builders13 Asn1 X691 Asn1Tags
        AperStructDefs AperStructRefDefs AperStructSize Builders13Range Builders13RangeX Builders13RangeNE Builders13RangeTac Builders13RangeL.
Import ListNotations.
Open Scope string_scope.

Lemma els_sid zs : ELS SID zs = if forallb pdu_session_id_ok zs then SOk else SViol.
Proof. apply els_if. intro z. reflexivity. Qed.

Ltac finish_list_tac G :=
  cbn [select forallb]; cbv beta iota; change (root_penc "NGAPPDU") with PE;
  unfold AMF, RAN in G; rewrite ?int_st_if, ?szl_if, ?els_sid in G;
  repeat match type of G with context [if ?c then SOk else SViol] => destruct c end;
  cbn [andb]; (split; intros Hids; try discriminate Hids);
  first [ solve [eapply good_ok; [exact G | repeat constructor]]
        | solve [eapply good_err; [exact G | unfold total; repeat constructor; auto | ex_tac]] ].
Ltac get_good_list lem := let G := fresh "G" in eassert (G : good _ _) by (eapply lem; eassumption); finish_list_tac G.

(* ---- UEContextReleaseRequest *)
Definition tRR1 := Eval vm_compute in match b_variants B_GetUEContextReleaseRequest with (_, t) :: _ => t | _ => TVNil end.
Definition tRR2 := Eval vm_compute in match b_variants B_GetUEContextReleaseRequest with _ :: (_, t) :: _ => t | _ => TVNil end.
Lemma G_rr1 s z1 z2 :
  lookup "amfUeNgapID" (e_args s) = Some (BuildersT.AInt z1) -> lookup "ranUeNgapID" (e_args s) = Some (BuildersT.AInt z2) ->
  good (inst s None tRR1) [AMF z1; RAN z2].
Proof. intros. unfold tRR1. inst_tac. good_tac. Qed.
Lemma G_rr2 s z1 z2 zs :
  lookup "amfUeNgapID" (e_args s) = Some (BuildersT.AInt z1) -> lookup "ranUeNgapID" (e_args s) = Some (BuildersT.AInt z2) ->
  lookup "pduSessionIDList" (e_args s) = Some (AInts (Some zs)) -> (List.length zs <= 300)%nat ->
  good (inst s None tRR2) [AMF z1; RAN z2; SZL zs; ELS SID zs].
Proof. intros. unfold tRR2. inst_tac. cbn [inst map]. hide_list. good_list_tac. Qed.

Theorem R_rr s : env_wf B_GetUEContextReleaseRequest s = true ->
  (ids_ok B_GetUEContextReleaseRequest s = true -> exists bs, encode_call B_GetUEContextReleaseRequest s = Ok bs) /\
  (ids_ok B_GetUEContextReleaseRequest s = false -> exists e, encode_call B_GetUEContextReleaseRequest s = Err e).
Proof.
  intros Hwf. env_tac B_GetUEContextReleaseRequest Hwf; select_tac.
  - get_good_list G_rr2.
  - get_good G_rr1.
Qed.

(* ---- UEContextReleaseComplete *)
Definition tRC1 := Eval vm_compute in match b_variants B_GetUEContextReleaseComplete with (_, t) :: _ => t | _ => TVNil end.
Definition tRC2 := Eval vm_compute in match b_variants B_GetUEContextReleaseComplete with _ :: (_, t) :: _ => t | _ => TVNil end.
Lemma G_rc1 s z1 z2 :
  lookup "amfUeNgapID" (e_args s) = Some (BuildersT.AInt z1) -> lookup "ranUeNgapID" (e_args s) = Some (BuildersT.AInt z2) ->
  octs_ok (e_plmn s) = true -> len (e_plmn s) = 3%N ->
  good (inst s None tRC1) [AMF z1; RAN z2].
Proof. intros. unfold tRC1. inst_tac. gen_plmn s. good_tac. Qed.
Lemma G_rc2 s z1 z2 zs :
  lookup "amfUeNgapID" (e_args s) = Some (BuildersT.AInt z1) -> lookup "ranUeNgapID" (e_args s) = Some (BuildersT.AInt z2) ->
  lookup "pduSessionIDList" (e_args s) = Some (AInts (Some zs)) -> (List.length zs <= 300)%nat ->
  octs_ok (e_plmn s) = true -> len (e_plmn s) = 3%N ->
  good (inst s None tRC2) [AMF z1; RAN z2; SZL zs; ELS SID zs].
Proof. intros. unfold tRC2. inst_tac. cbn [inst map]. gen_plmn s. hide_list. good_list_tac. Qed.

Theorem R_rc s : env_wf B_GetUEContextReleaseComplete s = true ->
  (ids_ok B_GetUEContextReleaseComplete s = true -> exists bs, encode_call B_GetUEContextReleaseComplete s = Ok bs) /\
  (ids_ok B_GetUEContextReleaseComplete s = false -> exists e, encode_call B_GetUEContextReleaseComplete s = Err e).
Proof.
  intros Hwf. env_tac B_GetUEContextReleaseComplete Hwf; select_tac.
  - get_good_list G_rc2.
  - get_good G_rc1.
Qed.
