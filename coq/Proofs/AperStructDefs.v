(* The decidable side conditions of the structural C03 / C04 theorems: [sup t p v] holds when the value [v] of the Go
   type [t] (encoded under the tag parameters [p]) only reaches constraint classes on which the library follows
   X.691.  It is value-directed: a type may contain unsupported constraints (NGAP has four, see AperSchemaProofs)
   as long as the value does not reach them.  Excluded (recorded deviations): SIZE upper bound >= 65536, extensible
   sizes / values below the root, lengths >= 16384 (fragmentation), extensible INTEGER above the root,
   extensible SEQUENCE OF above the root, single-alternative CHOICE, open type with an empty encoding,
   unconstrained and semi-constrained INTEGER. *)
From Coq Require Import NArith ZArith List Bool String.
Require Import GoSlice Bits AperCommon AperEnc AperDec.
Import ListNotations.
Open Scope N_scope.

Definition int_ok (p : params) (z : Z) : bool :=
  match p_valueLB p, p_valueUB p with
  | Some l, Some u =>
      ((l <=? z) && (z <=? u) && (-4611686018427387904 <? l) && (u <? 4611686018427387904)
       && ((u - l + 1 <=? 65536) || ((l =? 0) && (65536 <=? u))))%Z
  | _, _ => false
  end.
Definition enum_ok (p : params) : bool :=
  match p_valueLB p, p_valueUB p with
  | Some 0%Z, Some u => ((0 <=? u) && (u <? 65536))%Z
  | _, _ => false
  end.
Definition str_ok (p : params) (n : N) : bool :=
  (n <? 16384) &&
  match p_sizeLB p, p_sizeUB p with
  | None, None => negb (p_sizeExt p)
  | Some l, Some u => ((0 <=? l) && (l <=? u) && (0 <? u) && (u <? 65536))%Z && (negb (p_sizeExt p) || (Z.to_N l <=? n))
  | _, _ => false
  end.
Definition slice_ok (p : params) (n : N) : bool :=
  match p_sizeLB p, p_sizeUB p with
  | Some l, Some u => ((0 <=? l) && (l <=? u) && (u <? 65536))%Z
                      && (negb (p_sizeExt p) || ((Z.to_N l <=? n) && (n <=? Z.to_N u)))
  | _, _ => false
  end.
Definition choice_ok (fs : list field) (p : params) : bool :=
  negb (p_openType p) &&
  match p_valueUB p with
  | Some u => ((u + 1 =? Z.of_nat (List.length (tl fs))) && (1 <=? u) && (u <? 65536))%Z
  | None => false
  end.
Definition ref_shape (t : ty) : bool :=
  match t with
  | TInt => true
  | TStruct [(n, _, TInt)] => negb (String.eqb n "Present")
  | _ => false
  end.
Definition is_ptr (t : ty) : bool := match t with TPtr _ => true | _ => false end.
Definition nonempty_bytes (r : res est) : bool := match r with Ok s => match e_bytes s with [] => false | _ => true end | _ => true end.

Section FieldSup.
  Variable rec : ty -> params -> val -> bool.
  Variable recm : ty -> params -> val -> est -> res est.

  Definition open_sup (allf : list field) (allv : list val) (i : nat) (fp : params) (ft : ty) (x : val) : bool :=
    match ft, x with
    | TStruct cfs, VStruct cvs =>
        match cvs with
        | VInt present :: _ =>
            is_choice cfs && negb (p_valueExt fp) && (0 <? present)%Z && (present <? Z.of_nat (List.length cfs))%Z &&
            Nat.eqb (List.length cfs) (List.length cvs) &&
            let idx := find_field (p_refName fp) allf i 0 in
            negb (Nat.eqb idx i) &&
            match nth_error allf idx, nth_error allv idx, nth_error cfs (Z.to_nat present), nth_error cvs (Z.to_nat present) with
            | Some rf, Some rv, Some a, Some av =>
                match p_refValue (f_params a), get_ref REF_FUEL (f_ty rf) rv with
                | Some r, Ok z => (r =? z)%Z && Nat.eqb (find_alt (tl cfs) 1 r) (Z.to_nat present)
                                  && rec (f_ty a) (f_params a) av
                                  && nonempty_bytes (recm (f_ty a) (f_params a) av (mkest [] 0))
                | _, _ => false
                end
            | _, _, _, _ => false
            end
        | _ => false
        end
    | _, _ => false
    end.

  Definition field_sup (allf : list field) (allv : list val) (i : nat) (f : field) (x : val) : bool :=
    let fp := f_params f in
    match f_ty f, x with
    | TPtr _, VNil => p_optional fp                      (* a nil pointer only where the component is OPTIONAL *)
    | _, _ =>
        (negb (p_optional fp) || is_ptr (f_ty f)) &&
        (if p_openType fp then negb (p_optional fp) && open_sup allf allv i fp (f_ty f) x else rec (f_ty f) fp x)
    end.

  Fixpoint fields_sup (allf : list field) (allv : list val) (i : nat) (fs : list field) (vs : list val) : bool :=
    match fs, vs with
    | [], [] => true
    | f :: fr, x :: vr => field_sup allf allv i f x && fields_sup allf allv (S i) fr vr
    | _, _ => false
    end.
End FieldSup.

Fixpoint sup_f (fuel : nat) (t : ty) (p : params) (v : val) : bool :=
  match fuel with
  | O => false
  | S f =>
      match t, v with
      | TInt, VInt z => int_ok p z
      | TEnum, VEnum _ => enum_ok p
      | TBool, VBool _ => true
      | TBits, VBits _ n => str_ok p n
      | TOctets, VOctets bs | TString, VOctets bs => str_ok p (len bs)
      | TPtr e, VPtr v' => sup_f f e p v'
      | TSlice e, VList l => slice_ok p (len l) && forallb (sup_f f e (clear_size p)) l
      | TStruct fs, VStruct vs =>
          if is_choice fs then
            choice_ok fs p &&
            match vs with
            | VInt present :: _ =>
                match nth_error fs (Z.to_nat present), nth_error vs (Z.to_nat present) with
                | Some a, Some av => sup_f f (f_ty a) (f_params a) av
                | _, _ => true
                end
            | _ => true
            end
          else (count_optional fs <=? 64) && fields_sup (sup_f f) (makeField f) fs vs 0 fs vs
      | _, _ => false
      end
  end.

Definition sup (t : ty) (p : params) (v : val) : bool := sup_f (S (ty_depth t)) t p v.
