(* C13, ranges - part 3: evaluation of the side conditions (abs, supr, asz, xst) of the structural C03 theorems on a
   value whose leaves (integers, octet strings) are variables: the closed parts by computation (lazy with the leaf
   predicates left alone, then vm_compute on each closed atom), the leaves by the lemmas below, the "content of an
   open type is not empty" conjuncts of supr by Builders13RangeNE.ne_bytes, recursively.
   Then: the NGAP PDU root, [good] (all side conditions + the status as the first failing identifier), and the
   tactics that go from the boolean hypotheses on an environment (Model/Builders13Range.v) to the variables. *)
From Coq Require Import String NArith ZArith List Bool Lia Arith.
From Coq Require Import ZifyN ZifyNat ZifyBool.
Require Import GoSlice Bits AperCommon AperEnc AperDec NgapSchema AperCheck BuildersT TS38413 Builders Builders13
        Asn1 X691 Asn1Tags AperStructDefs AperStructSize AperStructRefDefs
        Builders13Range Builders13RangeX Builders13RangeNE.
Import ListNotations.
Open Scope N_scope.

Lemma if_and (a b : bool) : a = true -> b = true -> (if a then b else false) = true.
Proof. intros -> ->. reflexivity. Qed.

Lemma str_ok_mono p n0 n : str_ok p n0 = true -> n0 <= n -> n < 16384 -> str_ok p n = true.
Proof.
  unfold str_ok. intros H H1 H2. apply andb_true_iff in H. destruct H as [_ H]. apply andb_true_iff. split; [apply N.ltb_lt; exact H2|].
  destruct (p_sizeLB p), (p_sizeUB p); try exact H. apply andb_true_iff in H. destruct H as [Ha Hb]. rewrite Ha. cbn [andb].
  destruct (negb (p_sizeExt p)); [reflexivity|]. cbn [orb] in *. apply N.leb_le. apply N.leb_le in Hb. lia.
Qed.

Lemma int_okr_nonext p z : p_valueExt p = false -> int_okr p z = int_okr p 0%Z.
Proof. intros H. unfold int_okr. rewrite H. reflexivity. Qed.

(* ---- leaves of xst *)
Lemma int_st_in l u ext z : (l <= z <= u)%Z -> int_st (Some l) (Some u) ext z = SOk.
Proof. intros H. unfold int_st. assert (((l <=? z) && (z <=? u))%Z = true) as -> by lia. reflexivity. Qed.
Lemma int_st_out l u z : (z < l \/ u < z)%Z -> int_st (Some l) (Some u) false z = SViol.
Proof. intros H. unfold int_st. assert (((l <=? z) && (z <=? u))%Z = false) as -> by lia. reflexivity. Qed.
Lemma int_st_total l u z : int_st (Some l) (Some u) false z = SOk \/ int_st (Some l) (Some u) false z = SViol.
Proof. unfold int_st. destruct (_ && _)%Z; auto. Qed.

Lemma size_st_ok lb ub ext n :
  size_inroot lb ub n = true -> (match ub with Some u => u <? 65536 | None => false end) || (n <? 16384) = true ->
  size_st lb ub ext n = SOk.
Proof.
  intros H1 H2. unfold size_st. rewrite H1. cbn [negb]. rewrite andb_false_r. unfold lendet_st.
  destruct ub as [u|]; [destruct (u <? 65536); [reflexivity|]|]; cbn [orb] in H2; rewrite H2; reflexivity.
Qed.
Lemma oct_st_ok lb ub ext bs : octs_ok bs = true -> oct_st lb ub ext bs = size_st lb ub ext (alen bs).
Proof. intros H. unfold oct_st. unfold octs_ok in H. rewrite H. reflexivity. Qed.

(* ---- a list argument: the list of items (Go values / ASN.1 values) is kept opaque during evaluation *)
Definition hmap {A B} (f : A -> B) (l : list A) : list B := map f l.

Lemma all_some_map_map {A B C} (G : B -> option C) (g : A -> B) (h : A -> C) zs :
  (forall z, G (g z) = Some (h z)) -> all_some (map G (map g zs)) = Some (map h zs).
Proof. intros H. induction zs as [|z zs IH]; [reflexivity|]. cbn [map all_some]. rewrite H, IH. reflexivity. Qed.
Lemma forallb_map_true {A B} (F : B -> bool) (g : A -> B) zs : (forall z, F (g z) = true) -> forallb F (map g zs) = true.
Proof. intros H. induction zs as [|z zs IH]; [reflexivity|]. cbn [map forallb]. rewrite H, IH. reflexivity. Qed.
Lemma asz_list_map {A} (h : A -> Asn1.aval) c zs : (forall z, asz (h z) = c) -> asz_list (map h zs) = (c * Datatypes.length zs)%nat.
Proof. intros H. induction zs as [|z zs IH]; [cbn; lia|]. cbn [map]. rewrite asz_list_cons, H, IH. cbn [Datatypes.length]. lia. Qed.
Lemma alen_hmap {A B} (h : A -> B) zs : alen (hmap h zs) = alen zs.
Proof. unfold alen, hmap. rewrite map_length. reflexivity. Qed.

(* the status of the elements *)
Definition ELS {A} (f : A -> xs) (zs : list A) : xs := xfirst (map f zs).
Lemma els_intro {A} (X : Asn1.aval -> xs) (h : A -> Asn1.aval) (f : A -> xs) zs :
  (forall z, X (h z) = f z) -> xfirst (map X (hmap h zs)) = ELS f zs.
Proof. intros H. unfold hmap, ELS. rewrite map_map. f_equal. apply map_ext. exact H. Qed.
Definition xtotal (s : xs) : Prop := s = SOk \/ s = SViol.
Lemma els_total {A} (f : A -> xs) zs : (forall z, xtotal (f z)) -> xtotal (ELS f zs).
Proof.
  intros H. unfold ELS. induction zs as [|z zs IH]; [left; reflexivity|]. cbn [map xfirst].
  destruct (H z) as [-> | ->]; [exact IH|right; reflexivity].
Qed.
Lemma size_st_total lb ub n : ub <? 65536 = true -> xtotal (size_st lb (Some ub) false n).
Proof. intros H. unfold size_st. cbn [andb]. destruct (negb _); [right; reflexivity|]. rewrite H. left; reflexivity. Qed.

(* ---- tactics *)
Ltac split_ifs := repeat match goal with |- (if ?a then ?b else false) = true => apply if_and end.
Ltac closed_goal := repeat match goal with x : _ |- _ => clear x end; lazymatch goal with _ : _ |- _ => fail | |- _ => idtac end.
Ltac is_xs r := match r with SOk => idtac | SViol => idtac | SUnk => idtac end.
(* no hypothesis / variable of the context occurs in t.  (Never normalise a comparison of a variable with a large
   constant: Pos.compare_cont recurses on the constant and branches on the variable at each bit.) *)
Ltac assert_closed t := tryif (match goal with x : _ |- _ => match t with context [x] => idtac end end) then fail else idtac.

(* closed leaf statuses: computed *)
Ltac eval_closed_st :=
  repeat match goal with
         | |- context [alen ?l] =>
             let n := eval cbv [alen Datatypes.length N.of_nat Pos.of_succ_nat Pos.succ] in (alen l) in
             assert_closed n; change (alen l) with n
         | |- context [int_st ?a ?b ?c ?z] => assert_closed z; let r := eval vm_compute in (int_st a b c z) in is_xs r; change (int_st a b c z) with r
         | |- context [oct_st ?a ?b ?c ?z] => assert_closed z; let r := eval vm_compute in (oct_st a b c z) in is_xs r; change (oct_st a b c z) with r
         | |- context [size_st ?a ?b ?c ?z] => assert_closed z; let r := eval vm_compute in (size_st a b c z) in is_xs r; change (size_st a b c z) with r
         | |- context [enum_st ?a ?z] => assert_closed z; let r := eval vm_compute in (enum_st a z) in is_xs r; change (enum_st a z) with r
         end.

(* symbolic octet strings: hypotheses  octs_ok x = true  and  len x = k  or bounds on len x *)
Ltac size_tac :=
  match goal with
  | H : len ?x = ?k |- context [size_st ?a ?b ?c (alen ?x)] => change (alen x) with (len x); rewrite H
  | |- context [size_st ?a ?b ?c (alen ?x)] =>
      rewrite (size_st_ok a b c (alen x)) by (unfold size_inroot, alen, len in *; lia)
  end.
Ltac oct_tac :=
  match goal with
  | H : octs_ok ?x = true |- context [oct_st ?a ?b ?c ?x] => rewrite (oct_st_ok a b c x H)
  end.
Ltac int_hyp_tac :=
  match goal with
  | H : int_st ?a ?b ?c ?z = _ |- context [int_st ?a ?b ?c ?z] => rewrite H
  end.
Ltac int_case_tac :=
  match goal with
  | |- context [int_st (Some ?l) (Some ?u) false ?z] =>
      let E := fresh "E" in destruct (int_st_total l u z) as [E|E]; rewrite E
  end.

Ltac xst_pre := lazy -[int_st oct_st size_st enum_st alen].
Ltac asz_tac := unfold XB; cbn [asz Datatypes.length]; unfold len, alen in *; lia.
Ltac xst_leaves := repeat (first [progress eval_closed_st | oct_tac | size_tac | int_hyp_tac]); cbv beta iota.
(* goal: ne_status t v = true; INTEGER leaves without hypothesis are split into their two possible statuses *)
Ltac ne_status_tac := unfold ne_status; xst_pre; xst_leaves; repeat int_case_tac; vm_compute; reflexivity.
Ltac depth_tac := apply Nat.leb_le; vm_compute; reflexivity.

Ltac supr_atom self :=
  first
    [ solve [closed_goal; vm_compute; reflexivity]
    | match goal with |- int_okr ?p ?z = true => rewrite (int_okr_nonext p z) by reflexivity; vm_compute; reflexivity end
    | match goal with H : octs_ok ?x = true |- _ ?x = true => exact H end
    | match goal with
      | H : len ?x = _ |- str_ok _ (len ?x) = true => rewrite H; vm_compute; reflexivity
      | |- str_ok ?p (len ?x) = true =>
          first [apply (str_ok_mono p 0); [vm_compute; reflexivity|lia|lia] | apply (str_ok_mono p 1); [vm_compute; reflexivity|lia|lia]]
      end
    | match goal with
      | |- nonempty_bytes (makeField ?n ?t ?p ?v _) = true =>
          eapply (ne_bytes t n n n n p v);
          [ depth_tac | depth_tac | depth_tac | depth_tac | vm_compute; reflexivity | self | asz_tac | ne_status_tac ]
      end
    | match goal with |- ?g => idtac "supr_atom: unsolved" g; fail 1 end ].
(* goal: supr_f n t p v = true *)
Ltac supr_tac := lazy -[makeField str_ok int_okr nonempty_bytes len]; split_ifs; supr_atom supr_tac.

(* ---- the two conclusions, from the list of the statuses of the identifier leaves in encoding order *)
Lemma xfirst_ok l : Forall (fun s => s = SOk) l -> xfirst l = SOk.
Proof. induction 1 as [|s l Hs _ IH]; [reflexivity|]. cbn [xfirst]. rewrite Hs, IH. reflexivity. Qed.
Lemma xfirst_viol l : Forall (fun s => s = SOk \/ s = SViol) l -> Exists (fun s => s = SViol) l -> xfirst l = SViol.
Proof.
  induction 1 as [|s l Hs Hl IH]; intros He; [inversion He|]. cbn [xfirst].
  destruct Hs as [->| ->]; [|reflexivity]. cbn [xthen]. apply IH. inversion He as [? ? H|]; [discriminate|assumption].
Qed.

Theorem finish_ok t p v at' av sts :
  tags_to_asn1 t p = Some at' -> abs t p v = Some av -> supr t p v = true -> N.of_nat (asz av) < XB ->
  xst at' av = xfirst sts -> Forall (fun s => s = SOk) sts -> exists bs, marshal t p v = Ok bs.
Proof. intros Ht Ha Hs Hz Hx Hf. eapply enc_ok; eauto. rewrite Hx. apply xfirst_ok. exact Hf. Qed.
Theorem finish_err t p v at' av sts :
  tags_to_asn1 t p = Some at' -> abs t p v = Some av -> supr t p v = true -> N.of_nat (asz av) < XB ->
  xst at' av = xfirst sts -> Forall (fun s => s = SOk \/ s = SViol) sts -> Exists (fun s => s = SViol) sts ->
  exists e, marshal t p v = Err e.
Proof. intros Ht Ha Hs Hz Hx Hf He. eapply enc_refused; eauto. rewrite Hx. apply xfirst_viol; assumption. Qed.

(* ---------------------------------------------------------------- the NGAP PDU root; environments *)
Open Scope string_scope.
Definition PE := root_penc "NGAPPDU".
Definition AT : aty := Eval vm_compute in match tags_to_asn1 T_PDU PE with Some a => a | None => ANone end.
Lemma AT_ok : tags_to_asn1 T_PDU PE = Some AT.
Proof. vm_compute. reflexivity. Qed.

(* the side conditions of the structural C03 theorems hold for v, and the status of its X.691 encoding is the first
   failing one of [sts] *)
Definition good (v : val) (sts : list xs) : Prop :=
  exists av, abs T_PDU PE v = Some av /\ supr T_PDU PE v = true /\ (N.of_nat (asz av) < XB)%N /\ xst AT av = xfirst sts.
Definition total (s : xs) : Prop := s = SOk \/ s = SViol.

Lemma good_ok v sts : good v sts -> Forall (fun s => s = SOk) sts -> exists bs, marshal T_PDU PE v = Ok bs.
Proof. intros (av & Ha & Hs & Hz & Hx) Hf. eapply finish_ok; eauto. apply AT_ok. Qed.
Lemma good_err v sts : good v sts -> Forall total sts -> Exists (fun s => s = SViol) sts -> exists e, marshal T_PDU PE v = Err e.
Proof. intros (av & Ha & Hs & Hz & Hx) Hf He. eapply finish_err; eauto. apply AT_ok. Qed.

Definition AMF z := int_st (Some 0%Z) (Some 1099511627775%Z) false z.
Definition RAN z := int_st (Some 0%Z) (Some 4294967295%Z) false z.
Definition SID z := int_st (Some 0%Z) (Some 255%Z) false z.

(* instantiate a template in an environment whose lookups are known *)
Ltac inst_tac :=
  cbn [inst map flat_map piece_bytes app];
  unfold get_int, get_bytes, get_ints;
  repeat match goal with H : lookup ?n ?l = Some _ |- context [lookup ?n ?l] => rewrite H end;
  cbv beta iota.

Ltac good_tac :=
  eexists; split; [vm_compute; reflexivity|]; split; [unfold supr; supr_tac|]; split; [asz_tac|];
  unfold AT, AMF, RAN, SID; xst_pre; xst_leaves; repeat int_case_tac; reflexivity.

Lemma int_st_if l u z : int_st (Some l) (Some u) false z = if ((l <=? z) && (z <=? u))%Z then SOk else SViol.
Proof. reflexivity. Qed.

(* from the boolean hypotheses on an environment to lookups and facts *)
Ltac split_andb H :=
  repeat match type of H with
         | (_ && _) = true => let H1 := fresh H in let H2 := fresh H in apply andb_true_iff in H; destruct H as [H1 H2]; split_andb H1; split_andb H2
         end.
Ltac norm_hyps :=
  repeat match goal with
         | H : (_ <? _)%N = true |- _ => apply N.ltb_lt in H
         | H : (_ <=? _)%N = true |- _ => apply N.leb_le in H
         | H : (_ =? _)%N = true |- _ => apply N.eqb_eq in H
         | H : (_ <=? _)%nat = true |- _ => apply Nat.leb_le in H
         | H : true = true |- _ => clear H
         | H : false = true |- _ => discriminate H
         end.
Ltac env_tac B Hwf :=
  unfold env_wf in Hwf; unfold ids_ok, encode_call, value_of_call;
  let a := eval vm_compute in (b_args B) in change (b_args B) with a in *;
  let vs := eval vm_compute in (b_variants B) in change (b_variants B) with vs in *;
  cbn [forallb arg_wf fst snd] in Hwf;
  repeat match type of Hwf with
         | context [lookup ?n (e_args ?s)] =>
             let E := fresh "L" in destruct (lookup n (e_args s)) as [[?z|?bs|?l]|] eqn:E; cbn [andb] in Hwf; try discriminate Hwf
         end;
  repeat match goal with L : lookup _ _ = Some (AInts ?l) |- _ => is_var l; destruct l end;
  cbv beta iota in Hwf;
  unfold bytes_len_ok in Hwf;
  repeat match type of Hwf with
         | context [role_of_param ?n] => let r := eval vm_compute in (role_of_param n) in change (role_of_param n) with r in Hwf
         end;
  cbv beta iota in Hwf;
  split_andb Hwf; norm_hyps;
  cbn [forallb arg_ids_ok fst snd];
  repeat match goal with H : lookup ?n ?l = Some _ |- context [lookup ?n ?l] => rewrite H end;
  cbv beta iota; unfold id_ok;
  repeat match goal with |- context [id_ub ?n] => let r := eval vm_compute in (id_ub n) in change (id_ub n) with r end;
  cbv beta iota.

Ltac ex_tac := repeat first [apply Exists_cons_hd; reflexivity | apply Exists_cons_tl].
Ltac finish_tac G :=
  cbn [select forallb]; cbv beta iota; change (root_penc "NGAPPDU") with PE;
  unfold AMF, RAN, SID in G; rewrite ?int_st_if in G;
  repeat match type of G with context [if ?c then SOk else SViol] => destruct c end;
  cbn [andb]; (split; intros Hids; try discriminate Hids);
  first [ solve [eapply good_ok; [exact G | repeat constructor]]
        | solve [eapply good_err; [exact G | unfold total; repeat constructor; auto | ex_tac]] ].


(* the transfer octets built around the IPv4 argument: generalised to an octet string of 13 octets *)
Lemma cat_ok (c1 ip c2 : list N) n :
  octs_ok c1 = true -> octs_ok c2 = true -> octs_ok ip = true -> len ip = 4%N -> (len c1 + 4 + len c2 = n)%N ->
  octs_ok (c1 ++ ip ++ c2) = true /\ len (c1 ++ ip ++ c2) = n.
Proof.
  intros H1 H2 H3 H4 H5. unfold octs_ok, len in *. split.
  - rewrite !forallb_app, H1, H2, H3. reflexivity.
  - rewrite !app_length. lia.
Qed.
Ltac gen_cat ip :=
  match goal with
  | Hi : octs_ok ip = true, Hl : len ip = 4%N |- context [VOctets (?a :: ?b :: ?c :: (ip ++ ?c2)%list)] =>
      let HX1 := fresh "HXo" in let HX2 := fresh "HXl" in
      destruct (cat_ok [a; b; c] ip c2 13%N eq_refl eq_refl Hi Hl eq_refl) as [HX1 HX2];
      change ([a; b; c] ++ ip ++ c2)%list with (a :: b :: c :: (ip ++ c2)%list) in HX1, HX2;
      revert HX1 HX2; generalize (a :: b :: c :: (ip ++ c2)%list); intros ?X HX1 HX2
  end.
Ltac gen_plmn s :=
  match goal with
  | Hp : octs_ok (e_plmn s) = true, Hl : len (e_plmn s) = 3%N |- _ => revert Hp Hl; generalize (e_plmn s); intros ?pl Hp Hl
  end.
(* several variants: which one the argument assignment selects *)
Ltac select_tac :=
  match goal with
  | Hs : match select _ _ with Some _ => true | None => false end = true |- _ =>
      cbn [select forallb cond_holds] in Hs |- *; unfold get_bytes in Hs |- *; cbv beta iota in Hs |- *;
      repeat match goal with H : lookup ?n ?l = Some _ |- _ => progress (try rewrite H in Hs; try rewrite H) end;
      cbv beta iota in Hs |- *;
      repeat match type of Hs with context [list_N_eqb ?a ?b] => destruct (list_N_eqb a b) end;
      cbn [andb] in Hs |- *; cbv beta iota in Hs |- *; try discriminate Hs
  end.
Ltac get_good lem := let G := fresh "G" in eassert (G : good _ _) by (eapply lem; eassumption); finish_tac G.

