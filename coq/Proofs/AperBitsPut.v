(* Refinement of the byte-level writer of marshal.go (perRawBitData = bytes + bitsOffset) to appending to a bit list.
   [repr s bl]: the state [s] represents the bit list [bl] - its octets are the bits of [bl] followed by zero bits up
   to the octet boundary (so the unused low bits of the last octet are zero) and bitsOffset = |bl| mod 8. *)
From Coq Require Import NArith ZArith List Bool Lia Arith.
From Coq Require Import ZifyN ZifyNat ZifyBool.
Require Import GoSlice Bits AperCommon AperEnc AperBits AperBitsGet AperEncProofs.
Import ListNotations.
Open Scope N_scope.
Ltac Zify.zify_post_hook ::= Z.div_mod_to_equations.
Local Arguments N.add : simpl never.
Local Arguments N.mul : simpl never.
Local Arguments N.sub : simpl never.
Local Arguments N.div : simpl never.
Local Arguments N.modulo : simpl never.
Local Arguments N.land : simpl never.
Local Arguments N.lor : simpl never.
Local Arguments N.shiftr : simpl never.
Local Arguments N.shiftl : simpl never.
Local Arguments N.pow : simpl never.

Definition repr (s : est) (bl : bits) : Prop :=
  bok (e_bytes s) /\ e_bitsOffset s = N.of_nat (length bl mod 8) /\
  bits_of_bytes (e_bytes s) = bl ++ repeat false (pad_len (length bl)).

(* all outputs considered are far below 2^40 bits (the 64-bit index arithmetic of the writer does not wrap) *)
Definition LIM : N := 1099511627776.
Definition small (bl : bits) : Prop := N.of_nat (length bl) < LIM.

Lemma small_app_l a b : small (a ++ b) -> small a.
Proof. unfold small. rewrite app_length. lia. Qed.
Lemma small_app_assoc a b c : small (a ++ b ++ c) -> small ((a ++ b) ++ c).
Proof. rewrite app_assoc. auto. Qed.
Lemma small_prefix a b c : small (a ++ b ++ c) -> small (a ++ b).
Proof. unfold small. rewrite !app_length. lia. Qed.

Lemma repr_init : repr (mkest [] 0) [].
Proof. unfold repr. cbn [e_bytes e_bitsOffset length]. split; [constructor|]. split; reflexivity. Qed.

Lemma repr_bytes_len s bl : repr s bl -> (8 * length (e_bytes s) = length bl + pad_len (length bl))%nat.
Proof.
  intros (_ & _ & H). apply (f_equal (@length bool)) in H. rewrite bits_of_bytes_length, app_length, repeat_length in H. exact H.
Qed.

Lemma repr_pack s bl : repr s bl -> e_bytes s = pack_bits bl.
Proof. intros (H1 & _ & H3). symmetry. apply pack_bits_repr; assumption. Qed.

Lemma repr_off_lt s bl : repr s bl -> e_bitsOffset s < 8.
Proof. intros (_ & H & _). rewrite H. lia. Qed.

Lemma repr_align s bl : repr s bl -> repr (appendAlignBits s) (bl ++ align (length bl)).
Proof.
  intros (H1 & H2 & H3). unfold repr, appendAlignBits, align. cbn [e_bytes e_bitsOffset].
  rewrite app_length, repeat_length. pose proof (pad_len_spec (length bl)) as Hp.
  split; [exact H1|]. split; [lia|]. rewrite H3, (pad_len_0 _ Hp). cbn [repeat]. rewrite app_nil_r. reflexivity.
Qed.

Lemma repr_append_bytes s bl bs : repr s bl -> (length bl mod 8 = 0)%nat -> bok bs ->
  repr (append_bytes s bs) (bl ++ bits_of_bytes bs).
Proof.
  intros (H1 & H2 & H3) Ha Hb. unfold repr, append_bytes. cbn [e_bytes e_bitsOffset].
  rewrite app_length, bits_of_bytes_length.
  split; [apply bok_app; auto|]. split; [rewrite H2; lia|].
  rewrite bits_of_bytes_app, H3. rewrite (pad_len_0 _ Ha). rewrite pad_len_0 by lia. cbn [repeat]. rewrite !app_nil_r. reflexivity.
Qed.

(* the state after whole octets were appended of which the last carries only [k] bits (appendBitString) *)
Lemma repr_set_offset s bl c : repr s (bl ++ c ++ repeat false (pad_len (length c))) -> (length bl mod 8 = 0)%nat ->
  repr (mkest (e_bytes s) (N.of_nat (length c mod 8))) (bl ++ c).
Proof.
  intros (H1 & H2 & H3) Ha. unfold repr. cbn [e_bytes e_bitsOffset].
  rewrite !app_length, repeat_length in H3. rewrite app_length.
  pose proof (pad_len_spec (length c)) as Hp.
  split; [exact H1|]. split; [lia|].
  rewrite H3. rewrite (pad_len_0 (length bl + (length c + pad_len (length c)))) by lia. cbn [repeat]. rewrite app_nil_r, <- app_assoc. f_equal. f_equal. f_equal.
  apply pad_len_mod. lia.
Qed.

(* ---------------------------------------------------------------- pd.bytes[cur] |= ... *)
Lemma or_last_snoc init x y : len init < 17592186044416 -> or_last (init ++ [x]) y = Ok (init ++ [N.lor x y]).
Proof.
  intros H. unfold or_last. rewrite len_app. change (len [x]) with 1.
  rewrite sub64_small by (unfold TWO64; lia). replace (len init + 1 - 1) with (len init) by lia.
  rewrite idx_mid. cbn [bind]. apply upd_mid.
Qed.

Lemma snoc_cases {A} (l : list A) : l = [] \/ exists init x, l = init ++ [x].
Proof.
  induction l as [|a l IH]; [left; reflexivity|right].
  destruct IH as [->|[init [x ->]]]; [exists [], a; reflexivity|exists (a :: init), x; reflexivity].
Qed.

(* merging a shifted string [d] (whose first [o] bits are zero) into a state whose last octet holds [o] bits *)
Lemma or_merge init x P o h tl c Z :
  bok (init ++ [x]) -> bok (h :: tl) -> (1 <= o < 8)%nat -> length P = o ->
  bits_of_N 8 x = P ++ repeat false (8 - o) ->
  bits_of_bytes (h :: tl) = repeat false o ++ c ++ Z ->
  bok (init ++ [N.lor x h] ++ tl) /\
  bits_of_bytes (init ++ [N.lor x h] ++ tl) = bits_of_bytes init ++ P ++ c ++ Z.
Proof.
  intros Hb1 Hb2 Ho HP Hx Hd.
  apply bok_app in Hb1. destruct Hb1 as [Hi Hxx]. apply bok_cons in Hxx. destruct Hxx as [Hx256 _].
  apply bok_cons in Hb2. destruct Hb2 as [Hh Htl].
  rewrite bits_of_bytes_cons in Hd.
  assert (E1 : skipn o (bits_of_N 8 x) = repeat false (8 - o)).
  { rewrite Hx. rewrite skipn_app_r by lia. rewrite HP. replace (o - o)%nat with O by lia. reflexivity. }
  assert (E2 : firstn o (bits_of_N 8 h) = repeat false o).
  { apply (f_equal (firstn o)) in Hd. rewrite firstn_app_l in Hd by (rewrite bits_of_N_length; lia).
    rewrite firstn_app_l in Hd by (rewrite repeat_length; lia). rewrite firstn_repeat, Nat.min_id in Hd. exact Hd. }
  destruct (S4 x h (N.of_nat o) Hx256 Hh ltac:(lia)) as [Hl Hlb]; rewrite ?Nat2N.id; auto.
  rewrite Nat2N.id in Hlb.
  split.
  - apply bok_app. split; [exact Hi|]. apply bok_cons. split; [exact Hl|exact Htl].
  - rewrite !bits_of_bytes_app, bits_of_bytes_cons, bits_of_bytes_nil, app_nil_r, Hlb. f_equal.
    rewrite Hx. rewrite firstn_app_l by lia. rewrite firstn_all2 by lia. rewrite <- app_assoc. f_equal.
    apply (f_equal (skipn o)) in Hd. rewrite skipn_app_l in Hd by (rewrite bits_of_N_length; lia).
    rewrite Hd. rewrite skipn_app_r by (rewrite repeat_length; lia). rewrite repeat_length. replace (o - o)%nat with O by lia. reflexivity.
Qed.

(* ---------------------------------------------------------------- putBitString *)
Theorem putBitString_repr s bl bs c :
  repr s bl -> bok bs -> (1 <= length c)%nat -> small (bl ++ c) ->
  bits_of_bytes bs = c ++ repeat false (pad_len (length c)) ->
  exists s', putBitString s bs (N.of_nat (length c)) = Ok s' /\ repr s' (bl ++ c).
Proof.
  intros Hs Hbs Hc1 Hsm Hbits. pose proof Hs as (H1 & H2 & H3).
  set (n := N.of_nat (length c)).
  assert (Hlen : (8 * length bs = length c + pad_len (length c))%nat).
  { apply (f_equal (@length bool)) in Hbits. rewrite bits_of_bytes_length, app_length, repeat_length in Hbits. exact Hbits. }
  pose proof (pad_len_lt (length c)) as Hpl. pose proof (pad_len_spec (length c)) as Hps.
  unfold small, LIM in Hsm. rewrite app_length in Hsm.
  assert (Hlb : len bs = (n + 7) / 8) by (unfold len, n; lia).
  unfold putBitString. rewrite u64_small by (unfold TWO64; lia). rewrite shiftr3. fold n. rewrite <- Hlb.
  unfold slice_to. rewrite N.leb_refl. unfold len. rewrite Nat2N.id, firstn_all. cbn [bind].
  pose proof (repr_bytes_len s bl Hs) as HBL. pose proof (pad_len_lt (length bl)) as Hpb. pose proof (pad_len_spec (length bl)) as Hpbs.
  destruct (e_bitsOffset s =? 0) eqn:E0.
  - (* octet aligned *)
    eexists. split; [reflexivity|]. unfold repr. cbn [e_bytes e_bitsOffset].
    assert (Hal : (length bl mod 8 = 0)%nat) by lia.
    rewrite app_length. split; [apply bok_app; auto|]. split; [rewrite land7; unfold n; lia|].
    rewrite bits_of_bytes_app, H3, Hbits. rewrite (pad_len_0 _ Hal). cbn [repeat]. rewrite app_nil_r, <- app_assoc. f_equal. f_equal. f_equal.
    apply pad_len_mod. lia.
  - set (o := (length bl mod 8)%nat) in *. assert (Ho : (1 <= o < 8)%nat) by lia.
    rewrite H2. rewrite sub64_small by (unfold TWO64; lia).
    destruct (snoc_cases (e_bytes s)) as [En|[init [x Ex]]]; [rewrite En in HBL; cbn [length] in HBL; lia|].
    rewrite Ex in *. rewrite app_length in HBL. cbn [length] in HBL.
    assert (Hil : len init < 17592186044416) by (unfold len; lia).
    (* split bl at the last octet boundary *)
    set (P := skipn (8 * length init) bl).
    assert (HblP : bl = bits_of_bytes init ++ P).
    { rewrite <- (firstn_skipn (8 * length init) bl) at 1. f_equal.
      rewrite bits_of_bytes_app in H3. apply (f_equal (firstn (8 * length init))) in H3.
      rewrite firstn_app_l in H3 by (rewrite bits_of_bytes_length; lia). rewrite firstn_all2 in H3 by (rewrite bits_of_bytes_length; lia).
      rewrite firstn_app_l in H3 by lia. symmetry. exact H3. }
    assert (HPl : length P = o) by (unfold P; rewrite skipn_length; lia).
    assert (Hxb : bits_of_N 8 x = P ++ repeat false (8 - o)).
    { rewrite bits_of_bytes_app in H3. apply (f_equal (skipn (8 * length init))) in H3.
      rewrite skipn_app_r in H3 by (rewrite bits_of_bytes_length; lia). rewrite bits_of_bytes_length in H3.
      replace (8 * length init - 8 * length init)%nat with O in H3 by lia. rewrite skipn_O in H3.
      rewrite bits_of_bytes_cons, bits_of_bytes_nil, app_nil_r in H3. rewrite H3.
      rewrite skipn_app_l by lia. fold P. f_equal. f_equal. unfold pad_len. lia. }
    assert (Hfin : forall h tl Z, bok (h :: tl) -> bits_of_bytes (h :: tl) = repeat false o ++ c ++ Z ->
              Z = repeat false (pad_len (o + length c)) ->
              repr (mkest (init ++ [N.lor x h] ++ tl) (N.land (u64 (N.land n 7 + N.of_nat o)) 7)) (bl ++ c)).
    { intros h tl Z Hd1 Hd2 HZ.
      destruct (or_merge init x P o h tl c Z H1 Hd1 Ho HPl Hxb Hd2) as [G1 G2].
      unfold repr. cbn [e_bytes e_bitsOffset]. split; [exact G1|]. rewrite app_length. split.
      - rewrite !land7. rewrite u64_small by (unfold TWO64; lia). unfold n. lia.
      - rewrite G2. rewrite <- (app_assoc bl c). rewrite HZ. rewrite (app_assoc (bits_of_bytes init) P). rewrite <- HblP.
        f_equal. f_equal. f_equal. apply pad_len_mod. lia. }
    destruct (n <=? 8 - N.of_nat o) eqn:Ecase.
    + (* the bits fit into the current octet *)
      assert (length bs = 1%nat) by (unfold n in *; lia).
      destruct bs as [|b0 [|? ?]]; cbn [length] in *; try lia.
      change (idx [b0] 0) with (Ok b0). cbn [bind].
      rewrite or_last_snoc by exact Hil. cbn [bind]. eexists. split; [reflexivity|].
      apply bok_cons in Hbs. destruct Hbs as [Hb0 _].
      destruct (S6 b0 (N.of_nat o) Hb0 ltac:(lia)) as [Hy Hyb]. rewrite Nat2N.id in Hyb.
      rewrite bits_of_bytes_cons, bits_of_bytes_nil, app_nil_r in Hbits.
      replace (init ++ [N.lor x (shr8 b0 (N.of_nat o))]) with (init ++ [N.lor x (shr8 b0 (N.of_nat o))] ++ []) by reflexivity.
      apply (Hfin _ [] (repeat false (pad_len (o + length c)))); [constructor; [exact Hy|constructor]| |reflexivity].
      rewrite bits_of_bytes_cons, bits_of_bytes_nil, app_nil_r, Hyb, Hbits. f_equal.
      rewrite firstn_app_r by (unfold n in *; lia). f_equal. rewrite firstn_repeat. f_equal. unfold pad_len, n in *. lia.
    + (* they spill over: shift through GetBitString *)
      rewrite (u64_small (N.of_nat o + n)) by (unfold TWO64, n; lia).
      destruct (GetBitString_bits (0 :: bs) (8 - N.of_nat o) (N.of_nat o + n)) as (d & Hd & Hdok & Hdlen & Hdbits);
        try (rewrite ?len_cons; unfold n, len in *; lia).
      { apply bok_cons. split; [lia|exact Hbs]. }
      rewrite Hd. cbn [bind].
      destruct d as [|h tl]; [unfold len, n in Hdlen; cbn [length] in Hdlen; lia|].
      change (idx (h :: tl) 0) with (Ok h). cbn [bind]. rewrite or_last_snoc by exact Hil. cbn [bind].
      unfold slice_from. rewrite len_cons. assert (1 <=? len tl + 1 = true) as -> by lia. cbn [bind].
      change (skipn (N.to_nat 1) (h :: tl)) with tl. eexists. split; [reflexivity|].
      rewrite <- app_assoc. apply (Hfin h tl (repeat false (pad_len (o + length c)))); [exact Hdok| |reflexivity].
      rewrite Hdbits. rewrite bits_of_bytes_cons, Hbits, bits_of_N_zero.
      replace (N.to_nat (8 - N.of_nat o)) with (8 - o)%nat by lia.
      replace (N.to_nat (N.of_nat o + n)) with (o + length c)%nat by (unfold n; lia).
      rewrite skipn_app_l by (rewrite repeat_length; lia). rewrite skipn_repeat. replace (8 - (8 - o))%nat with o by lia.
      rewrite app_assoc. rewrite firstn_app_l by (rewrite app_length, repeat_length; lia).
      rewrite firstn_all2 by (rewrite app_length, repeat_length; lia). rewrite <- app_assoc. reflexivity.
Qed.

(* ---------------------------------------------------------------- putBitsValue *)
Lemma pbv_loop_spec : forall k f value post, value < 256 ^ N.of_nat k -> (k < f)%nat ->
  pbv_loop f (Z.of_nat k - 1) value (repeat 0 k ++ post) = Ok (be_bytes k value ++ post).
Proof.
  induction k as [|k IH]; intros f value post Hv Hf.
  - destruct f; [lia|]. cbn [pbv_loop]. change (256 ^ N.of_nat 0) with 1 in Hv. assert (value =? 0 = true) as -> by lia. reflexivity.
  - destruct f as [|f]; [lia|]. cbn [pbv_loop]. destruct (value =? 0) eqn:E0.
    + assert (value = 0) by lia. subst value. rewrite be_bytes_zero. reflexivity.
    + assert ((Z.of_nat (S k) - 1 <? 0)%Z = false) as -> by lia.
      rewrite <- (repeat_snoc 0 k). rewrite <- app_assoc. cbn [app].
      rewrite (upd_mid' (repeat 0 k) 0 post) by (unfold len; rewrite repeat_length; lia). cbn [bind].
      replace (Z.of_nat (S k) - 1 - 1)%Z with (Z.of_nat k - 1)%Z by lia.
      rewrite shiftr8. rewrite IH; [|rewrite pow256_succ in Hv; apply N.div_lt_upper_bound; lia|lia].
      cbn [be_bytes]. rewrite land255. rewrite <- app_assoc. reflexivity.
Qed.

Lemma pow2_split a b : 2 ^ (a + b) = 2 ^ a * 2 ^ b.
Proof. apply N.pow_add_r. Qed.

Theorem putBitsValue_repr s bl v n :
  repr s bl -> n <= 64 -> v < 2 ^ n -> small (bl ++ bits_of_N (N.to_nat n) v) ->
  exists s', putBitsValue s v n = Ok s' /\ repr s' (bl ++ bits_of_N (N.to_nat n) v).
Proof.
  intros Hs Hn Hv Hsm. unfold putBitsValue. destruct (n =? 0) eqn:E0.
  - assert (n = 0) by lia. subst n. cbn [N.to_nat bits_of_N]. rewrite app_nil_r. eexists. split; [reflexivity|exact Hs].
  - rewrite u64_small by (unfold TWO64; lia). rewrite shiftr3, land7.
    set (K := N.to_nat ((n + 7) / 8)). set (L := pad_len (N.to_nat n)).
    assert (HK : (n + 7) / 8 = N.of_nat K) by (unfold K; lia).
    assert (HK8 : (1 <= K <= 8)%nat) by (unfold K; lia).
    assert (HL : (L < 8)%nat) by apply pad_len_lt.
    assert (HnL : (N.to_nat n + L = 8 * K)%nat) by (unfold L, K, pad_len; lia).
    assert (HLo : 8 - (if n mod 8 =? 0 then 8 else n mod 8) = N.of_nat L) by (unfold L, pad_len; destruct (n mod 8 =? 0) eqn:E; lia).
    assert (Hbo : (if n mod 8 =? 0 then 8 else n mod 8) = 8 - N.of_nat L) by (unfold L, pad_len; destruct (n mod 8 =? 0) eqn:E; lia).
    rewrite HK. unfold make_bytes, MAXALLOC. assert (N.of_nat K <=? 281474976710656 = true) as -> by lia. cbn [bind].
    rewrite Nat2N.id. rewrite HLo, Hbo.
    set (W := v * 2 ^ N.of_nat L).
    assert (HW : W < 256 ^ N.of_nat K).
    { unfold W. replace (256 ^ N.of_nat K) with (2 ^ n * 2 ^ N.of_nat L).
      - apply N.mul_lt_mono_pos_r; [apply N.neq_0_lt_0; apply N.pow_nonzero; lia|exact Hv].
      - rewrite <- N.pow_add_r. change 256 with (2 ^ 8). rewrite <- N.pow_mul_r. f_equal. lia. }
    assert (HW64 : W < TWO64).
    { eapply N.lt_le_trans; [exact HW|]. change TWO64 with (256 ^ 8). apply N.pow_le_mono_r; lia. }
    assert (Hsh : N.land (shl64 v (N.of_nat L)) 255 = W mod 256).
    { unfold shl64. assert (N.of_nat L <? 64 = true) as -> by lia. rewrite N.shiftl_mul_pow2. fold W.
      rewrite (N.mod_small W) by exact HW64. apply land255. }
    assert (Hshr : shr64 v (8 - N.of_nat L) = W / 256).
    { unfold shr64. assert (8 - N.of_nat L <? 64 = true) as -> by lia. rewrite N.shiftr_div_pow2. unfold W.
      replace 256 with (2 ^ (8 - N.of_nat L) * 2 ^ N.of_nat L) by (rewrite <- N.pow_add_r; replace (8 - N.of_nat L + N.of_nat L) with 8 by lia; reflexivity).
      rewrite N.div_mul_cancel_r by (apply N.pow_nonzero; lia). reflexivity. }
    rewrite Hsh, Hshr.
    destruct K as [|K']; [lia|].
    rewrite sub64_small by (unfold TWO64; lia).
    rewrite <- (repeat_snoc 0 K').
    rewrite (upd_mid' (repeat 0 K') 0 []) by (unfold len; rewrite repeat_length; lia). cbn [bind].
    replace (Z.of_N (N.of_nat (S K')) - 2)%Z with (Z.of_nat K' - 1)%Z by lia.
    rewrite pbv_loop_spec; [|rewrite pow256_succ in HW; apply N.div_lt_upper_bound; lia|lia]. cbn [bind].
    change (be_bytes K' (W / 256) ++ [W mod 256]) with (be_bytes (S K') W).
    destruct (putBitString_repr s bl (be_bytes (S K') W) (bits_of_N (N.to_nat n) v)) as (s' & E & R); auto.
    + apply be_bytes_bok.
    + rewrite bits_of_N_length. lia.
    + rewrite be_bytes_bits, bits_of_N_length. fold L. rewrite <- HnL. unfold W. apply bits_of_N_shift.
    + rewrite bits_of_N_length, N2Nat.id in E. exists s'. auto.
Qed.

(* ---------------------------------------------------------------- lists of writer operations *)
Definition op_ok (pos : nat) (o : op) : Prop :=
  match o with
  | OPut v n => n <= 64 /\ v < 2 ^ n
  | OPutStr bs n => bok bs /\ 1 <= n /\ len bs = (n + 7) / 8
                    /\ bits_of_bytes bs = firstn (N.to_nat n) (bits_of_bytes bs) ++ repeat false (pad_len (N.to_nat n))
  | OAlign => True
  | OBytes bs => bok bs /\ (pos mod 8 = 0)%nat
  end.
Fixpoint ops_ok (pos : nat) (ops : list op) : Prop :=
  match ops with
  | [] => True
  | o :: r => op_ok pos o /\ ops_ok (pos + length (op_bits pos o)) r
  end.

Definition emits (r : res est) (bl b : bits) : Prop := exists s', r = Ok s' /\ repr s' (bl ++ b).

Lemma emits_nil s bl : repr s bl -> emits (Ok s) bl [].
Proof. intros H. exists s. rewrite app_nil_r. auto. Qed.

Lemma emits_bind r f bl b1 b2 :
  emits r bl b1 -> (forall s', repr s' (bl ++ b1) -> emits (f s') (bl ++ b1) b2) -> emits (bind r f) bl (b1 ++ b2).
Proof.
  intros (s1 & -> & H1) Hf. cbn [bind]. destruct (Hf s1 H1) as (s2 & E & H2). exists s2. split; [exact E|].
  rewrite app_assoc. exact H2.
Qed.

Theorem run_ops_refines : forall ops s bl,
  repr s bl -> ops_ok (length bl) ops -> small (bl ++ ops_bits (length bl) ops) ->
  emits (run_ops s ops) bl (ops_bits (length bl) ops).
Proof.
  induction ops as [|o r IH]; intros s bl Hs Hok Hsm.
  - cbn [run_ops ops_bits]. apply emits_nil. exact Hs.
  - cbn [ops_ok] in Hok. destruct Hok as [Ho Hr]. cbn [ops_bits] in *.
    assert (Hstep : forall s1, repr s1 (bl ++ op_bits (length bl) o) ->
              emits (run_ops s1 r) (bl ++ op_bits (length bl) o) (ops_bits (length bl + length (op_bits (length bl) o)) r)).
    { intros s1 H1. rewrite <- app_length. apply IH; [exact H1|rewrite app_length; exact Hr|].
      rewrite app_length, <- app_assoc. exact Hsm. }
    destruct o as [v n|bs n| |bs]; cbn [run_ops op_bits] in *.
    + destruct Ho as [Hn Hv]. apply emits_bind; [|exact Hstep].
      apply putBitsValue_repr; auto. apply small_prefix in Hsm. exact Hsm.
    + destruct Ho as (Hb & Hn1 & Hl & Hz). apply emits_bind; [|exact Hstep].
      assert (Hc : length (firstn (N.to_nat n) (bits_of_bytes bs)) = N.to_nat n).
      { apply firstn_length_le. rewrite bits_of_bytes_length. unfold len in Hl. lia. }
      destruct (putBitString_repr s bl bs (firstn (N.to_nat n) (bits_of_bytes bs))) as (s' & E & R); auto; try (rewrite Hc; lia).
      * apply small_prefix in Hsm. exact Hsm.
      * rewrite Hc. exact Hz.
      * rewrite Hc, N2Nat.id in E. exists s'. auto.
    + destruct (Hstep (appendAlignBits s) (repr_align s bl Hs)) as (s2 & E & H2). exists s2. split; [exact E|].
      rewrite app_assoc. exact H2.
    + destruct Ho as [Hb Ha].
      destruct (Hstep (append_bytes s bs) (repr_append_bytes s bl bs Hs Ha Hb)) as (s2 & E & H2). exists s2. split; [exact E|].
      rewrite app_assoc. exact H2.
Qed.
