(* Statically non-empty types have non-empty X.691 encodings ([ne_f] of AperRoundDefs.v is sound). *)
From Coq Require Import String NArith ZArith List Bool Lia Arith.
From Coq Require Import ZifyN ZifyNat ZifyBool.
Require Import GoSlice Bits AperCommon AperEnc AperDec Asn1 X691 Asn1Tags AperBits AperBitsGet AperBitsPut AperEncProofs
        AperStructPrim AperStructStr AperStructDefs AperStructLeaf AperStructSeq AperStructFld AperStructMain AperRoundGet AperRoundPrim AperRoundDefs.
Import ListNotations.
Open Scope N_scope.
Ltac Zify.zify_post_hook ::= Z.div_mod_to_equations.
Local Arguments N.add : simpl never.
Local Arguments N.mul : simpl never.
Local Arguments N.sub : simpl never.
Local Arguments N.div : simpl never.
Local Arguments N.modulo : simpl never.
Local Arguments N.land : simpl never.
Local Arguments N.lor : simpl never.
Local Arguments N.shiftr : simpl never.
Local Arguments N.shiftl : simpl never.
Local Arguments N.pow : simpl never.

Lemma ne_len (b : bits) : (1 <= length b)%nat -> b <> [].
Proof. intros H ->. cbn in H. lia. Qed.
Lemma app_ne_l (a b : bits) : a <> [] -> a ++ b <> [].
Proof. destruct a; [congruence|discriminate]. Qed.
Lemma app_ne_r (a b : bits) : b <> [] -> a ++ b <> [].
Proof. destruct a; [auto|discriminate]. Qed.

Lemma cwn_nonempty range v pos e : 2 <= range -> cwn range v pos = XOk e -> e <> [].
Proof.
  intros Hr H. unfold cwn in H. destruct ((range =? 0) || (range <=? v)); [discriminate|].
  assert (range =? 1 = false) as E by lia. rewrite E in H.
  destruct (range <=? 255) eqn:E1.
  { apply xok_inj in H. subst e. apply ne_len. rewrite bits_of_N_length. unfold log2up_nat.
    pose proof (N.log2_up_le_mono 2 range ltac:(lia)) as H2. change (N.log2_up 2) with 1 in H2. lia. }
  destruct (range =? 256); [apply xok_inj in H; subst e; apply app_ne_r; apply ne_len; rewrite bits_of_N_length; lia|].
  destruct (range <=? 65536); [apply xok_inj in H; subst e; apply app_ne_r; apply ne_len; rewrite bits_of_N_length; lia|].
  apply xok_inj in H. subst e. apply app_ne_r. apply app_ne_r. apply ne_len. rewrite bits_of_N_length.
  pose proof (octs_fuel_pos 16 v). unfold octs. lia.
Qed.
Lemma lendet_nonempty n pos e : lendet n pos = XOk e -> e <> [].
Proof.
  unfold lendet. destruct (n <? 128); [|destruct (n <? 16384)]; intros H; try discriminate; apply xok_inj in H; subst e;
    apply app_ne_r; apply ne_len; rewrite bits_of_N_length; lia.
Qed.

Lemma enc_string_nonempty lb ub ext n content small pos b :
  (0 <= lb <= ub)%Z -> (0 < ub < 65536)%Z -> (n = N.of_nat (length content) \/ N.of_nat (length content) = 8 * n) ->
  enc_string (Z.to_N lb) (Some (Z.to_N ub)) ext n content small pos = XOk b -> b <> [].
Proof.
  intros Hlb Hub Hc H. unfold enc_string, size_prefix, size_inroot, size_fixed in H.
  assert (Z.to_N ub <? 65536 = true) as Eu by lia. rewrite Eu in H.
  destruct ((Z.to_N lb <=? n) && (n <=? Z.to_N ub)) eqn:Ein; cbn [negb] in H.
  - rewrite andb_false_r in H. destruct (Z.to_N lb =? Z.to_N ub) eqn:Efix.
    + cbn [xbind andb] in H. assert (Hcn : content <> []) by (intros ->; cbn in Hc; lia).
      destruct small; apply xok_inj in H; subst b; apply app_ne_r; [|apply app_ne_r]; exact Hcn.
    + destruct (cwn _ _ _) as [L| |] eqn:EL; cbn [xbind] in H; try discriminate. cbn [andb] in H.
      assert (L <> []) by (eapply cwn_nonempty; [|exact EL]; lia).
      destruct (n =? 0); apply xok_inj in H; subst b; [apply app_ne_r; exact H0|].
      rewrite <- app_assoc. apply app_ne_r. apply app_ne_l. exact H0.
  - rewrite andb_true_r in H. destruct ext; [|discriminate].
    destruct (lendet n (S pos)) as [L| |]; cbn [xbind] in H; try discriminate.
    rewrite andb_false_r in H. destruct (n =? 0); apply xok_inj in H; subst b; discriminate.
Qed.

Lemma enc_string_unc_nonempty n content small pos b : enc_string 0 None false n content small pos = XOk b -> b <> [].
Proof.
  intros H. unfold enc_string, size_prefix, size_inroot, size_fixed in H. cbn [andb negb] in H.
  destruct (0 <=? n); cbn [andb negb app length] in H; [|discriminate]. rewrite Nat.add_0_r in H.
  destruct (lendet n pos) as [L| |] eqn:EL; cbn [xbind] in H; try discriminate.
  pose proof (lendet_nonempty _ _ _ EL). cbn [app] in H.
  destruct (n =? 0); apply xok_inj in H; subst b; [exact H0|apply app_ne_l; exact H0].
Qed.

Lemma seq_bitmap_length f1 allf : forall fr cr, length fr = length cr ->
  N.of_nat (length (seq_bitmap (map (gty f1 allf) fr) cr)) = count_optional fr.
Proof.
  induction fr as [|f fr IH]; intros cr Hl; destruct cr as [|c cr]; try discriminate; [reflexivity|].
  injection Hl as Hl. unfold seq_bitmap in *. cbn [map combine flat_map]. rewrite app_length, count_optional_cons.
  rewrite (surjective_pairing (gty f1 allf f)), gty_opt. specialize (IH cr Hl).
  destruct (p_optional (f_params f)); destruct c; cbn [length]; lia.
Qed.

Lemma comp_enc_t2a vs n t p cv pos : comp_enc vs (t2a n t p) cv pos = x691 (t2a n t p) cv pos.
Proof. unfold comp_enc. destruct (t2a n t p) eqn:Et; try reflexivity. exfalso. eapply t2a_not_open; eauto. Qed.

Theorem ne_enc : forall n t, (ty_depth t <= n)%nat -> forall n1 n4 n5 p av pos b,
  (ty_depth t <= n1)%nat -> (ty_depth t <= n4)%nat -> (ty_depth t <= n5)%nat ->
  ne_f n5 t p = true -> supa_f n4 t p av = true -> x691 (t2a n1 t p) av pos = XOk b -> b <> [].
Proof.
  induction n as [|n IH]; intros t Hd; [pose proof (ty_depth_pos t); lia|].
  intros n1 n4 n5 p av pos b D1 D4 D5 Hne Hs Hx.
  destruct n1 as [|n1]; [pose proof (ty_depth_pos t); lia|]. destruct n4 as [|n4]; [pose proof (ty_depth_pos t); lia|].
  destruct n5 as [|n5]; [pose proof (ty_depth_pos t); lia|].
  destruct t as [| | | | | | |e|e|fs]; cbn [supa_f] in Hs; cbn [ne_f] in Hne; [cbn [t2a] in Hx ..|].
  - (* INTEGER *)
    destruct av; try discriminate. apply andb_true_iff in Hs. destruct Hs as [Hs _]. unfold int_ok in Hs.
    destruct (p_valueLB p) as [l|]; [|discriminate]. destruct (p_valueUB p) as [u|]; [|discriminate]. bools.
    cbn [x691] in Hx. unfold enc_int in Hx.
    assert ((l <=? z)%Z && (z <=? u)%Z = true) as Ein by lia. rewrite Ein in Hx. cbn [negb] in Hx. rewrite andb_false_r in Hx.
    destruct (cwn _ _ _) as [e| |] eqn:Ee; cbn [xbind] in Hx; try discriminate. apply xok_inj in Hx. subst b.
    destruct (p_valueExt p); [discriminate|]. cbn [orb app] in *. eapply cwn_nonempty; [|exact Ee]. lia.
  - (* ENUMERATED *)
    destruct av; try discriminate. apply andb_true_iff in Hs. destruct Hs as [Hs _]. unfold enum_ok in Hs.
    destruct (p_valueLB p) as [[| |]|]; try discriminate. destruct (p_valueUB p) as [u|]; [|discriminate]. bools.
    assert ((u <? 0)%Z = false) as E by lia. rewrite E in Hx. cbn [x691] in Hx.
    destruct (Z.to_N u + 1 <=? i); [discriminate|].
    destruct (cwn _ _ _) as [e| |] eqn:Ee; cbn [xbind] in Hx; try discriminate. apply xok_inj in Hx. subst b.
    destruct (p_valueExt p); [discriminate|]. cbn [orb app] in *. eapply cwn_nonempty; [|exact Ee]. lia.
  - destruct av; try discriminate. cbn [x691] in Hx. apply xok_inj in Hx. subst b. discriminate.
  - (* BIT STRING *)
    destruct av; try discriminate. apply andb_true_iff in Hs. destruct Hs as [Hs _]. unfold str_ok in Hs. bools.
    destruct (p_sizeLB p) as [l|], (p_sizeUB p) as [u|]; try discriminate.
    + bools. rewrite size_lb_some, size_ub_some in Hx by lia. cbn [x691] in Hx. apply (fun A B C => enc_string_nonempty _ _ _ _ _ _ _ _ A B C Hx); [lia|lia|left; reflexivity].
    + cbn [size_lb size_ub x691] in Hx. destruct (p_sizeExt p); [discriminate|]. eapply enc_string_unc_nonempty; eauto.
  - (* OCTET STRING *)
    destruct av; try discriminate. apply andb_true_iff in Hs. destruct Hs as [Hs _]. unfold str_ok in Hs. bools.
    destruct (p_sizeLB p) as [l|], (p_sizeUB p) as [u|]; try discriminate.
    + bools. rewrite size_lb_some, size_ub_some in Hx by lia. cbn [x691] in Hx. destruct (forallb _ bs); [|discriminate].
      apply (fun A B C => enc_string_nonempty _ _ _ _ _ _ _ _ A B C Hx); [lia|lia|right; rewrite bits_of_bytes_length; lia].
    + cbn [size_lb size_ub x691] in Hx. destruct (p_sizeExt p); [discriminate|]. destruct (forallb _ bs); [|discriminate]. eapply enc_string_unc_nonempty; eauto.
  - destruct av; try discriminate. apply andb_true_iff in Hs. destruct Hs as [Hs _]. unfold str_ok in Hs. bools.
    destruct (p_sizeLB p) as [l|], (p_sizeUB p) as [u|]; try discriminate.
    + bools. rewrite size_lb_some, size_ub_some in Hx by lia. cbn [x691] in Hx. destruct (forallb _ bs); [|discriminate].
      apply (fun A B C => enc_string_nonempty _ _ _ _ _ _ _ _ A B C Hx); [lia|lia|right; rewrite bits_of_bytes_length; lia].
    + cbn [size_lb size_ub x691] in Hx. destruct (p_sizeExt p); [discriminate|]. destruct (forallb _ bs); [|discriminate]. eapply enc_string_unc_nonempty; eauto.
  - discriminate.
  - (* SEQUENCE OF *)
    destruct av; try discriminate. bools. unfold slice_ok in H.
    destruct (p_sizeLB p) as [lb|] eqn:Elb; [|discriminate]. destruct (p_sizeUB p) as [ub|] eqn:Eub; [|discriminate]. bools.
    rewrite size_lb_some, size_ub_some in Hx by lia. rewrite x691_seqof in Hx.
    destruct (size_prefix _ _ _ _ _) as [pre| |] eqn:Epre; cbn [xbind] in Hx; try discriminate.
    destruct (x_elems_prefix _ _ _ _ _ Hx) as [r ->]. apply app_ne_l.
    unfold size_prefix, size_inroot in Epre. assert (Z.to_N ub <? 65536 = true) as Eu by lia. rewrite Eu in Epre.
    destruct ((Z.to_N lb <=? N.of_nat (length l)) && (N.of_nat (length l) <=? Z.to_N ub)) eqn:Ein; cbn [negb] in Epre.
    + rewrite andb_false_r in Epre. destruct (p_sizeExt p).
      * destruct (if Z.to_N lb =? Z.to_N ub then _ else _); cbn [xbind] in Epre; try discriminate. apply xok_inj in Epre. subst pre. discriminate.
      * cbn [orb] in Hne. assert (Z.to_N lb =? Z.to_N ub = false) as E by lia. rewrite E in Epre.
        destruct (cwn _ _ _) as [L| |] eqn:EL; cbn [xbind] in Epre; try discriminate. apply xok_inj in Epre. subst pre. cbn [app].
        eapply cwn_nonempty; [|exact EL]. lia.
    + rewrite andb_true_r in Epre. destruct (p_sizeExt p); [|discriminate].
      destruct (lendet _ _); cbn [xbind] in Epre; try discriminate. apply xok_inj in Epre. subst pre. discriminate.
  - (* pointer *)
    cbn [ty_depth] in *. eapply (IH e ltac:(lia) n1 n4 n5); eauto; lia.
  - (* struct *)
    rewrite ty_depth_struct in *. apply andb_true_iff in Hs. destruct Hs as [_ Hs].
    destruct av; try discriminate.
    + (* SEQUENCE *)
      bools. assert (Ech : is_choice fs = false) by (destruct (is_choice fs); [discriminate|reflexivity]). rewrite Ech in *.
      rewrite t2a_seq in Hx by exact Ech. rewrite x691_seq in Hx. rewrite map_length in Hx.
      match type of Hx with (if negb ?c then _ else _) = _ => destruct c eqn:El end; cbn [negb] in Hx; [|discriminate]. apply Nat.eqb_eq in El.
      destruct (x_comps_prefix _ _ _ _ _ _ Hx) as [r Hb].
      destruct (p_valueExt p) eqn:Eve; [subst b; discriminate|]. cbn [orb app] in *.
      destruct (0 <? count_optional fs) eqn:Eco.
      * subst b. apply app_ne_l. apply ne_len. pose proof (seq_bitmap_length n1 fs fs fs0 El). lia.
      * cbn [orb] in Hne. destruct fs as [|f0 fr]; [discriminate|]. bools.
        destruct fs0 as [|c0 cr]; [discriminate|].
        match goal with HF : fields_supa _ _ _ _ _ _ = true |- _ => cbn [fields_supa] in HF; apply andb_true_iff in HF; destruct HF as [HF1 HF2] end.
        cbn [map] in Hx. rewrite (surjective_pairing (gty n1 (f0 :: fr) f0)), gty_opt in Hx. rewrite x_comps_cons in Hx.
        assert (Eo : p_optional (f_params f0) = false) by (destruct (p_optional (f_params f0)); [discriminate|reflexivity]).
        assert (Eop : p_openType (f_params f0) = false) by (destruct (p_openType (f_params f0)); [discriminate|reflexivity]).
        rewrite Eo in Hx. destruct c0 as [cv|]; [|discriminate].
        unfold gty in Hx. rewrite Eop in Hx. cbn [snd] in Hx.
        destruct (comp_enc _ _ cv _) as [e| |] eqn:Ee; cbn [xbind] in Hx; try discriminate.
        destruct (x_comps_prefix _ _ _ _ _ _ Hx) as [r' Hb']. rewrite Hb'. apply app_ne_l. apply app_ne_r.
        rewrite comp_enc_t2a in Ee.
        unfold field_supa in HF1. rewrite Eop in HF1. apply andb_true_iff in HF1. destruct HF1 as [_ HF1]. apply andb_true_iff in HF1. destruct HF1 as [HF1 _].
        cbn [fdepth] in *.
        eapply (IH (f_ty f0) ltac:(lia) n1 n4 n5 (f_params f0) cv); try lia; eauto.
    + (* CHOICE *)
      apply andb_true_iff in Hs; destruct Hs as [Hs Hnth]. apply andb_true_iff in Hs; destruct Hs as [Hs Hc0]. apply andb_true_iff in Hs; destruct Hs as [Hch Hco].
      unfold choice_ok in Hco. apply andb_true_iff in Hco; destruct Hco as [Hno Hco].
      destruct (p_valueUB p) as [u|] eqn:Eu; [|discriminate]. bools.
      cbn [t2a] in Hx. rewrite Hch in Hx. assert (Eop : p_openType p = false) by (destruct (p_openType p); [discriminate|reflexivity]). rewrite Eop, Eu in Hx.
      normty. assert (Hcond : ((u + 1 =? Z.of_nat (length (tl fs))) && (0 <? u + 1))%Z = true) by lia. rewrite Hcond in Hx.
      cbn [x691] in Hx. rewrite map_length in Hx.
      destruct (nth_error _ (N.to_nat idx)) as [at'|]; [|discriminate].
      normty. assert (Nat.eqb (length (tl fs)) 1 = false) as E1 by (apply Nat.eqb_neq; lia). rewrite E1 in Hx.
      destruct (cwn _ _ _) as [ib| |] eqn:Eib; cbn [xbind] in Hx; try discriminate.
      destruct (x691 at' av _) as [e| |]; cbn [xbind] in Hx; try discriminate. apply xok_inj in Hx. subst b.
      apply app_ne_l. apply app_ne_r. eapply cwn_nonempty; [|exact Eib]. lia.
Qed.
