(* Bit-list toolbox for the refinement of the byte-level APER writer / reader (perRawBitData, perBitData) to
   bit lists: big-endian bit fields, octets <-> bits, packing, and the byte-pair shift identities.
   The shift identities range over octets and bit offsets only (a finite domain): they are proved by an exhaustive
   sweep ([forallb ... = true] by vm_compute) and lifted with forallb_forall. *)
From Coq Require Import NArith ZArith List Bool Lia Arith.
From Coq Require Import ZifyN ZifyNat ZifyBool.
Require Import GoSlice Bits.
Import ListNotations.
Open Scope N_scope.
Ltac Zify.zify_post_hook ::= Z.div_mod_to_equations.
Local Arguments N.add : simpl never.
Local Arguments N.mul : simpl never.
Local Arguments N.sub : simpl never.
Local Arguments N.div : simpl never.
Local Arguments N.modulo : simpl never.
Local Arguments N.land : simpl never.
Local Arguments N.lor : simpl never.
Local Arguments N.shiftr : simpl never.
Local Arguments N.shiftl : simpl never.
Local Arguments N.pow : simpl never.

Definition bok (l : list N) : Prop := Forall (fun b => b < 256) l.

Lemma bok_app a b : bok (a ++ b) <-> bok a /\ bok b.
Proof. apply Forall_app. Qed.
Lemma bok_nil : bok [].
Proof. constructor. Qed.
Lemma bok_cons x l : bok (x :: l) <-> x < 256 /\ bok l.
Proof. split; [intros H; inversion H; auto|intros [A B]; constructor; auto]. Qed.
Lemma bok_firstn n l : bok l -> bok (firstn n l).
Proof.
  revert n; induction l as [|x l IH]; intros n H; destruct n; cbn [firstn]; try constructor.
  - inversion H; assumption.
  - apply IH. inversion H; assumption.
Qed.
Lemma bok_skipn n l : bok l -> bok (skipn n l).
Proof.
  revert n; induction l as [|x l IH]; intros n H; destruct n; cbn [skipn]; auto.
  apply IH. inversion H; assumption.
Qed.
Lemma bok_repeat0 n : bok (repeat 0 n).
Proof. induction n; cbn [repeat]; constructor; [lia|assumption]. Qed.
Lemma bok_forallb l : forallb (fun b => b <? 256) l = true -> bok l.
Proof.
  intros H. rewrite forallb_forall in H. apply Forall_forall. intros x Hx. specialize (H x Hx). lia.
Qed.

(* ---------------------------------------------------------------- lists *)
Lemma skipn_skipn {A} a b (l : list A) : skipn a (skipn b l) = skipn (b + a) l.
Proof.
  revert l; induction b as [|b IH]; intros l; [reflexivity|].
  destruct l as [|x l]; [destruct a; reflexivity|]. cbn [skipn Nat.add]. apply IH.
Qed.
Lemma firstn_add {A} a b (l : list A) : firstn (a + b) l = firstn a l ++ firstn b (skipn a l).
Proof.
  revert l; induction a as [|a IH]; intros l; [reflexivity|].
  destruct l as [|x l]; [destruct b; reflexivity|]. cbn [firstn skipn Nat.add app]. f_equal. apply IH.
Qed.
Lemma firstn_repeat {A} (x : A) a b : firstn a (repeat x b) = repeat x (Nat.min a b).
Proof.
  revert b; induction a as [|a IH]; intros b; [reflexivity|]. destruct b; [reflexivity|].
  cbn [firstn repeat Nat.min]. f_equal. apply IH.
Qed.
Lemma skipn_repeat {A} (x : A) a b : skipn a (repeat x b) = repeat x (b - a).
Proof.
  revert b; induction a as [|a IH]; intros b; [cbn; f_equal; lia|]. destruct b; [reflexivity|].
  cbn [skipn repeat Nat.sub]. apply IH.
Qed.
Lemma firstn_app_l {A} n (a b : list A) : (n <= length a)%nat -> firstn n (a ++ b) = firstn n a.
Proof. intros H. rewrite firstn_app. replace (n - length a)%nat with O by lia. cbn [firstn]. apply app_nil_r. Qed.
Lemma firstn_app_r {A} n (a b : list A) : (length a <= n)%nat -> firstn n (a ++ b) = a ++ firstn (n - length a) b.
Proof. intros H. rewrite firstn_app. rewrite firstn_all2 by exact H. reflexivity. Qed.
Lemma skipn_app_l {A} n (a b : list A) : (n <= length a)%nat -> skipn n (a ++ b) = skipn n a ++ b.
Proof. intros H. rewrite skipn_app. replace (n - length a)%nat with O by lia. reflexivity. Qed.
Lemma skipn_app_r {A} n (a b : list A) : (length a <= n)%nat -> skipn n (a ++ b) = skipn (n - length a) b.
Proof. intros H. rewrite skipn_app. rewrite skipn_all2 by exact H. reflexivity. Qed.
Lemma repeat_snoc {A} (x : A) n : repeat x n ++ [x] = repeat x (S n).
Proof. symmetry. apply repeat_cons. Qed.
Lemma len_app {A} (a b : list A) : len (a ++ b) = len a + len b.
Proof. unfold len. rewrite app_length. lia. Qed.
Lemma len_cons {A} (x : A) l : len (x :: l) = len l + 1.
Proof. unfold len. cbn [length]. lia. Qed.
Lemma len_nil {A} : len (@nil A) = 0.
Proof. reflexivity. Qed.

(* ---------------------------------------------------------------- Go slice primitives on decomposed lists *)
Lemma idx_mid a x b : idx (a ++ x :: b) (len a) = Ok x.
Proof.
  unfold idx. rewrite len_app, len_cons. assert (len a <? len a + (len b + 1) = true) as -> by lia.
  unfold len. rewrite Nat2N.id. rewrite nth_middle. reflexivity.
Qed.
Lemma idx_mid' a x b i : i = len a -> idx (a ++ x :: b) i = Ok x.
Proof. intros ->. apply idx_mid. Qed.
Lemma upd_nat_mid a x b v : upd_nat (a ++ x :: b) (length a) v = a ++ v :: b.
Proof. induction a as [|y a IH]; cbn [app length upd_nat]; [reflexivity|]. rewrite IH. reflexivity. Qed.
Lemma upd_mid a x b v : upd (a ++ x :: b) (len a) v = Ok (a ++ v :: b).
Proof.
  unfold upd. rewrite len_app, len_cons. assert (len a <? len a + (len b + 1) = true) as -> by lia.
  unfold len. rewrite Nat2N.id. rewrite upd_nat_mid. reflexivity.
Qed.
Lemma upd_mid' a x b v i : i = len a -> upd (a ++ x :: b) i v = Ok (a ++ v :: b).
Proof. intros ->. apply upd_mid. Qed.
Lemma idx_nth l i : i < len l -> idx l i = Ok (nth (N.to_nat i) l 0).
Proof. intros H. unfold idx. assert (i <? len l = true) as -> by lia. reflexivity. Qed.
Lemma split_at {A} (l : list A) k d : (k < length l)%nat -> l = firstn k l ++ nth k l d :: skipn (S k) l.
Proof.
  revert k; induction l as [|x l IH]; intros k H; [cbn in H; lia|].
  destruct k; cbn [firstn nth skipn app]; [reflexivity|]. f_equal. apply IH. cbn in H. lia.
Qed.

(* ---------------------------------------------------------------- bits_of_N *)
Lemma bits_of_N_ext n : forall v w, (forall i, i < N.of_nat n -> N.testbit v i = N.testbit w i) -> bits_of_N n v = bits_of_N n w.
Proof.
  induction n as [|n IH]; intros v w H; cbn [bits_of_N]; [reflexivity|].
  f_equal.
  - apply IH. intros i Hi. rewrite !N.div2_spec, !N.shiftr_spec'. apply H. lia.
  - f_equal. rewrite <- !N.bit0_odd. apply H. lia.
Qed.
Lemma bits_of_N_mod n v : bits_of_N n (v mod 2 ^ N.of_nat n) = bits_of_N n v.
Proof. apply bits_of_N_ext. intros i Hi. apply N.mod_pow2_bits_low. exact Hi. Qed.
Lemma bits_of_N_zero n : bits_of_N n 0 = repeat false n.
Proof. induction n as [|n IH]; [reflexivity|]. cbn [bits_of_N]. change (N.div2 0) with 0. rewrite IH. change (N.odd 0) with false. apply repeat_snoc. Qed.
Lemma bits_of_N_app a b v : bits_of_N (a + b) v = bits_of_N a (v / 2 ^ N.of_nat b) ++ bits_of_N b v.
Proof.
  revert v; induction b as [|b IH]; intros v.
  - rewrite Nat.add_0_r. change (2 ^ N.of_nat 0) with 1. rewrite N.div_1_r. cbn [bits_of_N]. symmetry. apply app_nil_r.
  - replace (a + S b)%nat with (S (a + b)) by lia. cbn [bits_of_N]. rewrite IH. rewrite app_assoc. f_equal. f_equal.
    rewrite N.div2_div, N.div_div by (try apply N.pow_nonzero; lia). f_equal.
    rewrite Nat2N.inj_succ, N.pow_succ_r'. reflexivity.
Qed.
Lemma bits_of_N_shift n k v : bits_of_N (n + k) (v * 2 ^ N.of_nat k) = bits_of_N n v ++ repeat false k.
Proof.
  rewrite bits_of_N_app. rewrite N.div_mul by (apply N.pow_nonzero; lia). f_equal.
  rewrite <- bits_of_N_zero. apply bits_of_N_ext. intros i Hi. rewrite N.mul_pow2_bits_low by exact Hi. rewrite N.bits_0. reflexivity.
Qed.
Lemma bits_of_N_inj n v w : v < 2 ^ N.of_nat n -> w < 2 ^ N.of_nat n -> bits_of_N n v = bits_of_N n w -> v = w.
Proof. intros Hv Hw H. rewrite <- (N_of_bits_of_N n v Hv), <- (N_of_bits_of_N n w Hw), H. reflexivity. Qed.

(* ---------------------------------------------------------------- octets <-> bits *)
Lemma bits_of_bytes_app a b : bits_of_bytes (a ++ b) = bits_of_bytes a ++ bits_of_bytes b.
Proof. apply flat_map_app. Qed.
Lemma bits_of_bytes_cons x l : bits_of_bytes (x :: l) = bits_of_N 8 x ++ bits_of_bytes l.
Proof. reflexivity. Qed.
Lemma bits_of_bytes_nil : bits_of_bytes [] = [].
Proof. reflexivity. Qed.
Lemma bits_of_bytes_length l : length (bits_of_bytes l) = (8 * length l)%nat.
Proof.
  induction l as [|x l IH]; [reflexivity|]. rewrite bits_of_bytes_cons, app_length, bits_of_N_length, IH. cbn [length]. lia.
Qed.
Lemma bits_of_bytes_zeros n : bits_of_bytes (repeat 0 n) = repeat false (8 * n).
Proof.
  induction n as [|n IH]; [reflexivity|]. cbn [repeat]. rewrite bits_of_bytes_cons, IH, bits_of_N_zero, <- repeat_app. f_equal. lia.
Qed.
Lemma bits_of_bytes_firstn k l : bits_of_bytes (firstn k l) = firstn (8 * k) (bits_of_bytes l).
Proof.
  revert l; induction k as [|k IH]; intros l; [reflexivity|]. destruct l as [|x l]; [reflexivity|].
  cbn [firstn]. rewrite !bits_of_bytes_cons, IH. replace (8 * S k)%nat with (8 + 8 * k)%nat by lia.
  rewrite firstn_app_r by (rewrite bits_of_N_length; lia). rewrite bits_of_N_length. f_equal. f_equal. lia.
Qed.
Lemma bits_of_bytes_skipn k l : bits_of_bytes (skipn k l) = skipn (8 * k) (bits_of_bytes l).
Proof.
  revert l; induction k as [|k IH]; intros l; [reflexivity|]. destruct l as [|x l]; [reflexivity|].
  cbn [skipn]. rewrite bits_of_bytes_cons, IH. replace (8 * S k)%nat with (8 + 8 * k)%nat by lia.
  rewrite skipn_app_r by (rewrite bits_of_N_length; lia). rewrite bits_of_N_length. f_equal. lia.
Qed.

(* big-endian octets of a number *)
Fixpoint be_bytes (k : nat) (v : N) : list N :=
  match k with O => [] | S k' => be_bytes k' (v / 256) ++ [v mod 256] end.
Lemma be_bytes_length k v : length (be_bytes k v) = k.
Proof. revert v; induction k as [|k IH]; intros v; [reflexivity|]. cbn [be_bytes]. rewrite app_length, IH. cbn. lia. Qed.
Lemma be_bytes_bok k v : bok (be_bytes k v).
Proof.
  revert v; induction k as [|k IH]; intros v; [constructor|]. cbn [be_bytes]. apply bok_app. split; [apply IH|].
  constructor; [|constructor]. apply N.mod_lt. lia.
Qed.
Lemma be_bytes_bits k v : bits_of_bytes (be_bytes k v) = bits_of_N (8 * k) v.
Proof.
  revert v; induction k as [|k IH]; intros v; [reflexivity|]. cbn [be_bytes]. rewrite bits_of_bytes_app, IH.
  replace (8 * S k)%nat with (8 * k + 8)%nat by lia. rewrite bits_of_N_app. change (2 ^ N.of_nat 8) with 256. f_equal.
  rewrite bits_of_bytes_cons, bits_of_bytes_nil, app_nil_r. apply (bits_of_N_mod 8 v).
Qed.
Lemma be_bytes_zero k : be_bytes k 0 = repeat 0 k.
Proof. induction k as [|k IH]; [reflexivity|]. cbn [be_bytes]. change (0 / 256) with 0. change (0 mod 256) with 0. rewrite IH. apply repeat_snoc. Qed.

(* ---------------------------------------------------------------- packing *)
Lemma pack_fuel_enough : forall f g l, (length l < f)%nat -> (length l < g)%nat -> pack_fuel f l = pack_fuel g l.
Proof.
  induction f as [|f IH]; intros g l Hf Hg; [lia|]. destruct g as [|g]; [lia|].
  cbn [pack_fuel]. destruct l as [|b l]; [reflexivity|]. f_equal.
  apply IH; rewrite skipn_length; cbn [length] in *; lia.
Qed.

Lemma pad_len_lt pos : (pad_len pos < 8)%nat.
Proof. unfold pad_len. apply Nat.mod_upper_bound. lia. Qed.
Lemma pad_len_spec pos : ((pos + pad_len pos) mod 8 = 0)%nat.
Proof. unfold pad_len. lia. Qed.
Lemma pad_len_0 pos : (pos mod 8 = 0)%nat -> pad_len pos = O.
Proof. unfold pad_len. lia. Qed.
Lemma pad_len_add8 pos : pad_len (8 + pos) = pad_len pos.
Proof. unfold pad_len. lia. Qed.
Lemma pad_len_mod a b : (a mod 8 = b mod 8)%nat -> pad_len a = pad_len b.
Proof. unfold pad_len. intros ->. reflexivity. Qed.

(* octets whose bits are [bl] followed by the zero padding to the octet boundary are the packing of [bl] *)
Lemma pack_bits_repr : forall bs bl, bok bs ->
  bits_of_bytes bs = bl ++ repeat false (pad_len (length bl)) -> pack_bits bl = bs.
Proof.
  induction bs as [|x bs IH]; intros bl Hok H.
  - destruct bl; [reflexivity|discriminate].
  - rewrite bits_of_bytes_cons in H. apply bok_cons in Hok. destruct Hok as [Hx Hok].
    assert (HL : (8 + 8 * length bs = length bl + pad_len (length bl))%nat).
    { apply (f_equal (@length bool)) in H. rewrite !app_length, bits_of_N_length, bits_of_bytes_length, repeat_length in H. exact H. }
    pose proof (pad_len_lt (length bl)) as Hp.
    destruct (le_lt_dec 8 (length bl)) as [Hge|Hlt].
    + (* at least one full octet of bl *)
      assert (Hbl : bl = bits_of_N 8 x ++ skipn 8 bl).
      { rewrite <- (firstn_skipn 8 bl) at 1. f_equal.
        apply (f_equal (firstn 8)) in H. rewrite firstn_app_l in H by (rewrite bits_of_N_length; lia).
        rewrite firstn_all2 in H by (rewrite bits_of_N_length; lia).
        rewrite firstn_app_l in H by lia. symmetry. exact H. }
      unfold pack_bits. cbn [pack_fuel]. destruct bl as [|b0 bl0] eqn:Ebl; [cbn in Hge; lia|]. rewrite <- Ebl in *.
      f_equal.
      * rewrite firstn_app_l by lia. rewrite Hbl. rewrite firstn_app_l by (rewrite bits_of_N_length; lia).
        rewrite firstn_all2 by (rewrite bits_of_N_length; lia). apply (N_of_bits_of_N 8 x). exact Hx.
      * rewrite (pack_fuel_enough _ (S (length (skipn 8 bl)))) by (rewrite skipn_length; lia).
        apply IH; [exact Hok|].
        apply (f_equal (skipn 8)) in H. rewrite skipn_app_r in H by (rewrite bits_of_N_length; lia).
        rewrite bits_of_N_length in H. replace (8 - 8)%nat with O in H by lia. rewrite skipn_O in H. rewrite H.
        rewrite skipn_app_l by lia. f_equal. f_equal. rewrite skipn_length. apply pad_len_mod. lia.
    + (* the last, partial octet *)
      assert (length bs = O) by lia. destruct bs; [|cbn in *; lia]. cbn [bits_of_bytes flat_map] in H. rewrite app_nil_r in H.
      destruct bl as [|b0 bl0] eqn:Ebl. { cbn in HL. unfold pad_len in HL. cbn in HL. lia. } rewrite <- Ebl in *.
      unfold pack_bits. cbn [pack_fuel]. rewrite Ebl. rewrite <- Ebl.
      rewrite (skipn_all2 bl) by lia.
      replace (pack_fuel (length bl) []) with (@nil N) by (destruct (length bl); reflexivity).
      f_equal. rewrite firstn_app_r by lia. rewrite firstn_repeat.
      replace (Nat.min (8 - length bl) 7) with (pad_len (length bl)) by lia.
      rewrite <- H. apply (N_of_bits_of_N 8 x). exact Hx.
Qed.

(* ---------------------------------------------------------------- exhaustive sweeps over octets and offsets *)
Definition r256 : list N := map N.of_nat (seq 0 256).
Definition r8 : list N := map N.of_nat (seq 0 8).
Lemma in_r256 x : x < 256 -> In x r256.
Proof. intros H. apply in_map_iff. exists (N.to_nat x). split; [lia|]. apply in_seq. lia. Qed.
Lemma in_r8 x : x < 8 -> In x r8.
Proof. intros H. apply in_map_iff. exists (N.to_nat x). split; [lia|]. apply in_seq. lia. Qed.

Fixpoint beqb (a b : bits) : bool :=
  match a, b with [], [] => true | x :: a', y :: b' => Bool.eqb x y && beqb a' b' | _, _ => false end.
Lemma beqb_eq a b : beqb a b = true -> a = b.
Proof.
  revert b; induction a as [|x a IH]; intros [|y b] H; cbn [beqb] in H; try discriminate; [reflexivity|].
  apply andb_true_iff in H. destruct H as [H1 H2]. apply eqb_prop in H1. subst y. f_equal. apply IH. exact H2.
Qed.

Lemma sweep2 (P : N -> N -> bool) :
  forallb (fun a => forallb (fun o => P a o) r8) r256 = true -> forall a o, a < 256 -> o < 8 -> P a o = true.
Proof.
  intros F a o Ha Ho. rewrite forallb_forall in F. specialize (F a (in_r256 a Ha)).
  rewrite forallb_forall in F. exact (F o (in_r8 o Ho)).
Qed.
Lemma sweep3 (P : N -> N -> N -> bool) :
  forallb (fun a => forallb (fun b => forallb (fun o => P a b o) r8) r256) r256 = true ->
  forall a b o, a < 256 -> b < 256 -> o < 8 -> P a b o = true.
Proof.
  intros F a b o Ha Hb Ho. rewrite forallb_forall in F. specialize (F a (in_r256 a Ha)).
  rewrite forallb_forall in F. specialize (F b (in_r256 b Hb)).
  rewrite forallb_forall in F. exact (F o (in_r8 o Ho)).
Qed.

Definition B8 (x : N) : bits := bits_of_N 8 x.
Definition nat8 (o : N) : nat := N.to_nat o.

(* dst[i-1] = src[i-1] << off | src[i] >> (8 - off)   (GetBitString); the 64-bit subtraction is done once per offset *)
Definition S1_check (o k a b : N) : bool :=
  let v := N.lor (shl8 a o) (shr8 b k) in
  (v <? 256) && beqb (B8 v) (skipn (nat8 o) (B8 a) ++ firstn (nat8 o) (B8 b)).
Lemma S1_fin : forallb (fun o => let k := sub64 8 o in forallb (fun a => forallb (fun b => S1_check o k a b) r256) r256) r8 = true.
Proof. vm_cast_no_check (eq_refl true). Qed.
Lemma S1 a b o : a < 256 -> b < 256 -> o < 8 ->
  N.lor (shl8 a o) (shr8 b (sub64 8 o)) < 256 /\
  bits_of_N 8 (N.lor (shl8 a o) (shr8 b (sub64 8 o))) = skipn (N.to_nat o) (bits_of_N 8 a) ++ firstn (N.to_nat o) (bits_of_N 8 b).
Proof.
  intros Ha Hb Ho. pose proof S1_fin as F. rewrite forallb_forall in F. specialize (F o (in_r8 o Ho)). cbv zeta in F.
  rewrite forallb_forall in F. specialize (F a (in_r256 a Ha)). rewrite forallb_forall in F. specialize (F b (in_r256 b Hb)).
  unfold S1_check in F. apply andb_true_iff in F. destruct F as [H1 H2]. split; [lia|]. apply beqb_eq. exact H2.
Qed.

(* src[byteLen-1] << off *)
Definition S2_check (a o : N) : bool :=
  (shl8 a o <? 256) && beqb (B8 (shl8 a o)) (skipn (nat8 o) (B8 a) ++ repeat false (nat8 o)).
Lemma S2_fin : forallb (fun a => forallb (fun o => S2_check a o) r8) r256 = true.
Proof. vm_cast_no_check (eq_refl true). Qed.
Lemma S2 a o : a < 256 -> o < 8 ->
  shl8 a o < 256 /\ bits_of_N 8 (shl8 a o) = skipn (N.to_nat o) (bits_of_N 8 a) ++ repeat false (N.to_nat o).
Proof.
  intros Ha Ho. pose proof (sweep2 S2_check S2_fin a o Ha Ho) as H. unfold S2_check in H.
  apply andb_true_iff in H. destruct H as [H1 H2]. split; [lia|]. apply beqb_eq. exact H2.
Qed.

(* the mask of the last octet: m = numBits & 7; keeps the m (8 when m = 0) high bits *)
Definition gbs_mask (m : N) : N := if m =? 0 then 255 else shl8 255 (N.land (sub64 8 m) 255).
Definition keep_of (m : N) : nat := if m =? 0 then 8%nat else N.to_nat m.
Definition S3_check (x m : N) : bool :=
  (N.land x (gbs_mask m) <? 256) && beqb (B8 (N.land x (gbs_mask m))) (firstn (keep_of m) (B8 x) ++ repeat false (8 - keep_of m)).
Lemma S3_fin : forallb (fun a => forallb (fun o => S3_check a o) r8) r256 = true.
Proof. vm_cast_no_check (eq_refl true). Qed.
Lemma S3 x m : x < 256 -> m < 8 ->
  N.land x (gbs_mask m) < 256 /\
  bits_of_N 8 (N.land x (gbs_mask m)) = firstn (keep_of m) (bits_of_N 8 x) ++ repeat false (8 - keep_of m).
Proof.
  intros Ha Ho. pose proof (sweep2 S3_check S3_fin x m Ha Ho) as H. unfold S3_check in H.
  apply andb_true_iff in H. destruct H as [H1 H2]. split; [lia|]. apply beqb_eq. exact H2.
Qed.

(* pd.bytes[cur] |= y : x has its low 8-off bits clear, y its high off bits clear *)
Definition allfalse (l : bits) : bool := forallb negb l.
Definition S4_check (x y o : N) : bool :=
  negb (allfalse (skipn (nat8 o) (B8 x)) && allfalse (firstn (nat8 o) (B8 y)))
  || ((N.lor x y <? 256) && beqb (B8 (N.lor x y)) (firstn (nat8 o) (B8 x) ++ skipn (nat8 o) (B8 y))).
Lemma S4_fin : forallb (fun a => forallb (fun b => forallb (fun o => S4_check a b o) r8) r256) r256 = true.
Proof. vm_cast_no_check (eq_refl true). Qed.
Lemma allfalse_repeat n : allfalse (repeat false n) = true.
Proof. induction n; [reflexivity|]. cbn. exact IHn. Qed.
Lemma allfalse_spec l : allfalse l = true -> l = repeat false (length l).
Proof.
  induction l as [|b l IH]; intros H; [reflexivity|]. cbn in H. apply andb_true_iff in H. destruct H as [H1 H2].
  destruct b; [discriminate|]. cbn [length repeat]. f_equal. apply IH. exact H2.
Qed.
Lemma S4 x y o : x < 256 -> y < 256 -> o < 8 ->
  skipn (N.to_nat o) (bits_of_N 8 x) = repeat false (8 - N.to_nat o) ->
  firstn (N.to_nat o) (bits_of_N 8 y) = repeat false (N.to_nat o) ->
  N.lor x y < 256 /\
  bits_of_N 8 (N.lor x y) = firstn (N.to_nat o) (bits_of_N 8 x) ++ skipn (N.to_nat o) (bits_of_N 8 y).
Proof.
  intros Hx Hy Ho E1 E2. pose proof (sweep3 S4_check S4_fin x y o Hx Hy Ho) as H. unfold S4_check, B8, nat8 in H.
  rewrite E1, E2, !allfalse_repeat in H. cbn [andb negb orb] in H.
  apply andb_true_iff in H. destruct H as [H1 H2]. split; [lia|]. apply beqb_eq. exact H2.
Qed.

(* bytes[0] >> off *)
Definition S6_check (b o : N) : bool :=
  (shr8 b o <? 256) && beqb (B8 (shr8 b o)) (repeat false (nat8 o) ++ firstn (8 - nat8 o) (B8 b)).
Lemma S6_fin : forallb (fun a => forallb (fun o => S6_check a o) r8) r256 = true.
Proof. vm_cast_no_check (eq_refl true). Qed.
Lemma S6 b o : b < 256 -> o < 8 ->
  shr8 b o < 256 /\ bits_of_N 8 (shr8 b o) = repeat false (N.to_nat o) ++ firstn (8 - N.to_nat o) (bits_of_N 8 b).
Proof.
  intros Ha Ho. pose proof (sweep2 S6_check S6_fin b o Ha Ho) as H. unfold S6_check in H.
  apply andb_true_iff in H. destruct H as [H1 H2]. split; [lia|]. apply beqb_eq. exact H2.
Qed.

Lemma land7 x : N.land x 7 = x mod 8.
Proof. change 7 with (N.ones 3). rewrite N.land_ones. reflexivity. Qed.
Lemma land255 x : N.land x 255 = x mod 256.
Proof. change 255 with (N.ones 8). rewrite N.land_ones. reflexivity. Qed.
Lemma shiftr3 x : N.shiftr x 3 = x / 8.
Proof. rewrite N.shiftr_div_pow2. reflexivity. Qed.
Lemma u64_small x : x < TWO64 -> u64 x = x.
Proof. intros H. unfold u64. apply N.mod_small. exact H. Qed.
Lemma sub64_small a b : b <= a -> a < TWO64 -> sub64 a b = a - b.
Proof. intros H1 H2. unfold sub64. unfold TWO64 in *. rewrite (N.mod_small b) by lia. lia. Qed.
