(* C07, NAS security glue: NEA1/NEA2/NIA1/NIA2 and the two dispatchers against TS 33.401 Annex B / TS 35.215. *)
From Coq Require Import NArith ZArith List Lia Bool.
From Coq Require Import ZifyN ZifyNat ZifyBool.
Require Import Bytes AES Modes Snow3gTables Snow3g Security Snow3gSpec TS33401B Snow3gBits Snow3gProofs SecAesLen.
Import ListNotations.
Open Scope N_scope.
Ltac Zify.zify_post_hook ::= Z.div_mod_to_equations.

(* ------------------------------------------------------------------ small list facts *)
Lemma set_nth_length i v l : length (set_nth i v l) = length l.
Proof. revert i; induction l as [|x l IH]; intros [|i]; cbn [set_nth length]; try reflexivity. rewrite IH. reflexivity. Qed.
Lemma set_nth_same i v l d : (i < length l)%nat -> nth i (set_nth i v l) d = v.
Proof.
  revert i; induction l as [|x l IH]; intros i H; [cbn in H; lia|].
  destruct i as [|i]; [reflexivity|]. cbn [set_nth nth]. apply IH. cbn in H. lia.
Qed.
Lemma set_nth_other i j v l d : i <> j -> nth j (set_nth i v l) d = nth j l d.
Proof.
  revert i j; induction l as [|x l IH]; intros i j H; [destruct i; reflexivity|].
  destruct i as [|i], j as [|j]; cbn [set_nth nth]; try reflexivity; try lia. apply IH. lia.
Qed.
Lemma nth_repeat0 p n : nth p (repeat 0 n) 0 = 0.
Proof. revert p; induction n as [|n IH]; intros [|p]; cbn [repeat nth]; try reflexivity. apply IH. Qed.

Lemma N_to_be_app n m v : N_to_be (n + m) v = N_to_be n (v / 256 ^ N.of_nat m) ++ N_to_be m v.
Proof.
  revert v; induction m as [|m IH]; intro v.
  - rewrite Nat.add_0_r. cbn [N_to_be N.of_nat]. rewrite N.pow_0_r, N.div_1_r, app_nil_r. reflexivity.
  - replace (n + S m)%nat with (S (n + m)) by lia. cbn [N_to_be]. rewrite IH, <- app_assoc. f_equal.
    f_equal. rewrite N.div_div by (try lia; apply N.pow_nonzero; lia).
    rewrite Nat2N.inj_succ, N.pow_succ_r'. reflexivity.
Qed.

(* ------------------------------------------------------------------ (d) NEA2 = 128-EEA2, NIA2 = 128-EIA2 *)
Definition bd_byte (bearer dir:N) : N := N.lor (w8 (N.shiftl bearer 3)) (w8 (N.shiftl dir 2)).

Lemma bd_byte_eq bearer dir : bearer < 32 -> dir < 2 -> bd_byte bearer dir = bearer * 8 + dir * 4.
Proof.
  intros Hb Hd.
  assert (H : (if bearer <? 32 then (bd_byte bearer 0 =? bearer * 8 + 0 * 4) && (bd_byte bearer 1 =? bearer * 8 + 1 * 4) else true) = true).
  { assert (Hb' : bearer < 256) by lia. revert bearer Hb' Hb. intros bearer Hb' _. revert bearer Hb'.
    apply (byte_check (fun b => if b <? 32 then (bd_byte b 0 =? b * 8 + 0 * 4) && (bd_byte b 1 =? b * 8 + 1 * 4) else true)).
    vm_compute. reflexivity. }
  replace (bearer <? 32) with true in H by lia. apply andb_true_iff in H. destruct H as [H0 H1].
  apply N.eqb_eq in H0, H1.
  assert (Hc : dir = 0 \/ dir = 1) by lia. destruct Hc as [-> | ->]; assumption.
Qed.

Lemma header8 count B : B < 256 ->
  N_to_be 8 (count * 4294967296 + B * 16777216) = N_to_be 4 count ++ [B; 0; 0; 0].
Proof.
  intro HB. change 8%nat with (4 + 4)%nat. rewrite N_to_be_app.
  change (256 ^ N.of_nat 4) with 4294967296.
  replace ((count * 4294967296 + B * 16777216) / 4294967296) with count by lia.
  f_equal. rewrite N_to_be_4. repeat (f_equal; try lia).
Qed.

Lemma cbd64_split count bearer dir : cbd64 count bearer dir = count * 4294967296 + (bearer * 8 + dir * 4) * 16777216.
Proof. unfold cbd64. change (2 ^ 32) with 4294967296. change (2 ^ 27) with 134217728. change (2 ^ 26) with 67108864. lia. Qed.

Section AnyBlockCipher.
Variable E : bytes -> bytes -> bytes.

Lemma NEA2_is_eea2 key count bearer dir ibs :
  bearer < 32 -> dir < 2 -> NEA2 E key count bearer dir ibs = SOk (eea2 E key count bearer dir ibs).
Proof.
  intros Hb Hd. unfold NEA2, eea2, eea2_counter_block. f_equal. f_equal.
  rewrite cbd64_split, header8 by lia.
  fold (bd_byte bearer dir). rewrite (bd_byte_eq bearer dir Hb Hd).
  unfold put_uint32. rewrite N_to_be_4. reflexivity.
Qed.

Lemma NIA2_is_eia2 key count bearer dir msg :
  bearer < 32 -> dir < 2 -> NIA2 E key count bearer dir msg = SOk (eia2 E key count bearer dir msg).
Proof.
  intros Hb Hd. unfold NIA2, eia2, eia2_input. f_equal. f_equal. f_equal.
  rewrite cbd64_split, header8 by lia.
  fold (bd_byte bearer dir). rewrite (bd_byte_eq bearer dir Hb Hd).
  unfold put_uint32. rewrite N_to_be_4.
  replace (length msg + 8)%nat with (8 + length msg)%nat by lia.
  cbn [repeat Nat.add skipn app set_nth firstn].
  unfold go_copy. rewrite repeat_length, firstn_all, skipn_all2 by (rewrite repeat_length; lia).
  rewrite app_nil_r. reflexivity.
Qed.
End AnyBlockCipher.

(* ------------------------------------------------------------------ (c) NEA1 = 128-EEA1 for every length *)
(* what NEA1 does once it has the keystream words: the mask on the last word and the two XOR loops *)
Definition nea1_post (ibs ks:list N) (length_:N) : option (list N) :=
  let l := w32 (length_ + 31) / 32 in
  let r := length_ mod 32 in
  let ks := if negb (r =? 0)
            then set_nth (N.to_nat (l - 1))
                         (N.land (nth (N.to_nat (l - 1)) ks 0)
                                 (N.lxor (w32 (w32 (N.shiftl 1 (32 - r)) + 4294967295)) 4294967295)) ks
            else ks in
  let obs := Some (repeat 0 (length ibs)) in
  let nfull := N.to_nat (length_ / 32) in
  let obs := fold_left (fun o i => fold_left (fun o j => xor_at ibs ks i j o) (seq 0 4) o) (seq 0 nfull) obs in
  if negb (r =? 0)
  then fold_left (fun o j => xor_at ibs ks nfull j o) (seq 0 (N.to_nat ((r + 7) / 8))) obs
  else obs.

Definition nea1_iv (countC bearer direction:N) : list N :=
  let x := N.lor (w32 (N.shiftl bearer 27)) (w32 (N.shiftl direction 26)) in [x; countC; x; countC].

Lemma NEA1_unfold st ck countC bearer direction ibs length_ :
  snd (NEA1 st ck countC bearer direction ibs length_) =
  match nea1_post ibs (snd (GenerateKeystream (InitSnow3g st (load_key ck) (nea1_iv countC bearer direction))
                                              (N.to_nat (w32 (length_ + 31) / 32)))) length_ with
  | Some o => SOk o | None => SPanic end.
Proof.
  unfold NEA1, nea1_post, nea1_iv.
  destruct (GenerateKeystream _ _) as [st1 ks]. reflexivity.
Qed.

(* the value the loops are meant to leave at position p *)
Definition target (ibs ks:list N) (p:nat) : N :=
  N.lxor (nth p ibs 0) (ks_byte (nth (p / 4) ks 0) (p mod 4)).
Definition inv (ibs ks:list N) (m:nat) (o:list N) : Prop :=
  length o = length ibs /\
  forall p, (p < length ibs)%nat -> nth p o 0 = if (p <? m)%nat then target ibs ks p else 0.

Lemma inv_init ibs ks : inv ibs ks 0 (repeat 0 (length ibs)).
Proof. split; [apply repeat_length|]. intros p _. apply nth_repeat0. Qed.

Lemma xor_at_step ibs ks i j o :
  inv ibs ks (4 * i + j) o -> (j < 4)%nat -> (4 * i + j < length ibs)%nat -> (i < length ks)%nat ->
  exists o', xor_at ibs ks i j (Some o) = Some o' /\ inv ibs ks (4 * i + j + 1) o'.
Proof.
  intros [Hl Hn] Hj Hp Hi. unfold xor_at.
  rewrite (nth_error_nth ibs _ 0 Hp), (nth_error_nth ks _ 0 Hi).
  replace (4 * i + j <? length o)%nat with true by (symmetry; apply Nat.ltb_lt; lia).
  eexists; split; [reflexivity|]. split; [rewrite set_nth_length; exact Hl|].
  intros p Hpl. destruct (Nat.eq_dec p (4 * i + j)) as [->|Hne].
  - rewrite set_nth_same by lia. replace (4 * i + j <? 4 * i + j + 1)%nat with true by (symmetry; apply Nat.ltb_lt; lia).
    unfold target. replace ((4 * i + j) / 4)%nat with i by lia. replace ((4 * i + j) mod 4)%nat with j by lia. reflexivity.
  - rewrite set_nth_other by lia. rewrite (Hn p Hpl).
    destruct (Nat.ltb_spec p (4 * i + j)); destruct (Nat.ltb_spec p (4 * i + j + 1)); try reflexivity; lia.
Qed.

Lemma xor_at_inner ibs ks i m o :
  (m <= 4)%nat -> (4 * i + m <= length ibs)%nat -> (i < length ks)%nat -> inv ibs ks (4 * i) o ->
  exists o', fold_left (fun o j => xor_at ibs ks i j o) (seq 0 m) (Some o) = Some o' /\ inv ibs ks (4 * i + m) o'.
Proof.
  induction m as [|m IH]; intros Hm Hlen Hi Hinv.
  - exists o. split; [reflexivity|]. rewrite Nat.add_0_r. exact Hinv.
  - destruct IH as [o1 [E1 I1]]; try lia; try assumption.
    rewrite seq_S, fold_left_app, E1. cbn [fold_left Nat.add].
    destruct (xor_at_step ibs ks i m o1 I1) as [o2 [E2 I2]]; try lia.
    exists o2. split; [exact E2|]. replace (4 * i + S m)%nat with (4 * i + m + 1)%nat by lia. exact I2.
Qed.

Lemma xor_at_outer ibs ks nf o :
  (4 * nf <= length ibs)%nat -> (nf <= length ks)%nat -> inv ibs ks 0 o ->
  exists o', fold_left (fun o i => fold_left (fun o j => xor_at ibs ks i j o) (seq 0 4) o) (seq 0 nf) (Some o) = Some o'
             /\ inv ibs ks (4 * nf) o'.
Proof.
  induction nf as [|nf IH]; intros Hlen Hks Hinv.
  - exists o. split; [reflexivity|]. exact Hinv.
  - destruct IH as [o1 [E1 I1]]; try lia; try assumption.
    rewrite (seq_S nf 0), fold_left_app, E1. cbn [fold_left Nat.add].
    destruct (xor_at_inner ibs ks nf 4 o1) as [o2 [E2 I2]]; try lia; try assumption.
    exists o2. split; [exact E2|]. replace (4 * S nf)%nat with (4 * nf + 4)%nat by lia. exact I2.
Qed.

(* octets of the keystream words, as the specification lays them out *)
Lemma ks_byte_N_to_be w j : (j < 4)%nat -> nth j (N_to_be 4 w) 0 = ks_byte w j.
Proof.
  intro Hj. rewrite N_to_be_4. unfold ks_byte. rewrite w8_mod, land255_mod, shiftr_div.
  destruct j as [|[|[|[|j]]]]; try lia; cbn [nth N.of_nat].
  - change (2 ^ (8 * (3 - 0))) with 16777216. lia.
  - change (2 ^ (8 * (3 - N.pos (Pos.of_succ_nat 0)))) with 65536. lia.
  - change (2 ^ (8 * (3 - N.pos (Pos.of_succ_nat 1)))) with 256. lia.
  - change (2 ^ (8 * (3 - N.pos (Pos.of_succ_nat 2)))) with 1. lia.
Qed.

Lemma nth_words_to_bytes ws p : (p < 4 * length ws)%nat ->
  nth p (words_to_bytes ws) 0 = ks_byte (nth (p / 4) ws 0) (p mod 4).
Proof.
  revert p; induction ws as [|w ws IH]; intros p Hp; [cbn in Hp; lia|].
  unfold words_to_bytes. cbn [flat_map]. fold (words_to_bytes ws).
  destruct (Nat.lt_ge_cases p 4) as [H4|H4].
  - rewrite app_nth1 by (rewrite N_to_be_length; exact H4).
    replace (p / 4)%nat with 0%nat by lia. replace (p mod 4)%nat with p by lia. cbn [nth]. apply ks_byte_N_to_be, H4.
  - rewrite app_nth2 by (rewrite N_to_be_length; exact H4). rewrite N_to_be_length.
    rewrite IH by (cbn [length] in Hp; lia).
    replace (p / 4)%nat with (S ((p - 4) / 4)) by lia. replace ((p - 4) mod 4)%nat with (p mod 4)%nat by lia. reflexivity.
Qed.
Lemma words_to_bytes_length ws : length (words_to_bytes ws) = (4 * length ws)%nat.
Proof. induction ws as [|w ws IH]; [reflexivity|]. unfold words_to_bytes in *. cbn [flat_map length]. rewrite app_length, N_to_be_length, IH. lia. Qed.

(* masking the unused low octets of the last word does not touch the octets that are used *)
Lemma ks_byte_mask w M j : N.land (N.shiftr M (8 * (3 - N.of_nat j))) 255 = 255 -> ks_byte (N.land w M) j = ks_byte w j.
Proof. intro H. unfold ks_byte. rewrite N.shiftr_land, <- N.land_assoc, H. reflexivity. Qed.

Definition nea1_mask (r:N) : N := N.lxor (w32 (w32 (N.shiftl 1 (32 - r)) + 4294967295)) 4294967295.
Lemma ks_byte_nea1_mask w rr j : (1 <= rr)%nat -> (rr < 4)%nat -> (j < rr)%nat ->
  ks_byte (N.land w (nea1_mask (8 * N.of_nat rr))) j = ks_byte w j.
Proof.
  intros H1 H4 Hj. apply ks_byte_mask.
  destruct rr as [|[|[|[|rr]]]]; try lia; destruct j as [|[|[|j]]]; try lia; vm_compute; reflexivity.
Qed.

Lemma nea1_post_is_xor_n ibs ks n :
  n = length ibs -> N.of_nat n < 536870909 -> length ks = ((n + 3) / 4)%nat ->
  nea1_post ibs ks (8 * N.of_nat n) = Some (xor_bytes ibs (words_to_bytes ks)).
Proof.
  intros En Hn Hks.
  unfold nea1_post.
  assert (El : N.to_nat (w32 (8 * N.of_nat n + 31) / 32) = ((n + 3) / 4)%nat).
  { rewrite w32_mod, N.mod_small by lia. lia. }
  assert (Enf : N.to_nat (8 * N.of_nat n / 32) = (n / 4)%nat) by lia.
  assert (Er : (8 * N.of_nat n) mod 32 = 8 * N.of_nat (n mod 4)) by lia.
  assert (El1 : N.to_nat (w32 (8 * N.of_nat n + 31) / 32 - 1) = ((n + 3) / 4 - 1)%nat) by lia.
  rewrite Enf, Er, El1. fold (nea1_mask (8 * N.of_nat (n mod 4))). rewrite <- En.
  set (ks' := if negb (8 * N.of_nat (n mod 4) =? 0)
              then set_nth ((n + 3) / 4 - 1) (N.land (nth ((n + 3) / 4 - 1) ks 0) (nea1_mask (8 * N.of_nat (n mod 4)))) ks else ks).
  assert (Hks' : length ks' = ((n + 3) / 4)%nat).
  { unfold ks'. destruct (negb _); [rewrite set_nth_length|]; exact Hks. }
  (* the bytes the loops read from ks' are those of ks *)
  assert (Hbyte : forall p, (p < n)%nat -> ks_byte (nth (p / 4) ks' 0) (p mod 4) = ks_byte (nth (p / 4) ks 0) (p mod 4)).
  { intros p Hp. unfold ks'. destruct (N.eqb_spec (8 * N.of_nat (n mod 4)) 0) as [E0|E0]; cbn [negb]; [reflexivity|].
    destruct (Nat.eq_dec (p / 4) ((n + 3) / 4 - 1)) as [Eq|Ne].
    - rewrite Eq, set_nth_same by lia. apply ks_byte_nea1_mask; lia.
    - rewrite set_nth_other by lia. reflexivity. }
  (* run the loops *)
  destruct (xor_at_outer ibs ks' (n / 4) (repeat 0 n)) as [o1 [E1 I1]]; try lia. { rewrite En. apply inv_init. }
  rewrite E1.
  assert (Hfin : exists o, (if negb (8 * N.of_nat (n mod 4) =? 0)
                            then fold_left (fun o j => xor_at ibs ks' (n / 4) j o) (seq 0 (N.to_nat ((8 * N.of_nat (n mod 4) + 7) / 8))) (Some o1)
                            else Some o1) = Some o /\ inv ibs ks' n o).
  { destruct (N.eqb_spec (8 * N.of_nat (n mod 4)) 0) as [E0|E0]; cbn [negb].
    - exists o1. split; [reflexivity|]. replace n with (4 * (n / 4))%nat at 1 by lia. exact I1.
    - replace (N.to_nat ((8 * N.of_nat (n mod 4) + 7) / 8)) with (n mod 4)%nat by lia.
      destruct (xor_at_inner ibs ks' (n / 4) (n mod 4) o1) as [o2 [E2 I2]]; try lia; try assumption.
      exists o2. split; [exact E2|]. replace n with (4 * (n / 4) + n mod 4)%nat at 1 by lia. exact I2. }
  destruct Hfin as [o [Eo [Il In]]]. rewrite Eo. f_equal.
  rewrite <- En in Il, In.
  apply (nth_ext _ _ 0 0).
  - rewrite xor_bytes_length, words_to_bytes_length, Hks. lia.
  - intros p Hp. rewrite Il in Hp. rewrite (In p Hp).
    replace (p <? n)%nat with true by (symmetry; apply Nat.ltb_lt; exact Hp).
    rewrite xor_bytes_nth by (try rewrite words_to_bytes_length, Hks; lia).
    unfold target. rewrite (Hbyte p Hp). rewrite nth_words_to_bytes by (rewrite Hks; lia). reflexivity.
Qed.
Lemma nea1_post_is_xor ibs ks :
  N.of_nat (length ibs) < 536870909 -> length ks = ((length ibs + 3) / 4)%nat ->
  nea1_post ibs ks (8 * N.of_nat (length ibs)) = Some (xor_bytes ibs (words_to_bytes ks)).
Proof. intros. apply nea1_post_is_xor_n; trivial. Qed.

(* key words and IV of the code = those of TS 35.215 / TS 33.401 B.1.2 *)
Lemma load_key_is_key_words ck : load_key ck = key_words ck.
Proof. reflexivity. Qed.

Lemma nea1_iv_is_f8_iv count bearer dir : bearer < 32 -> dir < 2 -> nea1_iv count bearer dir = f8_iv count bearer dir.
Proof.
  intros Hb Hd. unfold nea1_iv, f8_iv.
  set (x := fun b d => N.lor (w32 (N.shiftl b 27)) (w32 (N.shiftl d 26))).
  assert (H : (if bearer <? 32 then (x bearer 0 =? bearer * 2 ^ 27 + 0 * 2 ^ 26) && (x bearer 1 =? bearer * 2 ^ 27 + 1 * 2 ^ 26) else true) = true).
  { assert (Hb' : bearer < 256) by lia. clear Hb. revert bearer Hb'.
    apply (byte_check (fun b => if b <? 32 then (x b 0 =? b * 2 ^ 27 + 0 * 2 ^ 26) && (x b 1 =? b * 2 ^ 27 + 1 * 2 ^ 26) else true)).
    vm_compute. reflexivity. }
  replace (bearer <? 32) with true in H by lia. apply andb_true_iff in H. destruct H as [H0 H1].
  apply N.eqb_eq in H0, H1. fold (x bearer dir).
  assert (Hc : dir = 0 \/ dir = 1) by lia. destruct Hc as [-> | ->]; [rewrite H0 | rewrite H1]; reflexivity.
Qed.

Theorem NEA1_is_eea1 st ck count bearer dir ibs :
  bearer < 32 -> dir < 2 -> N.of_nat (length ibs) < 536870909 ->
  snd (NEA1 st ck count bearer dir ibs (8 * N.of_nat (length ibs))) = SOk (eea1 ck count bearer dir ibs).
Proof.
  intros Hb Hd Hn. rewrite NEA1_unfold.
  assert (El : N.to_nat (w32 (8 * N.of_nat (length ibs) + 31) / 32) = ((length ibs + 3) / 4)%nat).
  { rewrite w32_mod, N.mod_small by lia. lia. }
  rewrite El, snow3g_model_is_spec.
  rewrite nea1_post_is_xor by (try rewrite snow3g_keystream_length; trivial).
  unfold eea1, f8_keystream. rewrite load_key_is_key_words, nea1_iv_is_f8_iv by assumption. reflexivity.
Qed.

(* ------------------------------------------------------------------ (f) independence of the previous snow3g state *)
Theorem NEA1_state_independent s s' ck count bearer dir ibs len :
  snd (NEA1 s ck count bearer dir ibs len) = snd (NEA1 s' ck count bearer dir ibs len).
Proof. rewrite !NEA1_unfold, (InitSnow3g_state_independent s s'). reflexivity. Qed.

(* what NIA1 does once it has the five keystream words *)
Definition nia1_post (z:list N) (msg:bytes) (length_:N) : sres bytes :=
  let D := w64 (w64 (length_ + 63) / 64 + 1) in
  let z_ i := nth i z 0 in
  let P := N.lor (w64 (N.shiftl (z_ 0%nat) 32)) (z_ 1%nat) in
  let Q := N.lor (w64 (N.shiftl (z_ 2%nat) 32)) (z_ 3%nat) in
  let Dm2 := w64 (D + 18446744073709551614) in
  match nia1_loop (S (length msg)) 0 Dm2 msg P 0 with
  | SOk Eval =>
      let off := w64 (8 * Dm2) in
      if N.of_nat (length msg) <? off then SPanic
      else
        let tmp := go_copy (repeat 0 8) (skipn (N.to_nat off) msg) in
        let M := be_to_N tmp in
        let Eval := sec_mul (N.lxor Eval M) P 27 in
        let Eval := N.lxor Eval length_ in
        let Eval := sec_mul Eval Q 27 in
        let MacI := N.lxor (w32 (N.shiftr Eval 32)) (z_ 4%nat) in
        SOk (put_uint32 (repeat 0 4) MacI)
  | SErr e => SErr e | SPanic => SPanic | SFuel => SFuel
  end.
Definition nia1_iv (countI bearer direction:N) : list N :=
  let fresh := w32 (N.shiftl bearer 27) in
  [N.lxor fresh (w32 (N.shiftl direction 15)); N.lxor countI (w32 (N.shiftl direction 31)); fresh; countI].
Lemma NIA1_unfold st ik countI bearer direction msg length_ :
  snd (NIA1 st ik countI bearer direction msg length_) =
  nia1_post (snd (GenerateKeystream (InitSnow3g st (load_key ik) (nia1_iv countI bearer direction)) 5)) msg length_.
Proof.
  unfold NIA1, nia1_post, nia1_iv. destruct (GenerateKeystream _ 5) as [st1 z]. reflexivity.
Qed.
Theorem NIA1_state_independent s s' ik count bearer dir msg len :
  snd (NIA1 s ik count bearer dir msg len) = snd (NIA1 s' ik count bearer dir msg len).
Proof. rewrite !NIA1_unfold, (InitSnow3g_state_independent s s'). reflexivity. Qed.

Theorem NASEncrypt_state_independent E s s' alg key count bearer dir payload :
  snd (NASEncrypt E s alg key count bearer dir payload) = snd (NASEncrypt E s' alg key count bearer dir payload).
Proof.
  unfold NASEncrypt.
  destruct (31 <? bearer); [reflexivity|]. destruct (1 <? dir); [reflexivity|]. destruct payload as [p|]; [|reflexivity].
  destruct (alg =? AlgCiphering128NEA0); [reflexivity|].
  destruct (alg =? AlgCiphering128NEA1).
  - pose proof (NEA1_state_independent s s' key count bearer dir p (w32 (w32 (N.of_nat (length p)) * 8))) as H.
    destruct (NEA1 s key count bearer dir p _) as [s1 r1]. destruct (NEA1 s' key count bearer dir p _) as [s2 r2].
    cbn [snd] in *. rewrite H. reflexivity.
  - destruct (alg =? AlgCiphering128NEA2); [reflexivity|]. destruct (alg =? AlgCiphering128NEA3); reflexivity.
Qed.
Theorem NASMacCalculate_state_independent E s s' alg key count bearer dir msg :
  snd (NASMacCalculate E s alg key count bearer dir msg) = snd (NASMacCalculate E s' alg key count bearer dir msg).
Proof.
  unfold NASMacCalculate.
  destruct (31 <? bearer); [reflexivity|]. destruct (1 <? dir); [reflexivity|]. destruct msg as [m|]; [|reflexivity].
  destruct (alg =? AlgIntegrity128NIA0); [reflexivity|].
  destruct (alg =? AlgIntegrity128NIA1); [apply NIA1_state_independent|].
  destruct (alg =? AlgIntegrity128NIA2); [reflexivity|]. destruct (alg =? AlgIntegrity128NIA3); reflexivity.
Qed.

(* ------------------------------------------------------------------ lengths and the dispatcher for ciphering *)
Lemma go_copy_same_length p o : length o = length p -> go_copy p o = o.
Proof. intro H. unfold go_copy. rewrite <- H, firstn_all, H, skipn_all, app_nil_r. reflexivity. Qed.

Lemma f8_keystream_length key count bearer dir n : length (f8_keystream key count bearer dir n) = (4 * ((n + 3) / 4))%nat.
Proof. unfold f8_keystream. rewrite words_to_bytes_length, snow3g_keystream_length. reflexivity. Qed.
Lemma eea1_length key count bearer dir msg : length (eea1 key count bearer dir msg) = length msg.
Proof. unfold eea1. rewrite xor_bytes_length, f8_keystream_length. lia. Qed.

Definition block16 (E:bytes -> bytes -> bytes) (key:bytes) : Prop := forall b, length (E key b) = 16%nat.
Lemma ctr_blocks_length E n key ctr : block16 E key -> length (concat (ctr_blocks E n key ctr)) = (16 * n)%nat.
Proof.
  intro HE. revert ctr; induction n as [|n IH]; intro ctr; [reflexivity|].
  cbn [ctr_blocks concat]. rewrite app_length, HE, IH. lia.
Qed.
Lemma ctr_xor_length E key icb msg : block16 E key -> length (ctr_xor E key icb msg) = length msg.
Proof. intro HE. unfold ctr_xor. rewrite xor_bytes_length, ctr_blocks_length by exact HE. lia. Qed.

Lemma len32_times8 n : N.of_nat n < 536870909 -> w32 (w32 (N.of_nat n) * 8) = 8 * N.of_nat n.
Proof. intro H. rewrite !w32_mod. rewrite (N.mod_small (N.of_nat n)) by lia. rewrite N.mod_small by lia. lia. Qed.

Theorem NASEncrypt_is_spec E st alg key count bearer dir msg :
  block16 E key -> alg <= 2 -> bearer < 32 -> dir < 2 -> N.of_nat (length msg) < 536870909 ->
  sres_opt (snd (NASEncrypt E st alg key count bearer dir (Some msg))) = nea_spec E alg key count bearer dir msg.
Proof.
  intros HE Ha Hb Hd Hn. unfold NASEncrypt, nea_spec.
  replace (31 <? bearer) with false by lia. replace (1 <? dir) with false by lia.
  replace (bearer <? 32) with true by lia. replace (dir <? 2) with true by lia. cbn [andb].
  unfold AlgCiphering128NEA0, AlgCiphering128NEA1, AlgCiphering128NEA2.
  destruct (N.eqb_spec alg 0) as [E0|E0]; [reflexivity|].
  destruct (N.eqb_spec alg 1) as [E1|E1].
  - rewrite len32_times8 by exact Hn.
    pose proof (NEA1_is_eea1 st key count bearer dir msg Hb Hd Hn) as H.
    destruct (NEA1 st key count bearer dir msg _) as [s1 r1]. cbn [snd] in *. rewrite H.
    cbn [sres_opt]. rewrite go_copy_same_length by apply eea1_length. reflexivity.
  - destruct (N.eqb_spec alg 2) as [E2|E2]; [|lia].
    rewrite NEA2_is_eea2 by assumption. cbn [snd sres_opt].
    rewrite go_copy_same_length by (apply ctr_xor_length, HE). reflexivity.
Qed.

(* ------------------------------------------------------------------ (f) corollaries on the specification side *)
Lemma xor_bytes_twice a b : (length a <= length b)%nat -> xor_bytes (xor_bytes a b) b = a.
Proof.
  revert b; induction a as [|x a IH]; intros b H; [destruct b; reflexivity|].
  destruct b as [|y b]; [cbn in H; lia|]. cbn [xor_bytes]. rewrite IH by (cbn in H; lia).
  f_equal. rewrite N.lxor_assoc, N.lxor_nilpotent, N.lxor_0_r. reflexivity.
Qed.
Lemma eea1_involutive key count bearer dir msg : eea1 key count bearer dir (eea1 key count bearer dir msg) = msg.
Proof.
  unfold eea1 at 1. rewrite eea1_length. unfold eea1. apply xor_bytes_twice. rewrite f8_keystream_length. lia.
Qed.
Lemma eea2_involutive E key count bearer dir msg : block16 E key -> eea2 E key count bearer dir (eea2 E key count bearer dir msg) = msg.
Proof.
  intro HE. unfold eea2. unfold ctr_xor at 1. rewrite ctr_xor_length by exact HE. unfold ctr_xor.
  apply xor_bytes_twice. rewrite ctr_blocks_length by exact HE. lia.
Qed.
Lemma nea_spec_length E alg key count bearer dir msg ct :
  block16 E key -> nea_spec E alg key count bearer dir msg = Some ct -> length ct = length msg.
Proof.
  intros HE. unfold nea_spec. destruct ((bearer <? 32) && (dir <? 2)); [|discriminate].
  destruct (alg =? 0); [intro H; inversion H; reflexivity|].
  destruct (alg =? 1); [intro H; inversion H; apply eea1_length|].
  destruct (alg =? 2); [intro H; inversion H; apply ctr_xor_length, HE|discriminate].
Qed.
Lemma nea_spec_involutive E alg key count bearer dir msg ct :
  block16 E key -> nea_spec E alg key count bearer dir msg = Some ct -> nea_spec E alg key count bearer dir ct = Some msg.
Proof.
  intros HE. unfold nea_spec. destruct ((bearer <? 32) && (dir <? 2)); [|discriminate].
  destruct (alg =? 0); [intro H; inversion H; reflexivity|].
  destruct (alg =? 1); [intro H; inversion H; rewrite eea1_involutive; reflexivity|].
  destruct (alg =? 2); [intro H; inversion H; rewrite eea2_involutive by exact HE; reflexivity|discriminate].
Qed.

(* ------------------------------------------------------------------ the executable entry points (E = aes128) *)
Lemma aes128_block16 key : key_ok key = true -> block16 aes128 key.
Proof. intros H b. apply aes128_length. unfold key_ok in H. apply Nat.eqb_eq, H. Qed.

Theorem nas_encrypt_is_spec alg key count bearer dir msg :
  key_ok key = true -> alg <= 2 -> bearer < 32 -> dir < 2 -> N.of_nat (length msg) < 536870909 ->
  nas_encrypt alg key count bearer dir msg = nea_spec aes128 alg key count bearer dir msg.
Proof.
  intros Hk Ha Hb Hd Hn. unfold nas_encrypt. rewrite Hk.
  apply NASEncrypt_is_spec; try assumption. apply aes128_block16, Hk.
Qed.

Theorem nas_encrypt_nea0_identity key count bearer dir msg :
  key_ok key = true -> bearer < 32 -> dir < 2 -> nas_encrypt 0 key count bearer dir msg = Some msg.
Proof.
  intros Hk Hb Hd. unfold nas_encrypt, NASEncrypt. rewrite Hk.
  replace (31 <? bearer) with false by lia. replace (1 <? dir) with false by lia. reflexivity.
Qed.

Theorem nas_encrypt_involutive alg key count bearer dir msg ct :
  key_ok key = true -> alg <= 2 -> bearer < 32 -> dir < 2 -> N.of_nat (length msg) < 536870909 ->
  nas_encrypt alg key count bearer dir msg = Some ct -> nas_encrypt alg key count bearer dir ct = Some msg.
Proof.
  intros Hk Ha Hb Hd Hn H. rewrite nas_encrypt_is_spec in H by assumption.
  pose proof (nea_spec_length aes128 alg key count bearer dir msg ct (aes128_block16 key Hk) H) as Hl.
  rewrite nas_encrypt_is_spec by (try assumption; rewrite Hl; exact Hn).
  apply nea_spec_involutive; [apply aes128_block16, Hk | exact H].
Qed.

(* every octet of the message meets an octet of keystream that does not depend on the message content *)
Definition nea_keystream (alg:N) (key:bytes) (count bearer dir:N) (n:nat) : bytes :=
  if alg =? 1 then f8_keystream key count bearer dir n
  else concat (ctr_blocks aes128 (Nat.div (n + 15) 16) key (be_to_N (eea2_counter_block count bearer dir))).
Theorem nas_encrypt_covers_every_octet alg key count bearer dir msg :
  key_ok key = true -> alg = 1 \/ alg = 2 -> bearer < 32 -> dir < 2 -> N.of_nat (length msg) < 536870909 ->
  exists ct, nas_encrypt alg key count bearer dir msg = Some ct /\ length ct = length msg /\
             (length msg <= length (nea_keystream alg key count bearer dir (length msg)))%nat /\
             forall p, (p < length msg)%nat ->
                       nth p ct 0 = N.lxor (nth p msg 0) (nth p (nea_keystream alg key count bearer dir (length msg)) 0).
Proof.
  intros Hk Ha Hb Hd Hn. rewrite nas_encrypt_is_spec by (try assumption; lia).
  unfold nea_spec, nea_keystream. replace (bearer <? 32) with true by lia. replace (dir <? 2) with true by lia. cbn [andb].
  destruct Ha as [-> | ->]; cbn [N.eqb Pos.eqb].
  - exists (eea1 key count bearer dir msg). split; [reflexivity|]. split; [apply eea1_length|].
    assert (Hl : (length msg <= length (f8_keystream key count bearer dir (length msg)))%nat) by (rewrite f8_keystream_length; lia).
    split; [exact Hl|]. intros p Hp. unfold eea1. apply xor_bytes_nth; lia.
  - exists (eea2 aes128 key count bearer dir msg). split; [reflexivity|].
    split; [apply ctr_xor_length, aes128_block16, Hk|].
    assert (Hl : (length msg <= length (concat (ctr_blocks aes128 ((length msg + 15) / 16) key (be_to_N (eea2_counter_block count bearer dir)))))%nat).
    { rewrite ctr_blocks_length by (apply aes128_block16, Hk). lia. }
    split; [exact Hl|]. intros p Hp. unfold eea2, ctr_xor. apply xor_bytes_nth; lia.
Qed.

(* what the dispatchers do outside the claim: refused identifiers and parameters *)
Theorem nas_encrypt_refused alg key count bearer dir msg :
  2 < alg \/ 31 < bearer \/ 1 < dir -> nas_encrypt alg key count bearer dir msg = None.
Proof.
  intro H. unfold nas_encrypt, NASEncrypt. destruct (key_ok key); [|reflexivity].
  destruct (N.ltb_spec 31 bearer); [reflexivity|]. destruct (N.ltb_spec 1 dir); [reflexivity|].
  assert (Ha : 2 < alg) by lia.
  unfold AlgCiphering128NEA0, AlgCiphering128NEA1, AlgCiphering128NEA2, AlgCiphering128NEA3.
  replace (alg =? 0) with false by lia. replace (alg =? 1) with false by lia. replace (alg =? 2) with false by lia.
  destruct (alg =? 3); reflexivity.
Qed.

(* ------------------------------------------------------------------ integrity: the dispatcher *)
Theorem nas_mac_nia2_is_eia2 key count bearer dir msg :
  key_ok key = true -> bearer < 32 -> dir < 2 ->
  nas_mac 2 key count bearer dir msg = Some (eia2 aes128 key count bearer dir msg).
Proof.
  intros Hk Hb Hd. unfold nas_mac, NASMacCalculate. rewrite Hk.
  replace (31 <? bearer) with false by lia. replace (1 <? dir) with false by lia.
  cbn [AlgIntegrity128NIA0 AlgIntegrity128NIA1 AlgIntegrity128NIA2 N.eqb Pos.eqb snd].
  rewrite NIA2_is_eia2 by assumption. reflexivity.
Qed.
Theorem nas_mac_refused alg key count bearer dir msg :
  2 < alg \/ 31 < bearer \/ 1 < dir -> nas_mac alg key count bearer dir msg = None.
Proof.
  intro H. unfold nas_mac, NASMacCalculate. destruct (key_ok key); [|reflexivity].
  destruct (N.ltb_spec 31 bearer); [reflexivity|]. destruct (N.ltb_spec 1 dir); [reflexivity|].
  assert (Ha : 2 < alg) by lia.
  unfold AlgIntegrity128NIA0, AlgIntegrity128NIA1, AlgIntegrity128NIA2, AlgIntegrity128NIA3.
  replace (alg =? 0) with false by lia. replace (alg =? 1) with false by lia. replace (alg =? 2) with false by lia.
  destruct (alg =? 3); reflexivity.
Qed.

(* NEA1 in the form "message xor the first |message| keystream octets" *)
Lemma xor_bytes_firstn a b : xor_bytes a (firstn (length a) b) = xor_bytes a b.
Proof.
  revert b; induction a as [|x a IH]; intros b; [reflexivity|].
  destruct b as [|y b]; [reflexivity|]. cbn [length firstn xor_bytes]. rewrite IH. reflexivity.
Qed.
Theorem NEA1_is_xor_firstn st ck count bearer dir ibs :
  bearer < 32 -> dir < 2 -> N.of_nat (length ibs) < 536870909 ->
  snd (NEA1 st ck count bearer dir ibs (8 * N.of_nat (length ibs)))
  = SOk (xor_bytes ibs (firstn (length ibs)
           (words_to_bytes (snow3g_keystream (key_words ck) (f8_iv count bearer dir) (Nat.div (length ibs + 3) 4))))).
Proof. intros. rewrite NEA1_is_eea1 by assumption. rewrite xor_bytes_firstn. reflexivity. Qed.
