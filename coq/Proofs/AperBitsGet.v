(* GetBitString (aper.go), which both the encoder (putBitString) and the decoder use, at bit level:
   it returns the [n] bits that follow bit position [off] of the source, left-aligned and zero-padded. *)
From Coq Require Import NArith ZArith List Bool Lia Arith.
From Coq Require Import ZifyN ZifyNat ZifyBool.
Require Import GoSlice Bits AperCommon AperBits.
Import ListNotations.
Open Scope N_scope.
Ltac Zify.zify_post_hook ::= Z.div_mod_to_equations.
Local Arguments N.add : simpl never.
Local Arguments N.mul : simpl never.
Local Arguments N.sub : simpl never.
Local Arguments N.div : simpl never.
Local Arguments N.modulo : simpl never.
Local Arguments N.land : simpl never.
Local Arguments N.lor : simpl never.
Local Arguments N.shiftr : simpl never.
Local Arguments N.shiftl : simpl never.
Local Arguments N.pow : simpl never.

Definition pair_f (off a b : N) : N := N.lor (shl8 a off) (shr8 b (sub64 8 off)).

Fixpoint pairs_f (off : N) (cnt : nat) (l : list N) : list N :=
  match cnt, l with
  | S c, a :: r => match r with b :: _ => pair_f off a b :: pairs_f off c r | [] => [] end
  | _, _ => []
  end.

Lemma pairs_f_length off : forall cnt l, (cnt + 1 <= length l)%nat -> length (pairs_f off cnt l) = cnt.
Proof.
  induction cnt as [|c IH]; intros l H; [destruct l; reflexivity|].
  destruct l as [|a [|b r]]; cbn [length] in H; try lia. cbn [pairs_f length]. f_equal. apply IH. cbn [length]. lia.
Qed.

Lemma pairs_f_snoc off : forall c l, (c + 2 <= length l)%nat ->
  pairs_f off (S c) l = pairs_f off c l ++ [pair_f off (nth c l 0) (nth (S c) l 0)].
Proof.
  induction c as [|c IH]; intros l H.
  - destruct l as [|a [|b r]]; cbn [length] in H; try lia. cbn [pairs_f nth app]. destruct r; reflexivity.
  - destruct l as [|a [|b r]]; cbn [length] in H; try lia.
    change (pairs_f off (S (S c)) (a :: b :: r)) with (pair_f off a b :: pairs_f off (S c) (b :: r)).
    rewrite IH by (cbn [length]; lia).
    change (pairs_f off (S c) (a :: b :: r)) with (pair_f off a b :: pairs_f off c (b :: r)). reflexivity.
Qed.

Lemma idx_mid2 p a b r : idx (p ++ a :: b :: r) (len p + 1) = Ok b.
Proof.
  replace (p ++ a :: b :: r) with ((p ++ [a]) ++ b :: r) by (rewrite <- app_assoc; reflexivity).
  apply idx_mid'. rewrite len_app. reflexivity.
Qed.

Lemma gbs_loop_spec off : forall cnt pre_s a rest_s pre_d zs,
  length pre_s = length pre_d -> (cnt <= length rest_s)%nat -> (cnt <= length zs)%nat ->
  gbs_loop cnt (len pre_d + 1) (pre_s ++ a :: rest_s) (pre_d ++ zs) off
  = Ok (pre_d ++ pairs_f off cnt (a :: rest_s) ++ skipn cnt zs).
Proof.
  induction cnt as [|c IH]; intros pre_s a rest_s pre_d zs Hl Hr Hz.
  - cbn [gbs_loop pairs_f skipn app]. reflexivity.
  - destruct rest_s as [|b r]; [cbn in Hr; lia|]. destruct zs as [|z zs']; [cbn in Hz; lia|].
    cbn [gbs_loop].
    rewrite (idx_mid' pre_s a (b :: r) (len pre_d + 1 - 1)) by (unfold len; lia). cbn [bind].
    replace (len pre_d + 1) with (len pre_s + 1) at 1 by (unfold len; lia). rewrite idx_mid2. cbn [bind].
    rewrite (upd_mid' pre_d z zs' _ (len pre_d + 1 - 1)) by lia. cbn [bind].
    fold (pair_f off a b).
    replace (pre_s ++ a :: b :: r) with ((pre_s ++ [a]) ++ b :: r) by (rewrite <- app_assoc; reflexivity).
    replace (pre_d ++ pair_f off a b :: zs') with ((pre_d ++ [pair_f off a b]) ++ zs') by (rewrite <- app_assoc; reflexivity).
    replace (len pre_d + 1 + 1) with (len (pre_d ++ [pair_f off a b]) + 1) by (rewrite len_app; reflexivity).
    rewrite IH; [|rewrite !app_length; cbn [length]; lia|cbn [length] in Hr; lia|cbn [length] in Hz; lia].
    cbn [pairs_f skipn]. rewrite <- app_assoc. reflexivity.
Qed.

Lemma pairs_f_bits off : off < 8 -> forall cnt l, bok l -> (cnt + 1 <= length l)%nat ->
  bok (pairs_f off cnt l) /\
  bits_of_bytes (pairs_f off cnt l) = firstn (8 * cnt) (skipn (N.to_nat off) (bits_of_bytes l)).
Proof.
  intros Ho. induction cnt as [|c IH]; intros l Hok Hl.
  - split; [destruct l; constructor|]. destruct l; reflexivity.
  - destruct l as [|a [|b r]]; cbn [length] in Hl; try lia.
    apply bok_cons in Hok. destruct Hok as [Ha Hok]. pose proof Hok as Hok'. apply bok_cons in Hok'. destruct Hok' as [Hb _].
    destruct (IH (b :: r) Hok) as [IH1 IH2]; [cbn [length]; lia|].
    destruct (S1 a b off Ha Hb Ho) as [Hv Hbits]. fold (pair_f off a b) in Hv, Hbits.
    cbn [pairs_f]. split; [apply bok_cons; auto|].
    rewrite bits_of_bytes_cons, Hbits, IH2. rewrite (bits_of_bytes_cons a).
    set (R := bits_of_bytes (b :: r)). set (o := N.to_nat off). assert (o < 8)%nat by lia.
    rewrite skipn_app_l by (rewrite bits_of_N_length; lia).
    replace (8 * S c)%nat with ((8 - o) + (o + 8 * c))%nat by lia.
    rewrite firstn_app_r by (rewrite skipn_length, bits_of_N_length; lia).
    rewrite skipn_length, bits_of_N_length. rewrite <- app_assoc. f_equal.
    replace (8 - o + (o + 8 * c) - (8 - o))%nat with (o + 8 * c)%nat by lia.
    rewrite firstn_add. f_equal. unfold R. rewrite bits_of_bytes_cons. rewrite firstn_app_l by (rewrite bits_of_N_length; lia). reflexivity.
Qed.

Lemma keep_of_mod n k r : (N.to_nat n = 8 * k + r)%nat -> (1 <= r <= 8)%nat -> keep_of (n mod 8) = r.
Proof. intros H Hr. unfold keep_of. destruct (n mod 8 =? 0) eqn:E; lia. Qed.

Theorem GetBitString_bits src off n :
  bok src -> off < 8 -> 1 <= n -> off + n <= 8 * len src -> len src < 17592186044416 ->
  exists d, GetBitString src off n = Ok d /\ bok d /\ len d = (n + 7) / 8 /\
    bits_of_bytes d = firstn (N.to_nat n) (skipn (N.to_nat off) (bits_of_bytes src)) ++ repeat false (pad_len (N.to_nat n)).
Proof.
  intros Hok Hoff Hn1 Hfit Hlen. unfold GetBitString.
  assert (Hbl : sub64 (u64 (len src * 8)) off = len src * 8 - off).
  { rewrite u64_small by (unfold TWO64; lia). apply sub64_small; unfold TWO64; lia. }
  rewrite Hbl. assert (len src * 8 - off <? n = false) as -> by lia. assert (n =? 0 = false) as -> by lia.
  rewrite (u64_small (off + n + 7)) by (unfold TWO64; lia). rewrite (u64_small (n + 7)) by (unfold TWO64; lia).
  rewrite !shiftr3. rewrite land7. fold (gbs_mask (n mod 8)).
  (* nat view *)
  set (k := ((N.to_nat n - 1) / 8)%nat). set (r := (N.to_nat n - 8 * k)%nat). set (o := N.to_nat off).
  assert (Hk : (N.to_nat n = 8 * k + r)%nat) by (unfold r, k; lia).
  assert (Hr : (1 <= r <= 8)%nat) by (unfold r, k; lia).
  assert (Hnbl : (n + 7) / 8 = N.of_nat (S k)) by lia.
  assert (Hsl : (S k <= length src)%nat) by (unfold len in *; lia).
  rewrite Hnbl.
  unfold make_bytes, MAXALLOC. assert (N.of_nat (S k) <=? 281474976710656 = true) as -> by (unfold len in *; lia). cbn [bind].
  rewrite Nat2N.id.
  assert ((off + n + 7) / 8 <? 9223372036854775808 = true) as -> by lia.
  destruct src as [|a0 rest0] eqn:Esrc; [cbn [length] in Hsl; lia|]. rewrite <- Esrc in *.
  (* the loop *)
  set (cnt := N.to_nat ((off + n + 7) / 8 - 1)).
  assert (Hcnt : cnt = k \/ cnt = S k) by (unfold cnt; lia).
  assert (Hcl : (cnt + 1 <= length src)%nat) by (unfold cnt, len in *; lia).
  pose proof (gbs_loop_spec off cnt [] a0 rest0 [] (repeat 0 (S k))) as HL.
  cbn [app] in HL. rewrite <- Esrc in HL. change (len [] + 1) with 1 in HL.
  rewrite HL; [|reflexivity|rewrite Esrc in Hcl; cbn [length] in Hcl; lia|rewrite repeat_length; lia]. clear HL.
  cbn [bind]. rewrite skipn_repeat.
  (* decomposition of the source around octet k *)
  pose proof (split_at src k 0 ltac:(lia)) as Hsplit.
  set (a' := nth k src 0) in *. set (pre := firstn k src) in *. set (post := skipn (S k) src) in *.
  assert (Hprelen : length pre = k) by (unfold pre; apply firstn_length_le; lia).
  assert (Hokpre : bok pre) by (apply bok_firstn; exact Hok).
  assert (Ha' : a' < 256).
  { rewrite Hsplit in Hok. apply bok_app in Hok. destruct Hok as [_ Hok]. apply bok_cons in Hok. tauto. }
  destruct (pairs_f_bits off Hoff k src Hok ltac:(lia)) as [HPok HPbits].
  pose proof (pairs_f_length off k src ltac:(lia)) as HPlen.
  set (P := pairs_f off k src) in *.
  assert (HB : bits_of_bytes src = bits_of_bytes pre ++ bits_of_N 8 a' ++ bits_of_bytes post).
  { rewrite Hsplit at 1. rewrite bits_of_bytes_app, bits_of_bytes_cons. reflexivity. }
  assert (Hskip : skipn (8 * k) (skipn o (bits_of_bytes src)) = skipn o (bits_of_N 8 a' ++ bits_of_bytes post)).
  { rewrite skipn_skipn. replace (o + 8 * k)%nat with (8 * k + o)%nat by lia. rewrite <- skipn_skipn. f_equal.
    rewrite HB. rewrite skipn_app_r by (rewrite bits_of_bytes_length; lia). rewrite bits_of_bytes_length, Hprelen.
    replace (8 * k - 8 * k)%nat with O by lia. reflexivity. }
  assert (Hkeep : keep_of (n mod 8) = r) by (apply (keep_of_mod n k r); assumption).
  assert (Hpad : pad_len (N.to_nat n) = (8 - r)%nat) by (unfold pad_len; lia).
  assert (Hgoal : forall y, y < 256 ->
     firstn r (bits_of_N 8 y) = firstn r (skipn o (bits_of_N 8 a' ++ bits_of_bytes post)) ->
     bok (P ++ [N.land y (gbs_mask (n mod 8))]) /\ len (P ++ [N.land y (gbs_mask (n mod 8))]) = N.of_nat (S k) /\
     bits_of_bytes (P ++ [N.land y (gbs_mask (n mod 8))])
     = firstn (N.to_nat n) (skipn o (bits_of_bytes src)) ++ repeat false (pad_len (N.to_nat n))).
  { intros y Hy Hyb. destruct (S3 y (n mod 8) Hy ltac:(lia)) as [Hm Hmb]. split; [|split].
    - apply bok_app. split; [exact HPok|]. constructor; [exact Hm|constructor].
    - rewrite len_app. unfold len. rewrite HPlen. cbn [length]. lia.
    - rewrite bits_of_bytes_app, bits_of_bytes_cons, bits_of_bytes_nil, app_nil_r, Hmb, Hkeep, Hpad, HPbits.
      rewrite Hk. rewrite firstn_add. rewrite <- app_assoc. f_equal. rewrite Hskip. f_equal. exact Hyb. }
  destruct Hcnt as [Hc|Hc]; rewrite Hc.
  - (* byteLen = numBitsByteLen: the last octet is src[byteLen-1] << off *)
    assert ((off + n + 7) / 8 =? N.of_nat (S k) = true) as -> by (unfold cnt in Hc; lia).
    assert (Hor : (o + r <= 8)%nat) by (unfold cnt, o in *; lia).
    replace (S k - k)%nat with 1%nat by lia. cbn [repeat]. fold P.
    assert (Hi : idx src ((off + n + 7) / 8 - 1) = Ok a').
    { rewrite idx_nth by (unfold len, cnt in *; lia). unfold a'. f_equal. f_equal. unfold cnt in *. lia. }
    rewrite Hi. cbn [bind].
    rewrite (upd_mid' P 0 [] (shl8 a' off)) by (unfold len, cnt in *; lia). cbn [bind].
    rewrite (idx_mid' P (shl8 a' off) []) by (unfold len; lia). cbn [bind].
    rewrite (upd_mid' P (shl8 a' off) []) by (unfold len; lia).
    destruct (S2 a' off Ha' Hoff) as [Hs Hsb].
    destruct (Hgoal (shl8 a' off) Hs) as (G1 & G2 & G3).
    { rewrite Hsb. fold o. rewrite skipn_app_l by (rewrite bits_of_N_length; lia).
      rewrite !firstn_app_l by (rewrite skipn_length, bits_of_N_length; lia). reflexivity. }
    eexists. split; [reflexivity|]. split; [exact G1|]. split; [exact G2|exact G3].
  - (* byteLen = numBitsByteLen + 1: the last octet was written by the loop *)
    assert ((off + n + 7) / 8 =? N.of_nat (S k) = false) as -> by (unfold cnt in Hc; lia).
    assert (Hor : (8 < o + r)%nat) by (unfold cnt, o in *; lia).
    replace (S k - S k)%nat with O by lia. cbn [repeat]. rewrite app_nil_r.
    rewrite pairs_f_snoc by lia. fold P. fold a'. cbn [bind].
    destruct post as [|b' post'] eqn:Epost.
    { exfalso. apply (f_equal (@length N)) in Hsplit. rewrite app_length in Hsplit. cbn [length] in Hsplit. lia. }
    assert (Hnth : nth (S k) src 0 = b').
    { rewrite Hsplit. replace (S k) with (length (pre ++ [a']) + 0)%nat by (rewrite app_length; cbn [length]; lia).
      replace (pre ++ a' :: b' :: post') with ((pre ++ [a']) ++ b' :: post') by (rewrite <- app_assoc; reflexivity).
      rewrite app_nth2_plus. reflexivity. }
    rewrite Hnth.
    assert (Hb' : b' < 256).
    { rewrite Hsplit in Hok. apply bok_app in Hok. destruct Hok as [_ Hok]. apply bok_cons in Hok. destruct Hok as [_ Hok].
      apply bok_cons in Hok. tauto. }
    rewrite (idx_mid' P (pair_f off a' b') []) by (unfold len; lia). cbn [bind].
    rewrite (upd_mid' P (pair_f off a' b') []) by (unfold len; lia).
    destruct (S1 a' b' off Ha' Hb' Hoff) as [Hs Hsb]. fold (pair_f off a' b') in Hs, Hsb.
    destruct (Hgoal (pair_f off a' b') Hs) as (G1 & G2 & G3).
    { rewrite Hsb. fold o. rewrite skipn_app_l by (rewrite bits_of_N_length; lia).
      rewrite bits_of_bytes_cons.
      rewrite !firstn_app_r by (rewrite skipn_length, bits_of_N_length; lia). f_equal.
      rewrite skipn_length, bits_of_N_length. rewrite firstn_firstn.
      rewrite firstn_app_l by (rewrite bits_of_N_length; lia). f_equal. lia. }
    eexists. split; [reflexivity|]. split; [exact G1|]. split; [exact G2|exact G3].
Qed.

(* n = 0: the empty string, whatever the cursor *)
Lemma GetBitString_zero src off : off <= 8 * len src -> len src < 17592186044416 -> GetBitString src off 0 = Ok [].
Proof.
  intros H Hl. unfold GetBitString.
  assert (sub64 (u64 (len src * 8)) off <? 0 = false) as -> by lia. reflexivity.
Qed.
