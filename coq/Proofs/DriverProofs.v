From Coq Require Import List String Bool Arith Lia.
Require Import DriverTypes Driver.
Import ListNotations.

(* once the peer has closed: the next Write, or the Read after the last readable message, stops the process *)
Lemma closed_exits : forall evs f s n,
  closed s = true -> wr_checked evs = true -> stops evs (readable s) = true ->
  exists m, run f evs s n = Exit1 m /\ n <= m.
Proof.
  induction evs as [|e evs IH]; intros f s n Hc Hw Hio; [discriminate Hio|].
  cbn [wr_checked forallb] in Hw. apply andb_true_iff in Hw. destruct Hw as [He Hw].
  destruct e as [k c w|u]; [|discriminate He].
  destruct k; cbn [run stops] in *.
  - rewrite Hc. rewrite He. exists n. split; [reflexivity | lia].
  - rewrite Hc. destruct (readable s) as [|m0] eqn:Er.
    + rewrite He. exists n. split; [reflexivity | lia].
    + destruct (IH f {| wcount := wcount s; closed := true; readable := m0; gpending := None; lastbad := false |} (S n) eq_refl Hw Hio) as [m [E L]].
      exists m. split; [exact E | lia].
  - destruct (lastbad s); [destruct c|].
    + exists n. split; [reflexivity | lia].
    + destruct (IH f {| wcount := wcount s; closed := closed s; readable := readable s; gpending := gpending s; lastbad := false |} (S n) Hc Hw Hio) as [m [E L]].
      exists m. split; [exact E | lia].
    + destruct (IH f s (S n) Hc Hw Hio) as [m [E L]]. exists m. split; [exact E | lia].
  - destruct (IH f s (S n) Hc Hw Hio) as [m [E L]]. exists m. split; [exact E | lia].
Qed.

Lemma close_exits : forall evs s n d k,
  closed s = false -> wr_checked evs = true -> io_after_w evs d k = true ->
  exists m, run (FClose (wcount s + d) k) evs s n = Exit1 m /\ n <= m.
Proof.
  induction evs as [|e evs IH]; intros s n d k0 Hc Hw Hio; [discriminate Hio|].
  cbn [wr_checked forallb] in Hw. apply andb_true_iff in Hw. destruct Hw as [He Hw].
  destruct e as [k c w|u]; [|discriminate He].
  destruct k; cbn [run io_after_w] in *.
  - rewrite Hc. destruct d as [|d].
    + destruct (closed_exits evs (FClose (wcount s + 0) k0) (after_write (FClose (wcount s + 0) k0) s) (S n)) as [m [E L]]; try assumption.
      { cbn [after_write closed]. apply Nat.eqb_eq. lia. }
      exists m. split; [exact E | lia].
    + specialize (IH (after_write (FClose (wcount s + S d) k0) s) (S n) d k0).
      cbn [after_write closed wcount] in IH.
      replace (S (wcount s) + d) with (wcount s + S d) in IH by lia.
      destruct IH as [m [E L]]; try assumption.
      { apply Nat.eqb_neq. lia. }
      exists m. split; [exact E | lia].
  - rewrite Hc. destruct (gpending s) as [[|q]|];
      match goal with |- context [run ?f evs ?s' (S n)] =>
        destruct (IH s' (S n) d k0 eq_refl Hw Hio) as [m [E L]]; cbn [wcount] in E; exists m; split; [exact E | lia] end.
  - destruct (lastbad s); [destruct c|].
    + exists n. split; [reflexivity | lia].
    + destruct (IH {| wcount := wcount s; closed := closed s; readable := readable s; gpending := gpending s; lastbad := false |} (S n) d k0 Hc Hw Hio) as [m [E L]].
      cbn [wcount] in E. exists m. split; [exact E | lia].
    + destruct (IH s (S n) d k0 Hc Hw Hio) as [m [E L]]. exists m. split; [exact E | lia].
  - destruct (IH s (S n) d k0 Hc Hw Hio) as [m [E L]]. exists m. split; [exact E | lia].
Qed.

Lemma exit_index_in_range : forall evs f s n m, run f evs s n = Exit1 m -> m < n + List.length evs.
Proof.
  induction evs as [|e evs IH]; intros f s n m H; [discriminate H|].
  destruct e as [k c w|u]; cbn [run List.length] in H |- *.
  - destruct k.
    + destruct (closed s); [destruct c; [injection H as <-; lia|]|]; apply IH in H; lia.
    + destruct (closed s).
      * destruct (readable s); [destruct c; [injection H as <-; lia|]|]; apply IH in H; lia.
      * destruct (gpending s) as [[|q]|]; apply IH in H; lia.
    + destruct (lastbad s); [destruct c; [injection H as <-; lia|]|]; apply IH in H; lia.
    + apply IH in H; lia.
  - apply IH in H; lia.
Qed.

Theorem close_fail_stop evs j k :
  wr_checked evs = true -> io_after_w evs j k = true ->
  exists m, run (FClose j k) evs pst0 0 = Exit1 m /\ m < List.length evs.
Proof.
  intros Hw Hio. destruct (close_exits evs pst0 0 j k eq_refl Hw Hio) as [m [E _]]. cbn [pst0 wcount Nat.add] in E.
  exists m. split; [exact E|]. apply exit_index_in_range in E. lia.
Qed.

(* garbage: three phases *)
Lemma bad_read_exits : forall evs f s n,
  lastbad s = true -> first_decode_checked evs = true ->
  exists m, run f evs s n = Exit1 m.
Proof.
  induction evs as [|e evs IH]; intros f s n Hb Hd; [discriminate Hd|].
  destruct e as [k c w|u]; cbn [run first_decode_checked] in *.
  - destruct k.
    + destruct (closed s); [destruct c; [eexists; reflexivity|]|]; apply IH; assumption.
    + discriminate Hd.
    + rewrite Hb, Hd. eexists; reflexivity.
    + apply IH; assumption.
  - apply IH; assumption.
Qed.

Lemma pending_exits : forall evs j q0 s n q,
  closed s = false -> gpending s = Some q -> wcount s > j -> read_then_checked_decode evs q = true ->
  exists m, run (FGarbage j q0) evs s n = Exit1 m.
Proof.
  induction evs as [|e evs IH]; intros j q0 s n q Hc Hg Hj Hr; [discriminate Hr|].
  destruct e as [k c w|u]; cbn [run read_then_checked_decode] in *.
  - destruct k.
    + rewrite Hc. apply (IH j q0 (after_write (FGarbage j q0) s) (S n) q); try assumption.
      * reflexivity.
      * cbn [after_write gpending]. replace (Nat.eqb j (wcount s)) with false by (symmetry; apply Nat.eqb_neq; lia). exact Hg.
      * cbn [after_write wcount]. lia.
    + rewrite Hc, Hg. destruct q as [|q].
      * apply bad_read_exits; [reflexivity | exact Hr].
      * apply (IH j q0 _ (S n) q); try assumption; reflexivity.
    + destruct (lastbad s); [destruct c; [eexists; reflexivity|]|]; apply (IH j q0 _ (S n) q); assumption.
    + apply (IH j q0 _ (S n) q); assumption.
  - apply (IH j q0 _ (S n) q); assumption.
Qed.

Lemma garbage_exits : forall evs s n d q,
  closed s = false -> reply_consumed evs d q = true ->
  exists m, run (FGarbage (wcount s + d) q) evs s n = Exit1 m.
Proof.
  induction evs as [|e evs IH]; intros s n d q Hc Hr; [discriminate Hr|].
  destruct e as [k c w|u]; cbn [run reply_consumed] in *.
  - destruct k.
    + rewrite Hc. destruct d as [|d].
      * apply (pending_exits evs (wcount s + 0) q _ (S n) q); try assumption.
        -- reflexivity.
        -- cbn [after_write gpending]. replace (Nat.eqb (wcount s + 0) (wcount s)) with true by (symmetry; apply Nat.eqb_eq; lia). reflexivity.
        -- cbn [after_write wcount]. lia.
      * specialize (IH (after_write (FGarbage (wcount s + S d) q) s) (S n) d q).
        cbn [after_write closed wcount] in IH. replace (S (wcount s) + d) with (wcount s + S d) in IH by lia.
        apply IH; [reflexivity | exact Hr].
    + rewrite Hc. destruct (gpending s) as [[|q']|];
        match goal with |- context [run ?f evs ?s' (S n)] => apply (IH s' (S n) d q eq_refl Hr) end.
    + destruct (lastbad s); [destruct c; [eexists; reflexivity|]|].
      * apply (IH {| wcount := wcount s; closed := closed s; readable := readable s; gpending := gpending s; lastbad := false |} (S n) d q Hc Hr).
      * apply (IH s (S n) d q Hc Hr).
    + apply (IH s (S n) d q Hc Hr).
  - apply (IH s (S n) d q Hc Hr).
Qed.

Theorem garbage_fail_stop evs j q :
  reply_consumed evs j q = true -> exists m, run (FGarbage j q) evs pst0 0 = Exit1 m.
Proof. intro H. exact (garbage_exits evs pst0 0 j q eq_refl H). Qed.

(* conversations: the conditions are inherited from the procedure skeletons *)
Lemma wr_checked_concat blocks : forallb wr_checked blocks = true -> wr_checked (conversation blocks) = true.
Proof.
  unfold conversation. induction blocks as [|b bs IH]; intro H; [reflexivity|].
  cbn [forallb] in H. apply andb_true_iff in H. destruct H as [Hb Hbs].
  cbn [List.concat]. unfold wr_checked in *. rewrite forallb_app, Hb, (IH Hbs). reflexivity.
Qed.

(* no fault: the run completes *)
Lemma no_fault_completes : forall evs s n,
  closed s = false -> gpending s = None -> lastbad s = false -> run FNone evs s n = Completed.
Proof.
  induction evs as [|e evs IH]; intros s n Hc Hg Hb; [reflexivity|].
  destruct e as [k c w|u]; cbn [run].
  - destruct k.
    + rewrite Hc. apply IH; cbn [after_write closed gpending lastbad]; (assumption || reflexivity).
    + rewrite Hc, Hg. apply IH; reflexivity.
    + rewrite Hb. apply IH; assumption.
    + apply IH; assumption.
  - apply IH; assumption.
Qed.

(* ---- conversations built from the regenerated wiring and skeletons *)
Require Import DriverConv.

Lemma skel_of_in skels proc s : skel_of skels proc = Some s -> In s (map snd skels).
Proof.
  induction skels as [|[n s'] r IH]; [discriminate|]. cbn [skel_of map snd In].
  destruct (String.eqb proc ("stgutg." ++ n)); intro H; [injection H as ->; left; reflexivity | right; apply IH, H].
Qed.
Lemma blocks_of_calls_in skels cs b : In b (blocks_of_calls skels cs) -> In b (map snd skels).
Proof.
  unfold blocks_of_calls. intro H. apply in_flat_map in H. destruct H as [c [_ H]].
  destruct (skel_of skels (c_proc c)) eqn:E; [|contradiction]. destruct H as [<-|[]]. eapply skel_of_in, E.
Qed.
Lemma repeat_blocks_in n bs b : In b (repeat_blocks n bs) -> In b bs.
Proof. induction n as [|n IH]; [contradiction|]. cbn [repeat_blocks]. intro H. apply in_app_or in H. destruct H; auto. Qed.

Definition bounds_ok (w:list step) : bool :=
  forallb (fun s => match s with Loop b _ => match eval_bound [] b with Some _ => true | None => false end | _ => true end) w.
Lemma eval_bound_some c b : eval_bound [] b <> None -> eval_bound c b <> None.
Proof.
  induction b as [f|x IHx y IHy|l|s]; cbn [eval_bound]; try congruence.
  destruct (eval_bound [] x), (eval_bound [] y); try congruence; intros _.
  destruct (eval_bound c x); [|exfalso; apply IHx; congruence]. destruct (eval_bound c y); [congruence | exfalso; apply IHy; congruence].
Qed.

Lemma blocks_of_in skels w c b : bounds_ok w = true -> In b (blocks_of skels w c) -> In b (map snd skels).
Proof.
  unfold blocks_of, bounds_ok. intros Hb H. apply in_flat_map in H. destruct H as [s [Hs H]].
  rewrite forallb_forall in Hb. specialize (Hb s Hs).
  destruct s as [cs|bd cs]; cbn [blocks_of_step] in H.
  - eapply blocks_of_calls_in, H.
  - destruct (eval_bound [] bd) eqn:E0; [|discriminate Hb].
    destruct (eval_bound c bd) eqn:E; [| exfalso; apply (eval_bound_some c bd); congruence].
    apply repeat_blocks_in in H. eapply blocks_of_calls_in, H.
Qed.

Lemma conversation_wr_checked skels w c :
  forallb skeleton_ok skels = true -> bounds_ok w = true -> wr_checked (conversation_of skels w c) = true.
Proof.
  intros Hs Hb. unfold conversation_of. apply wr_checked_concat. apply forallb_forall. intros b Hin.
  apply (blocks_of_in skels w c b Hb) in Hin. apply in_map_iff in Hin. destruct Hin as [[n s] [<- Hin]].
  rewrite forallb_forall in Hs. specialize (Hs _ Hin). unfold skeleton_ok in Hs. apply andb_true_iff in Hs. apply Hs.
Qed.

Theorem conversation_close_fail_stop skels w c j k :
  forallb skeleton_ok skels = true -> bounds_ok w = true ->
  io_after_w (conversation_of skels w c) j k = true ->
  exists m, run (FClose j k) (conversation_of skels w c) pst0 0 = Exit1 m /\ m < List.length (conversation_of skels w c).
Proof. intros Hs Hb Hio. apply close_fail_stop; [apply conversation_wr_checked; assumption | exact Hio]. Qed.
