(* Structural C03 theorem, part 3: the pieces of a SEQUENCE - named forms of the anonymous recursions of t2a / abs_f /
   x691, the OPTIONAL bitmap computed by opt_pass, the open type wrapper, the alternative lookup by key. *)
From Coq Require Import String NArith ZArith List Bool Lia Arith.
From Coq Require Import ZifyN ZifyNat ZifyBool.
Require Import GoSlice Bits AperCommon AperEnc AperDec Asn1 X691 Asn1Tags AperBits AperBitsGet AperBitsPut AperEncProofs
        AperStructPrim AperStructStr AperStructBits AperStructDefs AperStructLeaf AperStructSeq.
Import ListNotations.
Open Scope N_scope.
Ltac Zify.zify_post_hook ::= Z.div_mod_to_equations.
Local Arguments N.add : simpl never.
Local Arguments N.mul : simpl never.
Local Arguments N.sub : simpl never.
Local Arguments N.div : simpl never.
Local Arguments N.modulo : simpl never.
Local Arguments N.land : simpl never.
Local Arguments N.lor : simpl never.
Local Arguments N.shiftr : simpl never.
Local Arguments N.shiftl : simpl never.
Local Arguments N.pow : simpl never.

(* ---------------------------------------------------------------- named forms *)
Definition habs (f2 : nat) (av : field * val) : option (option aval) :=
  let '(a, x) := av in
  match f_ty a, x with
  | TPtr _, VNil => if p_optional (f_params a) then Some None else Some (Some AVInvalid)
  | _, _ => match abs_f f2 (f_ty a) (f_params a) x with Some y => Some (Some y) | None => None end
  end.

Lemma abs_f_seq f2 fs p vs : is_choice fs = false -> length fs = length vs ->
  abs_f (S f2) (TStruct fs) p (VStruct vs)
  = match all_some (map (habs f2) (combine fs vs)) with Some cs => Some (AVSeq cs) | None => None end.
Proof.
  intros Hc Hl. cbn [abs_f].
  assert (E : Nat.eqb (@length (string * params * ty) fs) (length vs) = true) by (apply Nat.eqb_eq; exact Hl).
  rewrite E, Hc. reflexivity.
Qed.

Definition alt_key (f1 : nat) (c : field) : option (Z * aty) :=
  match p_refValue (f_params c) with Some k => Some (k, t2a f1 (f_ty c) (f_params c)) | None => None end.

Definition gty (f1 : nat) (fs : list field) (a : field) : bool * aty :=
  let fp := f_params a in
  if p_openType fp then
    match strip_ptr (f_ty a), index_of (p_refName fp) fs 0 with
    | TStruct cfs, Some ref =>
        if is_choice cfs && negb (p_valueExt fp) then
          match all_some (map (alt_key f1) (tl cfs)) with
          | Some alts => (p_optional fp, AOpen ref alts)
          | None => (p_optional fp, ANone)
          end
        else (p_optional fp, ANone)
    | _, _ => (p_optional fp, ANone)
    end
  else (p_optional fp, t2a f1 (f_ty a) fp).

Lemma t2a_seq f1 fs p : is_choice fs = false -> t2a (S f1) (TStruct fs) p = ASeq (p_valueExt p) (map (gty f1 fs) fs).
Proof. intros Hc. cbn [t2a]. rewrite Hc. reflexivity. Qed.

Lemma gty_opt f1 fs a : fst (gty f1 fs a) = p_optional (f_params a).
Proof.
  unfold gty. destruct (p_openType (f_params a)); [|reflexivity].
  destruct (strip_ptr (f_ty a)); try reflexivity. destruct (index_of _ fs 0); [|reflexivity].
  destruct (_ && _); [|reflexivity]. destruct (all_some _); reflexivity.
Qed.

Lemma t2a_not_open : forall n t p ref alts, t2a n t p <> AOpen ref alts.
Proof.
  induction n as [|n IH]; intros t p ref alts; [discriminate|]. destruct t; cbn [t2a]; try discriminate.
  - destruct (p_valueLB p) as [[| |]|]; try discriminate. destruct (p_valueUB p); [|discriminate]. destruct (_ <? _)%Z; discriminate.
  - destruct (size_lb _); [|discriminate]. destruct (size_ub _); discriminate.
  - destruct (size_lb _); [|discriminate]. destruct (size_ub _); discriminate.
  - destruct (size_lb _); [|discriminate]. destruct (size_ub _); discriminate.
  - destruct (size_lb _); [|discriminate]. destruct (size_ub _); discriminate.
  - apply IH.
  - destruct (is_choice fields); [|discriminate]. destruct (p_openType p); [discriminate|].
    destruct (p_valueUB p); [|discriminate]. destruct (_ && _); discriminate.
Qed.

Definition comp_enc (vs : list (option aval)) (ft : aty) (cv : aval) (p : nat) : xres :=
  match ft, cv with
  | AOpen ref alts, AVOpen key ov =>
      match nth_error vs ref with
      | Some (Some sv) =>
          match key_of sv, X691.find_alt key alts with
          | Some k, Some at' =>
              if (k =? key)%Z then
                dox inner <- x691 at' ov 0;
                let octets := pack inner in
                dox l <- lendet (N.of_nat (length octets)) p;
                XOk (l ++ bits_of_bytes octets)
              else XViolation
          | _, _ => XViolation
          end
      | _ => XViolation
      end
  | AOpen _ _, _ => XViolation
  | _, _ => x691 ft cv p
  end.

Definition x_comps (vs : list (option aval)) (pos : nat) :=
  fix comps (fs : list (bool * aty)) (cs : list (option aval)) (acc : bits) {struct cs} : xres :=
    match fs, cs with
    | [], [] => XOk acc
    | (opt, ft) :: fr, c :: cr =>
        match c with
        | None => if opt then comps fr cr acc else XViolation
        | Some cv => dox e <- comp_enc vs ft cv (pos + length acc); comps fr cr (acc ++ e)
        end
    | _, _ => XViolation
    end.

Definition seq_bitmap (fs : list (bool * aty)) (vs : list (option aval)) : bits :=
  flat_map (fun fv => match fv with ((true, _), Some _) => [true] | ((true, _), None) => [false] | _ => [] end) (combine fs vs).

Lemma x691_seq ext fs vs pos :
  x691 (ASeq ext fs) (AVSeq vs) pos
  = if negb (Nat.eqb (length fs) (length vs)) then XViolation
    else x_comps vs pos fs vs ((if ext then [false] else []) ++ seq_bitmap fs vs).
Proof. reflexivity. Qed.

Lemma x_comps_cons vs pos opt ft fr c cr acc :
  x_comps vs pos ((opt, ft) :: fr) (c :: cr) acc
  = match c with
    | None => if opt then x_comps vs pos fr cr acc else XViolation
    | Some cv => dox e <- comp_enc vs ft cv (pos + length acc); x_comps vs pos fr cr (acc ++ e)
    end.
Proof. destruct c; reflexivity. Qed.

Lemma x_comps_prefix vs pos : forall fs cs acc b, x_comps vs pos fs cs acc = XOk b -> exists r, b = acc ++ r.
Proof.
  induction fs as [|[opt ft] fr IH]; intros cs acc b H.
  - destruct cs; cbn in H; [|discriminate]. injection H as <-. exists []. rewrite app_nil_r. reflexivity.
  - destruct cs as [|c cr]; [discriminate|]. rewrite x_comps_cons in H. destruct c as [cv|].
    + destruct (comp_enc vs ft cv (pos + length acc)) as [e| |]; cbn [xbind] in H; try discriminate.
      destruct (IH _ _ _ H) as [r ->]. exists (e ++ r). rewrite app_assoc. reflexivity.
    + destruct opt; [|discriminate]. eapply IH; eauto.
Qed.

(* ---------------------------------------------------------------- the OPTIONAL bitmap *)
Fixpoint bm (fs : list field) (vs : list val) : list bool :=
  match fs, vs with
  | f :: fr, v :: vr => (if p_optional (f_params f) then [match v with VNil => false | _ => true end] else []) ++ bm fr vr
  | _, _ => []
  end.

Definition fld_typed (f : field) (x : val) : Prop :=
  (p_optional (f_params f) = true -> exists e, f_ty f = TPtr e /\ (x = VNil \/ exists v', x = VPtr v')) /\
  (p_optional (f_params f) = false -> forall e, f_ty f = TPtr e -> x <> VNil).

Lemma count_optional_cons f fs : count_optional (f :: fs) = (if p_optional (f_params f) then 1 else 0) + count_optional fs.
Proof. reflexivity. Qed.

Lemma bm_length fs : forall vs, length fs = length vs -> N.of_nat (length (bm fs vs)) = count_optional fs.
Proof.
  induction fs as [|f fr IH]; intros vs Hl; destruct vs as [|v vr]; try discriminate; [reflexivity|].
  cbn [bm]. rewrite app_length, count_optional_cons. injection Hl as Hl. specialize (IH vr Hl).
  destruct (p_optional (f_params f)); cbn [length]; lia.
Qed.

Lemma Forall2_len {A B} (R : A -> B -> Prop) l1 l2 : Forall2 R l1 l2 -> length l1 = length l2.
Proof. induction 1; cbn [length]; congruence. Qed.

Lemma opt_pass_true : forall fs vs cnt pres,
  Forall2 fld_typed fs vs -> cnt + count_optional fs <= 64 -> pres < 2 ^ cnt ->
  opt_pass true fs vs cnt pres = Ok (cnt + count_optional fs, pres * 2 ^ count_optional fs + N_of_bits (bm fs vs)).
Proof.
  induction fs as [|f fr IH]; intros vs cnt pres HT Hc Hp; inversion HT as [|f' x fr' vr Hf HT' E1 E2]; subst.
  - cbn [opt_pass count_optional bm]. change (N_of_bits []) with 0. change (2 ^ 0) with 1. f_equal. f_equal; lia.
  - cbn [opt_pass bm]. rewrite count_optional_cons in *. destruct Hf as [Ho Hm].
    assert (Hbl : N.of_nat (length (bm fr vr)) = count_optional fr) by (apply bm_length; eapply Forall2_len; eauto).
    destruct (p_optional (f_params f)) eqn:Eo.
    + destruct (Ho eq_refl) as (e & Et & Hx). rewrite Et.
      assert (Hpow : 2 ^ (1 + count_optional fr) = 2 * 2 ^ count_optional fr) by (rewrite N.pow_add_r; reflexivity).
      assert (Hpw : 2 ^ (cnt + 1) = 2 * 2 ^ cnt) by (rewrite N.add_1_r, N.pow_succ_r'; reflexivity).
      assert (H64 : 2 ^ cnt <= 2 ^ 63) by (apply N.pow_le_mono_r; lia).
      destruct Hx as [->|[v' ->]]; cbn [is_nil bind].
      * rewrite IH; auto; try lia.
        -- f_equal. f_equal; [lia|]. cbn [app]. rewrite N_of_bits_cons, Hbl, Hpow.
           rewrite u64_small by (unfold TWO64; change (2 ^ 63) with 9223372036854775808 in H64; lia). lia.
        -- rewrite u64_small by (unfold TWO64; change (2 ^ 63) with 9223372036854775808 in H64; lia). lia.
      * rewrite IH; auto; try lia.
        -- f_equal. f_equal; [lia|]. cbn [app]. rewrite N_of_bits_cons, Hbl, Hpow.
           rewrite u64_small by (unfold TWO64; change (2 ^ 63) with 9223372036854775808 in H64; lia). lia.
        -- rewrite u64_small by (unfold TWO64; change (2 ^ 63) with 9223372036854775808 in H64; lia). lia.
    + cbn [app]. assert (Hgo : opt_pass true fr vr cnt pres = Ok (cnt + (0 + count_optional fr), pres * 2 ^ (0 + count_optional fr) + N_of_bits (bm fr vr))).
      { rewrite N.add_0_l. apply IH; auto. }
      destruct (f_ty f) eqn:Et; try exact Hgo. destruct x; try exact Hgo. exfalso. eapply Hm; eauto.
Qed.

Lemma opt_pass_false : forall fs vs c p, length fs = length vs -> opt_pass false fs vs c p = Ok (c, p).
Proof.
  induction fs as [|f fr IH]; intros vs c p Hl; destruct vs as [|v vr]; try discriminate; [reflexivity|].
  cbn [opt_pass]. apply IH. injection Hl as Hl. exact Hl.
Qed.

(* ---------------------------------------------------------------- open type wrapper *)
Lemma lendet_aligned n pos l : lendet n pos = XOk l -> ((pos + length l) mod 8 = 0)%nat.
Proof.
  unfold lendet. pose proof (pad_len_spec pos) as Hp. unfold align.
  destruct (n <? 128); [|destruct (n <? 16384)]; intros H; try discriminate;
    apply (f_equal (fun r => match r with XOk b => length b | _ => O end)) in H; cbv beta iota in H; rewrite <- H;
    rewrite app_length, repeat_length, bits_of_N_length; lia.
Qed.

Lemma open_frag_once k s bl bytes L :
  repr s bl -> bok bytes -> 0 < len bytes < 16384 ->
  emits (appendLength s (-1) (len bytes)) bl L -> (length (bl ++ L) mod 8 = 0)%nat ->
  emits (open_frag_loop (S k) s bytes (len bytes) 0) bl (L ++ bits_of_bytes bytes).
Proof.
  intros Hs Hb Hn (s1 & E & R) Hal. cbn [open_frag_loop]. rewrite part_of_small by lia. rewrite E. cbn [bind].
  assert (len bytes =? 0 = false) as -> by lia.
  rewrite slice_all by (unfold TWO64; lia). cbn [bind]. rewrite sub64_small by (unfold TWO64; lia).
  rewrite N.sub_diag. change (0 <? 0) with false. cbv iota.
  eexists. split; [reflexivity|].
  assert (R1 : repr (appendAlignBits s1) (bl ++ L)).
  { pose proof (repr_align s1 _ R) as R1. unfold align in R1. rewrite pad_len_0 in R1 by exact Hal. cbn [repeat] in R1. rewrite app_nil_r in R1. exact R1. }
  pose proof (repr_append_bytes _ _ bytes R1 Hal Hb) as R2.
  pose proof (repr_align _ _ R2) as R3. unfold align in R3.
  rewrite pad_len_0 in R3 by (rewrite app_length, bits_of_bytes_length; lia). cbn [repeat] in R3. rewrite app_nil_r, <- app_assoc in R3. exact R3.
Qed.

(* ---------------------------------------------------------------- alternative lookup by referenceFieldValue *)
Lemma dec_find_alt_range cs : forall j r, AperDec.find_alt cs j r = O \/ (j <= AperDec.find_alt cs j r)%nat.
Proof.
  induction cs as [|c cs IH]; intros j r; cbn [AperDec.find_alt]; [left; reflexivity|].
  destruct (p_refValue (f_params c)) as [x|]; [destruct (x =? r)%Z; [right; lia|]|]; destruct (IH (S j) r); auto; right; lia.
Qed.

Lemma find_alt_link f1 r : forall cs alts j m a,
  all_some (map (alt_key f1) cs) = Some alts -> (1 <= j)%nat ->
  AperDec.find_alt cs j r = (j + m)%nat -> nth_error cs m = Some a ->
  X691.find_alt r alts = Some (t2a f1 (f_ty a) (f_params a)).
Proof.
  induction cs as [|c cs IH]; intros alts j m a Ha Hj Hf Hn; [destruct m; discriminate|].
  apply all_some_cons in Ha. destruct Ha as (y & alts' & Hy & Ha' & ->).
  unfold alt_key in Hy. cbn [AperDec.find_alt] in Hf.
  destruct (p_refValue (f_params c)) as [x|] eqn:Ex; [|discriminate]. injection Hy as <-. cbn [X691.find_alt].
  destruct (x =? r)%Z eqn:Exr.
  - assert (m = O) by lia. subst m. cbn [nth_error] in Hn. injection Hn as <-. reflexivity.
  - destruct m as [|m].
    + exfalso. destruct (dec_find_alt_range cs (S j) r); lia.
    + cbn [nth_error] in Hn. eapply (IH alts' (S j) m a); eauto; lia.
Qed.

(* find_field (the Go loop over the first i fields) agrees with index_of when the name occurs before i *)
Lemma find_field_index name : forall fs i k, (i <= length fs)%nat -> find_field name fs i k <> (k + i)%nat ->
  index_of name fs k = Some (find_field name fs i k).
Proof.
  induction fs as [|f fs IH]; intros i k Hl H.
  - cbn [length] in Hl. assert (i = O) by lia. subst i. cbn [find_field] in H. lia.
  - destruct i; cbn [find_field] in *; [lia|]. cbn [index_of]. destruct (String.eqb (f_name f) name); [reflexivity|].
    apply IH; cbn [length] in Hl; lia.
Qed.
