(* Structural C03 theorem: for every Go type / tag parameters / value whose X.691 encoding (under the reading of the tags
   as ASN.1 types, Spec/Asn1Tags.v) exists and which stays within the supported constraint classes (AperStructDefs.sup),
   the model of marshal.go produces exactly the packed X.691 bits.  Induction on the nesting depth of the type. *)
From Coq Require Import String NArith ZArith List Bool Lia Arith.
From Coq Require Import ZifyN ZifyNat ZifyBool.
Require Import GoSlice Bits AperCommon AperEnc AperDec Asn1 X691 Asn1Tags AperBits AperBitsGet AperBitsPut AperEncProofs
        AperStructPrim AperStructStr AperStructBits AperStructDefs AperStructLeaf AperStructSeq AperStructFld.
Import ListNotations.
Open Scope N_scope.
Ltac Zify.zify_post_hook ::= Z.div_mod_to_equations.
Local Arguments N.add : simpl never.
Local Arguments N.mul : simpl never.
Local Arguments N.sub : simpl never.
Local Arguments N.div : simpl never.
Local Arguments N.modulo : simpl never.
Local Arguments N.land : simpl never.
Local Arguments N.lor : simpl never.
Local Arguments N.shiftr : simpl never.
Local Arguments N.shiftl : simpl never.
Local Arguments N.pow : simpl never.

Definition MainStmt (t : ty) : Prop :=
  forall n1 n2 n3 n4 p v s bl av b,
    (ty_depth t <= n1)%nat -> (ty_depth t <= n2)%nat -> (ty_depth t <= n3)%nat -> (ty_depth t <= n4)%nat ->
    abs_f n2 t p v = Some av -> sup_f n4 t p v = true ->
    x691 (t2a n1 t p) av (length bl) = XOk b -> small (bl ++ b) -> repr s bl ->
    emits (makeField n3 t p v s) bl b.

Definition x_elems (et : aty) (pos : nat) :=
  fix elems (l : list aval) (acc : bits) {struct l} : xres :=
    match l with
    | [] => XOk acc
    | x :: r => dox e <- x691 et x (pos + length acc); elems r (acc ++ e)
    end.

Lemma x_elems_prefix et pos : forall l acc b, x_elems et pos l acc = XOk b -> exists r, b = acc ++ r.
Proof.
  induction l as [|x l IH]; intros acc b H; cbn [x_elems] in H.
  - injection H as <-. exists []. rewrite app_nil_r. reflexivity.
  - destruct (x691 et x (pos + length acc)) as [e| |]; cbn [xbind] in H; try discriminate.
    destruct (IH _ _ H) as [r ->]. exists (e ++ r). rewrite app_assoc. reflexivity.
Qed.

Lemma pack_fuel_len_ge : forall f l, (length l < f)%nat -> (length l <= 8 * length (pack_fuel f l))%nat.
Proof.
  induction f as [|f IH]; intros l H; [lia|]. cbn [pack_fuel]. destruct l as [|b l']; [cbn; lia|].
  cbn [length] in *. set (l := b :: l') in *. assert (Hl : length l = S (length l')) by reflexivity.
  specialize (IH (skipn 8 l)). rewrite skipn_length in IH. rewrite Hl in IH. specialize (IH ltac:(lia)). lia.
Qed.
Lemma pack_len_ge l : (length l <= 8 * length (pack l))%nat.
Proof.
  unfold pack. pose proof (pack_fuel_len_ge (S (length l)) l ltac:(lia)) as H. fold (pack_bits l) in H.
  destruct (pack_bits l); cbn [length] in *; lia.
Qed.
Lemma lendet_ok_lt n pos l : lendet n pos = XOk l -> n < 16384.
Proof. unfold lendet. destruct (n <? 128) eqn:E1; [lia|]. destruct (n <? 16384) eqn:E2; [lia|discriminate]. Qed.

Lemma sub_small bl a r : small (bl ++ a ++ r) -> small (bl ++ a).
Proof. apply small_prefix. Qed.

Section Level.
  Variable n : nat.
  Hypothesis Hrec : forall t', (ty_depth t' <= n)%nat -> MainStmt t'.

  (* ---- the elements of a SEQUENCE OF *)
  Lemma elems_emit e f1 f2 f3 f4 p' :
    (ty_depth e <= n)%nat -> (ty_depth e <= f1)%nat -> (ty_depth e <= f2)%nat -> (ty_depth e <= f3)%nat -> (ty_depth e <= f4)%nat ->
    forall l l' s bl acc b,
      all_some (map (abs_f f2 e p') l) = Some l' -> forallb (sup_f f4 e p') l = true ->
      x_elems (t2a f1 e p') (length bl) l' acc = XOk b -> small (bl ++ b) -> repr s (bl ++ acc) ->
      exists s', enc_elems (makeField f3) e p' l s = Ok s' /\ repr s' (bl ++ b).
  Proof.
    intros Hn H1 H2 H3 H4. induction l as [|x l IH]; intros l' s bl acc b Ha Hs Hx Hsm Hr.
    - cbn [map all_some] in Ha. injection Ha as <-. cbn [x_elems] in Hx. injection Hx as <-. exists s. auto.
    - apply all_some_cons in Ha. destruct Ha as (y & l2 & Hy & Ha' & ->).
      cbn [forallb] in Hs. apply andb_true_iff in Hs. destruct Hs as [Hs1 Hs2].
      cbn [x_elems] in Hx. destruct (x691 (t2a f1 e p') y (length bl + length acc)) as [eb| |] eqn:Ee; cbn [xbind] in Hx; try discriminate.
      destruct (x_elems_prefix _ _ _ _ _ Hx) as [r Hb]. subst b.
      assert (Hem : emits (makeField f3 e p' x s) (bl ++ acc) eb).
      { apply (Hrec e Hn f1 f2 f3 f4 p' x s (bl ++ acc) y eb); auto.
        - rewrite app_length. exact Ee.
        - rewrite <- app_assoc in Hsm. rewrite <- app_assoc. unfold small in *. rewrite !app_length in *. lia. }
      destruct Hem as (s1 & E1 & R1). cbn [enc_elems]. rewrite E1. cbn [bind]. fold (enc_elems (makeField f3) e p').
      eapply IH; eauto. rewrite app_assoc. exact R1.
  Qed.

  (* ---- one present component of a SEQUENCE *)
  Lemma field_cases f2 f4 allf allv i (f : field) x :
    (exists e, f_ty f = TPtr e /\ x = VNil) \/
    (habs f2 (f, x) = match abs_f f2 (f_ty f) (f_params f) x with Some y => Some (Some y) | None => None end /\
     field_sup (sup_f f4) (makeField f4) allf allv i f x
     = (negb (p_optional (f_params f)) || is_ptr (f_ty f)) &&
       (if p_openType (f_params f) then negb (p_optional (f_params f)) && open_sup (sup_f f4) (makeField f4) allf allv i (f_params f) (f_ty f) x
        else sup_f f4 (f_ty f) (f_params f) x)).
  Proof.
    unfold habs, field_sup. destruct (f_ty f); try (right; split; reflexivity).
    destruct x; try (right; split; reflexivity). left. eauto.
  Qed.

  Lemma field_emits allf allv allcs i f x cv f1 f2 f3 f4 s bl e :
    (fdepth allf <= n)%nat -> (fdepth allf <= f1)%nat -> (fdepth allf <= f2)%nat -> (fdepth allf <= f3)%nat -> (fdepth allf <= f4)%nat ->
    length allf = length allv -> all_some (map (habs f2) (combine allf allv)) = Some allcs ->
    nth_error allf i = Some f -> nth_error allv i = Some x ->
    habs f2 (f, x) = Some (Some cv) ->
    field_sup (sup_f f4) (makeField f4) allf allv i f x = true ->
    comp_enc allcs (snd (gty f1 allf f)) cv (length bl) = XOk e -> small (bl ++ e) -> repr s bl ->
    emits (do fp' <- (if p_openType (f_params f) then
               let index := find_field (p_refName (f_params f)) allf i 0 in
               if Nat.eqb index i then Err E_OPEN_NOFIELD
               else match nth_error allf index, nth_error allv index with
                    | Some rf, Some rv => do z <- get_ref REF_FUEL (f_ty rf) rv; Ok (set_ref (f_params f) (Some z))
                    | _, _ => Panic P_ILLTYPED
                    end
             else Ok (f_params f));
           makeField f3 (f_ty f) fp' x s) bl e.
  Proof.
    intros Dn D1 D2 D3 D4 Hlen Hall Hf Hv Hh Hsup Hc Hsm Hr.
    pose proof (fdepth_nth _ _ _ Hf) as Hd.
    destruct (field_cases f2 f4 allf allv i f x) as [(e0 & Et & ->)|[Hh' Hsup']].
    { (* a nil pointer is either absent or invalid *)
      unfold habs in Hh. rewrite Et in Hh. unfold field_sup in Hsup. rewrite Et in Hsup. rewrite Hsup in Hh. discriminate. }
    rewrite Hh' in Hh. rewrite Hsup' in Hsup. clear Hh' Hsup'. apply andb_true_iff in Hsup. destruct Hsup as [_ Hsup].
    destruct (abs_f f2 (f_ty f) (f_params f) x) as [y|] eqn:Eabs; [|discriminate]. injection Hh as <-.
    unfold gty in Hc. destruct (p_openType (f_params f)) eqn:Eo.
    2:{ (* an ordinary component *)
      cbn [snd bind] in *.
      assert (Hce : comp_enc allcs (t2a f1 (f_ty f) (f_params f)) y (length bl) = x691 (t2a f1 (f_ty f) (f_params f)) y (length bl)).
      { unfold comp_enc. destruct (t2a f1 (f_ty f) (f_params f)) eqn:Et; try reflexivity. exfalso. eapply t2a_not_open; eauto. }
      rewrite Hce in Hc. apply (Hrec (f_ty f) ltac:(lia) f1 f2 f3 f4 (f_params f) x s bl y e); auto; lia. }
    (* an open type *)
    apply andb_true_iff in Hsup. destruct Hsup as [Hno Hos].
    unfold open_sup in Hos. destruct (f_ty f) as [| | | | | | | | |cfs] eqn:Et; try discriminate.
    destruct x as [| | | | | |cvs| |]; try discriminate. destruct cvs as [|[present| | | | | | | |] cvr]; try discriminate.
    apply andb_true_iff in Hos; destruct Hos as [Hos Hrest].
    apply andb_true_iff in Hos; destruct Hos as [Hos Hleq].
    apply andb_true_iff in Hos; destruct Hos as [Hos Hplt].
    apply andb_true_iff in Hos; destruct Hos as [Hos Hpgt].
    apply andb_true_iff in Hos; destruct Hos as [Hch Hvx].
    cbv zeta in Hrest. apply andb_true_iff in Hrest; destruct Hrest as [Hidxne Hm].
    set (idx := find_field (p_refName (f_params f)) allf i 0) in *.
    assert (Hni : idx <> i) by (intros E'; rewrite E', Nat.eqb_refl in Hidxne; discriminate).
    destruct (nth_error allf idx) as [rf|] eqn:Erf; [|discriminate].
    destruct (nth_error allv idx) as [rv|] eqn:Erv; [|discriminate].
    destruct (nth_error cfs (Z.to_nat present)) as [a|] eqn:Ea; [|discriminate].
    destruct (nth_error (VInt present :: cvr) (Z.to_nat present)) as [av|] eqn:Eav; [|discriminate].
    destruct (p_refValue (f_params a)) as [r|] eqn:Er; [|discriminate].
    destruct (get_ref REF_FUEL (f_ty rf) rv) as [z| | |] eqn:Ez; try discriminate.
    apply andb_true_iff in Hm; destruct Hm as [Hm Hne].
    apply andb_true_iff in Hm; destruct Hm as [Hm Hsupa].
    apply andb_true_iff in Hm; destruct Hm as [Hrz Hfind].
    apply Nat.eqb_eq in Hleq. apply Nat.eqb_eq in Hfind.
    assert (z = r) by lia. subst z.
    assert (Hda : (S (ty_depth (f_ty a)) <= ty_depth (TStruct cfs))%nat).
    { rewrite ty_depth_struct. pose proof (fdepth_nth _ _ _ Ea). lia. }
    (* the abstraction of the value *)
    destruct f2 as [|f2']; [pose proof (ty_depth_pos (TStruct cfs)); lia|].
    cbn [abs_f] in Eabs.
    match type of Eabs with (if negb ?c then _ else _) = _ => assert (Ec : c = true) by (apply Nat.eqb_eq; exact Hleq) end.
    rewrite Ec in Eabs. cbn [negb] in Eabs. rewrite Hch in Eabs.
    assert (Hrange : ((0 <? present) && (present <? Z.of_nat (length cfs)))%Z = true) by lia.
    match type of Eabs with (if ?c then _ else _) = _ => replace c with true in Eabs by (symmetry; exact Hrange) end.
    rewrite Ea, Eav in Eabs.
    destruct (abs_f f2' (f_ty a) (f_params a) av) as [xx|] eqn:Exx; [|discriminate].
    rewrite Eo, Er in Eabs. injection Eabs as <-.
    (* the ASN.1 type *)
    cbn [strip_ptr] in Hc.
    assert (Hidx : index_of (p_refName (f_params f)) allf 0 = Some idx).
    { apply (find_field_index _ allf i 0).
      - apply Nat.lt_le_incl. apply nth_error_Some. congruence.
      - cbn [Nat.add]. exact Hni. }
    rewrite Hidx, Hch, Hvx in Hc. cbn [andb] in Hc.
    destruct (all_some (map (alt_key f1) (tl cfs))) as [alts|] eqn:Ealts; cbn [snd comp_enc] in Hc; [|discriminate].
    destruct (nth_error allcs idx) as [[sv|]|]; try discriminate.
    destruct (key_of sv) as [k|]; [|discriminate].
    assert (Hfa : X691.find_alt r alts = Some (t2a f1 (f_ty a) (f_params a))).
    { destruct cfs as [|c0 cfs']; [destruct (Z.to_nat present); discriminate|].
      destruct (Z.to_nat present) as [|m] eqn:Em; [lia|]. cbn [tl nth_error] in *.
      eapply (find_alt_link f1 r cfs' alts 1 m a); eauto. }
    rewrite Hfa in Hc. destruct (k =? r)%Z; [|discriminate].
    destruct (x691 (t2a f1 (f_ty a) (f_params a)) xx 0) as [inner| |] eqn:Einner; cbn [xbind] in Hc; try discriminate.
    destruct (lendet (N.of_nat (length (pack inner))) (length bl)) as [L| |] eqn:EL; cbn [xbind] in Hc; try discriminate.
    injection Hc as <-.
    (* the model *)
    cbv zeta. fold idx. assert (Nat.eqb idx i = false) as -> by (apply Nat.eqb_neq; exact Hni).
    rewrite Erf, Erv, Ez. cbn [bind].
    destruct f3 as [|f3']; [pose proof (ty_depth_pos (TStruct cfs)); lia|].
    cbn [makeField]. unfold encStruct. cbn [set_ref p_valueExt p_openType p_refValue].
    assert (p_valueExt (f_params f) = false) as -> by (destruct (p_valueExt (f_params f)); [discriminate|reflexivity]).
    cbn [bind]. rewrite Hch. cbn [negb].
    rewrite opt_pass_false by exact Hleq. cbn [bind]. change (0 <? 0) with false. cbv iota.
    change (@length field) with (@length (string * params * ty)) in *.
    change (@nth_error field) with (@nth_error (string * params * ty)) in *.
    assert ((present =? 0)%Z = false) as -> by lia.
    assert ((present >=? Z.of_nat (length cfs))%Z = false) as -> by lia.
    assert ((present <? 0)%Z = false) as -> by lia.
    rewrite Ea, Eav, Eo, Er. assert ((r =? r)%Z = true) as -> by lia.
    unfold appendOpenType.
    (* inner encoding, at both fuels *)
    assert (Hin : forall g, (ty_depth (f_ty a) <= g)%nat -> exists si, makeField g (f_ty a) (f_params a) av (mkest [] 0) = Ok si /\ repr si inner).
    { intros g Hg. destruct (Hrec (f_ty a) ltac:(lia) f1 f2' g f4 (f_params a) av (mkest [] 0) [] xx inner) as (si & Ei & Ri); auto; try lia.
      - cbn [app]. pose proof (pack_len_ge inner). unfold small, LIM in *. rewrite !app_length, bits_of_bytes_length in Hsm. lia.
      - apply repr_init.
      - exists si. auto. }
    cbn [bind]. destruct (Hin f3' ltac:(lia)) as (si & Ei & Ri). rewrite Ei. cbn [bind].
    destruct (Hin f4 ltac:(lia)) as (si4 & Ei4 & Ri4). rewrite Ei4 in Hne. cbn [nonempty_bytes] in Hne.
    rewrite (repr_pack _ _ Ri4) in Hne. rewrite (repr_pack _ _ Ri).
    assert (Hpk : pack inner = pack_bits inner) by (unfold pack; destruct (pack_bits inner); [discriminate|reflexivity]).
    rewrite Hpk in *.
    assert (Hbk : bok (pack_bits inner)) by (rewrite <- (repr_pack _ _ Ri); apply Ri).
    pose proof (lendet_ok_lt _ _ _ EL) as Hlt. pose proof (lendet_aligned _ _ _ EL) as Hal.
    apply open_frag_once; auto.
    - split; [|exact Hlt]. unfold len. destruct (pack_bits inner); [discriminate|cbn [length]; lia].
    - apply lendet_emits; auto. apply small_prefix in Hsm. exact Hsm.
    - rewrite app_length. exact Hal.
  Qed.

  (* ---- typing facts and the preamble bitmap of a SEQUENCE value *)
  Lemma typed_and_bitmap allf allv f1 f2 f4 : forall fr vr cr i,
    all_some (map (habs f2) (combine fr vr)) = Some cr ->
    fields_sup (sup_f f4) (makeField f4) allf allv i fr vr = true ->
    Forall2 fld_typed fr vr /\ seq_bitmap (map (gty f1 allf) fr) cr = bm fr vr.
  Proof.
    induction fr as [|f fr IH]; intros vr cr i Ha Hs; destruct vr as [|x vr]; cbn [fields_sup] in Hs; try discriminate.
    - cbn [combine map all_some] in Ha. injection Ha as <-. split; [constructor|reflexivity].
    - cbn [combine] in Ha. apply all_some_cons in Ha. destruct Ha as (c & cr' & Hc & Ha' & ->).
      apply andb_true_iff in Hs. destruct Hs as [Hs1 Hs2]. destruct (IH vr cr' (S i) Ha' Hs2) as [IH1 IH2].
      cbn [map bm]. unfold seq_bitmap in *. cbn [combine flat_map]. rewrite IH2.
      rewrite (surjective_pairing (gty f1 allf f)), gty_opt.
      assert (Hf : fld_typed f x /\ match (p_optional (f_params f), snd (gty f1 allf f), c) with
                                    | (true, _, Some _) => [true] | (true, _, None) => [false] | _ => [] end
                                    = (if p_optional (f_params f) then [match x with VNil => false | _ => true end] else [])).
      { unfold fld_typed. destruct (p_optional (f_params f)) eqn:Eo.
        - assert (Hp : exists e0, f_ty f = TPtr e0).
          { unfold field_sup in Hs1. destruct (f_ty f); try (destruct x; rewrite Eo in Hs1; cbn [negb orb is_ptr andb] in Hs1; discriminate). eauto. }
          destruct Hp as [e0 Et]. unfold habs in Hc. rewrite Et in Hc.
          destruct x; try (destruct f2; cbn [abs_f] in Hc; discriminate).
          + rewrite Eo in Hc. injection Hc as <-. split; [|reflexivity]. split; [|discriminate]. intros _. eauto.
          + destruct (abs_f f2 (TPtr e0) (f_params f) (VPtr x)); [|discriminate]. injection Hc as <-.
            split; [|reflexivity]. split; [|discriminate]. intros _. eauto.
        - split; [|destruct c; reflexivity]. split; [discriminate|]. intros _ e0 Et ->.
          unfold field_sup in Hs1. rewrite Et, Eo in Hs1. discriminate. }
      destruct Hf as [Hf1 Hf2]. split; [constructor; assumption|]. rewrite <- Hf2.
      destruct (p_optional (f_params f)); destruct c; reflexivity.
  Qed.

  Lemma skipn_step {A} (l : list A) i x r : skipn i l = x :: r -> skipn (S i) l = r /\ nth_error l i = Some x.
  Proof.
    revert i; induction l as [|y l IH]; intros i H; [destruct i; discriminate|].
    destruct i; cbn [skipn nth_error] in *; [injection H as -> ->; auto|]. apply IH. exact H.
  Qed.

  Lemma bind_assoc {A B C} (a : res A) (f : A -> res B) (g : B -> res C) :
    bind (bind a f) g = bind a (fun x => bind (f x) g).
  Proof. destruct a; reflexivity. Qed.

  Lemma shl64_one k : k < 64 -> shl64 1 k = 2 ^ k.
  Proof.
    intros H. unfold shl64. assert (k <? 64 = true) as -> by lia. rewrite N.shiftl_1_l. apply N.mod_small.
    change TWO64 with (2 ^ 64). apply N.pow_lt_mono_r; lia.
  Qed.

  (* ---- the components of a SEQUENCE *)
  Lemma seq_loop_emits allf allv allcs f1 f2 f3 f4 bl :
    (fdepth allf <= n)%nat -> (fdepth allf <= f1)%nat -> (fdepth allf <= f2)%nat -> (fdepth allf <= f3)%nat -> (fdepth allf <= f4)%nat ->
    length allf = length allv -> all_some (map (habs f2) (combine allf allv)) = Some allcs ->
    forall fr vr cr i cnt pres hi s acc b,
      skipn i allf = fr -> skipn i allv = vr ->
      all_some (map (habs f2) (combine fr vr)) = Some cr ->
      fields_sup (sup_f f4) (makeField f4) allf allv i fr vr = true ->
      cnt = count_optional fr -> cnt <= 64 -> pres = hi * 2 ^ cnt + N_of_bits (bm fr vr) ->
      x_comps allcs (length bl) (map (gty f1 allf) fr) cr acc = XOk b -> small (bl ++ b) -> repr s (bl ++ acc) ->
      exists s', seq_loop (makeField f3) allf allv fr vr i cnt pres s = Ok s' /\ repr s' (bl ++ b).
  Proof.
    intros Dn D1 D2 D3 D4 Hlen Hall.
    induction fr as [|f fr IH]; intros vr cr i cnt pres hi s acc b Hfr Hvr Hcr Hsup Hcnt Hc64 Hpres Hx Hsm Hr;
      destruct vr as [|x vr]; cbn [fields_sup] in Hsup; try discriminate.
    - cbn [combine map all_some] in Hcr. injection Hcr as <-. cbn [map x_comps] in Hx. injection Hx as <-.
      cbn [seq_loop]. eauto.
    - destruct (typed_and_bitmap allf allv f1 f2 f4 _ _ _ _ Hcr Hsup) as [HT _].
      cbn [combine] in Hcr. apply all_some_cons in Hcr. destruct Hcr as (c & cr' & Hc & Hcr' & ->).
      apply andb_true_iff in Hsup. destruct Hsup as [Hs1 Hs2].
      destruct (skipn_step _ _ _ _ Hfr) as [Hfr' Hnf]. destruct (skipn_step _ _ _ _ Hvr) as [Hvr' Hnv].
      cbn [map] in Hx. rewrite (surjective_pairing (gty f1 allf f)), gty_opt in Hx. rewrite x_comps_cons in Hx.
      rewrite count_optional_cons in Hcnt. cbn [bm] in Hpres.
      assert (HT2 : fld_typed f x /\ Forall2 fld_typed fr vr) by (inversion HT; auto).
      destruct HT2 as [[Ho Hm] HT'].
      assert (Hbl : N.of_nat (length (bm fr vr)) = count_optional fr) by (apply bm_length; eapply Forall2_len; eauto).
      subst cnt pres. cbn [seq_loop].
      destruct c as [cv|].
      + (* the component is present *)
        destruct (comp_enc allcs (snd (gty f1 allf f)) cv (length bl + length acc)) as [e| |] eqn:Ee; cbn [xbind] in Hx; try discriminate.
        destruct (x_comps_prefix _ _ _ _ _ _ Hx) as [r Hb]. subst b.
        set (cnt' := if p_optional (f_params f) && (0 <? (if p_optional (f_params f) then 1 else 0) + count_optional fr)
                     then (if p_optional (f_params f) then 1 else 0) + count_optional fr - 1
                     else (if p_optional (f_params f) then 1 else 0) + count_optional fr).
        assert (Hcnt' : cnt' = count_optional fr) by (unfold cnt'; destruct (p_optional (f_params f)); cbn [andb]; [assert (0 <? 1 + count_optional fr = true) as -> by lia|]; lia).
        assert (Htest : p_optional (f_params f) && (0 <? (if p_optional (f_params f) then 1 else 0) + count_optional fr)
                        && (N.land (hi * 2 ^ ((if p_optional (f_params f) then 1 else 0) + count_optional fr)
                                    + N_of_bits ((if p_optional (f_params f) then [match x with VNil => false | _ => true end] else []) ++ bm fr vr))
                                   (shl64 1 cnt') =? 0) = false).
        { destruct (p_optional (f_params f)) eqn:Eo; [|reflexivity].
          assert (0 <? 1 + count_optional fr = true) as -> by lia. cbn [andb app].
          rewrite Hcnt'. rewrite shl64_one by lia. rewrite <- Hbl.
          replace (1 + N.of_nat (length (bm fr vr))) with (N.of_nat (S (length (bm fr vr)))) by lia.
          rewrite bitmap_test.
          (* an OPTIONAL component that is present is not a nil pointer *)
          destruct (Ho eq_refl) as (e0 & Et & Hxx). destruct Hxx as [->|[v' ->]]; [|reflexivity].
          unfold habs in Hc. rewrite Et, Eo in Hc. discriminate. }
        rewrite Htest.
        assert (Hem : emits (do fp' <- (if p_openType (f_params f) then
                              let index := find_field (p_refName (f_params f)) allf i 0 in
                              if Nat.eqb index i then Err E_OPEN_NOFIELD
                              else match nth_error allf index, nth_error allv index with
                                   | Some rf, Some rv => do z <- get_ref REF_FUEL (f_ty rf) rv; Ok (set_ref (f_params f) (Some z))
                                   | _, _ => Panic P_ILLTYPED
                                   end
                            else Ok (f_params f));
                          makeField f3 (f_ty f) fp' x s) (bl ++ acc) e).
        { eapply (field_emits allf allv allcs i f x cv f1 f2 f3 f4); eauto.
          - rewrite app_length. exact Ee.
          - rewrite <- app_assoc in Hsm. rewrite <- app_assoc. unfold small in *. rewrite !app_length in *. lia. }
        destruct Hem as (s1 & E1 & R1). rewrite <- bind_assoc. cbv zeta in E1. cbv zeta. rewrite E1. cbn [bind].
        eapply (IH vr cr' (S i) cnt' _ (if p_optional (f_params f) then 2 * hi + 1 else hi) s1 (acc ++ e)); eauto; try lia.
        * rewrite Hcnt'. destruct (p_optional (f_params f)) eqn:Eo.
          -- cbn [app]. rewrite N_of_bits_cons, Hbl.
             destruct (Ho eq_refl) as (e0 & Et & Hxx). destruct Hxx as [->|[v' ->]]; [unfold habs in Hc; rewrite Et, Eo in Hc; discriminate|].
             rewrite N.pow_add_r. change (2 ^ 1) with 2. lia.
          -- cbn [app]. rewrite N.add_0_l. lia.
        * rewrite app_assoc. exact R1.
      + (* absent: an OPTIONAL nil pointer *)
        assert (Hopt : p_optional (f_params f) = true /\ x = VNil).
        { unfold habs in Hc. destruct (f_ty f); try (destruct (abs_f f2 _ (f_params f) x); discriminate).
          destruct x; try (destruct (abs_f f2 _ (f_params f) _); discriminate).
          destruct (p_optional (f_params f)); [auto|discriminate]. }
        destruct Hopt as [Eo ->]. rewrite Eo in *. cbn [app].
        assert (0 <? 1 + count_optional fr = true) as -> by lia. cbn [andb].
        replace (1 + count_optional fr - 1) with (count_optional fr) by lia.
        rewrite shl64_one by lia. rewrite <- Hbl.
        replace (1 + N.of_nat (length (bm fr vr))) with (N.of_nat (S (length (bm fr vr)))) by lia.
        rewrite bitmap_test. cbn [negb]. cbv iota.
        eapply (IH vr cr' (S i) _ _ (2 * hi) s acc); eauto; try lia.
        rewrite N_of_bits_cons. rewrite Nat2N.inj_succ, N.pow_succ_r'. lia.
  Qed.
End Level.

Lemma x691_invalid t pos b : x691 t AVInvalid pos <> XOk b.
Proof. destruct t; cbn [x691]; discriminate. Qed.

Lemma x691_seqof lb ub ext et l pos :
  x691 (ASeqOf lb ub ext et) (AVSeqOf l) pos
  = dox pre <- size_prefix lb ub ext (N.of_nat (length l)) pos; x_elems et pos l pre.
Proof. reflexivity. Qed.

Lemma nth_error_tl {A} (l : list A) k : nth_error (tl l) k = nth_error l (S k).
Proof. destruct l; [destruct k; reflexivity|reflexivity]. Qed.

Ltac normty :=
  change (@length field) with (@length (string * params * ty)) in *;
  change (@tl field) with (@tl (string * params * ty)) in *;
  change (@nth_error field) with (@nth_error (string * params * ty)) in *.

Theorem main_all : forall n t, (ty_depth t <= n)%nat -> MainStmt t.
Proof.
  induction n as [|n IH]; intros t Hd; [pose proof (ty_depth_pos t); lia|].
  unfold MainStmt. intros n1 n2 n3 n4 p v s bl av b D1 D2 D3 D4 Ha Hs Hx Hsm Hr.
  destruct n1 as [|n1]; [pose proof (ty_depth_pos t); lia|]. destruct n2 as [|n2]; [pose proof (ty_depth_pos t); lia|].
  destruct n3 as [|n3]; [pose proof (ty_depth_pos t); lia|]. destruct n4 as [|n4]; [pose proof (ty_depth_pos t); lia|].
  destruct t as [| | | | | | |e|e|fs].
  - eapply (leaf_emits TInt I); eauto.
  - eapply (leaf_emits TEnum I); eauto.
  - eapply (leaf_emits TBool I); eauto.
  - eapply (leaf_emits TBits I); eauto.
  - eapply (leaf_emits TOctets I); eauto.
  - eapply (leaf_emits TString I); eauto.
  - destruct v; discriminate.
  - (* SEQUENCE OF *)
    cbn [ty_depth] in *. destruct v; cbn [abs_f] in Ha; try discriminate. cbn [sup_f] in Hs. cbn [makeField].
    destruct (all_some (map (abs_f n2 e (clear_size p)) l)) as [l'|] eqn:El; [|discriminate]. injection Ha as <-.
    apply andb_true_iff in Hs. destruct Hs as [Hs1 Hs2].
    pose proof Hs1 as Hok. unfold slice_ok in Hok.
    destruct (p_sizeLB p) as [lb|] eqn:Elb; [|discriminate]. destruct (p_sizeUB p) as [ub|] eqn:Eub; [|discriminate].
    apply andb_true_iff in Hok. destruct Hok as [Hok _]. bools.
    cbn [t2a] in Hx. rewrite Elb, Eub, size_lb_some, size_ub_some in Hx by lia. rewrite x691_seqof in Hx.
    assert (Hll : length l' = length l) by (rewrite (all_some_length _ _ El), map_length; reflexivity).
    rewrite Hll in Hx. fold (len l) in Hx.
    destruct (size_prefix (Z.to_N lb) (Some (Z.to_N ub)) (p_sizeExt p) (len l) (length bl)) as [pre| |] eqn:Epre; cbn [xbind] in Hx; try discriminate.
    destruct (x_elems_prefix _ _ _ _ _ Hx) as [rest Hb]. subst b.
    eapply seqof_emits; eauto.
    + apply small_prefix in Hsm. exact Hsm.
    + intros s1 R1.
      destruct (elems_emit n IH e n1 n2 n3 n4 (clear_size p) ltac:(lia) ltac:(lia) ltac:(lia) ltac:(lia) ltac:(lia) l l' s1 bl pre (pre ++ rest)) as (s2 & E2 & R2); auto.
      exists s2. split; [exact E2|]. rewrite <- app_assoc. exact R2.
  - (* pointer *)
    cbn [ty_depth] in *. destruct v; cbn [abs_f] in Ha; try discriminate.
    cbn [sup_f] in Hs. cbn [t2a] in Hx. cbn [makeField]. eapply (IH e ltac:(lia) n1 n2 n3 n4); eauto; lia.
  - (* struct: SEQUENCE or CHOICE *)
    rewrite ty_depth_struct in *. destruct v as [| | | | | |vs| |]; cbn [abs_f] in Ha; try discriminate.
    destruct (Nat.eqb (@length (string * params * ty) fs) (length vs)) eqn:Elen; cbn [negb] in Ha; [|discriminate].
    apply Nat.eqb_eq in Elen. cbn [sup_f] in Hs. cbn [makeField]. unfold encStruct.
    destruct (is_choice fs) eqn:Ech.
    + (* CHOICE *)
      apply andb_true_iff in Hs. destruct Hs as [Hco Hs]. unfold choice_ok in Hco. apply andb_true_iff in Hco. destruct Hco as [Hno Hco].
      destruct (p_valueUB p) as [u|] eqn:Eu; [|discriminate]. bools.
      destruct vs as [|[present| | | | | | | |] vr]; try discriminate.
      destruct ((0 <? present)%Z && (present <? Z.of_nat (length fs))%Z) eqn:Erange.
      2:{ injection Ha as <-. exfalso. eapply x691_invalid; eauto. }
      bools. change (@nth_error field) with (@nth_error (string * params * ty)) in *.
      destruct (nth_error fs (Z.to_nat present)) as [a|] eqn:Ea; [|discriminate].
      destruct (nth_error (VInt present :: vr) (Z.to_nat present)) as [av'|] eqn:Eav; [|discriminate].
      destruct (abs_f n2 (f_ty a) (f_params a) av') as [xx|] eqn:Exx; [|discriminate].
      assert (Eop : p_openType p = false) by (destruct (p_openType p); [discriminate|reflexivity]). rewrite Eop in *.
      injection Ha as <-.
      cbn [t2a] in Hx. rewrite Ech, Eop, Eu in Hx.
      change (@length field) with (@length (string * params * ty)) in *.
      change (@tl field) with (@tl (string * params * ty)) in *.
      assert (Hcond : ((u + 1 =? Z.of_nat (length (tl fs))) && (0 <? u + 1))%Z = true) by lia. rewrite Hcond in Hx.
      cbn [x691] in Hx. rewrite map_length in Hx.
      match type of Hx with match nth_error ?LL ?KK with _ => _ end = _ =>
        assert (Hnth : nth_error LL KK = Some (t2a n1 (f_ty a) (f_params a))) end.
      { rewrite nth_error_map, nth_error_tl. replace (S (N.to_nat (Z.to_N (present - 1)))) with (Z.to_nat present) by lia. change (@nth_error field) with (@nth_error (string * params * ty)). rewrite Ea. reflexivity. }
      rewrite Hnth in Hx.
      normty. assert (Htl : length (tl fs) = (length fs - 1)%nat) by (destruct fs; cbn [tl length]; lia).
      assert (Nat.eqb (length (tl fs)) 1 = false) as E1 by (apply Nat.eqb_neq; lia). rewrite E1 in Hx.
      set (pre := if p_valueExt p then [false] else @nil bool) in *.
      destruct (cwn (N.of_nat (length (tl fs))) (Z.to_N (present - 1)) (length bl + length pre)) as [ib| |] eqn:Eib; cbn [xbind] in Hx; try discriminate.
      destruct (x691 (t2a n1 (f_ty a) (f_params a)) xx (length bl + length (pre ++ ib))) as [eb| |] eqn:Eeb; cbn [xbind] in Hx; try discriminate.
      injection Hx as <-.
      (* model *)
      assert (HE1 : emits (if p_valueExt p then putBitsValue s 0 1 else Ok s) bl pre).
      { unfold pre in *. destruct (p_valueExt p).
        - apply (put1_emits s bl false); auto. smallt.
        - apply emits_nil. exact Hr. }
      destruct HE1 as (s1 & E1' & R1). rewrite E1'. cbn [bind negb].
      rewrite opt_pass_false by exact Elen. cbn [bind]. change (0 <? 0) with false. cbv iota.
      assert ((present =? 0)%Z = false) as -> by lia.
      assert ((present >=? Z.of_nat (length fs))%Z = false) as -> by lia.
      assert ((present <? 0)%Z = false) as -> by lia.
      rewrite ?Ea, ?Eav. cbn [bind].
      assert (Hidx : emits (appendChoiceIndex s1 present (p_valueExt p) (Some u)) (bl ++ pre) ib).
      { replace present with (Z.of_N (Z.to_N (present - 1)) + 1)%Z at 1 by lia.
        replace (Some u) with (Some (Z.of_N (N.of_nat (length (tl fs))) - 1)%Z) by (f_equal; lia).
        apply choice_index_emits; auto; try lia.
        - rewrite app_length. exact Eib.
        - smallt. }
      destruct Hidx as (s2 & E2 & R2). rewrite E2. cbn [bind].
      pose proof (fdepth_nth _ _ _ Ea) as Hda.
      destruct (IH (f_ty a) ltac:(lia) n1 n2 n3 n4 (f_params a) av' s2 ((bl ++ pre) ++ ib) xx eb) as (s3 & E3 & R3); auto; try lia.
      * rewrite <- app_assoc, app_length. exact Eeb.
      * rewrite <- !app_assoc. rewrite <- !app_assoc in Hsm. exact Hsm.
      * exists s3. split; [exact E3|]. rewrite <- !app_assoc in R3. rewrite <- !app_assoc. exact R3.
    + (* SEQUENCE *)
      apply andb_true_iff in Hs. destruct Hs as [Hcnt Hs].
      change (match all_some (map (habs n2) (combine fs vs)) with Some cs => Some (AVSeq cs) | None => None end = Some av) in Ha.
      destruct (all_some (map (habs n2) (combine fs vs))) as [cs|] eqn:Ecs; [|discriminate]. injection Ha as <-.
      rewrite t2a_seq in Hx by exact Ech. rewrite x691_seq in Hx. rewrite map_length in Hx.
      assert (Hcl : length cs = length fs).
      { rewrite (all_some_length _ _ Ecs), map_length, combine_length. change (@length field) with (@length (string * params * ty)). lia. }
      assert (Nat.eqb (length fs) (length cs) = true) as Ecl by (apply Nat.eqb_eq; change (@length field) with (@length (string * params * ty)) in *; lia).
      change (@length field) with (@length (string * params * ty)) in *. rewrite Ecl in Hx. cbn [negb] in Hx.
      destruct (typed_and_bitmap fs vs n1 n2 n4 fs vs cs 0 Ecs Hs) as [HT Hbm]. rewrite Hbm in Hx.
      set (pre := if p_valueExt p then [false] else @nil bool) in *.
      destruct (x_comps_prefix _ _ _ _ _ _ Hx) as [rest Hb]. subst b.
      assert (HE1 : emits (if p_valueExt p then putBitsValue s 0 1 else Ok s) bl pre).
      { unfold pre in *. destruct (p_valueExt p).
        - apply (put1_emits s bl false); auto. smallt.
        - apply emits_nil. exact Hr. }
      destruct HE1 as (s1 & E1' & R1). rewrite E1'. cbn [bind negb].
      rewrite (opt_pass_true fs vs 0 0 HT) by lia. cbn [bind]. rewrite N.add_0_l, N.mul_0_l, N.add_0_l.
      assert (Hbl : N.of_nat (length (bm fs vs)) = count_optional fs) by (apply bm_length; exact Elen).
      assert (HE2 : emits (if 0 <? count_optional fs then putBitsValue s1 (N_of_bits (bm fs vs)) (count_optional fs) else Ok s1) (bl ++ pre) (bm fs vs)).
      { destruct (0 <? count_optional fs) eqn:E0.
        - rewrite <- (bits_of_N_of_bits (bm fs vs)) at 2. replace (length (bm fs vs)) with (N.to_nat (count_optional fs)) by lia.
          apply putBitsValue_repr; auto; try lia.
          + rewrite <- Hbl. apply N_of_bits_lt.
          + replace (N.to_nat (count_optional fs)) with (length (bm fs vs)) by lia. rewrite bits_of_N_of_bits.
            smallt.
        - assert (length (bm fs vs) = O) by lia. destruct (bm fs vs); [|cbn in *; lia]. apply emits_nil. exact R1. }
      destruct HE2 as (s2 & E2 & R2). rewrite E2. cbn [bind].
      rewrite <- app_assoc in R2.
      destruct (seq_loop_emits n IH fs vs cs n1 n2 n3 n4 bl ltac:(lia) ltac:(lia) ltac:(lia) ltac:(lia) ltac:(lia) Elen Ecs
                  fs vs cs 0%nat (count_optional fs) (N_of_bits (bm fs vs)) 0 s2 (pre ++ bm fs vs) ((pre ++ bm fs vs) ++ rest)) as (s3 & E3 & R3); auto; try lia.
      exists s3. auto.
Qed.

(* ---------------------------------------------------------------- the encoder entry point *)
Theorem marshal_is_x691 t p v at' av bits :
  tags_to_asn1 t p = Some at' -> abs t p v = Some av -> sup t p v = true ->
  x691 at' av 0 = XOk bits -> small bits ->
  marshal t p v = Ok (pack bits).
Proof.
  intros Ht Ha Hs Hx Hsm. unfold tags_to_asn1 in Ht. unfold abs in Ha. unfold sup in Hs. unfold marshal, marshal_fuel.
  assert (Hat : t2a (S (ty_depth t)) t p = at') by (destruct (t2a (S (ty_depth t)) t p); congruence). subst at'.
  destruct (main_all (ty_depth t) t ltac:(lia) (S (ty_depth t)) (S (ty_depth t)) (S (ty_depth t)) (S (ty_depth t)) p v (mkest [] 0) [] av bits) as (s1 & E1 & R1); auto.
  - apply repr_init.
  - rewrite E1. cbn [bind app] in *. rewrite (repr_pack _ _ R1). unfold pack. destruct (pack_bits bits); reflexivity.
Qed.
