(* C14: the decoder model (Model/AperDec.v) never panics on the primitive readers, and keeps its cursor
   inside the buffer.  Invariant [dinv]: byteOffset <= len, bitsOffset < 8, and a partially consumed octet exists. *)
From Coq Require Import NArith ZArith List Bool Lia Arith.
From Coq Require Import ZifyN ZifyNat ZifyBool.
Require Import GoSlice AperCommon AperEnc AperDec.
Import ListNotations.
Open Scope N_scope.
Ltac Zify.zify_post_hook ::= Z.div_mod_to_equations.

Definition MAXLEN : N := 4294967296.        (* inputs are far below 2^32 octets (the property: 4 KiB) *)

Lemma shiftr3 x : N.shiftr x 3 = x / 8.
Proof. rewrite N.shiftr_div_pow2. reflexivity. Qed.
Lemma u64_small x : x < TWO64 -> u64 x = x.
Proof. intros H. unfold u64. apply N.mod_small. exact H. Qed.
Lemma len_upd_nat l i v : length (upd_nat l i v) = length l.
Proof. revert i; induction l as [|x l IH]; intros i; destruct i; cbn [upd_nat length]; auto. Qed.
Lemma upd_ok l i v : i < len l -> exists l', upd l i v = Ok l' /\ len l' = len l.
Proof.
  intros H. unfold upd. assert (i <? len l = true) as -> by lia. eexists. split; [reflexivity|].
  unfold len. rewrite len_upd_nat. reflexivity.
Qed.
Lemma idx_ok l i : i < len l -> exists b, idx l i = Ok b.
Proof. intros H. unfold idx. assert (i <? len l = true) as -> by lia. eexists. reflexivity. Qed.

(* ---- GetBitString *)
Lemma gbs_loop_ok src off : forall cnt i dst,
  1 <= i -> i + N.of_nat cnt <= len src -> i - 1 + N.of_nat cnt <= len dst ->
  exists d', gbs_loop cnt i src dst off = Ok d' /\ len d' = len dst.
Proof.
  induction cnt as [|cnt IH]; intros i dst Hi Hs Hd; cbn [gbs_loop].
  - eexists. split; reflexivity.
  - destruct (idx_ok src (i - 1)) as [a ->]; [lia|]. destruct (idx_ok src i) as [b ->]; [lia|]. cbn [bind].
    destruct (upd_ok dst (i - 1) (N.lor (shl8 a off) (shr8 b (sub64 8 off)))) as [d1 [-> Hl1]]; [lia|]. cbn [bind].
    destruct (IH (i + 1) d1) as [d' [-> Hl']]; try lia. eexists. split; [reflexivity|]. lia.
Qed.

Lemma len_repeat (x : N) n : len (repeat x n) = N.of_nat n.
Proof. unfold len. rewrite repeat_length. reflexivity. Qed.

(* for a cursor inside the buffer GetBitString returns bytes or the "overflow" error; on success enough bits existed *)
Theorem GetBitString_total src off n :
  off < 8 -> (0 < off -> 1 <= len src) -> len src < MAXLEN ->
  (exists e, GetBitString src off n = Err e)
  \/ (exists d, GetBitString src off n = Ok d /\ len d = (n + 7) / 8 /\ off + n <= 8 * len src).
Proof.
  intros Hoff Hne Hlen. unfold GetBitString, MAXLEN in *.
  assert (Hbl : sub64 (u64 (len src * 8)) off = len src * 8 - off).
  { rewrite u64_small by (unfold TWO64; lia). unfold sub64, TWO64. rewrite (N.mod_small off) by lia.
    assert (off <= len src * 8) by lia. lia. }
  rewrite Hbl.
  destruct (len src * 8 - off <? n) eqn:E1; [left; eexists; reflexivity|right].
  assert (Hn : off + n <= 8 * len src) by lia.
  destruct (n =? 0) eqn:E0.
  - exists []. split; [reflexivity|]. assert (n = 0) by lia. subst n. split; [reflexivity|lia].
  - rewrite (u64_small (off + n + 7)) by (unfold TWO64; lia). rewrite (u64_small (n + 7)) by (unfold TWO64; lia).
    rewrite !shiftr3.
    set (byteLen := (off + n + 7) / 8). set (nbl := (n + 7) / 8).
    assert (Hb1 : 1 <= byteLen) by (unfold byteLen; lia).
    assert (Hb2 : byteLen <= len src) by (unfold byteLen; lia).
    assert (Hb3 : byteLen - 1 <= nbl) by (unfold byteLen, nbl; lia).
    assert (Hb4 : 1 <= nbl) by (unfold nbl; lia).
    assert (Hb5 : nbl <= byteLen) by (unfold byteLen, nbl; lia).
    unfold make_bytes, MAXALLOC. assert (nbl <=? 281474976710656 = true) as -> by (unfold nbl; lia). cbn [bind].
    assert (byteLen <? 9223372036854775808 = true) as -> by lia.
    destruct (gbs_loop_ok src off (N.to_nat (byteLen - 1)) 1 (repeat 0 (N.to_nat nbl))) as [d1 [-> Hl1]];
      try rewrite len_repeat; try lia.
    cbn [bind]. rewrite len_repeat in Hl1.
    destruct (byteLen =? nbl) eqn:E2.
    + destruct (idx_ok src (byteLen - 1)) as [a ->]; [lia|]. cbn [bind].
      destruct (upd_ok d1 (byteLen - 1) (shl8 a off)) as [d2 [-> Hl2]]; [lia|]. cbn [bind].
      destruct (idx_ok d2 (nbl - 1)) as [l ->]; [lia|]. cbn [bind].
      destruct (upd_ok d2 (nbl - 1) (N.land l (if N.land n 7 =? 0 then 255 else shl8 255 (N.land (sub64 8 (N.land n 7)) 255)))) as [d3 [-> Hl3]]; [lia|].
      exists d3. split; [reflexivity|]. split; [lia|exact Hn].
    + cbn [bind]. destruct (idx_ok d1 (nbl - 1)) as [l ->]; [lia|]. cbn [bind].
      destruct (upd_ok d1 (nbl - 1) (N.land l (if N.land n 7 =? 0 then 255 else shl8 255 (N.land (sub64 8 (N.land n 7)) 255)))) as [d3 [-> Hl3]]; [lia|].
      exists d3. split; [reflexivity|]. split; [lia|exact Hn].
Qed.

(* ---- GetBitsValue *)
Lemma gbv_loop_ok dst : forall cnt i v, i + N.of_nat cnt <= len dst -> exists r, gbv_loop cnt i dst v = Ok r.
Proof.
  induction cnt as [|cnt IH]; intros i v H; cbn [gbv_loop]; [eexists; reflexivity|].
  destruct (idx_ok dst i) as [b ->]; [lia|]. cbn [bind]. apply IH. lia.
Qed.

Theorem GetBitsValue_total src off n :
  off < 8 -> (0 < off -> 1 <= len src) -> len src < MAXLEN ->
  (exists e, GetBitsValue src off n = Err e)
  \/ (exists v, GetBitsValue src off n = Ok v /\ off + n <= 8 * len src).
Proof.
  intros Hoff Hne Hlen. unfold GetBitsValue.
  destruct (GetBitString_total src off n Hoff Hne Hlen) as [[e ->]|[d [-> [Hl Hn]]]]; [left; eexists; reflexivity|].
  cbn [bind]. right.
  destruct (gbv_loop_ok d (N.to_nat (n / 8)) 0 0) as [v ->]; [lia|]. cbn [bind].
  destruct (N.land n 7 =? 0) eqn:E; [eexists; split; [reflexivity|exact Hn]|].
  assert (n <> 0) by (intro; subst n; cbn in E; discriminate).
  destruct (idx_ok d (sub64 (len d) 1)) as [l ->]; [unfold sub64, TWO64, MAXLEN in *; lia|]. cbn [bind].
  eexists; split; [reflexivity|exact Hn].
Qed.

(* ---- the cursor invariant *)
Definition dinv (s : dst) : Prop :=
  d_byteOffset s <= len (d_bytes s) /\ d_bitsOffset s < 8 /\ (0 < d_bitsOffset s -> d_byteOffset s < len (d_bytes s))
  /\ len (d_bytes s) < MAXLEN.

Definition quiet {A} (r : res A) : Prop := match r with Panic _ | OutOfFuel => False | _ => True end.
(* a reader is [good] when it neither panics nor runs out of fuel and leaves the cursor invariant intact *)
Definition good {A} (r : sres A) : Prop := quiet (fst r) /\ dinv (snd r) /\ d_bytes (snd r) = d_bytes (snd r).

Lemma len_skipn (l : list N) k : k <= len l -> len (skipn (N.to_nat k) l) = len l - k.
Proof. intros H. unfold len in *. rewrite skipn_length. lia. Qed.

Lemma land7 x : N.land x 7 = x mod 8.
Proof. change 7 with (N.ones 3). rewrite N.land_ones. reflexivity. Qed.

Theorem getBitsValue_good s n : dinv s ->
  quiet (fst (getBitsValue s n)) /\ dinv (snd (getBitsValue s n)) /\ d_bytes (snd (getBitsValue s n)) = d_bytes s.
Proof.
  intros (H1 & H2 & H3 & H4). unfold getBitsValue, slice_from.
  assert (d_byteOffset s <=? len (d_bytes s) = true) as -> by lia.
  pose proof (len_skipn (d_bytes s) (d_byteOffset s) H1) as Hsk.
  destruct (GetBitsValue_total (skipn (N.to_nat (d_byteOffset s)) (d_bytes s)) (d_bitsOffset s) n) as [[e ->]|[v [-> Hv]]];
    try lia; try (rewrite Hsk; unfold MAXLEN in *; lia).
  - cbn [fst snd quiet]. repeat split; auto.
  - cbn [fst snd quiet]. split; [exact I|]. rewrite Hsk in Hv. unfold MAXLEN in *.
    unfold bitCarry, dinv; cbn [d_bytes d_byteOffset d_bitsOffset].
    rewrite (u64_small (d_bitsOffset s + n)) by (unfold TWO64; lia). rewrite shiftr3, land7.
    rewrite u64_small by (unfold TWO64; lia).
    repeat split; try lia; unfold MAXLEN; lia.
Qed.

Theorem getBitString_good s n : dinv s ->
  quiet (fst (getBitString s n)) /\ dinv (snd (getBitString s n)) /\ d_bytes (snd (getBitString s n)) = d_bytes s.
Proof.
  intros (H1 & H2 & H3 & H4). unfold getBitString, slice_from.
  assert (d_byteOffset s <=? len (d_bytes s) = true) as -> by lia.
  pose proof (len_skipn (d_bytes s) (d_byteOffset s) H1) as Hsk.
  destruct (GetBitString_total (skipn (N.to_nat (d_byteOffset s)) (d_bytes s)) (d_bitsOffset s) n) as [[e ->]|[v [-> [_ Hv]]]];
    try lia; try (rewrite Hsk; unfold MAXLEN in *; lia).
  - cbn [fst snd quiet]. repeat split; auto.
  - cbn [fst snd quiet]. split; [exact I|]. rewrite Hsk in Hv. unfold MAXLEN in *.
    unfold bitCarry, dinv; cbn [d_bytes d_byteOffset d_bitsOffset].
    rewrite (u64_small (d_bitsOffset s + n)) by (unfold TWO64; lia). rewrite shiftr3, land7.
    rewrite u64_small by (unfold TWO64; lia).
    repeat split; try lia; unfold MAXLEN; lia.
Qed.

(* sequencing of good readers *)
Definition good3 {A} (s0 : dst) (r : sres A) : Prop := quiet (fst r) /\ dinv (snd r) /\ d_bytes (snd r) = d_bytes s0.

Lemma sbind_good {A B} s0 (r : sres A) (f : A -> dst -> sres B) :
  good3 s0 r -> (forall a s, dinv s -> d_bytes s = d_bytes s0 -> good3 s0 (f a s)) -> good3 s0 (sbind r f).
Proof.
  intros (Hq & Hi & Hb) Hf. destruct r as [r s]. cbn [fst snd] in *.
  destruct r as [a|e|p|]; cbn [sbind quiet] in *.
  - apply Hf; assumption.
  - unfold good3. cbn [fst snd quiet]. auto.
  - contradiction.
  - contradiction.
Qed.

Lemma good3_ret {A} s0 (r : res A) s' : quiet r -> dinv s' -> d_bytes s' = d_bytes s0 -> good3 s0 (r, s').
Proof. intros. unfold good3. cbn [fst snd]. auto. Qed.
Ltac ret := apply good3_ret; cbn [quiet]; auto.

Theorem parseAlignBits_good s : dinv s -> good3 s (parseAlignBits s).
Proof.
  intros Hs. unfold parseAlignBits. pose proof Hs as (H1 & H2 & H3 & H4).
  destruct (0 <? N.land (d_bitsOffset s) 7) eqn:E.
  - apply sbind_good.
    + apply getBitsValue_good; exact Hs.
    + intros v s' Hs' Hb. destruct (v =? 0); ret.
  - rewrite land7 in E. assert (d_bitsOffset s = 0) by lia.
    assert (negb (d_bitsOffset s =? 0) = false) as -> by lia. ret.
Qed.

Lemma parseAlignBits_aligned s u s' : dinv s -> parseAlignBits s = (Ok u, s') -> d_bitsOffset s' = 0.
Proof.
  intros (H1 & H2 & H3 & H4). unfold parseAlignBits. rewrite land7.
  assert (Hm : d_bitsOffset s mod 8 = d_bitsOffset s) by (apply N.mod_small; lia). rewrite Hm.
  destruct (0 <? d_bitsOffset s) eqn:E.
  - unfold getBitsValue. destruct (slice_from (d_bytes s) (d_byteOffset s)) as [src| | |]; cbn [sbind]; try discriminate.
    destruct (GetBitsValue src (d_bitsOffset s) (8 - d_bitsOffset s)) as [v| | |]; cbn [sbind]; try discriminate.
    destruct (v =? 0); intros Heq; [|apply (f_equal fst) in Heq; discriminate].
    apply (f_equal snd) in Heq. cbn [snd] in Heq. subst s'. unfold bitCarry. cbn [d_bitsOffset].
    rewrite land7. rewrite u64_small by (unfold TWO64; lia).
    replace (d_bitsOffset s + (8 - d_bitsOffset s)) with 8 by lia. reflexivity.
  - destruct (negb (d_bitsOffset s =? 0)) eqn:E2; intros Heq; apply (f_equal snd) in Heq; cbn [snd] in Heq; subst s'.
    + unfold bitCarry. cbn [d_bitsOffset]. rewrite land7. lia.
    + lia.
Qed.

Lemma sbind_align_good {B} s0 s (K : dst -> sres B) :
  dinv s -> d_bytes s = d_bytes s0 ->
  (forall s1, dinv s1 -> d_bytes s1 = d_bytes s0 -> d_bitsOffset s1 = 0 -> good3 s0 (K s1)) ->
  good3 s0 (sbind (parseAlignBits s) (fun _ s1 => K s1)).
Proof.
  intros Hs Hb HK. pose proof (parseAlignBits_good s Hs) as (Q & I' & B').
  destruct (parseAlignBits s) as [r s1] eqn:E. cbn [fst snd] in *.
  destruct r as [u|e|p|]; cbn [sbind quiet] in *; try contradiction.
  - apply HK; [exact I'|congruence|]. exact (parseAlignBits_aligned s u s1 Hs E).
  - apply good3_ret; cbn [quiet]; auto. congruence.
Qed.

Lemma go_bits_le_8 x : go_bits x <= 9.
Proof.
  unfold go_bits. cbn [bits_loop].
  repeat match goal with |- context [if ?c then _ else _] => destruct c end; lia.
Qed.

Theorem parseConstraintValue_good s r : dinv s -> good3 s (parseConstraintValue s r).
Proof.
  intros Hs. unfold parseConstraintValue.
  destruct (r <=? 255)%Z.
  - destruct (r <? 0)%Z; [ret|].
    apply getBitsValue_good; exact Hs.
  - destruct (r <=? 65536)%Z; [|ret].
    apply sbind_good; [apply parseAlignBits_good; exact Hs|].
    intros _ s' Hs' Hb. destruct (getBitsValue_good s' ((if (r =? 256)%Z then 1 else 2) * 8) Hs') as (Q & I' & B').
    unfold good3; repeat split; auto; try apply I'; congruence.
Qed.

Theorem parseBool_good s : dinv s -> good3 s (parseBool s).
Proof.
  intros Hs. unfold parseBool. apply sbind_good.
  - apply getBitsValue_good; exact Hs.
  - intros v s' Hs' Hb. ret.
Qed.

Theorem parseLength_good s r : dinv s -> good3 s (parseLength s r).
Proof.
  intros Hs. unfold parseLength.
  destruct ((r <=? 65536) && (0 <? r))%Z.
  - apply sbind_good; [apply parseConstraintValue_good; exact Hs|].
    intros v s' Hs' Hb. ret.
  - apply sbind_good; [apply parseAlignBits_good; exact Hs|].
    intros _ s1 Hs1 Hb1. apply sbind_good.
    + destruct (getBitsValue_good s1 8 Hs1) as (Q & I' & B'). unfold good3; repeat split; auto; try apply I'; congruence.
    + intros fb s2 Hs2 Hb2. destruct (N.land fb 128 =? 0); [ret|].
      destruct (N.land fb 64 =? 0).
      * apply sbind_good.
        -- destruct (getBitsValue_good s2 8 Hs2) as (Q & I' & B'). unfold good3; repeat split; auto; try apply I'; congruence.
        -- intros sb s3 Hs3 Hb3. ret.
      * destruct ((N.land fb 63 <? 1) || (4 <? N.land fb 63)); ret.
Qed.

Theorem parseEnumerated_good s ext lb ub : dinv s -> good3 s (parseEnumerated s ext lb ub).
Proof.
  intros Hs. unfold parseEnumerated.
  destruct ext; [ret|].
  destruct lb as [l|]; [|ret].
  destruct ub as [u|]; [|ret].
  destruct (1 <? i64 (u - l + 1))%Z; [apply parseConstraintValue_good; exact Hs|].
  ret.
Qed.

Theorem getChoiceIndex_good s ext ub : dinv s -> good3 s (getChoiceIndex s ext ub).
Proof.
  intros Hs. unfold getChoiceIndex.
  destruct ext; [ret|].
  destruct ub as [u|]; [|ret].
  destruct (u <? 0)%Z; [ret|].
  apply sbind_good; [apply parseConstraintValue_good; exact Hs|].
  intros v s' Hs' Hb. ret.
Qed.

Theorem parseInteger_good s ext lb ub : dinv s -> good3 s (parseInteger s ext lb ub).
Proof.
  intros Hs. unfold parseInteger.
  destruct (if ext then (0, -1, -1)%Z else match lb with None => (0, -1, -1)%Z | Some l => match ub with Some u => (l, u, i64 (u - l + 1)) | None => (l, (-1)%Z, 0%Z) end end) as [[l u] vr].
  destruct (vr =? 1)%Z; [ret; apply Hs|].
  destruct ((0 <? vr) && (vr <=? 65536))%Z.
  - apply sbind_good; [apply parseConstraintValue_good; exact Hs|]. intros v s' Hs' Hb. ret.
  - apply sbind_good.
    + destruct (vr <=? 0)%Z.
      * apply sbind_align_good; [exact Hs|reflexivity|]. intros s1 Hs1 Hb1 Hal.
        destruct (len (d_bytes s1) <=? d_byteOffset s1) eqn:E; [ret|].
        destruct (idx_ok (d_bytes s1) (d_byteOffset s1)) as [b ->]; [lia|].
        destruct Hs1 as (A1 & A2 & A3 & A4). apply good3_ret; cbn [quiet]; auto.
        unfold dinv; cbn [d_bytes d_byteOffset d_bitsOffset]. rewrite u64_small by (unfold TWO64, MAXLEN in *; lia).
        repeat split; try lia; try assumption.
      * apply sbind_good.
        -- destruct (getBitsValue_good s (go_bits (Z.of_N (bytelen_loop_dec 127 1 (u64z (vr - 1))))) Hs) as (Q & I' & B').
           unfold good3; repeat split; auto; apply I'.
        -- intros t s1 Hs1 Hb1. apply sbind_good.
           ++ destruct (parseAlignBits_good s1 Hs1) as (Q & I' & B'). unfold good3; repeat split; auto; try apply I'; congruence.
           ++ intros _ s2 Hs2 Hb2. ret.
    + intros rl s1 Hs1 Hb1. apply sbind_good.
      * destruct (getBitsValue_good s1 (u64 (rl * 8)) Hs1) as (Q & I' & B'). unfold good3; repeat split; auto; try apply I'; congruence.
      * intros rv s2 Hs2 Hb2. destruct (vr <? 0)%Z; [|ret].
        destruct (0 <? N.land rv (shl64 1 (sub64 (u64 (rl * 8)) 1))); ret.
Qed.
