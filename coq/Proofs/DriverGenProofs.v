(* reflective checks over the REGENERATED skeletons and wiring (finite data: vm_compute is a proof) *)
From Coq Require Import List String Bool Arith ZArith.
Require Import DriverTypes Driver DriverConv DriverSkel MainWiring DriverProofs.
Import ListNotations.

Lemma skeletons_ok : forallb skeleton_ok driver_skeletons = true.
Proof. vm_compute. reflexivity. Qed.
Lemma wiring_bounds_ok : bounds_ok wiring_mode2 = true /\ bounds_ok (firstn 2 wiring_mode1) = true.
Proof. vm_compute. split; reflexivity. Qed.

Theorem test_mode_close_fail_stop cfg j k :
  io_after_w (conversation_of driver_skeletons wiring_mode2 cfg) j k = true ->
  exists m, run (FClose j k) (conversation_of driver_skeletons wiring_mode2 cfg) pst0 0 = Exit1 m
            /\ m < List.length (conversation_of driver_skeletons wiring_mode2 cfg).
Proof. apply conversation_close_fail_stop; [exact skeletons_ok | exact (proj1 wiring_bounds_ok)]. Qed.

Theorem test_mode_garbage_fail_stop cfg j q :
  reply_consumed (conversation_of driver_skeletons wiring_mode2 cfg) j q = true ->
  exists m, run (FGarbage j q) (conversation_of driver_skeletons wiring_mode2 cfg) pst0 0 = Exit1 m.
Proof. apply garbage_fail_stop. Qed.
