(* C09, sub-field layer: the regenerated accessor descriptors (Gen/NasAccessors.v) against the table.
   [accessors_conform]: every accessor pair listed in Spec/TS24501Fields.v addresses exactly the bits of its field, except the
      listed deviations (computation over the finite table).
   [conforming_accessors_round_trip]: with Proofs/NasAccSem.v, for the 510 conforming pairs of the tree: setter then getter
      gives the value back and no bit outside the field moves, for all octet values and all values that fit. *)
From Coq Require Import NArith Arith Bool String List Lia.
Require Import NasAcc NasAccessors TS24501Fields NasAccConform NasAccCheck NasAccSem.
Import ListNotations.
Open Scope N_scope.

(* ------------------------------------------------------------------ 1. the regenerated descriptors against the table *)
(* genuine deviation (known_findings.json, keys C09:acc:<type>:AMF Set ID): SetAMFSetID of the three 5G-GUTI / 5G-S-TMSI
   types masks the second octet with GetBitMask(6, 6) = 0 instead of the low six bits, so storing the AMF Set ID clears
   the AMF Pointer that shares the octet. *)
Definition known_acc_deviations : list (string * string) :=
  [("AdditionalGUTI", "AMF Set ID"); ("GUTI5G", "AMF Set ID"); ("TMSI5GS", "AMF Set ID")]%string.

Lemma accessors_conform : accessors_ok_except known_acc_deviations = true.
Proof. vm_compute. reflexivity. Qed.

Lemma accessors_ok_refuted : accessors_ok = false.
Proof. vm_compute. reflexivity. Qed.

(* the witness: 5G-S-TMSI with AMF Pointer 0x3F; storing AMF Set ID 0 must leave the pointer alone (table), the library's
   setter clears it *)
Lemma set_amf_set_id_clears_pointer :
  exists s p, find_acc acc_descs "TMSI5GS" "SetAMFSetID" = Some s /\ find_acc acc_descs "TMSI5GS" "GetAMFPointer" = Some p /\
    let st := [0xF4; 0xFF; 0x3F; 0; 0; 0; 1] in
    octets_ok st = true /\ value_fits (FSpan 1 10) st (inl 0) = true /\ acc_get (a_body p) st = Some (inl 0x3F) /\
    exists st', acc_set (a_body s) st (inl 0) = Some st' /\ acc_get (a_body p) st' = Some (inl 0) /\
                spec_set (FSpan 1 10) st (inl 0) <> Some st'.
Proof.
  eexists. eexists. split; [vm_compute; reflexivity|]. split; [vm_compute; reflexivity|].
  cbv zeta. cbn [a_body]. split; [reflexivity|]. split; [reflexivity|]. split; [reflexivity|].
  eexists. split; [vm_compute; reflexivity|]. split; [reflexivity|]. vm_compute. discriminate.
Qed.

Lemma conforming_count :
  (List.length ts24501_fields, List.length (flat_map ie_fields ts24501_fields), List.length conforming_fields, List.length acc_descs,
   List.length acc_types) = (105, 513, 510, 1034, 107)%nat.
Proof. vm_compute. reflexivity. Qed.

Lemma conforming_fields_conform ty f g s c : In (ty, f, g, s, c) conforming_fields -> field_conforms c (f_kind f) g s = true.
Proof.
  unfold conforming_fields. intro H. apply in_flat_map in H as (l & _ & H).
  destruct (find_acc_type acc_types (ie_go l)) as [t|]; [|contradiction].
  apply in_flat_map in H as (f' & _ & H).
  destruct (find_acc acc_descs (ie_go l) (f_get f')) as [g'|]; [|contradiction].
  destruct (find_acc acc_descs (ie_go l) (f_set f')) as [s'|]; [|contradiction].
  destruct (field_conforms (at_container t) (f_kind f') (a_body g') (a_body s')) eqn:E; [|contradiction].
  destruct H as [H|[]]. inversion H; subst. exact E.
Qed.

(* the two together, for the accessor pairs of the tree: whatever the octets and whatever value fits the field,
   the REAL setter followed by the REAL getter (as modelled) gives the value back and no bit outside the field moves *)
Corollary conforming_accessors_round_trip ty f g s c st v :
  In (ty, f, g, s, c) conforming_fields -> octets_ok st = true -> value_fits (f_kind f) st v = true ->
  forall st', acc_set s st v = Some st' ->
    acc_get g st' = Some v /\ List.length st' = List.length st /\
    forall i b, (b < 8)%nat -> in_field (f_kind f) (List.length st) i b = false ->
      N.testbit (nth i st' 0) (N.of_nat b) = N.testbit (nth i st 0) (N.of_nat b).
Proof.
  intros Hin Hst Hv st' E. pose proof (conforming_fields_conform _ _ _ _ _ Hin) as Hc.
  destruct (accessor_semantics _ _ _ _ Hc st Hst) as [_ Hs]. rewrite (Hs v Hv) in E.
  assert (Hk : kind_proved (f_kind f) = true).
  { unfold field_conforms in Hc. apply andb_true_iff in Hc as [Hc _]. apply andb_true_iff in Hc as [_ Hg].
    destruct (f_kind f); destruct g; cbn [get_conforms] in Hg; try discriminate; cbn [kind_proved kind_ok].
    - split_andb Hg. exact Hg3.
    - split_andb Hg. exact Hg4.
    - split_andb Hg. exact Hg0.
    - reflexivity. }
  destruct (field_store_load _ _ _ _ Hk Hst E) as (G & L & Hok & B).
  destruct (accessor_semantics _ _ _ _ Hc st' Hok) as [Hg _]. rewrite Hg. auto.
Qed.
