(* C03.2, structural: a value that X.691 rejects as violating the constraints of its type (XViolation), within the
   classes described by supr (AperStructRefDefs.v), makes marshal return an error - the components before the
   violating one are encoded (C03.1), the violating one is refused where its constraint is checked, and the error
   propagates through every enclosing SEQUENCE / SEQUENCE OF / CHOICE / open type / pointer. *)
From Coq Require Import String NArith ZArith List Bool Lia Arith.
From Coq Require Import ZifyN ZifyNat ZifyBool.
Require Import GoSlice Bits AperCommon AperEnc AperDec Asn1 X691 Asn1Tags AperBits AperBitsGet AperBitsPut AperEncProofs
        AperStructPrim AperStructStr AperStructBits AperStructDefs AperStructLeaf AperStructSeq AperStructFld AperStructMain
        AperStructRefuse AperRoundPrim AperRoundNe AperRoundSeq AperRoundMain AperStructSize AperStructRefDefs AperStructRefOk AperStructRefLeaf.
Import ListNotations.
Open Scope N_scope.
Ltac Zify.zify_post_hook ::= Z.div_mod_to_equations.
Local Arguments N.add : simpl never.
Local Arguments N.mul : simpl never.
Local Arguments N.sub : simpl never.
Local Arguments N.div : simpl never.
Local Arguments N.modulo : simpl never.
Local Arguments N.land : simpl never.
Local Arguments N.lor : simpl never.
Local Arguments N.shiftr : simpl never.
Local Arguments N.shiftl : simpl never.
Local Arguments N.pow : simpl never.

Definition SLACK : nat := 512.

Definition RefStmt (t : ty) : Prop :=
  forall n1 n2 n3 n4 p v s bl av,
    (ty_depth t <= n1)%nat -> (ty_depth t <= n2)%nat -> (ty_depth t <= n3)%nat -> (ty_depth t <= n4)%nat ->
    abs_f n2 t p v = Some av -> supr_f n4 t p v = true ->
    x691 (t2a n1 t p) av (length bl) = XViolation -> repr s bl ->
    N.of_nat (length bl + asz av + SLACK) < LIM ->
    exists e, makeField n3 t p v s = Err e.

(* a valid component of a refused value is encoded: C03.1 with the side condition obtained from supr *)
Lemma sibling_emits t n1 n2 n3 n4 p v s bl av b :
  (ty_depth t <= n1)%nat -> (ty_depth t <= n2)%nat -> (ty_depth t <= n3)%nat -> (ty_depth t <= n4)%nat ->
  abs_f n2 t p v = Some av -> supr_f n4 t p v = true -> x691 (t2a n1 t p) av (length bl) = XOk b -> repr s bl ->
  N.of_nat (length bl + asz av) < LIM ->
  emits (makeField n3 t p v s) bl b.
Proof.
  intros D1 D2 D3 D4 Ha Hs Hx Hr Hb.
  apply (main_all (ty_depth t) t (le_n _) n1 n2 n3 n4 p v s bl av b); auto.
  - eapply (supr_ok_all (ty_depth t) t (le_n _) n1 n2 n4); eauto.
  - unfold small. rewrite app_length. pose proof (x691_len _ _ _ _ Hx). lia.
Qed.

(* ---------------------------------------------------------------- typing of SEQUENCE components under supr *)
Definition typed_opt (f : field) (x : val) : Prop :=
  p_optional (f_params f) = true -> exists e, f_ty f = TPtr e /\ (x = VNil \/ exists v', x = VPtr v').

Fixpoint has_mnil (fs : list field) (vs : list val) : bool :=
  match fs, vs with
  | f :: fr, x :: vr => (negb (p_optional (f_params f)) && is_ptr (f_ty f) && match x with VNil => true | _ => false end) || has_mnil fr vr
  | _, _ => false
  end.

Lemma typed_r rec recm allf allv f2 : forall fr vr cr i,
  all_some (map (habs f2) (combine fr vr)) = Some cr -> fields_supr rec recm allf allv i fr vr = true ->
  Forall2 typed_opt fr vr.
Proof.
  induction fr as [|f fr IH]; intros vr cr i Ha Hs; destruct vr as [|x vr]; cbn [fields_supr] in Hs; try discriminate; [constructor|].
  cbn [combine] in Ha. apply all_some_cons in Ha. destruct Ha as (c & cr' & Hc & Ha' & ->).
  apply andb_true_iff in Hs. destruct Hs as [Hs1 Hs2]. constructor; [|eapply IH; eauto].
  intros Eo. unfold field_supr in Hs1. unfold habs in Hc. rewrite Eo in *.
  destruct (f_ty f) as [| | | | | | |e0|e0|cfs] eqn:Et; try (destruct x; cbn [negb orb is_ptr andb] in Hs1; discriminate).
  exists e0. split; [reflexivity|]. destruct x; try (destruct f2; cbn [abs_f] in Hc; discriminate); eauto.
Qed.

Lemma opt_pass_mnil : forall fs vs cnt pres, Forall2 typed_opt fs vs -> has_mnil fs vs = true ->
  exists e, opt_pass true fs vs cnt pres = Err e.
Proof.
  induction fs as [|f fr IH]; intros vs cnt pres HT Hm; inversion HT as [|f' x fr' vr Hf HT' E1 E2]; subst; [discriminate|].
  cbn [has_mnil] in Hm. cbn [opt_pass]. destruct (p_optional (f_params f)) eqn:Eo.
  - cbn [negb andb orb] in Hm. destruct (Hf Eo) as (e0 & Et & Hx). rewrite Et.
    destruct Hx as [->|[v' ->]]; cbn [is_nil bind]; apply IH; auto.
  - cbn [negb andb] in Hm. destruct (f_ty f) eqn:Et; cbn [is_ptr andb orb] in Hm; try (apply IH; auto).
    destruct x; cbn [orb] in Hm; try (apply IH; auto). eexists; reflexivity.
Qed.

Lemma no_mnil_typed : forall fs vs, Forall2 typed_opt fs vs -> has_mnil fs vs = false -> Forall2 fld_typed fs vs.
Proof.
  induction fs as [|f fr IH]; intros vs HT Hm; inversion HT as [|f' x fr' vr Hf HT' E1 E2]; subst; [constructor|].
  cbn [has_mnil] in Hm. apply orb_false_iff in Hm. destruct Hm as [Hm1 Hm2]. constructor; [|apply IH; auto].
  split; [exact Hf|]. intros Eo e0 Et ->. rewrite Eo, Et in Hm1. discriminate.
Qed.

Lemma bm_seq_bitmap allf f1 f2 : forall fr vr cr, Forall2 fld_typed fr vr -> all_some (map (habs f2) (combine fr vr)) = Some cr ->
  seq_bitmap (map (gty f1 allf) fr) cr = bm fr vr.
Proof.
  induction fr as [|f fr IH]; intros vr cr HT Ha; inversion HT as [|f' x fr' vr' [Ho Hm] HT' E1 E2]; subst.
  - cbn [combine map all_some] in Ha. injection Ha as <-. reflexivity.
  - cbn [combine] in Ha. apply all_some_cons in Ha. destruct Ha as (c & cr' & Hc & Ha' & ->).
    unfold seq_bitmap in *. cbn [map combine flat_map bm]. rewrite (IH _ _ HT' Ha').
    rewrite (surjective_pairing (gty f1 allf f)), gty_opt. f_equal.
    destruct (p_optional (f_params f)) eqn:Eo; [|destruct c; reflexivity].
    destruct (Ho eq_refl) as (e0 & Et & Hx). unfold habs in Hc. rewrite Et, Eo in Hc.
    destruct Hx as [->|[v' ->]]; [injection Hc as <-; reflexivity|].
    destruct (abs_f f2 (TPtr e0) (f_params f) (VPtr v')); [|discriminate]. injection Hc as <-. reflexivity.
Qed.

Lemma bind_err {A B} (r : res A) (f : A -> res B) e : r = Err e -> bind r f = Err e.
Proof. intros ->. reflexivity. Qed.

Section Level.
  Variable n : nat.
  Hypothesis Hrec : forall t', (ty_depth t' <= n)%nat -> RefStmt t'.

  (* ---- the elements of a SEQUENCE OF *)
  Lemma elems_refused e f1 f2 f3 f4 p' bl :
    (ty_depth e <= n)%nat -> (ty_depth e <= f1)%nat -> (ty_depth e <= f2)%nat -> (ty_depth e <= f3)%nat -> (ty_depth e <= f4)%nat ->
    forall l l' s acc,
      all_some (map (abs_f f2 e p') l) = Some l' -> forallb (supr_f f4 e p') l = true ->
      x_elems (t2a f1 e p') (length bl) l' acc = XViolation -> repr s (bl ++ acc) ->
      N.of_nat (length bl + length acc + asz_list l' + SLACK) < LIM ->
      exists err, enc_elems (makeField f3) e p' l s = Err err.
  Proof.
    intros Hn H1 H2 H3 H4. induction l as [|x l IH]; intros l' s acc Ha Hs Hx Hr Hb.
    - cbn [map all_some] in Ha. injection Ha as <-. discriminate.
    - apply all_some_cons in Ha. destruct Ha as (y & l2 & Hy & Ha' & ->).
      cbn [forallb] in Hs. apply andb_true_iff in Hs. destruct Hs as [Hs1 Hs2]. rewrite asz_list_cons in Hb.
      cbn [x_elems] in Hx. cbn [enc_elems]. fold (enc_elems (makeField f3) e p').
      destruct (x691 (t2a f1 e p') y (length bl + length acc)) as [eb| |] eqn:Ee; cbn [xbind] in Hx; try discriminate.
      + destruct (sibling_emits e f1 f2 f3 f4 p' x s (bl ++ acc) y eb) as (s1 & E1 & R1); auto.
        * rewrite app_length. exact Ee.
        * rewrite app_length. unfold SLACK in Hb. lia.
        * rewrite E1. cbn [bind]. eapply (IH l2 s1 (acc ++ eb)); eauto.
          -- rewrite app_assoc. exact R1.
          -- rewrite app_length. pose proof (x691_len _ _ _ _ Ee). lia.
      + destruct (Hrec e Hn f1 f2 f3 f4 p' x s (bl ++ acc) y) as [err He]; auto.
        * rewrite app_length. exact Ee.
        * rewrite app_length. lia.
        * exists err. apply bind_err. exact He.
  Qed.

  (* ---- one violating component of a SEQUENCE *)
  Lemma field_refused allf allv allcs i f x cv f1 f2 f3 f4 s bl :
    (fdepth allf <= n)%nat -> (fdepth allf <= f1)%nat -> (fdepth allf <= f2)%nat -> (fdepth allf <= f3)%nat -> (fdepth allf <= f4)%nat ->
    length allf = length allv -> all_some (map (habs f2) (combine allf allv)) = Some allcs ->
    nth_error allf i = Some f -> nth_error allv i = Some x ->
    habs f2 (f, x) = Some (Some cv) -> (forall e0, f_ty f = TPtr e0 -> x <> VNil) ->
    field_supr (supr_f f4) (makeField f4) allf allv i f x = true ->
    comp_enc allcs (snd (gty f1 allf f)) cv (length bl) = XViolation -> repr s bl ->
    N.of_nat (length bl + asz cv + SLACK) < LIM ->
    exists err, (do fp' <- (if p_openType (f_params f) then
               let index := find_field (p_refName (f_params f)) allf i 0 in
               if Nat.eqb index i then Err E_OPEN_NOFIELD
               else match nth_error allf index, nth_error allv index with
                    | Some rf, Some rv => do z <- get_ref REF_FUEL (f_ty rf) rv; Ok (set_ref (f_params f) (Some z))
                    | _, _ => Panic P_ILLTYPED
                    end
             else Ok (f_params f));
           makeField f3 (f_ty f) fp' x s) = Err err.
  Proof.
    intros Dn D1 D2 D3 D4 Hlen Hall Hf Hv Hh Hcvi Hsup Hc Hr Hb.
    pose proof (fdepth_nth _ _ _ Hf) as Hd.
    destruct (field_cases f2 f4 allf allv i f x) as [(e0 & Et & ->)|[Hh' _]].
    { exfalso. eapply Hcvi; eauto. }
    rewrite Hh' in Hh. clear Hh'.
    destruct (abs_f f2 (f_ty f) (f_params f) x) as [y|] eqn:Eabs; [|discriminate]. injection Hh as <-.
    unfold field_supr in Hsup.
    assert (Hsup' : (negb (p_optional (f_params f)) || is_ptr (f_ty f)) &&
                    (if p_openType (f_params f) then negb (p_optional (f_params f)) && open_supr (supr_f f4) (makeField f4) allf allv i (f_params f) (f_ty f) x
                     else supr_f f4 (f_ty f) (f_params f) x) = true).
    { destruct (f_ty f) eqn:Et0; try exact Hsup. destruct x; try exact Hsup. exfalso. eapply Hcvi; eauto. }
    clear Hsup. apply andb_true_iff in Hsup'. destruct Hsup' as [_ Hsup].
    unfold gty in Hc. destruct (p_openType (f_params f)) eqn:Eo.
    2:{ cbn [snd bind] in *. rewrite comp_enc_t2a in Hc.
        apply (Hrec (f_ty f) ltac:(lia) f1 f2 f3 f4 (f_params f) x s bl y); auto; lia. }
    (* an open type: the violation is inside the actual value *)
    apply andb_true_iff in Hsup. destruct Hsup as [Hno Hos]. unfold open_supr in Hos.
    destruct (f_ty f) as [| | | | | | | | |cfs] eqn:Et; try discriminate.
    destruct x as [| | | | | |cvs| |]; try discriminate. destruct cvs as [|[present| | | | | | | |] cvr]; try discriminate.
    apply andb_true_iff in Hos; destruct Hos as [Hos Hrest].
    apply andb_true_iff in Hos; destruct Hos as [Hos Hleq].
    apply andb_true_iff in Hos; destruct Hos as [Hos Hplt].
    apply andb_true_iff in Hos; destruct Hos as [Hos Hpgt].
    apply andb_true_iff in Hos; destruct Hos as [Hch Hvx].
    cbv zeta in Hrest. apply andb_true_iff in Hrest; destruct Hrest as [Hidxne Hm].
    set (idx := find_field (p_refName (f_params f)) allf i 0) in *.
    assert (Hni : idx <> i) by (intros E'; rewrite E', Nat.eqb_refl in Hidxne; discriminate).
    destruct (nth_error allf idx) as [rf|] eqn:Erf; [|discriminate].
    destruct (nth_error allv idx) as [rv|] eqn:Erv; [|discriminate].
    destruct (nth_error cfs (Z.to_nat present)) as [a|] eqn:Ea; [|discriminate].
    destruct (nth_error (VInt present :: cvr) (Z.to_nat present)) as [av|] eqn:Eav; [|discriminate].
    apply andb_true_iff in Hm; destruct Hm as [Href Hm].
    apply andb_true_iff in Href; destruct Href as [Href Hrfo]. apply andb_true_iff in Href; destruct Href as [Hshape Hrfopt].
    destruct (p_refValue (f_params a)) as [r|] eqn:Er; [|discriminate].
    destruct (get_ref REF_FUEL (f_ty rf) rv) as [z| | |] eqn:Ez; try discriminate.
    apply Nat.eqb_eq in Hleq.
    destruct (r =? z)%Z eqn:Erz.
    2:{ (* the alternative is not the one registered under the identifier: refused on the spot *)
        cbv zeta. fold idx. assert (Nat.eqb idx i = false) as -> by (apply Nat.eqb_neq; exact Hni).
        rewrite Erf, Erv, Ez. cbn [bind].
        destruct f3 as [|f3']; [pose proof (ty_depth_pos (TStruct cfs)); lia|].
        cbn [makeField]. unfold encStruct. cbn [set_ref p_valueExt p_openType p_refValue].
        assert (p_valueExt (f_params f) = false) as -> by (destruct (p_valueExt (f_params f)); [discriminate|reflexivity]).
        cbn [bind]. rewrite Hch. cbn [negb].
        rewrite opt_pass_false by exact Hleq. cbn [bind]. change (0 <? 0) with false. cbv iota. normty.
        assert ((present =? 0)%Z = false) as -> by lia.
        assert ((present >=? Z.of_nat (length cfs))%Z = false) as -> by lia.
        assert ((present <? 0)%Z = false) as -> by lia.
        rewrite Ea, Eav, Eo, Er, Erz. eexists; reflexivity. }
    assert (z = r) by lia. subst z. cbn [negb orb] in Hm.
    apply andb_true_iff in Hm; destruct Hm as [Hm Hne].
    apply andb_true_iff in Hm; destruct Hm as [Hfind Hsupa].
    apply Nat.eqb_eq in Hfind.
    assert (Hda : (S (ty_depth (f_ty a)) <= ty_depth (TStruct cfs))%nat).
    { rewrite ty_depth_struct. pose proof (fdepth_nth _ _ _ Ea). lia. }
    destruct f2 as [|f2']; [pose proof (ty_depth_pos (TStruct cfs)); lia|].
    cbn [abs_f] in Eabs.
    match type of Eabs with (if negb ?c then _ else _) = _ => assert (Ec : c = true) by (apply Nat.eqb_eq; exact Hleq) end.
    rewrite Ec in Eabs. cbn [negb] in Eabs. rewrite Hch in Eabs.
    assert (Hrange : ((0 <? present) && (present <? Z.of_nat (length cfs)))%Z = true) by lia.
    match type of Eabs with (if ?c then _ else _) = _ => replace c with true in Eabs by (symmetry; exact Hrange) end.
    rewrite Ea, Eav in Eabs.
    destruct (abs_f f2' (f_ty a) (f_params a) av) as [xx|] eqn:Exx; [|discriminate].
    rewrite Eo, Er in Eabs. injection Eabs as <-.
    cbn [strip_ptr] in Hc.
    assert (Hidx : index_of (p_refName (f_params f)) allf 0 = Some idx).
    { apply (find_field_index _ allf i 0); [apply Nat.lt_le_incl; apply nth_error_Some; congruence|cbn [Nat.add]; exact Hni]. }
    rewrite Hidx, Hch, Hvx in Hc. cbn [andb] in Hc.
    destruct (all_some (map (alt_key f1) (tl cfs))) as [alts|] eqn:Ealts; cbn [snd comp_enc] in Hc.
    2:{ discriminate. }
    (* the identifier component: present, and read alike by the specification and the library *)
    destruct (all_some_nth (habs (S f2')) _ _ idx (rf, rv) Hall) as (c' & Hc' & Hn').
    { apply nth_error_combine; assumption. }
    assert (Habsr : exists sv, c' = Some sv /\ abs_f (S f2') (f_ty rf) (f_params rf) rv = Some sv).
    { unfold habs in Hc'. destruct (f_ty rf); try discriminate; destruct (abs_f (S f2') _ (f_params rf) rv) as [sv|]; try discriminate; injection Hc' as <-; eauto. }
    destruct Habsr as (sv & -> & Habsr). rewrite Hn' in Hc.
    destruct (key_of sv) as [k|] eqn:Ek.
    2:{ exfalso. (* a reference component of the right shape has a key *)
        destruct (f_ty rf) as [| | | | | | | | |rfs] eqn:Etr; try discriminate.
        - destruct rv; cbn [abs_f] in Habsr; try discriminate. injection Habsr as <-. discriminate.
        - destruct rfs as [|[[nm p'] t'] tl]; [discriminate|]. destruct t'; try discriminate. destruct tl; [|discriminate]. cbn [ref_shape] in Hshape.
          assert (Echr : is_choice [(nm, p', TInt)] = false).
          { unfold is_choice, f_name. cbn [fst]. destruct (String.eqb nm "Present"); [discriminate|reflexivity]. }
          destruct rv as [| | | | | |rvs| |]; try (cbn [abs_f] in Habsr; discriminate).
          destruct rvs as [|x0 [|? ?]]; try (cbn [abs_f length Nat.eqb negb] in Habsr; discriminate).
          rewrite abs_f_seq in Habsr by (try exact Echr; reflexivity).
          cbn [combine map all_some habs f_ty f_params fst snd] in Habsr.
          destruct f2' as [|f2'']; [discriminate|]. destruct x0; cbn [abs_f] in Habsr; try discriminate. injection Habsr as <-. discriminate. }
    assert (Hkr : k = r).
    { pose proof (get_ref_key _ _ _ _ _ _ Hshape Habsr Ek) as Hg. rewrite Ez in Hg. injection Hg as ->. reflexivity. }
    subst k.
    assert (Hfa : X691.find_alt r alts = Some (t2a f1 (f_ty a) (f_params a))).
    { destruct cfs as [|c0 cfs']; [destruct (Z.to_nat present); discriminate|].
      destruct (Z.to_nat present) as [|m] eqn:Em; [lia|]. cbn [tl nth_error] in *.
      eapply (find_alt_link f1 r cfs' alts 1 m a); eauto. }
    rewrite Hfa in Hc. assert ((r =? r)%Z = true) as Hrr by lia. rewrite Hrr in Hc.
    destruct (x691 (t2a f1 (f_ty a) (f_params a)) xx 0) as [inner| |] eqn:Einner; cbn [xbind] in Hc; try discriminate.
    { exfalso. destruct (lendet _ _) as [L| |] eqn:EL; cbn [xbind] in Hc; try discriminate. eapply lendet_not_violation; eauto. }
    (* the model *)
    cbv zeta. fold idx. assert (Nat.eqb idx i = false) as -> by (apply Nat.eqb_neq; exact Hni).
    rewrite Erf, Erv, Ez. cbn [bind].
    destruct f3 as [|f3']; [pose proof (ty_depth_pos (TStruct cfs)); lia|].
    cbn [makeField]. unfold encStruct. cbn [set_ref p_valueExt p_openType p_refValue].
    assert (p_valueExt (f_params f) = false) as -> by (destruct (p_valueExt (f_params f)); [discriminate|reflexivity]).
    cbn [bind]. rewrite Hch. cbn [negb].
    rewrite opt_pass_false by exact Hleq. cbn [bind]. change (0 <? 0) with false. cbv iota.
    normty.
    assert ((present =? 0)%Z = false) as -> by lia.
    assert ((present >=? Z.of_nat (length cfs))%Z = false) as -> by lia.
    assert ((present <? 0)%Z = false) as -> by lia.
    rewrite Ea, Eav, Eo, Er. rewrite Hrr.
    unfold appendOpenType.
    destruct (Hrec (f_ty a) ltac:(lia) f1 f2' f3' f4 (f_params a) av (mkest [] 0) [] xx) as [err He]; auto; try lia.
    - apply repr_init.
    - cbn [length asz] in *. lia.
    - exists err. cbn [bind]. rewrite He. reflexivity.
  Qed.

  (* ---- the components of a SEQUENCE *)
  Lemma seq_loop_refused allf allv allcs f1 f2 f3 f4 bl :
    (fdepth allf <= n)%nat -> (fdepth allf <= f1)%nat -> (fdepth allf <= f2)%nat -> (fdepth allf <= f3)%nat -> (fdepth allf <= f4)%nat ->
    length allf = length allv -> all_some (map (habs f2) (combine allf allv)) = Some allcs ->
    forall fr vr cr i cnt pres hi s acc,
      skipn i allf = fr -> skipn i allv = vr ->
      all_some (map (habs f2) (combine fr vr)) = Some cr ->
      fields_supr (supr_f f4) (makeField f4) allf allv i fr vr = true -> Forall2 fld_typed fr vr ->
      cnt = count_optional fr -> cnt <= 64 -> pres = hi * 2 ^ cnt + N_of_bits (bm fr vr) ->
      x_comps allcs (length bl) (map (gty f1 allf) fr) cr acc = XViolation -> repr s (bl ++ acc) ->
      N.of_nat (length bl + length acc + asz_opts cr + SLACK) < LIM ->
      exists err, seq_loop (makeField f3) allf allv fr vr i cnt pres s = Err err.
  Proof.
    intros Dn D1 D2 D3 D4 Hlen Hall.
    induction fr as [|f fr IH]; intros vr cr i cnt pres hi s acc Hfr Hvr Hcr Hsup HT Hcnt Hc64 Hpres Hx Hr Hb;
      destruct vr as [|x vr]; cbn [fields_supr] in Hsup; try discriminate.
    - cbn [combine map all_some] in Hcr. injection Hcr as <-. discriminate.
    - cbn [combine] in Hcr. apply all_some_cons in Hcr. destruct Hcr as (c & cr' & Hc & Hcr' & ->).
      apply andb_true_iff in Hsup. destruct Hsup as [Hs1 Hs2].
      destruct (skipn_step _ _ _ _ Hfr) as [Hfr' Hnf]. destruct (skipn_step _ _ _ _ Hvr) as [Hvr' Hnv].
      cbn [map] in Hx. rewrite (surjective_pairing (gty f1 allf f)), gty_opt in Hx. rewrite x_comps_cons in Hx.
      rewrite count_optional_cons in Hcnt. cbn [bm] in Hpres. rewrite asz_opts_cons in Hb.
      assert (HT2 : fld_typed f x /\ Forall2 fld_typed fr vr) by (inversion HT; auto).
      destruct HT2 as [[Ho Hm] HT'].
      assert (Hbl : N.of_nat (length (bm fr vr)) = count_optional fr) by (apply bm_length; eapply Forall2_len; eauto).
      subst cnt pres. cbn [seq_loop].
      destruct c as [cv|].
      + (* the component is present *)
        set (cnt' := if p_optional (f_params f) && (0 <? (if p_optional (f_params f) then 1 else 0) + count_optional fr)
                     then (if p_optional (f_params f) then 1 else 0) + count_optional fr - 1
                     else (if p_optional (f_params f) then 1 else 0) + count_optional fr).
        assert (Hcnt' : cnt' = count_optional fr) by (unfold cnt'; destruct (p_optional (f_params f)); cbn [andb]; [assert (0 <? 1 + count_optional fr = true) as -> by lia|]; lia).
        assert (Hxnil : p_optional (f_params f) = true -> x <> VNil).
        { intros Eo ->. destruct (Ho Eo) as (e0 & Et & _). unfold habs in Hc. rewrite Et, Eo in Hc. discriminate. }
        assert (Htest : p_optional (f_params f) && (0 <? (if p_optional (f_params f) then 1 else 0) + count_optional fr)
                        && (N.land (hi * 2 ^ ((if p_optional (f_params f) then 1 else 0) + count_optional fr)
                                    + N_of_bits ((if p_optional (f_params f) then [match x with VNil => false | _ => true end] else []) ++ bm fr vr))
                                   (shl64 1 cnt') =? 0) = false).
        { destruct (p_optional (f_params f)) eqn:Eo; [|reflexivity].
          assert (0 <? 1 + count_optional fr = true) as -> by lia. cbn [andb app].
          rewrite Hcnt'. rewrite shl64_one by lia. rewrite <- Hbl.
          replace (1 + N.of_nat (length (bm fr vr))) with (N.of_nat (S (length (bm fr vr)))) by lia.
          rewrite bitmap_test. destruct x; try reflexivity. exfalso. apply (Hxnil eq_refl). reflexivity. }
        rewrite Htest.
        assert (Hnn : forall e0, f_ty f = TPtr e0 -> x <> VNil).
        { intros e0 Et. destruct (p_optional (f_params f)) eqn:Eo; [apply Hxnil; reflexivity|eapply Hm; eauto]. }
        assert (Hpv : Pv cv) by apply x691_len_all.
        destruct (comp_enc allcs (snd (gty f1 allf f)) cv (length bl + length acc)) as [e| |] eqn:Ee; cbn [xbind] in Hx; try discriminate.
        * (* valid: encoded, go on *)
          pose proof (comp_enc_len _ _ _ _ _ Hpv Ee) as Hel.
          assert (Hem : emits (do fp' <- (if p_openType (f_params f) then
                                let index := find_field (p_refName (f_params f)) allf i 0 in
                                if Nat.eqb index i then Err E_OPEN_NOFIELD
                                else match nth_error allf index, nth_error allv index with
                                     | Some rf, Some rv => do z <- get_ref REF_FUEL (f_ty rf) rv; Ok (set_ref (f_params f) (Some z))
                                     | _, _ => Panic P_ILLTYPED
                                     end
                              else Ok (f_params f));
                            makeField f3 (f_ty f) fp' x s) (bl ++ acc) e).
          { eapply (field_emits n (fun t' H => main_all n t' H) allf allv allcs i f x cv f1 f2 f3 f4); eauto.
            - eapply (field_ok n (fun t' H => supr_ok_all n t' H) allf allv allcs f1 f2 f4 (length bl) i f x cv acc e); eauto.
            - rewrite app_length. exact Ee.
            - unfold small. rewrite !app_length. unfold SLACK in Hb. lia. }
          destruct Hem as (s1 & E1 & R1). rewrite <- bind_assoc. cbv zeta in E1. cbv zeta. rewrite E1. cbn [bind].
          eapply (IH vr cr' (S i) cnt' _ (if p_optional (f_params f) then 2 * hi + 1 else hi) s1 (acc ++ e)); eauto; try lia.
          -- rewrite Hcnt'. destruct (p_optional (f_params f)) eqn:Eo.
             ++ cbn [app]. rewrite N_of_bits_cons, Hbl. destruct x; try (rewrite N.pow_add_r; change (2 ^ 1) with 2; lia). exfalso. apply (Hxnil eq_refl). reflexivity.
             ++ cbn [app]. rewrite N.add_0_l. lia.
          -- rewrite app_assoc. exact R1.
          -- rewrite app_length. lia.
        * (* the violating component *)
          destruct (field_refused allf allv allcs i f x cv f1 f2 f3 f4 s (bl ++ acc)) as [err He]; auto.
          -- rewrite app_length. exact Ee.
          -- rewrite app_length. lia.
          -- exists err. rewrite <- bind_assoc. cbv zeta in He. cbv zeta. rewrite He. reflexivity.
      + (* absent: an OPTIONAL nil pointer *)
        assert (Hopt : p_optional (f_params f) = true /\ x = VNil).
        { unfold habs in Hc. destruct (f_ty f); try (destruct (abs_f f2 _ (f_params f) x); discriminate).
          destruct x; try (destruct (abs_f f2 _ (f_params f) _); discriminate).
          destruct (p_optional (f_params f)); [auto|discriminate]. }
        destruct Hopt as [Eo ->]. rewrite Eo in *. cbn [app].
        assert (0 <? 1 + count_optional fr = true) as -> by lia. cbn [andb].
        replace (1 + count_optional fr - 1) with (count_optional fr) by lia.
        rewrite shl64_one by lia. rewrite <- Hbl.
        replace (1 + N.of_nat (length (bm fr vr))) with (N.of_nat (S (length (bm fr vr)))) by lia.
        rewrite bitmap_test. cbn [negb]. cbv iota.
        eapply (IH vr cr' (S i) _ _ (2 * hi) s acc); eauto; try lia.
        rewrite N_of_bits_cons. rewrite Nat2N.inj_succ, N.pow_succ_r'. lia.
  Qed.
End Level.

(* ---------------------------------------------------------------- the count of a SEQUENCE OF, separated from the elements *)
Definition rec_id : ty -> params -> val -> est -> res est := fun _ _ _ s => Ok s.
Lemma enc_elems_id e p' : forall l s, enc_elems rec_id e p' l s = Ok s.
Proof. induction l as [|x l IH]; intros s; [reflexivity|]. cbn [enc_elems]. unfold rec_id at 1. cbn [bind]. apply IH. Qed.

Lemma enc_seqof_factor rec e p l s :
  encSequenceOf rec e p l s = do s1 <- encSequenceOf rec_id e p l s; enc_elems rec e (clear_size p) l s1.
Proof.
  unfold encSequenceOf. fold (enc_elems rec e (clear_size p)). fold (enc_elems rec_id e (clear_size p)).
  match goal with |- (do x <- ?A; _) = _ => destruct A as [[[s0 ub0] sr0]| | |] end; cbn [bind]; try reflexivity.
  match goal with |- (do x <- ?B; _) = _ => destruct B as [s2| | |] end; cbn [bind]; try reflexivity.
  rewrite enc_elems_id. reflexivity.
Qed.

Lemma seqof_split rec e p l s bl pre lb ub :
  p_sizeLB p = Some lb -> p_sizeUB p = Some ub -> slice_ok p (len l) = true ->
  size_prefix (Z.to_N lb) (Some (Z.to_N ub)) (p_sizeExt p) (len l) (length bl) = XOk pre ->
  small (bl ++ pre) -> repr s bl ->
  exists s1, repr s1 (bl ++ pre) /\ encSequenceOf rec e p l s = enc_elems rec e (clear_size p) l s1.
Proof.
  intros Hlb Hub Hok Hx Hsm Hr.
  destruct (seqof_emits rec_id e p l s bl pre [] lb ub Hlb Hub Hok Hx Hsm Hr) as (s1 & E1 & R1).
  { intros s1 R1. rewrite enc_elems_id. apply emits_nil. exact R1. }
  exists s1. rewrite app_nil_r in R1. split; [exact R1|]. rewrite enc_seqof_factor, E1. reflexivity.
Qed.

Lemma size_prefix_violation lb ub ext n pos :
  ub < 65536 -> size_prefix lb (Some ub) ext n pos = XViolation -> ext = false /\ (n < lb \/ ub < n).
Proof.
  intros Hu H. unfold size_prefix, size_inroot in H. assert (ub <? 65536 = true) as Eu by lia. rewrite Eu in H.
  destruct ((lb <=? n) && (n <=? ub)) eqn:Ein; cbn [negb] in H.
  - exfalso. rewrite andb_false_r in H. destruct (lb =? ub); cbn [xbind] in H; [discriminate|].
    destruct (cwn (ub - lb + 1) (n - lb) _) as [l| |] eqn:El; cbn [xbind] in H; try discriminate.
    eapply cwn_not_violation; [| |exact El]; lia.
  - rewrite andb_true_r in H. destruct ext.
    + exfalso. destruct (lendet n (S pos)) as [l| |] eqn:El; cbn [xbind] in H; try discriminate. eapply lendet_not_violation; eauto.
    + split; [reflexivity|]. lia.
Qed.

Theorem ref_all : forall n t, (ty_depth t <= n)%nat -> RefStmt t.
Proof.
  induction n as [|n IH]; intros t Hd; [pose proof (ty_depth_pos t); lia|].
  unfold RefStmt. intros n1 n2 n3 n4 p v s bl av D1 D2 D3 D4 Ha Hs Hx Hr Hb.
  destruct n1 as [|n1]; [pose proof (ty_depth_pos t); lia|]. destruct n2 as [|n2]; [pose proof (ty_depth_pos t); lia|].
  destruct n3 as [|n3]; [pose proof (ty_depth_pos t); lia|]. destruct n4 as [|n4]; [pose proof (ty_depth_pos t); lia|].
  destruct t as [| | | | | | |e|e|fs].
  - eapply (leaf_refused TInt I); eauto.
  - eapply (leaf_refused TEnum I); eauto.
  - eapply (leaf_refused TBool I); eauto.
  - eapply (leaf_refused TBits I); eauto.
  - eapply (leaf_refused TOctets I); eauto.
  - eapply (leaf_refused TString I); eauto.
  - destruct v; discriminate.
  - (* SEQUENCE OF *)
    cbn [ty_depth] in *. destruct v; cbn [abs_f] in Ha; try discriminate. cbn [supr_f] in Hs. cbn [makeField].
    destruct (all_some (map (abs_f n2 e (clear_size p)) l)) as [l'|] eqn:El; [|discriminate]. injection Ha as <-.
    apply andb_true_iff in Hs. destruct Hs as [Hok Hsl].
    pose proof Hok as Hok'. unfold slice_ok in Hok'.
    destruct (p_sizeLB p) as [lb|] eqn:Elb; [|discriminate]. destruct (p_sizeUB p) as [ub|] eqn:Eub; [|discriminate].
    apply andb_true_iff in Hok'. destruct Hok' as [Hcls Hroot]. bools.
    cbn [t2a] in Hx. rewrite Elb, Eub, size_lb_some, size_ub_some in Hx by lia. rewrite x691_seqof in Hx.
    assert (Hll : length l' = length l) by (rewrite (all_some_length _ _ El), map_length; reflexivity).
    rewrite Hll in Hx. fold (len l) in Hx. rewrite asz_seqof in Hb.
    destruct (size_prefix (Z.to_N lb) (Some (Z.to_N ub)) (p_sizeExt p) (len l) (length bl)) as [pre| |] eqn:Epre; cbn [xbind] in Hx; try discriminate.
    + destruct (seqof_split (makeField n3) e p l s bl pre lb ub Elb Eub Hok Epre) as (s1 & R1 & ->); auto.
      { unfold small. rewrite app_length. pose proof (size_prefix_len _ _ _ _ _ _ Epre). unfold SLACK in Hb. lia. }
      eapply (elems_refused n IH e n1 n2 n3 n4 (clear_size p) bl); eauto; try lia.
      pose proof (size_prefix_len _ _ _ _ _ _ Epre). lia.
    + apply size_prefix_violation in Epre; [|lia]. destruct Epre as [Ext Hout]. unfold len in Hout.
      destruct Hout as [Hlo|Hhi].
      * eapply sequence_of_too_short_refused; eauto; lia.
      * eapply sequence_of_too_long_refused; eauto; lia.
  - (* pointer *)
    cbn [ty_depth] in *. destruct v; cbn [abs_f] in Ha; try discriminate.
    + eexists. reflexivity.
    + cbn [supr_f] in Hs. cbn [t2a] in Hx. cbn [makeField]. eapply (IH e ltac:(lia) n1 n2 n3 n4); eauto; lia.
  - (* struct *)
    rewrite ty_depth_struct in *. destruct v as [| | | | | |vs| |]; cbn [abs_f] in Ha; try discriminate.
    destruct (Nat.eqb (@length (string * params * ty) fs) (length vs)) eqn:Elen; cbn [negb] in Ha; [|discriminate].
    apply Nat.eqb_eq in Elen. cbn [supr_f] in Hs. cbn [makeField]. unfold encStruct.
    set (pre := if p_valueExt p then [false] else @nil bool).
    assert (HE1 : emits (if p_valueExt p then putBitsValue s 0 1 else Ok s) bl pre).
    { unfold pre. destruct (p_valueExt p).
      - apply (put1_emits s bl false); auto. unfold small, SLACK in *. rewrite app_length. cbn [length]. lia.
      - apply emits_nil. exact Hr. }
    destruct HE1 as (s1 & E1' & R1). rewrite E1'. cbn [bind].
    destruct (is_choice fs) eqn:Ech.
    + (* CHOICE *)
      apply andb_true_iff in Hs. destruct Hs as [Hco Hs]. unfold choice_ok in Hco. apply andb_true_iff in Hco. destruct Hco as [Hno Hco].
      destruct (p_valueUB p) as [u|] eqn:Eu; [|discriminate]. bools.
      destruct vs as [|[present| | | | | | | |] vr]; try discriminate.
      apply andb_true_iff in Hs. destruct Hs as [Hp0 Hs].
      cbn [negb]. rewrite opt_pass_false by exact Elen. cbn [bind]. change (0 <? 0) with false. cbv iota. normty.
      destruct ((0 <? present)%Z && (present <? Z.of_nat (length fs))%Z) eqn:Erange.
      2:{ (* Present = 0 or beyond the alternatives *)
          destruct (present =? 0)%Z eqn:E0; [eexists; reflexivity|].
          assert ((present >=? Z.of_nat (length fs))%Z = true) as -> by lia. eexists; reflexivity. }
      bools.
      destruct (nth_error fs (Z.to_nat present)) as [a|] eqn:Ea; [|discriminate].
      destruct (nth_error (VInt present :: vr) (Z.to_nat present)) as [av'|] eqn:Eav; [|discriminate].
      destruct (abs_f n2 (f_ty a) (f_params a) av') as [xx|] eqn:Exx; [|discriminate].
      assert (Eop : p_openType p = false) by (destruct (p_openType p); [discriminate|reflexivity]). rewrite Eop in *.
      injection Ha as <-.
      cbn [t2a] in Hx. rewrite Ech, Eop, Eu in Hx. normty.
      assert (Htl : length (tl fs) = (length fs - 1)%nat) by (destruct fs; cbn [tl length]; lia).
      assert (Hcond : ((u + 1 =? Z.of_nat (length (tl fs))) && (0 <? u + 1))%Z = true) by lia. rewrite Hcond in Hx.
      cbn [x691] in Hx. rewrite map_length in Hx.
      match type of Hx with match nth_error ?LL ?KK with _ => _ end = _ =>
        assert (Hnth : nth_error LL KK = Some (t2a n1 (f_ty a) (f_params a))) end.
      { rewrite nth_error_map, nth_error_tl. replace (S (N.to_nat (Z.to_N (present - 1)))) with (Z.to_nat present) by lia.
        normty. rewrite Ea. reflexivity. }
      rewrite Hnth in Hx. normty.
      assert (Nat.eqb (length (tl fs)) 1 = false) as E1 by (apply Nat.eqb_neq; lia). rewrite E1 in Hx. fold pre in Hx.
      destruct (cwn (N.of_nat (length (tl fs))) (Z.to_N (present - 1)) (length bl + length pre)) as [ib| |] eqn:Eib; cbn [xbind] in Hx; try discriminate.
      2:{ exfalso. eapply cwn_not_violation; [| |exact Eib]; lia. }
      destruct (x691 (t2a n1 (f_ty a) (f_params a)) xx (length bl + length (pre ++ ib))) as [eb| |] eqn:Eeb; cbn [xbind] in Hx; try discriminate.
      assert ((present =? 0)%Z = false) as -> by lia.
      assert ((present >=? Z.of_nat (length fs))%Z = false) as -> by lia.
      assert ((present <? 0)%Z = false) as -> by lia.
      rewrite ?Ea, ?Eav. cbn [bind].
      pose proof (cwn_len _ _ _ _ Eib) as Hibl. cbn [asz] in Hb.
      assert (Hpl : (length pre <= 1)%nat) by (unfold pre; destruct (p_valueExt p); cbn; lia).
      assert (Hidx : emits (appendChoiceIndex s1 present (p_valueExt p) (Some u)) (bl ++ pre) ib).
      { replace present with (Z.of_N (Z.to_N (present - 1)) + 1)%Z at 1 by lia.
        replace (Some u) with (Some (Z.of_N (N.of_nat (length (tl fs))) - 1)%Z) by (f_equal; lia).
        apply choice_index_emits; auto; try lia.
        - rewrite app_length. exact Eib.
        - unfold small, SLACK in *. rewrite !app_length. lia. }
      destruct Hidx as (s2 & E2 & R2). rewrite E2. cbn [bind].
      pose proof (fdepth_nth _ _ _ Ea) as Hda.
      eapply (IH (f_ty a) ltac:(lia) n1 n2 n3 n4 (f_params a) av' s2 ((bl ++ pre) ++ ib) xx); eauto; try lia.
      * rewrite <- app_assoc, app_length. exact Eeb.
      * rewrite !app_length. lia.
    + (* SEQUENCE *)
      apply andb_true_iff in Hs. destruct Hs as [Hcnt Hs].
      change (match all_some (map (habs n2) (combine fs vs)) with Some cs => Some (AVSeq cs) | None => None end = Some av) in Ha.
      destruct (all_some (map (habs n2) (combine fs vs))) as [cs|] eqn:Ecs; [|discriminate]. injection Ha as <-.
      rewrite t2a_seq in Hx by exact Ech. rewrite x691_seq in Hx. rewrite map_length in Hx.
      assert (Hcl : length cs = length fs).
      { rewrite (all_some_length _ _ Ecs), map_length, combine_length. change (@length field) with (@length (string * params * ty)). lia. }
      assert (Nat.eqb (length fs) (length cs) = true) as Ecl by (apply Nat.eqb_eq; change (@length field) with (@length (string * params * ty)) in *; lia).
      change (@length field) with (@length (string * params * ty)) in *. rewrite Ecl in Hx. cbn [negb] in Hx. fold pre in Hx.
      pose proof (typed_r (supr_f n4) (makeField n4) fs vs n2 fs vs cs 0 Ecs Hs) as HTo.
      cbn [negb]. rewrite asz_seq in Hb.
      assert (Hpl : (length pre <= 1)%nat) by (unfold pre; destruct (p_valueExt p); cbn; lia).
      destruct (has_mnil fs vs) eqn:Emn.
      { (* a nil pointer in a mandatory component *)
        destruct (opt_pass_mnil fs vs 0 0 HTo Emn) as [err He]. rewrite He. cbn [bind]. eexists; reflexivity. }
      pose proof (no_mnil_typed fs vs HTo Emn) as HT.
      rewrite (opt_pass_true fs vs 0 0 HT) by lia. cbn [bind]. rewrite N.add_0_l, N.mul_0_l, N.add_0_l.
      rewrite (bm_seq_bitmap fs n1 n2 fs vs cs HT Ecs) in Hx.
      assert (Hbl : N.of_nat (length (bm fs vs)) = count_optional fs) by (apply bm_length; exact Elen).
      assert (Hbml : (length (bm fs vs) <= length cs)%nat).
      { rewrite <- (bm_seq_bitmap fs n1 n2 fs vs cs HT Ecs). apply seq_bitmap_len. }
      assert (HE2 : emits (if 0 <? count_optional fs then putBitsValue s1 (N_of_bits (bm fs vs)) (count_optional fs) else Ok s1) (bl ++ pre) (bm fs vs)).
      { destruct (0 <? count_optional fs) eqn:E0.
        - rewrite <- (bits_of_N_of_bits (bm fs vs)) at 2. replace (length (bm fs vs)) with (N.to_nat (count_optional fs)) by lia.
          apply putBitsValue_repr; auto; try lia.
          + rewrite <- Hbl. apply N_of_bits_lt.
          + replace (N.to_nat (count_optional fs)) with (length (bm fs vs)) by lia. rewrite bits_of_N_of_bits.
            unfold small, SLACK in *. rewrite !app_length. lia.
        - assert (length (bm fs vs) = O) by lia. destruct (bm fs vs); [|cbn in *; lia]. apply emits_nil. exact R1. }
      destruct HE2 as (s2 & E2 & R2). rewrite E2. cbn [bind].
      rewrite <- app_assoc in R2.
      eapply (seq_loop_refused n IH fs vs cs n1 n2 n3 n4 bl ltac:(lia) ltac:(lia) ltac:(lia) ltac:(lia) ltac:(lia) Elen Ecs
                  fs vs cs 0%nat (count_optional fs) (N_of_bits (bm fs vs)) 0 s2 (pre ++ bm fs vs)); eauto; try lia.
      rewrite !app_length. lia.
Qed.

(* ---------------------------------------------------------------- the encoder entry point *)
Theorem marshal_refuses t p v at' av :
  tags_to_asn1 t p = Some at' -> abs t p v = Some av -> supr t p v = true ->
  x691 at' av 0 = XViolation -> N.of_nat (asz av + SLACK) < LIM ->
  exists e, marshal t p v = Err e.
Proof.
  intros Ht Ha Hs Hx Hb. unfold tags_to_asn1 in Ht. unfold abs in Ha. unfold supr in Hs. unfold marshal, marshal_fuel.
  assert (Hat : t2a (S (ty_depth t)) t p = at') by (destruct (t2a (S (ty_depth t)) t p); congruence). subst at'.
  destruct (ref_all (ty_depth t) t (le_n _) (S (ty_depth t)) (S (ty_depth t)) (S (ty_depth t)) (S (ty_depth t)) p v (mkest [] 0) [] av) as [e He]; auto.
  - apply repr_init.
  - exists e. rewrite He. reflexivity.
Qed.
