(* Structural C04 theorem, part 1: the [ares] monad of parseField, the extension bits parseField reads itself, and the
   leaf types at parseField level. *)
From Coq Require Import String NArith ZArith List Bool Lia Arith.
From Coq Require Import ZifyN ZifyNat ZifyBool.
Require Import GoSlice Bits AperCommon AperEnc AperDec Asn1 X691 Asn1Tags AperBits AperBitsGet AperBitsPut AperEncProofs
        AperStructPrim AperStructStr AperStructDefs AperStructLeaf AperStructSeq AperStructFld AperStructMain
        AperRoundGet AperRoundPrim AperRoundLeaf AperRoundStr AperRoundBits AperRoundDefs AperRoundNe.
Import ListNotations.
Open Scope N_scope.
Ltac Zify.zify_post_hook ::= Z.div_mod_to_equations.
Local Arguments N.add : simpl never.
Local Arguments N.mul : simpl never.
Local Arguments N.sub : simpl never.
Local Arguments N.div : simpl never.
Local Arguments N.modulo : simpl never.
Local Arguments N.land : simpl never.
Local Arguments N.lor : simpl never.
Local Arguments N.shiftr : simpl never.
Local Arguments N.shiftl : simpl never.
Local Arguments N.pow : simpl never.

Definition adec_ok (r : ares (val * dst)) (bs : list N) (pos' : nat) (P : val -> Prop) : Prop :=
  exists v d' al, r = (Ok (v, d'), al) /\ at_pos d' bs pos' /\ P v.

Lemma alift_dec_ok {A} (r : sres A) bs pos v : dec_ok r bs pos v -> exists d', alift r = (Ok (v, d'), 0) /\ at_pos d' bs pos.
Proof. intros (d' & -> & H). exists d'. split; [reflexivity|exact H]. Qed.

Lemma abind_ok {A B} (r : ares A) (f : A -> ares B) a n b m : r = (Ok a, n) -> f a = (Ok b, m) -> abind r f = (Ok b, n + m).
Proof. intros -> H. cbn [abind]. rewrite H. reflexivity. Qed.

(* the two optional extension bits read by parseField before dispatching on the type *)
Definition ext_bits_read (cond : bool) (d : dst) : ares (bool * dst) :=
  if cond then alift (dos (b, s) <- getBitsValue d 1; (Ok (negb (b =? 0)), s)) else aret (false, d).

Lemma ext_bits_none d : ext_bits_read false d = (Ok (false, d), 0).
Proof. reflexivity. Qed.
Lemma ext_bits_one d bs pos (b : bool) :
  at_pos d bs pos -> buf bs -> bits_at bs pos [b] ->
  exists d', ext_bits_read true d = (Ok (b, d'), 0) /\ at_pos d' bs (pos + 1).
Proof. intros Hd Hb Hbits. unfold ext_bits_read. apply alift_dec_ok. apply rd_ext_bit; auto. Qed.

Lemma not_truncated d bs pos : at_pos d bs pos -> (pos < 8 * length bs)%nat -> (d_byteOffset d =? len (d_bytes d)) = false.
Proof. intros (H1 & H2 & H3) H. rewrite H1, H2. unfold len. lia. Qed.

(* ---------------------------------------------------------------- the extension bit of a string, on the spec side *)
Lemma enc_string_ext lb ub n c small pos b :
  ub < 65536 -> lb <= n -> enc_string lb (Some ub) true n c small pos = XOk b ->
  (lb <= n <= ub /\ exists b', b = false :: b' /\ enc_string lb (Some ub) false n c small (S pos) = XOk b') \/
  (lb <= n /\ ub < n /\ exists b', b = true :: b' /\ enc_string 0 None false n c false (S pos) = XOk b').
Proof.
  intros Hu Hlb H. unfold enc_string, size_prefix, size_inroot, size_fixed in *. assert (ub <? 65536 = true) as Eu by lia. rewrite Eu in *.
  destruct ((lb <=? n) && (n <=? ub)) eqn:Ein; cbn [negb andb orb] in H.
  - left. split; [lia|]. cbn [negb andb app length]. rewrite Nat.add_0_r. rewrite Nat.add_1_r in H.
    destruct (if lb =? ub then XOk [] else cwn (ub - lb + 1) (n - lb) (S pos)) as [L| |]; cbn [xbind] in *; try discriminate.
    cbn [app length] in H. replace (pos + S (length L))%nat with (S pos + length L)%nat in H by lia.
    destruct ((lb =? ub) && true); [destruct small|destruct (n =? 0)]; apply xok_inj in H; subst b; eexists; (split; [reflexivity|reflexivity]).
  - right. assert (0 <=? n = true) as E0 by lia. rewrite E0. cbn [andb negb app length]. rewrite Nat.add_0_r.
    destruct (lendet n (S pos)) as [L| |]; cbn [xbind] in *; try discriminate.
    rewrite andb_false_r in H. cbn [app length] in H. replace (pos + S (length L))%nat with (S pos + length L)%nat in H by lia.
    assert (Hn : lb <= n /\ ub < n) by lia.
    split; [tauto|]. split; [tauto|].
    destruct (n =? 0); apply xok_inj in H; subst b; eexists; (split; [reflexivity|reflexivity]).
Qed.
