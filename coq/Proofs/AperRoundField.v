(* Structural C04 theorem, part 1: the [ares] monad of parseField, the extension bits parseField reads itself, and the
   leaf types at parseField level. *)
From Coq Require Import String NArith ZArith List Bool Lia Arith.
From Coq Require Import ZifyN ZifyNat ZifyBool.
Require Import GoSlice Bits AperCommon AperEnc AperDec Asn1 X691 Asn1Tags AperBits AperBitsGet AperBitsPut AperEncProofs
        AperStructPrim AperStructStr AperStructDefs AperStructLeaf AperStructSeq AperStructFld AperStructMain
        AperRoundGet AperRoundPrim AperRoundLeaf AperRoundStr AperRoundBits AperRoundDefs AperRoundNe.
Import ListNotations.
Open Scope N_scope.
Ltac Zify.zify_post_hook ::= Z.div_mod_to_equations.
Local Arguments N.add : simpl never.
Local Arguments N.mul : simpl never.
Local Arguments N.sub : simpl never.
Local Arguments N.div : simpl never.
Local Arguments N.modulo : simpl never.
Local Arguments N.land : simpl never.
Local Arguments N.lor : simpl never.
Local Arguments N.shiftr : simpl never.
Local Arguments N.shiftl : simpl never.
Local Arguments N.pow : simpl never.

Definition adec_ok (r : ares (val * dst)) (bs : list N) (pos' : nat) (P : val -> Prop) : Prop :=
  exists v d' al, r = (Ok (v, d'), al) /\ at_pos d' bs pos' /\ P v.

Lemma alift_dec_ok {A} (r : sres A) bs pos v : dec_ok r bs pos v -> exists d', alift r = (Ok (v, d'), 0) /\ at_pos d' bs pos.
Proof. intros (d' & -> & H). exists d'. split; [reflexivity|exact H]. Qed.

Lemma abind_ok {A B} (r : ares A) (f : A -> ares B) a n b m : r = (Ok a, n) -> f a = (Ok b, m) -> abind r f = (Ok b, n + m).
Proof. intros -> H. cbn [abind]. rewrite H. reflexivity. Qed.

(* the two optional extension bits read by parseField before dispatching on the type *)
Definition ext_bits_read (cond : bool) (d : dst) : ares (bool * dst) :=
  if cond then alift (dos (b, s) <- getBitsValue d 1; (Ok (negb (b =? 0)), s)) else aret (false, d).

Lemma ext_bits_none d : ext_bits_read false d = (Ok (false, d), 0).
Proof. reflexivity. Qed.
Lemma ext_bits_one d bs pos (b : bool) :
  at_pos d bs pos -> buf bs -> bits_at bs pos [b] ->
  exists d', ext_bits_read true d = (Ok (b, d'), 0) /\ at_pos d' bs (pos + 1).
Proof. intros Hd Hb Hbits. unfold ext_bits_read. apply alift_dec_ok. apply rd_ext_bit; auto. Qed.

Lemma not_truncated d bs pos : at_pos d bs pos -> (pos < 8 * length bs)%nat -> (d_byteOffset d =? len (d_bytes d)) = false.
Proof. intros (H1 & H2 & H3) H. rewrite H1, H2. unfold len. lia. Qed.

(* ---------------------------------------------------------------- the extension bit of a string, on the spec side *)
Lemma enc_string_ext lb ub n c small pos b :
  ub < 65536 -> lb <= n -> enc_string lb (Some ub) true n c small pos = XOk b ->
  (lb <= n <= ub /\ exists b', b = false :: b' /\ enc_string lb (Some ub) false n c small (S pos) = XOk b') \/
  (lb <= n /\ ub < n /\ exists b', b = true :: b' /\ enc_string 0 None false n c false (S pos) = XOk b').
Proof.
  intros Hu Hlb H. unfold enc_string, size_prefix, size_inroot, size_fixed in *. assert (ub <? 65536 = true) as Eu by lia. rewrite Eu in *.
  destruct ((lb <=? n) && (n <=? ub)) eqn:Ein; cbn [negb andb orb] in H.
  - left. split; [lia|]. cbn [negb andb app length]. rewrite Nat.add_0_r. rewrite Nat.add_1_r in H.
    destruct (if lb =? ub then XOk [] else cwn (ub - lb + 1) (n - lb) (S pos)) as [L| |]; cbn [xbind] in *; try discriminate.
    cbn [app length] in H. replace (pos + S (length L))%nat with (S pos + length L)%nat in H by lia.
    destruct ((lb =? ub) && true); [destruct small|destruct (n =? 0)]; apply xok_inj in H; subst b; eexists; (split; [reflexivity|reflexivity]).
  - right. assert (0 <=? n = true) as E0 by lia. rewrite E0. cbn [andb negb app length]. rewrite Nat.add_0_r.
    destruct (lendet n (S pos)) as [L| |]; cbn [xbind] in *; try discriminate.
    rewrite andb_false_r in H. cbn [app length] in H. replace (pos + S (length L))%nat with (S pos + length L)%nat in H by lia.
    assert (Hn : lb <= n /\ ub < n) by lia.
    split; [tauto|]. split; [tauto|].
    destruct (n =? 0); apply xok_inj in H; subst b; eexists; (split; [reflexivity|reflexivity]).
Qed.

(* ---------------------------------------------------------------- sequencing in the [ares] monad *)
Lemma adec_bind {A} (r : ares A) (f : A -> ares (val * dst)) bs pos' P a n :
  r = (Ok a, n) -> adec_ok (f a) bs pos' P -> adec_ok (abind r f) bs pos' P.
Proof. intros -> (v & d' & al & E & H). cbn [abind]. rewrite E. exists v, d', (n + al). auto. Qed.

Lemma adec_lift {A} (r : sres A) (k : A * dst -> ares (val * dst)) bs p1 p2 P a :
  dec_ok r bs p1 a -> (forall d1, at_pos d1 bs p1 -> adec_ok (k (a, d1)) bs p2 P) -> adec_ok (abind (alift r) k) bs p2 P.
Proof. intros (d1 & -> & H1) Hk. cbn [alift]. eapply adec_bind; [reflexivity|]. apply Hk. exact H1. Qed.

Lemma abind_assoc {A B C} (r : ares A) (f : A -> ares B) (g : B -> ares C) :
  abind (abind r f) g = abind r (fun a => abind (f a) g).
Proof.
  destruct r as [[a| | |] k]; cbn [abind]; try reflexivity.
  destruct (f a) as [[b| | |] m]; cbn [abind]; try reflexivity.
  destruct (g b) as [r' q]. f_equal. lia.
Qed.

Lemma adec_ret v d bs pos (P : val -> Prop) : at_pos d bs pos -> P v -> adec_ok (aret (v, d)) bs pos P.
Proof. intros H HP. exists v, d, 0. auto. Qed.

(* the value-extension bit of an in-root value *)
Lemma read_ext0 (ext : bool) d bs pos (k : bool * dst -> ares (val * dst)) p2 P :
  at_pos d bs pos -> buf bs -> bits_at bs pos (if ext then [false] else []) ->
  (forall d1, at_pos d1 bs (pos + length (if ext then [false] else @nil bool)) -> adec_ok (k (false, d1)) bs p2 P) ->
  adec_ok (abind (if ext then alift (dos (b, s) <- getBitsValue d 1; (Ok (negb (b =? 0)), s)) else aret (false, d)) k) bs p2 P.
Proof.
  intros Hd Hb Hbits Hk. destruct ext.
  - eapply adec_lift; [apply (rd_ext_bit d bs pos false); auto|]. intros d1 Hd1. apply Hk. exact Hd1.
  - eapply adec_bind; [reflexivity|]. apply Hk. cbn [length]. rewrite Nat.add_0_r. exact Hd.
Qed.

Lemma parseOctetString_ext d lbp ubp : parseOctetString d true lbp ubp = parseOctetString d false None None.
Proof. reflexivity. Qed.
Lemma parseBitString_ext d lbp ubp : parseBitString d true lbp ubp = parseBitString d false None None.
Proof. reflexivity. Qed.

Definition is_leaf (t : ty) : Prop := match t with TInt | TEnum | TBool | TBits | TOctets | TString => True | _ => False end.

Theorem leaf_dec t : is_leaf t -> forall f1 f2 f3 f4 p av bs pos b d,
  supa_f (S f4) t p av = true -> x691 (t2a (S f1) t p) av pos = XOk b -> buf bs -> at_pos d bs pos ->
  bits_at bs pos b -> (pos < 8 * length bs)%nat ->
  adec_ok (parseField (S f3) t p d) bs (pos + length b) (fun v' => abs_f (S f2) t p v' = Some av).
Proof.
  intros Ht f1 f2 f3 f4 p av bs pos b d Hs Hx Hb Hd Hbits Hpos.
  pose proof (not_truncated d bs pos Hd Hpos) as Htr.
  destruct t; try contradiction; cbn [supa_f] in Hs; cbn [t2a] in Hx; cbn [parseField]; rewrite Htr.
  - (* INTEGER *)
    destruct av; try discriminate. apply andb_true_iff in Hs. destruct Hs as [Hs Hse].
    assert (Ese : p_sizeExt p = false) by (destruct (p_sizeExt p); [discriminate|reflexivity]). rewrite Ese.
    eapply adec_bind; [reflexivity|]. cbv beta iota. rewrite andb_true_r.
    unfold int_ok in Hs. destruct (p_valueLB p) as [l|]; [|discriminate]. destruct (p_valueUB p) as [u|]; [|discriminate]. bools.
    cbn [x691] in Hx. unfold enc_int in Hx.
    assert ((l <=? z)%Z && (z <=? u)%Z = true) as Ein by lia. rewrite Ein in Hx. cbn [negb] in Hx. rewrite andb_false_r in Hx.
    destruct (cwn _ _ _) as [e| |] eqn:Ee; cbn [xbind] in Hx; try discriminate. apply xok_inj in Hx. subst b.
    apply bits_at_app in Hbits. destruct Hbits as [Hb1 Hb2].
    apply (read_ext0 (p_valueExt p) d bs pos); auto. intros d1 Hd1. cbv beta iota.
    eapply adec_lift.
    + apply (rd_int d1 bs (pos + length (if p_valueExt p then [false] else @nil bool))%nat l u z e); auto; try lia.
    + intros d2 Hd2. cbv beta iota. apply adec_ret; [|reflexivity]. rewrite app_length, Nat.add_assoc. exact Hd2.
  - (* ENUMERATED *)
    destruct av; try discriminate. apply andb_true_iff in Hs. destruct Hs as [Hs Hse].
    assert (Ese : p_sizeExt p = false) by (destruct (p_sizeExt p); [discriminate|reflexivity]). rewrite Ese.
    eapply adec_bind; [reflexivity|]. cbv beta iota. rewrite andb_true_r.
    unfold enum_ok in Hs. destruct (p_valueLB p) as [[| |]|]; try discriminate. destruct (p_valueUB p) as [u|]; [|discriminate]. bools.
    assert ((u <? 0)%Z = false) as E by lia. rewrite E in Hx. cbn [x691] in Hx.
    destruct (Z.to_N u + 1 <=? i) eqn:Ei; [discriminate|].
    destruct (cwn _ _ _) as [e| |] eqn:Ee; cbn [xbind] in Hx; try discriminate. apply xok_inj in Hx. subst b.
    apply bits_at_app in Hbits. destruct Hbits as [Hb1 Hb2].
    apply (read_ext0 (p_valueExt p) d bs pos); auto. intros d1 Hd1. cbv beta iota.
    eapply adec_lift.
    + apply (rd_enum d1 bs (pos + length (if p_valueExt p then [false] else @nil bool))%nat u i e); auto; lia.
    + intros d2 Hd2. cbv beta iota. apply adec_ret; [|reflexivity]. rewrite app_length, Nat.add_assoc. exact Hd2.
  - (* BOOLEAN *)
    destruct av; try discriminate. bools.
    assert (Ese : p_sizeExt p = false) by (destruct (p_sizeExt p); [discriminate|reflexivity]).
    assert (Eve : p_valueExt p = false) by (destruct (p_valueExt p); [discriminate|reflexivity]). rewrite Ese, Eve.
    eapply adec_bind; [reflexivity|]. cbv beta iota. cbn [andb]. eapply adec_bind; [reflexivity|]. cbv beta iota.
    cbn [x691] in Hx. apply xok_inj in Hx. subst b.
    eapply adec_lift; [apply (rd_bool d bs pos b0); auto|]. intros d2 Hd2. cbv beta iota. apply adec_ret; [exact Hd2|reflexivity].
  - (* BIT STRING *)
    destruct av; try discriminate. apply andb_true_iff in Hs. destruct Hs as [Hs Hve].
    assert (Eve : p_valueExt p = false) by (destruct (p_valueExt p); [discriminate|reflexivity]). rewrite Eve.
    unfold str_ok in Hs. apply andb_true_iff in Hs. destruct Hs as [Hn Hs].
    destruct (p_sizeLB p) as [l|] eqn:Elb, (p_sizeUB p) as [u|] eqn:Eub; try discriminate.
    + bools. rewrite size_lb_some, size_ub_some in Hx by lia. cbn [x691] in Hx.
      assert (Hfin : forall pre b' d1 (extd : bool),
                 b = pre ++ b' -> at_pos d1 bs (pos + length pre) ->
                 (if extd then enc_string 0 None false (N.of_nat (length bs0)) bs0 false (pos + length pre) = XOk b'
                  else Z.to_N l <= N.of_nat (length bs0) <= Z.to_N u /\
                       enc_string (Z.to_N l) (Some (Z.to_N u)) false (N.of_nat (length bs0)) bs0 (Z.to_N u <=? 16) (pos + length pre) = XOk b') ->
                 adec_ok (doa (valueExtensible, s) <- aret (false, d1);
                          doa (bsn, s') <- alift (parseBitString s extd (Some l) (Some u)); (let '(bs1, n) := bsn in aret (VBits bs1 n, s')))
                   bs (pos + length b) (fun v' => abs_f (S f2) TBits p v' = Some (AVBits bs0))).
      { intros pre b' d1 extd -> Hd1 Hspec. apply bits_at_app in Hbits. destruct Hbits as [_ Hb2].
        eapply adec_bind; [reflexivity|]. cbv beta iota.
        assert (Hr : exists r, dec_ok (parseBitString d1 extd (Some l) (Some u)) bs (pos + length pre + length b') r /\ bits_val r bs0).
        { destruct extd.
          - rewrite parseBitString_ext. apply rd_bitstring_unconstrained; auto. unfold len in Hn. lia.
          - destruct Hspec as [Hin Hspec]. apply rd_bitstring_constrained; auto; lia. }
        destruct Hr as (r & Hdec & Hbv). eapply adec_lift; [exact Hdec|]. intros d2 Hd2. cbv beta iota.
        destruct r as [bs1 n1]. destruct Hbv as (Hv1 & Hv2 & Hv3 & Hv4). cbn [fst snd] in *.
        apply adec_ret; [rewrite app_length, Nat.add_assoc; exact Hd2|].
        cbn [abs_f]. unfold len in Hv3. rewrite Hv3, N.eqb_refl. cbn [andb].
        assert (forallb (fun b0 : N => b0 <? 256) bs1 = true) as ->.
        { apply forallb_forall. intros x Hx'. unfold bok in Hv2. rewrite Forall_forall in Hv2. specialize (Hv2 x Hx'). lia. }
        rewrite Hv1, Nat2N.id, Hv4. reflexivity. }
      destruct (p_sizeExt p) eqn:Ese.
      * cbn [negb orb] in *. apply enc_string_ext in Hx; [|lia|unfold len in *; lia].
        destruct Hx as [(Hin & b' & -> & Hx)|(Hl & Hu & b' & -> & Hx)].
        -- eapply adec_lift; [apply (rd_ext_bit d bs pos false); auto; apply (bits_at_app bs pos [false] b'); exact Hbits|].
           intros d1 Hd1. cbv beta iota. apply (Hfin [false] b' d1 false); auto. rewrite Nat.add_1_r in *. auto.
        -- eapply adec_lift; [apply (rd_ext_bit d bs pos true); auto; apply (bits_at_app bs pos [true] b'); exact Hbits|].
           intros d1 Hd1. cbv beta iota. apply (Hfin [true] b' d1 true); auto. rewrite Nat.add_1_r in *. auto.
      * eapply adec_bind; [reflexivity|]. cbv beta iota. apply (Hfin [] b d false); auto.
        -- cbn [length]. rewrite Nat.add_0_r. exact Hd.
        -- cbn [length]. rewrite Nat.add_0_r. split; [|exact Hx].
           unfold enc_string, size_prefix, size_inroot in Hx. assert (Z.to_N u <? 65536 = true) as Eu by lia. rewrite Eu in Hx.
           destruct ((Z.to_N l <=? N.of_nat (length bs0)) && (N.of_nat (length bs0) <=? Z.to_N u)) eqn:E; [lia|]. cbn [negb andb] in Hx. discriminate.
    + cbn [size_lb size_ub x691] in Hx. destruct (p_sizeExt p) eqn:Ese; [discriminate|].
      eapply adec_bind; [reflexivity|]. cbv beta iota. eapply adec_bind; [reflexivity|]. cbv beta iota.
      destruct (rd_bitstring_unconstrained d bs pos bs0 b Hd Hb ltac:(unfold len in Hn; lia) Hx Hbits) as (r & Hdec & Hbv).
      eapply adec_lift; [exact Hdec|]. intros d2 Hd2. cbv beta iota.
      destruct r as [bs1 n1]. destruct Hbv as (Hv1 & Hv2 & Hv3 & Hv4). cbn [fst snd] in *.
      apply adec_ret; [exact Hd2|].
      cbn [abs_f]. unfold len in Hv3. rewrite Hv3, N.eqb_refl. cbn [andb].
      assert (forallb (fun b0 : N => b0 <? 256) bs1 = true) as ->.
      { apply forallb_forall. intros x Hx'. unfold bok in Hv2. rewrite Forall_forall in Hv2. specialize (Hv2 x Hx'). lia. }
      rewrite Hv1, Nat2N.id, Hv4. reflexivity.
  - (* OCTET STRING *)
    destruct av; try discriminate. apply andb_true_iff in Hs. destruct Hs as [Hs Hve].
    assert (Eve : p_valueExt p = false) by (destruct (p_valueExt p); [discriminate|reflexivity]). rewrite Eve.
    unfold str_ok in Hs. apply andb_true_iff in Hs. destruct Hs as [Hn Hs].
    destruct (p_sizeLB p) as [l|] eqn:Elb, (p_sizeUB p) as [u|] eqn:Eub; try discriminate.
    + bools. rewrite size_lb_some, size_ub_some in Hx by lia. cbn [x691] in Hx.
      destruct (forallb (fun b0 : N => b0 <? 256) bs0) eqn:Eok; [|discriminate]. apply bok_forallb in Eok.
      assert (Hfin : forall pre b' d1 (extd : bool),
                 b = pre ++ b' -> at_pos d1 bs (pos + length pre) ->
                 (if extd then enc_string 0 None false (len bs0) (bits_of_bytes bs0) false (pos + length pre) = XOk b'
                  else Z.to_N l <= len bs0 <= Z.to_N u /\
                       enc_string (Z.to_N l) (Some (Z.to_N u)) false (len bs0) (bits_of_bytes bs0) (Z.to_N u <=? 2) (pos + length pre) = XOk b') ->
                 adec_ok (doa (valueExtensible, s) <- aret (false, d1);
                          doa (bs1, s') <- alift (parseOctetString s extd (Some l) (Some u)); aret (VOctets bs1, s'))
                   bs (pos + length b) (fun v' => Some (AVOctets bs0) = Some (AVOctets bs0) /\ v' = VOctets bs0)).
      { intros pre b' d1 extd -> Hd1 Hspec. apply bits_at_app in Hbits. destruct Hbits as [_ Hb2].
        eapply adec_bind; [reflexivity|]. cbv beta iota.
        assert (Hr : dec_ok (parseOctetString d1 extd (Some l) (Some u)) bs (pos + length pre + length b') bs0).
        { destruct extd.
          - rewrite parseOctetString_ext. apply rd_octets_unconstrained; auto. lia.
          - destruct Hspec as [Hin Hspec]. apply rd_octets_constrained; auto; lia. }
        eapply adec_lift; [exact Hr|]. intros d2 Hd2. cbv beta iota.
        apply adec_ret; [rewrite app_length, Nat.add_assoc; exact Hd2|auto]. }
      assert (Hgoal : adec_ok (doa (sizeExtensible, s) <- (if p_sizeExt p then alift (dos (b0, s) <- getBitsValue d 1; (Ok (negb (b0 =? 0)), s)) else aret (false, d));
                               doa (valueExtensible, s0) <- aret (false, s);
                               doa (bs1, s') <- alift (parseOctetString s0 sizeExtensible (Some l) (Some u)); aret (VOctets bs1, s'))
                        bs (pos + length b) (fun v' => Some (AVOctets bs0) = Some (AVOctets bs0) /\ v' = VOctets bs0)).
      { destruct (p_sizeExt p) eqn:Ese.
        * cbn [negb orb] in *. apply enc_string_ext in Hx; [|lia|unfold len in *; lia].
          destruct Hx as [(Hin & b' & -> & Hx)|(Hl & Hu & b' & -> & Hx)].
          -- eapply adec_lift; [apply (rd_ext_bit d bs pos false); auto; apply (bits_at_app bs pos [false] b'); exact Hbits|].
             intros d1 Hd1. cbv beta iota. apply (Hfin [false] b' d1 false); auto. rewrite Nat.add_1_r in *. auto.
          -- eapply adec_lift; [apply (rd_ext_bit d bs pos true); auto; apply (bits_at_app bs pos [true] b'); exact Hbits|].
             intros d1 Hd1. cbv beta iota. apply (Hfin [true] b' d1 true); auto. rewrite Nat.add_1_r in *. auto.
        * eapply adec_bind; [reflexivity|]. cbv beta iota. apply (Hfin [] b d false); auto.
          -- cbn [length]. rewrite Nat.add_0_r. exact Hd.
          -- cbn [length]. rewrite Nat.add_0_r. split; [|exact Hx].
             unfold enc_string, size_prefix, size_inroot in Hx. assert (Z.to_N u <? 65536 = true) as Eu by lia. rewrite Eu in Hx.
             destruct ((Z.to_N l <=? len bs0) && (len bs0 <=? Z.to_N u)) eqn:E; [lia|]. unfold len in E. rewrite E in Hx. cbn [negb andb] in Hx. discriminate. }
      destruct Hgoal as (v' & d' & al & E & Hat & _ & ->). exists (VOctets bs0), d', al. auto.
    + cbn [size_lb size_ub x691] in Hx. destruct (p_sizeExt p) eqn:Ese; [discriminate|].
      destruct (forallb (fun b0 : N => b0 <? 256) bs0) eqn:Eok; [|discriminate]. apply bok_forallb in Eok.
      eapply adec_bind; [reflexivity|]. cbv beta iota. eapply adec_bind; [reflexivity|]. cbv beta iota.
      eapply adec_lift; [apply (rd_octets_unconstrained d bs pos bs0 b); auto; lia|]. intros d2 Hd2. cbv beta iota.
      apply adec_ret; [exact Hd2|reflexivity].
  - (* string *)
    destruct av; try discriminate. apply andb_true_iff in Hs. destruct Hs as [Hs Hve].
    assert (Eve : p_valueExt p = false) by (destruct (p_valueExt p); [discriminate|reflexivity]). rewrite Eve.
    unfold str_ok in Hs. apply andb_true_iff in Hs. destruct Hs as [Hn Hs].
    destruct (p_sizeLB p) as [l|] eqn:Elb, (p_sizeUB p) as [u|] eqn:Eub; try discriminate.
    + bools. rewrite size_lb_some, size_ub_some in Hx by lia. cbn [x691] in Hx.
      destruct (forallb (fun b0 : N => b0 <? 256) bs0) eqn:Eok; [|discriminate]. apply bok_forallb in Eok.
      assert (Hfin : forall pre b' d1 (extd : bool),
                 b = pre ++ b' -> at_pos d1 bs (pos + length pre) ->
                 (if extd then enc_string 0 None false (len bs0) (bits_of_bytes bs0) false (pos + length pre) = XOk b'
                  else Z.to_N l <= len bs0 <= Z.to_N u /\
                       enc_string (Z.to_N l) (Some (Z.to_N u)) false (len bs0) (bits_of_bytes bs0) (Z.to_N u <=? 2) (pos + length pre) = XOk b') ->
                 adec_ok (doa (valueExtensible, s) <- aret (false, d1);
                          doa (bs1, s') <- alift (parseOctetString s extd (Some l) (Some u)); aret (VOctets bs1, s'))
                   bs (pos + length b) (fun v' => Some (AVOctets bs0) = Some (AVOctets bs0) /\ v' = VOctets bs0)).
      { intros pre b' d1 extd -> Hd1 Hspec. apply bits_at_app in Hbits. destruct Hbits as [_ Hb2].
        eapply adec_bind; [reflexivity|]. cbv beta iota.
        assert (Hr : dec_ok (parseOctetString d1 extd (Some l) (Some u)) bs (pos + length pre + length b') bs0).
        { destruct extd.
          - rewrite parseOctetString_ext. apply rd_octets_unconstrained; auto. lia.
          - destruct Hspec as [Hin Hspec]. apply rd_octets_constrained; auto; lia. }
        eapply adec_lift; [exact Hr|]. intros d2 Hd2. cbv beta iota.
        apply adec_ret; [rewrite app_length, Nat.add_assoc; exact Hd2|auto]. }
      assert (Hgoal : adec_ok (doa (sizeExtensible, s) <- (if p_sizeExt p then alift (dos (b0, s) <- getBitsValue d 1; (Ok (negb (b0 =? 0)), s)) else aret (false, d));
                               doa (valueExtensible, s0) <- aret (false, s);
                               doa (bs1, s') <- alift (parseOctetString s0 sizeExtensible (Some l) (Some u)); aret (VOctets bs1, s'))
                        bs (pos + length b) (fun v' => Some (AVOctets bs0) = Some (AVOctets bs0) /\ v' = VOctets bs0)).
      { destruct (p_sizeExt p) eqn:Ese.
        * cbn [negb orb] in *. apply enc_string_ext in Hx; [|lia|unfold len in *; lia].
          destruct Hx as [(Hin & b' & -> & Hx)|(Hl & Hu & b' & -> & Hx)].
          -- eapply adec_lift; [apply (rd_ext_bit d bs pos false); auto; apply (bits_at_app bs pos [false] b'); exact Hbits|].
             intros d1 Hd1. cbv beta iota. apply (Hfin [false] b' d1 false); auto. rewrite Nat.add_1_r in *. auto.
          -- eapply adec_lift; [apply (rd_ext_bit d bs pos true); auto; apply (bits_at_app bs pos [true] b'); exact Hbits|].
             intros d1 Hd1. cbv beta iota. apply (Hfin [true] b' d1 true); auto. rewrite Nat.add_1_r in *. auto.
        * eapply adec_bind; [reflexivity|]. cbv beta iota. apply (Hfin [] b d false); auto.
          -- cbn [length]. rewrite Nat.add_0_r. exact Hd.
          -- cbn [length]. rewrite Nat.add_0_r. split; [|exact Hx].
             unfold enc_string, size_prefix, size_inroot in Hx. assert (Z.to_N u <? 65536 = true) as Eu by lia. rewrite Eu in Hx.
             destruct ((Z.to_N l <=? len bs0) && (len bs0 <=? Z.to_N u)) eqn:E; [lia|]. unfold len in E. rewrite E in Hx. cbn [negb andb] in Hx. discriminate. }
      destruct Hgoal as (v' & d' & al & E & Hat & _ & ->). exists (VOctets bs0), d', al. auto.
    + cbn [size_lb size_ub x691] in Hx. destruct (p_sizeExt p) eqn:Ese; [discriminate|].
      destruct (forallb (fun b0 : N => b0 <? 256) bs0) eqn:Eok; [|discriminate]. apply bok_forallb in Eok.
      eapply adec_bind; [reflexivity|]. cbv beta iota. eapply adec_bind; [reflexivity|]. cbv beta iota.
      eapply adec_lift; [apply (rd_octets_unconstrained d bs pos bs0 b); auto; lia|]. intros d2 Hd2. cbv beta iota.
      apply adec_ret; [exact Hd2|reflexivity].
Qed.
