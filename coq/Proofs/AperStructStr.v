(* OCTET STRING and BIT STRING encoders of marshal.go (appendOctetString / appendBitString) against X.691 clauses
   16 and 17 in "emits" form, on the supported SIZE constraints: none at all, or 0 <= lb <= ub < 65536 (ub > 0),
   extensible or not, value in the root or - when extensible - above it, length below 16384 (no fragmentation). *)
From Coq Require Import NArith ZArith List Bool Lia Arith.
From Coq Require Import ZifyN ZifyNat ZifyBool.
Require Import GoSlice Bits AperCommon AperEnc Asn1 X691 AperBits AperBitsGet AperBitsPut AperEncProofs AperStructPrim.
Import ListNotations.
Open Scope N_scope.
Ltac Zify.zify_post_hook ::= Z.div_mod_to_equations.
Local Arguments N.add : simpl never.
Local Arguments N.mul : simpl never.
Local Arguments N.sub : simpl never.
Local Arguments N.div : simpl never.
Local Arguments N.modulo : simpl never.
Local Arguments N.land : simpl never.
Local Arguments N.lor : simpl never.
Local Arguments N.shiftr : simpl never.
Local Arguments N.shiftl : simpl never.
Local Arguments N.pow : simpl never.

Ltac smallt := unfold small, LIM in *; repeat (first [rewrite app_length in * | progress (cbn [length] in * )]); lia.

Lemma put1_emits s bl (bit : bool) : repr s bl -> small (bl ++ [bit]) ->
  emits (putBitsValue s (if bit then 1 else 0) 1) bl [bit].
Proof.
  intros Hs Hsm. replace [bit] with (bits_of_N (N.to_nat 1) (if bit then 1 else 0)) in * by (destruct bit; reflexivity).
  apply putBitsValue_repr; auto; destruct bit; lia.
Qed.

Lemma slice_all l : len l < TWO64 -> slice l 0 (u64 (0 + len l)) = Ok l.
Proof.
  intros H. unfold slice. rewrite N.add_0_l, u64_small by exact H. rewrite N.leb_refl.
  assert (0 <=? len l = true) as -> by lia. cbn [andb]. rewrite N.sub_0_r. cbn [N.to_nat skipn]. unfold len. rewrite Nat2N.id, firstn_all. reflexivity.
Qed.

(* ---------------------------------------------------------------- the common prologue *)
Lemma size_prologue_in s bl n (ext : bool) lb ub e :
  repr s bl -> (0 <= lb <= ub)%Z -> (ub < 65536)%Z -> n <= Z.to_N ub -> small (bl ++ (if ext then [false] else [])) ->
  exists s', size_prologue s n ext (Some lb) (Some ub) e = Ok (s', lb, ub, (ub - lb + 1)%Z)
             /\ repr s' (bl ++ (if ext then [false] else [])).
Proof.
  intros Hs Hb Hu Hn Hsm. unfold size_prologue. rewrite u64z_small by lia.
  assert (n <=? Z.to_N ub = true) as -> by lia. cbn [negb andb]. rewrite i64_small by lia.
  assert ((ub - lb + 1 =? -1)%Z = false) as -> by lia.
  destruct ext.
  - rewrite ignore_err_put1 by (try lia; eapply repr_off_lt; eauto).
    destruct (put1_emits s bl false Hs Hsm) as (s' & E & R). cbv iota in E. rewrite E. cbn [bind]. exists s'. auto.
  - exists s. rewrite app_nil_r. auto.
Qed.

Lemma size_prologue_above s bl n lb ub e :
  repr s bl -> (0 <= lb <= ub)%Z -> (ub < 65536)%Z -> Z.to_N ub < n -> small (bl ++ [true]) ->
  exists s', size_prologue s n true (Some lb) (Some ub) e = Ok (s', 0%Z, ub, (-1)%Z) /\ repr s' (bl ++ [true]).
Proof.
  intros Hs Hb Hu Hn Hsm. unfold size_prologue. rewrite u64z_small by lia.
  assert (n <=? Z.to_N ub = false) as -> by lia. cbn [negb andb Z.eqb].
  rewrite ignore_err_put1 by (try lia; eapply repr_off_lt; eauto).
  destruct (put1_emits s bl true Hs Hsm) as (s' & E & R). cbv iota in E. rewrite E. cbn [bind]. exists s'. auto.
Qed.

(* ---------------------------------------------------------------- one (unfragmented) round of the content loops *)
Lemma part_of_small r : r < 16384 -> part_of r = r.
Proof. intros H. unfold part_of. assert (65536 <? r = false) as -> by lia. assert (16384 <=? r = false) as -> by lia. reflexivity. Qed.

Lemma aligned_after bl L : (length ((bl ++ L) ++ align (length (bl ++ L))) mod 8 = 0)%nat.
Proof. rewrite app_length. unfold align. rewrite repeat_length. apply pad_len_spec. Qed.

Lemma oct_frag_once k s bl bytes sr lb L :
  repr s bl -> bok bytes -> (0 <= lb < 65536)%Z -> Z.to_N lb <= len bytes -> len bytes - Z.to_N lb < 16384 ->
  emits (appendLength s sr (len bytes - Z.to_N lb)) bl L ->
  emits (oct_frag_loop (S k) s bytes sr lb (sub64 (len bytes) (u64z lb)) 0) bl
        (L ++ (if len bytes =? 0 then [] else align (length (bl ++ L)) ++ bits_of_bytes bytes)).
Proof.
  intros Hs Hb Hlb Hge Hnf (s1 & E & R). cbn [oct_frag_loop].
  rewrite u64z_small by lia. rewrite sub64_small by (unfold TWO64; lia).
  rewrite part_of_small by exact Hnf. rewrite E. cbn [bind].
  rewrite u64_small by (unfold TWO64; lia). replace (len bytes - Z.to_N lb + Z.to_N lb) with (len bytes) by lia.
  destruct (len bytes =? 0) eqn:E0.
  - exists s1. rewrite app_nil_r. auto.
  - rewrite slice_all by (unfold TWO64; lia). cbn [bind].
    rewrite (sub64_small (len bytes)) by (unfold TWO64; lia).
    replace (len bytes - Z.to_N lb) with (len bytes - Z.to_N lb - 0) at 1 by lia.
    rewrite sub64_small by (unfold TWO64; lia).
    replace (len bytes - Z.to_N lb - 0 - (len bytes - Z.to_N lb)) with 0 by lia. change (0 <? 0) with false. cbv iota.
    eexists. split; [reflexivity|].
    rewrite !app_assoc. apply repr_append_bytes; [apply repr_align; exact R|apply aligned_after|exact Hb].
Qed.

Lemma bits_frag_once k s bl bytes c sr lb L :
  repr s bl -> bok bytes -> bits_of_bytes bytes = c ++ repeat false (pad_len (length c)) ->
  (0 <= lb < 65536)%Z -> Z.to_N lb <= N.of_nat (length c) -> N.of_nat (length c) - Z.to_N lb < 16384 ->
  emits (appendLength s sr (N.of_nat (length c) - Z.to_N lb)) bl L ->
  emits (bits_frag_loop (S k) s bytes sr lb (sub64 (N.of_nat (length c)) (u64z lb)) 0) bl
        (L ++ (if N.of_nat (length c) =? 0 then [] else align (length (bl ++ L)) ++ c)).
Proof.
  intros Hs Hb Hbits Hlb Hge Hnf (s1 & E & R). cbn [bits_frag_loop]. set (n := N.of_nat (length c)) in *.
  rewrite u64z_small by lia. rewrite sub64_small by (unfold TWO64; lia).
  rewrite part_of_small by exact Hnf. rewrite E. cbn [bind].
  rewrite u64_small by (unfold TWO64; lia). replace (n - Z.to_N lb + Z.to_N lb) with n by lia.
  destruct (n =? 0) eqn:E0.
  - exists s1. rewrite app_nil_r. auto.
  - assert (Hlen : (8 * length bytes = length c + pad_len (length c))%nat).
    { apply (f_equal (@length bool)) in Hbits. rewrite bits_of_bytes_length, app_length, repeat_length in Hbits. exact Hbits. }
    pose proof (pad_len_lt (length c)) as Hpl. pose proof (pad_len_spec (length c)) as Hps.
    rewrite (u64_small (n + 7)) by (unfold TWO64; lia). rewrite shiftr3.
    assert (Hsz : (n + 7) / 8 = len bytes) by (unfold len, n; lia). rewrite Hsz.
    rewrite slice_all by (unfold TWO64, len, n in *; lia). cbn [bind].
    rewrite (sub64_small n) by (unfold TWO64; lia).
    replace (n - Z.to_N lb) with (n - Z.to_N lb - 0) at 1 by lia.
    rewrite sub64_small by (unfold TWO64; lia).
    replace (n - Z.to_N lb - 0 - (n - Z.to_N lb)) with 0 by lia. change (0 <? 0) with false. cbv iota.
    eexists. split; [reflexivity|].
    cbn [append_bytes appendAlignBits e_bytes e_bitsOffset]. rewrite N.add_0_l, land7, u64_small by (unfold TWO64; lia).
    replace (n mod 8) with (N.of_nat (length c mod 8)) by (unfold n; lia).
    assert (R2 : repr (append_bytes (appendAlignBits s1) bytes) (((bl ++ L) ++ align (length (bl ++ L))) ++ c ++ repeat false (pad_len (length c)))).
    { rewrite <- Hbits. apply repr_append_bytes; [|apply aligned_after|exact Hb]. apply repr_align. exact R. }
    apply repr_set_offset in R2; [|apply aligned_after]. cbn [append_bytes appendAlignBits e_bytes e_bitsOffset] in R2.
    rewrite <- !app_assoc in R2. rewrite <- ?app_assoc. exact R2.
Qed.

(* ---------------------------------------------------------------- OCTET STRING, clause 17 *)
Definition oct_small (ub : option N) : bool := match ub with Some u => u <=? 2 | None => false end.

Theorem octets_unconstrained_emits s bl bytes b :
  repr s bl -> bok bytes -> len bytes < 16384 ->
  enc_string 0 None false (len bytes) (bits_of_bytes bytes) false (length bl) = XOk b -> small (bl ++ b) ->
  emits (appendOctetString s bytes false None None) bl b.
Proof.
  intros Hs Hb Hn Hx Hsm. unfold appendOctetString, size_prologue. cbn [bind Z.ltb Z.compare Z.eqb].
  unfold enc_string, size_prefix, size_inroot, size_fixed in Hx. cbn [andb negb] in Hx.
  assert (0 <=? len bytes = true) as E1 by lia. rewrite E1 in Hx. cbn [andb negb app length] in Hx. rewrite Nat.add_0_r in Hx.
  destruct (lendet (len bytes) (length bl)) as [L| |] eqn:EL; cbn [xbind] in Hx; try discriminate.
  assert (Hb' : b = L ++ (if len bytes =? 0 then [] else align (length (bl ++ L)) ++ bits_of_bytes bytes)).
  { rewrite app_length. destruct (len bytes =? 0); injection Hx as <-; [rewrite app_nil_r|]; reflexivity. }
  subst b. change (u64z 0) with (Z.to_N 0).
  replace (sub64 (len bytes) (Z.to_N 0)) with (sub64 (len bytes) (u64z 0)) by reflexivity.
  apply oct_frag_once; auto; try lia.
  change (Z.to_N 0) with 0. rewrite N.sub_0_r. apply lendet_emits; auto. apply small_prefix in Hsm. exact Hsm.
Qed.

Theorem octets_constrained_emits s bl bytes ext lb ub b :
  repr s bl -> bok bytes -> (0 <= lb <= ub)%Z -> (0 < ub < 65536)%Z ->
  (ext = true -> Z.to_N lb <= len bytes) -> len bytes < 16384 ->
  enc_string (Z.to_N lb) (Some (Z.to_N ub)) ext (len bytes) (bits_of_bytes bytes) (Z.to_N ub <=? 2) (length bl) = XOk b ->
  small (bl ++ b) ->
  emits (appendOctetString s bytes ext (Some lb) (Some ub)) bl b.
Proof.
  intros Hs Hb Hlb Hub Hd7 Hn Hx Hsm. unfold appendOctetString.
  unfold enc_string, size_prefix, size_inroot, size_fixed in Hx.
  assert (Z.to_N ub <? 65536 = true) as Eu by lia. rewrite Eu in Hx.
  destruct (len bytes <=? Z.to_N ub) eqn:Efit.
  - (* within the root *)
    destruct (Z.to_N lb <=? len bytes) eqn:Elb.
    2:{ cbn [andb negb] in Hx. destruct ext; [specialize (Hd7 eq_refl); lia|discriminate]. }
    cbn [andb negb] in Hx. rewrite andb_false_r in Hx.
    set (pre := if ext then [false] else @nil bool) in *.
    assert (HP : small (bl ++ pre) -> exists s1, size_prologue s (len bytes) ext (Some lb) (Some ub) E_OCT_OVER_UB = Ok (s1, lb, ub, (ub - lb + 1)%Z)
                  /\ repr s1 (bl ++ pre)).
    { intros Hp. apply size_prologue_in; auto; lia. }
    assert ((65535 <? ub)%Z = false) as E65 by lia.
    destruct (Z.to_N lb =? Z.to_N ub) eqn:Efix.
    + (* fixed size: no length determinant *)
      cbn [xbind andb] in Hx. rewrite app_nil_r in Hx.
      assert (Hnn : len bytes = Z.to_N ub) by lia.
      assert (Z.to_N ub <=? 2 = negb (2 <? Z.to_N ub)) as Esm by lia. rewrite Esm in Hx.
      destruct (2 <? Z.to_N ub) eqn:E2; cbn [negb] in Hx; injection Hx as <-;
        (destruct HP as (s1 & E1 & R1); [apply small_prefix in Hsm; exact Hsm|]); rewrite E1; cbn [bind]; rewrite E65;
        (assert ((ub - lb + 1 =? 1)%Z = true) as -> by lia); rewrite u64z_small by lia; rewrite Hnn, N.eqb_refl; cbn [negb]; rewrite E2.
      * eexists. split; [reflexivity|]. rewrite !app_assoc. rewrite <- app_length.
        apply repr_append_bytes; [apply repr_align; exact R1|apply (aligned_after bl pre)|exact Hb].
      * rewrite u64_small by (unfold TWO64; lia).
        assert (Hc : length (bits_of_bytes bytes) = N.to_nat (Z.to_N ub * 8)) by (rewrite bits_of_bytes_length; unfold len in Hnn; lia).
        destruct (putBitString_repr s1 (bl ++ pre) bytes (bits_of_bytes bytes)) as (s2 & E2' & R2); auto.
        -- rewrite Hc. lia.
        -- rewrite <- app_assoc. exact Hsm.
        -- rewrite pad_len_0 by (rewrite Hc; lia). cbn [repeat]. rewrite app_nil_r. reflexivity.
        -- rewrite Hc, N2Nat.id in E2'. exists s2. rewrite app_assoc. auto.
    + (* a constrained length *)
      destruct (cwn (Z.to_N ub - Z.to_N lb + 1) (len bytes - Z.to_N lb) (length bl + length pre)) as [L| |] eqn:EL; cbn [xbind] in Hx; try discriminate.
      cbn [andb] in Hx.
      assert (Hb' : b = pre ++ L ++ (if len bytes =? 0 then [] else align (length ((bl ++ pre) ++ L)) ++ bits_of_bytes bytes)).
      { rewrite !app_length. rewrite app_length in Hx. rewrite <- Nat.add_assoc. destruct (len bytes =? 0); injection Hx as <-; rewrite <- ?app_assoc, ?app_nil_r; reflexivity. }
      subst b. clear Hx.
      destruct HP as (s1 & E1 & R1); [apply small_prefix in Hsm; exact Hsm|]. rewrite E1. cbn [bind]. rewrite E65.
      assert ((ub - lb + 1 =? 1)%Z = false) as -> by lia.
      assert (Hgoal : emits (oct_frag_loop (S (length bytes)) s1 bytes (ub - lb + 1) lb (sub64 (len bytes) (u64z lb)) 0) (bl ++ pre)
                 (L ++ (if len bytes =? 0 then [] else align (length ((bl ++ pre) ++ L)) ++ bits_of_bytes bytes))).
      { apply oct_frag_once; auto; try lia.
        replace (ub - lb + 1)%Z with (Z.of_N (Z.to_N ub - Z.to_N lb + 1)) by lia.
        apply clen_emits; auto; try lia.
        - rewrite app_length. exact EL.
        - rewrite app_assoc in Hsm. rewrite app_assoc in Hsm. apply small_app_l in Hsm. exact Hsm. }
      destruct Hgoal as (s2 & E2 & R2). exists s2. split; [exact E2|]. rewrite <- !app_assoc in *. exact R2.
  - (* above the root of an extensible size: length as an unconstrained length determinant *)
    assert (Hlbn : Z.to_N lb <=? len bytes = true) by lia. rewrite Hlbn in Hx. cbn [andb negb] in Hx. rewrite andb_true_r in Hx.
    destruct ext; [|discriminate].
    destruct (lendet (len bytes) (S (length bl))) as [L| |] eqn:EL; cbn [xbind] in Hx; try discriminate.
    rewrite andb_false_r in Hx. assert (len bytes =? 0 = false) as E0 by lia. rewrite E0 in Hx. injection Hx as <-.
    destruct (size_prologue_above s bl (len bytes) lb ub E_OCT_OVER_UB Hs Hlb ltac:(lia) ltac:(lia)) as (s1 & E1 & R1).
    { smallt. }
    rewrite E1. cbn [bind]. assert ((65535 <? ub)%Z = false) as -> by lia. cbn [Z.eqb].
    assert (Hgoal : emits (oct_frag_loop (S (length bytes)) s1 bytes (-1) 0 (sub64 (len bytes) (u64z 0)) 0) (bl ++ [true])
               (L ++ (if len bytes =? 0 then [] else align (length ((bl ++ [true]) ++ L)) ++ bits_of_bytes bytes))).
    { apply oct_frag_once; auto; try lia.
      change (Z.to_N 0) with 0. rewrite N.sub_0_r. apply lendet_emits; auto.
      - rewrite app_length. cbn [length]. rewrite Nat.add_1_r. exact EL.
      - smallt. }
    destruct Hgoal as (s2 & E2 & R2). exists s2. split; [exact E2|]. rewrite E0 in R2.
    rewrite <- !app_assoc in R2. cbn [app] in *. rewrite !app_length in *. cbn [length] in *.
    replace (length bl + 1 + length L)%nat with (length bl + S (length L))%nat in R2 by lia. exact R2.
Qed.
