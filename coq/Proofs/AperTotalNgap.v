(* C14, part 3: the regenerated NGAP schema satisfies the decidable hypotheses of Proofs/AperTotalField.v
   (vm_compute over the finite schema), hence decoding any octet string against any NGAP root is total. *)
From Coq Require Import NArith ZArith List Bool Lia Arith String.
Require Import GoSlice AperCommon AperEnc AperDec NgapSchema AperCheck AperDecProofs AperTotalPrim AperTotalField.
Import ListNotations.
Open Scope N_scope.

Definition root_wf (r : string * ty * params * params) : bool :=
  let '(_, t, pe, pd) := r in wf_ty t (psize_ok pd) && wf_ty t (psize_ok pe).

Lemma ngap_roots_wf : forallb root_wf ngap_roots_full = true.
Proof. vm_compute. reflexivity. Qed.

Theorem ngap_decode_total root t pe pd bs :
  In (root, t, pe, pd) ngap_roots_full -> bytes_ok bs -> len bs < MAXLEN ->
  quiet (unmarshal (dec_fuel t) t pd bs).
Proof.
  intros Hin Hb Hl. pose proof ngap_roots_wf as H. rewrite forallb_forall in H. specialize (H _ Hin).
  cbn [root_wf] in H. apply andb_prop in H as (H & _).
  apply unmarshal_total; [exact H|unfold dec_fuel; lia|exact Hb|exact Hl].
Qed.

(* ---- allocation: the schema-side constants of Proofs/AperTotalAlloc.v, evaluated *)
Require Import AperTotalAlloc.

Lemma ngap_roots_cons : forallb (fun r : string * ty * params * params => let '(_, t, _, pd) := r in cons_ok t pd) ngap_roots_full = true.
Proof. vm_compute. reflexivity. Qed.

(* worst chain of over-claimed lists over all roots (octets), and octets reserved per input bit by completed lists *)
Definition ngap_chain_max : N :=
  Eval vm_compute in fold_right (fun (r : string * ty * params * params) m => let '(_, t, _, pd) := r in N.max (chain t (count_ub pd)) m) 0 ngap_roots_full.
Definition ngap_lcoef_max : N :=
  Eval vm_compute in fold_right (fun (r : string * ty * params * params) m => let '(_, t, _, _) := r in N.max (lcoef t) m) 0 ngap_roots_full.

Lemma ngap_alloc_consts :
  forallb (fun r : string * ty * params * params =>
             let '(_, t, _, pd) := r in (chain t (count_ub pd) <=? ngap_chain_max) && (lcoef t <=? ngap_lcoef_max)) ngap_roots_full = true.
Proof. vm_compute. reflexivity. Qed.

Lemma ngap_consts_values : ngap_chain_max = 16252872 /\ ngap_lcoef_max = 304.
Proof. split; reflexivity. Qed.

Theorem ngap_decode_alloc_bounded root t pe pd bs fuel :
  In (root, t, pe, pd) ngap_roots_full -> bytes_ok bs -> len bs < MAXLEN ->
  unmarshal_alloc fuel t pd bs <= 16252872 + 2432 * len bs.
Proof.
  intros Hin Hb Hl.
  pose proof ngap_roots_wf as Hw. rewrite forallb_forall in Hw. specialize (Hw _ Hin). cbn [root_wf] in Hw. apply andb_prop in Hw as (Hw & _).
  pose proof ngap_roots_cons as Hc. rewrite forallb_forall in Hc. specialize (Hc _ Hin). cbv beta iota in Hc.
  pose proof ngap_alloc_consts as Hk. rewrite forallb_forall in Hk. specialize (Hk _ Hin). cbv beta iota in Hk.
  apply andb_prop in Hk as (Hk1 & Hk2). apply N.leb_le in Hk1, Hk2.
  pose proof (unmarshal_alloc_bound fuel t pd bs Hw Hc Hb Hl) as H.
  change ngap_chain_max with 16252872 in Hk1. change ngap_lcoef_max with 304 in Hk2.
  pose proof (N.mul_le_mono_r (lcoef t) 304 (8 * len bs) Hk2).
  replace (2432 * len bs) with (304 * (8 * len bs)) by (rewrite N.mul_assoc; reflexivity).
  lia.
Qed.
