(* C14, part 3: the regenerated NGAP schema satisfies the decidable hypotheses of Proofs/AperTotalField.v
   (vm_compute over the finite schema), hence decoding any octet string against any NGAP root is total. *)
From Coq Require Import NArith ZArith List Bool Lia Arith String.
Require Import GoSlice AperCommon AperEnc AperDec NgapSchema AperCheck AperDecProofs AperTotalPrim AperTotalField.
Import ListNotations.
Open Scope N_scope.

Definition root_wf (r : string * ty * params * params) : bool :=
  let '(_, t, pe, pd) := r in wf_ty t (psize_ok pd) && wf_ty t (psize_ok pe).

Lemma ngap_roots_wf : forallb root_wf ngap_roots_full = true.
Proof. vm_compute. reflexivity. Qed.

Theorem ngap_decode_total root t pe pd bs :
  In (root, t, pe, pd) ngap_roots_full -> bytes_ok bs -> len bs < MAXLEN ->
  quiet (unmarshal (dec_fuel t) t pd bs).
Proof.
  intros Hin Hb Hl. pose proof ngap_roots_wf as H. rewrite forallb_forall in H. specialize (H _ Hin).
  cbn [root_wf] in H. apply andb_prop in H as (H & _).
  apply unmarshal_total; [exact H|unfold dec_fuel; lia|exact Hb|exact Hl].
Qed.
