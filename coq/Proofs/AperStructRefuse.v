(* C03.2, refusal at the place of the violation: each kind of constraint violation named by the property makes the
   model of marshal.go return an error (not a panic, not bytes) in the function that checks it. *)
From Coq Require Import String NArith ZArith List Bool Lia Arith.
From Coq Require Import ZifyN ZifyNat ZifyBool.
Require Import GoSlice Bits AperCommon AperEnc AperDec Asn1 X691 Asn1Tags AperBits AperBitsGet AperBitsPut AperEncProofs
        AperStructPrim AperStructStr AperStructBits AperStructDefs AperStructLeaf AperStructSeq AperStructFld.
Import ListNotations.
Open Scope N_scope.
Ltac Zify.zify_post_hook ::= Z.div_mod_to_equations.
Local Arguments N.add : simpl never.
Local Arguments N.mul : simpl never.
Local Arguments N.sub : simpl never.
Local Arguments N.div : simpl never.
Local Arguments N.modulo : simpl never.
Local Arguments N.land : simpl never.
Local Arguments N.lor : simpl never.
Local Arguments N.shiftr : simpl never.
Local Arguments N.shiftl : simpl never.
Local Arguments N.pow : simpl never.

Definition refused {A} (r : res A) : Prop := exists e, r = Err e.

(* INTEGER outside lb..ub (not extensible, or below the lower bound) *)
Theorem integer_out_of_range_refused s z ext lb ub :
  (z < lb)%Z \/ (ext = false /\ (ub < z)%Z) -> refused (appendInteger s z ext (Some lb) (Some ub)).
Proof.
  intros H. unfold appendInteger, refused. destruct (z <? lb)%Z eqn:E1; cbn [bind]; [eexists; reflexivity|].
  destruct H as [H|[-> H]]; [lia|]. assert ((z <=? ub)%Z = false) as -> by lia. cbn [negb andb bind]. eexists; reflexivity.
Qed.

(* ENUMERATED index beyond the last root enumeration *)
Theorem enumerated_out_of_range_refused s i ext u : (u < Z.of_N i)%Z -> i < 9223372036854775808 ->
  refused (appendEnumerated s i ext (Some 0%Z) (Some u)).
Proof.
  intros H Hi. unfold appendEnumerated, refused.
  assert (i64n i = Z.of_N i) as -> by (unfold i64n; apply i64_small; lia).
  assert ((u <? Z.of_N i)%Z = true) as -> by lia. destruct ext; eexists; reflexivity.
Qed.

(* OCTET STRING / BIT STRING longer than a non-extensible SIZE allows; of the wrong length for a fixed SIZE *)
Theorem octet_string_too_long_refused s bytes lb ub : (0 <= ub < 4611686018427387904)%Z -> Z.to_N ub < len bytes ->
  refused (appendOctetString s bytes false (Some lb) (Some ub)).
Proof.
  intros Hu H. unfold appendOctetString, size_prologue, refused. rewrite u64z_small by lia.
  assert (len bytes <=? Z.to_N ub = false) as -> by lia. cbn [negb andb bind]. eexists; reflexivity.
Qed.
Theorem octet_string_fixed_wrong_length_refused s bytes ub : (0 < ub < 65536)%Z -> len bytes < Z.to_N ub ->
  refused (appendOctetString s bytes false (Some ub) (Some ub)).
Proof.
  intros Hu H. unfold appendOctetString, size_prologue, refused. rewrite u64z_small by lia.
  assert (len bytes <=? Z.to_N ub = true) as -> by lia. cbn [negb andb bind]. replace (ub - ub + 1)%Z with 1%Z by lia.
  change (i64 1) with 1%Z. assert ((65535 <? ub)%Z = false) as -> by lia. cbn [Z.eqb Pos.eqb].
  rewrite u64z_small by lia. assert (negb (len bytes =? Z.to_N ub) = true) as -> by lia. eexists; reflexivity.
Qed.
Theorem bit_string_too_long_refused s bytes n lb ub : (0 <= ub < 4611686018427387904)%Z -> Z.to_N ub < n ->
  refused (appendBitString s bytes n false (Some lb) (Some ub)).
Proof.
  intros Hu H. unfold appendBitString, size_prologue, refused. rewrite u64z_small by lia.
  assert (n <=? Z.to_N ub = false) as -> by lia. cbn [negb andb bind]. eexists; reflexivity.
Qed.

(* SEQUENCE OF with too many / too few elements *)
Theorem sequence_of_too_long_refused rec e p l s lb ub :
  p_sizeLB p = Some lb -> p_sizeUB p = Some ub -> p_sizeExt p = false -> (0 <= lb <= ub)%Z -> (ub < 65536)%Z ->
  (ub < Z.of_nat (length l))%Z -> refused (encSequenceOf rec e p l s).
Proof.
  intros Hlb Hub He Hb Hu H. unfold encSequenceOf, refused. rewrite Hlb, Hub, He.
  assert ((ub <? 65536)%Z = true) as -> by lia. assert ((ub <? Z.of_nat (length l))%Z = true) as -> by lia. cbn [bind]. eexists; reflexivity.
Qed.
Theorem sequence_of_too_short_refused rec e p l s lb ub :
  p_sizeLB p = Some lb -> p_sizeUB p = Some ub -> p_sizeExt p = false -> (0 <= lb <= ub)%Z -> (ub < 65536)%Z ->
  (Z.of_nat (length l) < lb)%Z -> refused (encSequenceOf rec e p l s).
Proof.
  intros Hlb Hub He Hb Hu H. unfold encSequenceOf, refused. rewrite Hlb, Hub, He.
  assert ((lb <? 65536)%Z = true) as -> by lia.
  assert ((ub <? 65536)%Z = true) as -> by lia. assert ((ub <? Z.of_nat (length l))%Z = false) as -> by lia. cbn [bind].
  assert ((Z.of_nat (length l) <? lb)%Z = true) as -> by lia. cbn [bind]. eexists; reflexivity.
Qed.

(* a nil pointer: at the top, and as a mandatory component of a SEQUENCE (whatever the other components are, as long
   as those before it are well-typed) *)
Theorem nil_value_refused fuel e p s : refused (makeField (S fuel) (TPtr e) p VNil s).
Proof. eexists; reflexivity. Qed.

Lemma opt_pass_nil : forall pf pv f post postv cnt pres e0,
  Forall2 fld_typed pf pv -> p_optional (f_params f) = false -> f_ty f = TPtr e0 ->
  length post = length postv ->
  exists e, opt_pass true (pf ++ f :: post) (pv ++ VNil :: postv) cnt pres = Err e.
Proof.
  induction pf as [|g pf IH]; intros pv f post postv cnt pres e0 HT Ho Et Hl; inversion HT as [|g' x pf' pv' [Hgo Hgm] HT' E1 E2]; subst.
  - cbn [app opt_pass]. rewrite Ho, Et. eexists; reflexivity.
  - cbn [app opt_pass]. destruct (p_optional (f_params g)) eqn:Eg.
    + destruct (Hgo eq_refl) as (e1 & Et1 & Hx). rewrite Et1. destruct Hx as [->|[v' ->]]; cbn [is_nil bind]; eapply IH; eauto.
    + destruct (f_ty g) eqn:Etg; try (eapply IH; eauto). destruct x; try (eapply IH; eauto). eexists; reflexivity.
Qed.

Theorem nil_mandatory_component_refused rec pf pv f post postv p s bl e0 :
  is_choice (pf ++ f :: post) = false -> Forall2 fld_typed pf pv -> p_optional (f_params f) = false -> f_ty f = TPtr e0 ->
  length post = length postv -> repr s bl -> small (bl ++ [false]) ->
  refused (encStruct rec (pf ++ f :: post) p (pv ++ VNil :: postv) s).
Proof.
  intros Hc HT Ho Et Hl Hr Hsm. unfold encStruct, refused. rewrite Hc. cbn [negb].
  destruct (opt_pass_nil pf pv f post postv 0 0 e0 HT Ho Et Hl) as [e He].
  destruct (p_valueExt p).
  - destruct (put1_emits s bl false Hr Hsm) as (s1 & E1 & _). cbv iota in E1. rewrite E1. cbn [bind]. rewrite He. cbn [bind]. eexists; reflexivity.
  - cbn [bind]. rewrite He. cbn [bind]. eexists; reflexivity.
Qed.

(* CHOICE with Present = 0 (unset) or beyond the alternatives *)
Theorem unset_choice_refused rec fs p present vr s bl :
  is_choice fs = true -> length fs = S (length vr) -> (present = 0 \/ Z.of_nat (length fs) <= present)%Z ->
  repr s bl -> small (bl ++ [false]) ->
  refused (encStruct rec fs p (VInt present :: vr) s).
Proof.
  intros Hc Hl Hp Hr Hsm. unfold encStruct, refused. rewrite Hc. cbn [negb].
  rewrite opt_pass_false by (cbn [length]; exact Hl).
  assert (Hgo : forall s1, exists e, (do s2 <- (do (cnt, pres) <- Ok (0, 0); (if 0 <? cnt then putBitsValue s1 pres cnt else Ok s1));
            (if (present =? 0)%Z then Err E_PRESENT_0
             else if (present >=? Z.of_nat (length fs))%Z then Err E_PRESENT_BIG else Ok s2)) = Err e).
  { intros s1. cbn [bind]. change (0 <? 0) with false. cbv iota. cbn [bind].
    destruct (present =? 0)%Z eqn:E0; [eexists; reflexivity|].
    assert ((present >=? Z.of_nat (length fs))%Z = true) as -> by lia. eexists; reflexivity. }
  destruct (p_valueExt p).
  - destruct (put1_emits s bl false Hr Hsm) as (s1 & E1 & _). cbv iota in E1. rewrite E1. cbn [bind]. change (0 <? 0) with false. cbv iota. cbn [bind].
    destruct (present =? 0)%Z eqn:E0; [eexists; reflexivity|].
    assert ((present >=? Z.of_nat (length fs))%Z = true) as -> by lia. eexists; reflexivity.
  - cbn [bind]. change (0 <? 0) with false. cbv iota. cbn [bind].
    destruct (present =? 0)%Z eqn:E0; [eexists; reflexivity|].
    assert ((present >=? Z.of_nat (length fs))%Z = true) as -> by lia. eexists; reflexivity.
Qed.

(* open type whose chosen alternative is not the one registered under the value of the identifier component *)
Theorem open_type_mismatch_refused rec cfs p present cvr s a av refValue :
  is_choice cfs = true -> p_valueExt p = false -> p_openType p = true -> p_refValue p = Some refValue ->
  length cfs = S (length cvr) -> (0 < present < Z.of_nat (length cfs))%Z ->
  nth_error cfs (Z.to_nat present) = Some a -> nth_error (VInt present :: cvr) (Z.to_nat present) = Some av ->
  p_refValue (f_params a) <> Some refValue ->
  refused (encStruct rec cfs p (VInt present :: cvr) s).
Proof.
  intros Hc He Ho Hr Hl Hp Ha Hav Hne. unfold encStruct, refused. rewrite Hc, He. cbn [negb bind].
  rewrite opt_pass_false by (cbn [length]; exact Hl). cbn [bind]. change (0 <? 0) with false. cbv iota.
  assert ((present =? 0)%Z = false) as -> by lia. assert ((present >=? Z.of_nat (length cfs))%Z = false) as -> by lia.
  assert ((present <? 0)%Z = false) as -> by lia. rewrite Ha, Hav, Ho, Hr.
  destruct (p_refValue (f_params a)) as [r|]; [|eexists; reflexivity].
  destruct (r =? refValue)%Z eqn:E; [exfalso; apply Hne; f_equal; lia|eexists; reflexivity].
Qed.
