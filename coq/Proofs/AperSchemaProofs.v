(* Reflective facts about the regenerated NGAP schema (Gen/NgapSchema.v): which constraint classes occur.
   The domain swept by vm_compute is the finite schema; the statements are about every field of every type. *)
From Coq Require Import NArith ZArith List Bool String Lia.
Require Import GoSlice AperCommon AperEnc AperDec Asn1 Asn1Tags NgapSchema.
Import ListNotations.
Open Scope N_scope.

(* ---- the classes of constraints on which the encoder is proved / observed to follow X.691 *)

(* D2: the encoder's length-of-length width equals the X.691 one (the decoder's loop is the X.691 one) *)
Definition d2_ok (range : Z) : bool :=
  go_bits (Z.of_N (bytelen_loop 127 1 (u64z (range - 1)))) =? go_bits (Z.of_N (bytelen_loop_dec 127 1 (u64z (range - 1)))).

Definition int_supported (p : params) : bool :=
  match p_valueLB p, p_valueUB p with
  | None, None => true                                              (* unconstrained *)
  | Some l, Some u =>
      let range := (u - l + 1)%Z in
      ((1 <=? range) && (range <=? 65536))%Z                        (* bit-field / one / two octets *)
      || ((l =? 0)%Z && (65536 <? range)%Z && (range <=? 72057594037927936)%Z && d2_ok range)   (* D3, D2 excluded *)
  | _, _ => false                                                   (* D4 semi-constrained, D8 *)
  end.

Definition enum_supported (p : params) : bool :=
  match p_valueLB p, p_valueUB p with
  | Some 0%Z, Some u => ((0 <=? u) && (u <? 65536))%Z
  | _, _ => false
  end.

(* SIZE constraints of strings: none at all (not extensible), or 0 <= lb <= ub < 65536 and not SIZE(0) (D5, D8, D9 excluded) *)
Definition size_supported (p : params) : bool :=
  match p_sizeLB p, p_sizeUB p with
  | None, None => negb (p_sizeExt p)
  | Some l, Some u => ((0 <=? l) && (l <=? u) && (u <? 65536) && (0 <? u))%Z
  | _, _ => false
  end.
(* SEQUENCE OF: the count must be a constrained number *)
Definition count_supported (p : params) : bool :=
  match p_sizeLB p, p_sizeUB p with
  | Some l, Some u => ((0 <=? l) && (l <=? u) && (u <? 65536))%Z
  | _, _ => false
  end.

Definition choice_supported (fs : list field) (p : params) : bool :=
  match p_valueUB p with
  | Some u => ((u + 1 =? Z.of_nat (List.length fs) - 1) && (1 <=? u) && (u <? 65536))%Z      (* single alternative excluded *)
  | None => false
  end.

(* one level: the constraint a field's own tag puts on its (pointer-stripped) type *)
Definition supported_one (t : ty) (p : params) : bool :=
  match t with
  | TInt => int_supported p
  | TEnum => enum_supported p
  | TBool => true
  | TBits | TOctets | TString => size_supported p
  | TOid => false
  | TSlice _ => count_supported p
  | TPtr _ => false
  | TStruct fs => if is_choice fs then (if p_openType p then true else choice_supported fs p) else true
  end.

(* all (type name, field name, field type, tag) of the schema, plus the element position of slices *)
Definition fields_of (n : string) (t : ty) : list (string * string * ty * params) :=
  match t with
  | TStruct fs =>
      flat_map (fun f =>
                  let ft := strip_ptr (f_ty f) in
                  (n, f_name f, ft, f_params f) ::
                  match ft with
                  | TSlice e => [(n, (f_name f ++ "[]")%string, strip_ptr e, clear_size (f_params f))]
                  | _ => []
                  end) fs
  | _ => []
  end.
Definition ngap_fields : list (string * string * ty * params) :=
  flat_map (fun r => let '(n, t, _) := r in fields_of n t) ngap_types
  ++ map (fun r => let '(n, t, pe, _) := r in ("<root>"%string, n, t, pe)) ngap_roots_full.

Definition unsupported_fields : list (string * string) :=
  flat_map (fun x => let '(tn, fn, t, p) := x in if supported_one t p then [] else [(tn, fn)]) ngap_fields.

Definition ngap_unsupported := Eval vm_compute in unsupported_fields.
