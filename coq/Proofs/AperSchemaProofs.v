(* Reflective facts about the regenerated NGAP schema (Gen/NgapSchema.v): which constraint classes occur.
   The domain swept by vm_compute is the finite schema; the statements are about every field of every type. *)
From Coq Require Import NArith ZArith List Bool String Lia.
Require Import GoSlice AperCommon AperEnc AperDec Asn1 Asn1Tags NgapSchema.
Import ListNotations.
Open Scope N_scope.

(* ---- the classes of constraints on which the encoder is proved / observed to follow X.691 *)

(* D2: the encoder's length-of-length width equals the X.691 one (the decoder's loop is the X.691 one) *)
Definition d2_ok (range : Z) : bool :=
  go_bits (Z.of_N (bytelen_loop 127 1 (u64z (range - 1)))) =? go_bits (Z.of_N (bytelen_loop_dec 127 1 (u64z (range - 1)))).

Definition int_supported (p : params) : bool :=
  match p_valueLB p, p_valueUB p with
  | None, None => true                                              (* unconstrained *)
  | Some l, Some u =>
      let range := (u - l + 1)%Z in
      ((1 <=? range) && (range <=? 65536))%Z                        (* bit-field / one / two octets *)
      || ((l =? 0)%Z && (65536 <? range)%Z && (range <=? 72057594037927936)%Z && d2_ok range)   (* D3, D2 excluded *)
  | _, _ => false                                                   (* D4 semi-constrained, D8 *)
  end.

Definition enum_supported (p : params) : bool :=
  match p_valueLB p, p_valueUB p with
  | Some 0%Z, Some u => ((0 <=? u) && (u <? 65536))%Z
  | _, _ => false
  end.

(* SIZE constraints of strings: none at all (not extensible), or 0 <= lb <= ub < 65536 and not SIZE(0) (D5, D8, D9 excluded) *)
Definition size_supported (p : params) : bool :=
  match p_sizeLB p, p_sizeUB p with
  | None, None => negb (p_sizeExt p)
  | Some l, Some u => ((0 <=? l) && (l <=? u) && (u <? 65536) && (0 <? u))%Z
  | _, _ => false
  end.
(* SEQUENCE OF: the count must be a constrained number *)
Definition count_supported (p : params) : bool :=
  match p_sizeLB p, p_sizeUB p with
  | Some l, Some u => ((0 <=? l) && (l <=? u) && (u <? 65536))%Z
  | _, _ => false
  end.

Definition choice_supported (fs : list field) (p : params) : bool :=
  match p_valueUB p with
  | Some u => ((u + 1 =? Z.of_nat (List.length fs) - 1) && (1 <=? u) && (u <? 65536))%Z      (* single alternative excluded *)
  | None => false
  end.

(* one level: the constraint a field's own tag puts on its (pointer-stripped) type *)
Definition supported_one (t : ty) (p : params) : bool :=
  match t with
  | TInt => int_supported p
  | TEnum => enum_supported p
  | TBool => true
  | TBits | TOctets | TString => size_supported p
  | TOid => false
  | TSlice _ => count_supported p
  | TPtr _ => false
  | TStruct fs => if is_choice fs then (if p_openType p then true else choice_supported fs p) else true
  end.

(* all (type name, field name, field type, tag) of the schema, plus the element position of slices *)
Definition fields_of (n : string) (t : ty) : list (string * string * ty * params) :=
  match t with
  | TStruct fs =>
      flat_map (fun f =>
                  let ft := strip_ptr (f_ty f) in
                  (n, f_name f, ft, f_params f) ::
                  match ft with
                  | TSlice e => [(n, (f_name f ++ "[]")%string, strip_ptr e, clear_size (f_params f))]
                  | _ => []
                  end) fs
  | _ => []
  end.
Definition ngap_fields : list (string * string * ty * params) :=
  flat_map (fun r => let '(n, t, _) := r in fields_of n t) ngap_types
  ++ map (fun r => let '(n, t, pe, _) := r in ("<root>"%string, n, t, pe)) ngap_roots_full.

Definition unsupported_fields : list (string * string) :=
  flat_map (fun x => let '(tn, fn, t, p) := x in if supported_one t p then [] else [(tn, fn)]) ngap_fields.


(* the explicit, finite list of NGAP constraints outside the supported classes *)
Definition ngap_exceptions : list (string * string) :=
  [("UEAssociatedLogicalNGConnectionList", "List");          (* SIZE(1..65536): count written as one octet (D5) *)
   ("DRBStatusUL18", "ReceiveStatusOfULPDCPSDUs");           (* BIT STRING (SIZE(1..131072)) (D5) *)
   ("PrivateIEID", "Global");                                (* OBJECT IDENTIFIER: unsupported by the library *)
   ("PrivateMessageIEs", "Id")]%string.                      (* CHOICE without valueUB: PrivateMessage cannot be encoded *)

Lemma ngap_unsupported_is : unsupported_fields = ngap_exceptions.
Proof. vm_compute. reflexivity. Qed.

Lemma unsupported_complete (l : list (string * string * ty * params)) tn fn t p :
  In (tn, fn, t, p) l -> supported_one t p = false ->
  In (tn, fn) (flat_map (fun x => let '(tn, fn, t, p) := x in if supported_one t p then [] else [(tn, fn)]) l).
Proof.
  intros Hin Hs. apply in_flat_map. exists (tn, fn, t, p). split; [exact Hin|]. rewrite Hs. left. reflexivity.
Qed.

(* every constraint occurring in NGAP is in a supported class, except the listed instances *)
Theorem ngap_schema_supported tn fn t p :
  In (tn, fn, t, p) ngap_fields -> supported_one t p = true \/ In (tn, fn) ngap_exceptions.
Proof.
  intros Hin. destruct (supported_one t p) eqn:E; [left; reflexivity|right].
  rewrite <- ngap_unsupported_is. unfold unsupported_fields. apply (unsupported_complete _ _ _ t p); assumption.
Qed.

(* ---- the regenerated schema against the frozen TS 38.413 transcription (Spec/NgapGolden.v) *)
Require Import NgapGolden.
Open Scope N_scope.

Definition optz_eqb (a b : option Z) : bool :=
  match a, b with Some x, Some y => (x =? y)%Z | None, None => true | _, _ => false end.
Definition params_eqb (a b : params) : bool :=
  Bool.eqb (p_optional a) (p_optional b) && Bool.eqb (p_sizeExt a) (p_sizeExt b) && Bool.eqb (p_valueExt a) (p_valueExt b)
  && Bool.eqb (p_openType a) (p_openType b) && optz_eqb (p_sizeLB a) (p_sizeLB b) && optz_eqb (p_sizeUB a) (p_sizeUB b)
  && optz_eqb (p_valueLB a) (p_valueLB b) && optz_eqb (p_valueUB a) (p_valueUB b) && optz_eqb (p_refValue a) (p_refValue b)
  && String.eqb (p_refName a) (p_refName b).

Fixpoint ty_eqb (a b : ty) : bool :=
  match a, b with
  | TInt, TInt | TEnum, TEnum | TBool, TBool | TBits, TBits | TOctets, TOctets | TString, TString | TOid, TOid => true
  | TSlice x, TSlice y | TPtr x, TPtr y => ty_eqb x y
  | TStruct fa, TStruct fb =>
      (fix go (fa fb : list (string * params * ty)) : bool :=
         match fa, fb with
         | [], [] => true
         | (na, pa, ta) :: ra, (nb, pb, tb) :: rb => String.eqb na nb && params_eqb pa pb && ty_eqb ta tb && go ra rb
         | _, _ => false
         end) fa fb
  | _, _ => false
  end.

Fixpoint types_diff (a b : list (string * ty * N)) {struct a} : list string :=
  match a with
  | [] => map (fun r => fst (fst r)) b
  | (na, ta, _) :: ra =>
      match b with
      | [] => na :: types_diff ra []
      | (nb, tb, _) :: rb => (if String.eqb na nb && ty_eqb ta tb then [] else [na]) ++ types_diff ra rb
      end
  end.
Definition schema_diff : list string := types_diff ngap_types golden_types.

Fixpoint roots_eqb (a b : list (string * ty * params * params)) : bool :=
  match a, b with
  | [], [] => true
  | (na, _, pa, qa) :: ra, (nb, _, pb, qb) :: rb => String.eqb na nb && params_eqb pa pb && params_eqb qa qb && roots_eqb ra rb
  | _, _ => false
  end.

(* no type differs (before fix a2bb2cf: the 15 types containing AssociatedQosFlowItem, whose ENUMERATED field had no bounds) *)
Definition golden_exceptions : list string := [].
Lemma schema_is_golden : schema_diff = golden_exceptions /\ roots_eqb ngap_roots_full golden_roots_full = true.
Proof. split; vm_compute; reflexivity. Qed.

(* ---- Go sizes used by the allocation accounting *)
Lemma ngap_sizes_ok : forallb (fun r => let '(_, t, sz) := r in go_sizeof t =? sz) ngap_types = true.
Proof. vm_compute. reflexivity. Qed.
Lemma ngap_slice_elems_ok : forallb (fun r => let '(t, sz) := r in go_sizeof t =? sz) ngap_slice_elems = true.
Proof. vm_compute. reflexivity. Qed.

(* nesting depth of every root: the fuel the models need *)
Definition max_root_depth : nat := Eval vm_compute in fold_right (fun r m => let '(_, t, _, _) := r in Nat.max (ty_depth t) m) O ngap_roots_full.
Lemma root_depth_bound : forallb (fun r => let '(_, t, _, _) := r in Nat.leb (ty_depth t) max_root_depth) ngap_roots_full = true.
Proof. vm_compute. reflexivity. Qed.
