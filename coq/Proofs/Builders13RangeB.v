(* C13, ranges - part 5: the wrappers with a GTP transfer built around the IPv4 argument, and InitialUEMessage
   (two variants, selected by the 5G-S-TMSI argument). *)
From Coq Require Import ZArith NArith List String Bool Lia.
From Coq Require Import ZifyN ZifyNat ZifyBool.
Require Import GoSlice AperCommon AperEnc AperDec NgapSchema AperCheck BuildersT TS38413 Builders Builders13 Asn1 X691 Asn1Tags
        AperStructDefs AperStructRefDefs AperStructSize Builders13Range Builders13RangeX Builders13RangeNE Builders13RangeTac.
Import ListNotations.
Open Scope string_scope.

(* ---- InitialContextSetupResponse (service request) *)
Definition tICSsr := Eval vm_compute in match b_variants B_GetInitialContextSetupResponseForServiceRequest with (_, t) :: _ => t | _ => TVNil end.
Lemma G_icssr s z1 z2 z3 ip :
  lookup "amfUeNgapID" (e_args s) = Some (BuildersT.AInt z1) -> lookup "ranUeNgapID" (e_args s) = Some (BuildersT.AInt z2) ->
  lookup "pduId" (e_args s) = Some (BuildersT.AInt z3) -> lookup "ipv4" (e_args s) = Some (ABytes ip) ->
  octs_ok ip = true -> len ip = 4%N ->
  good (inst s None tICSsr) [AMF z1; RAN z2; SID z3].
Proof. intros. unfold tICSsr. inst_tac. gen_cat ip. good_tac. Qed.
Theorem R_icssr s : env_wf B_GetInitialContextSetupResponseForServiceRequest s = true ->
  (ids_ok B_GetInitialContextSetupResponseForServiceRequest s = true -> exists bs, encode_call B_GetInitialContextSetupResponseForServiceRequest s = Ok bs) /\
  (ids_ok B_GetInitialContextSetupResponseForServiceRequest s = false -> exists e, encode_call B_GetInitialContextSetupResponseForServiceRequest s = Err e).
Proof. intros Hwf. env_tac B_GetInitialContextSetupResponseForServiceRequest Hwf. get_good G_icssr. Qed.

(* ---- PDUSessionResourceSetupResponse *)
Definition tSetup := Eval vm_compute in match b_variants B_GetPDUSessionResourceSetupResponse with (_, t) :: _ => t | _ => TVNil end.
Lemma G_setup s z1 z2 z3 ip :
  lookup "amfUeNgapID" (e_args s) = Some (BuildersT.AInt z1) -> lookup "ranUeNgapID" (e_args s) = Some (BuildersT.AInt z2) ->
  lookup "pduId" (e_args s) = Some (BuildersT.AInt z3) -> lookup "ipv4" (e_args s) = Some (ABytes ip) ->
  octs_ok ip = true -> len ip = 4%N ->
  good (inst s None tSetup) [AMF z1; RAN z2; SID z3].
Proof. intros. unfold tSetup. inst_tac. gen_cat ip. good_tac. Qed.
Theorem R_setup s : env_wf B_GetPDUSessionResourceSetupResponse s = true ->
  (ids_ok B_GetPDUSessionResourceSetupResponse s = true -> exists bs, encode_call B_GetPDUSessionResourceSetupResponse s = Ok bs) /\
  (ids_ok B_GetPDUSessionResourceSetupResponse s = false -> exists e, encode_call B_GetPDUSessionResourceSetupResponse s = Err e).
Proof. intros Hwf. env_tac B_GetPDUSessionResourceSetupResponse Hwf. get_good G_setup. Qed.

(* ---- InitialUEMessage: without / with the FiveG-S-TMSI IE *)
Definition tIUE1 := Eval vm_compute in match b_variants B_GetInitialUEMessage with (_, t) :: _ => t | _ => TVNil end.
Definition tIUE2 := Eval vm_compute in match b_variants B_GetInitialUEMessage with _ :: (_, t) :: _ => t | _ => TVNil end.
Lemma G_iue1 s z2 bs :
  lookup "ranUeNgapID" (e_args s) = Some (BuildersT.AInt z2) ->
  lookup "nasPdu" (e_args s) = Some (ABytes bs) -> octs_ok bs = true -> (len bs < 15000)%N ->
  octs_ok (e_plmn s) = true -> len (e_plmn s) = 3%N ->
  good (inst s None tIUE1) [RAN z2].
Proof. intros. unfold tIUE1. inst_tac. gen_plmn s. good_tac. Qed.
Lemma G_iue2 s z2 bs :
  lookup "ranUeNgapID" (e_args s) = Some (BuildersT.AInt z2) ->
  lookup "nasPdu" (e_args s) = Some (ABytes bs) -> octs_ok bs = true -> (len bs < 15000)%N ->
  octs_ok (e_plmn s) = true -> len (e_plmn s) = 3%N ->
  good (inst s None tIUE2) [RAN z2].
Proof. intros. unfold tIUE2. inst_tac. gen_plmn s. good_tac. Qed.

Theorem R_iue s : env_wf B_GetInitialUEMessage s = true ->
  (ids_ok B_GetInitialUEMessage s = true -> exists bs, encode_call B_GetInitialUEMessage s = Ok bs) /\
  (ids_ok B_GetInitialUEMessage s = false -> exists e, encode_call B_GetInitialUEMessage s = Err e).
Proof.
  intros Hwf. env_tac B_GetInitialUEMessage Hwf. select_tac; first [get_good G_iue1 | get_good G_iue2].
Qed.
