From Coq Require Import List Arith Lia.
Require Import Interleave.
Import ListNotations.

Section Proofs.
Variable Shared Res : Type.
Notation section := (section Shared Res).

Lemma nth_update_same {A} (l:list A) i x d : i < length l -> nth i (update l i x) d = x.
Proof. revert i; induction l as [|a l IH]; intros [|i] H; cbn in *; try lia; [reflexivity | apply IH; lia]. Qed.
Lemma nth_update_other {A} (l:list A) i j x d : i <> j -> nth j (update l i x) d = nth j l d.
Proof. revert i j; induction l as [|a l IH]; intros [|i] [|j] H; cbn; try reflexivity; try lia. apply IH. lia. Qed.
Lemma length_update {A} (l:list A) i x : length (update l i x) = length l.
Proof. revert i; induction l as [|a l IH]; intros [|i]; cbn; try reflexivity. f_equal. apply IH. Qed.
Lemma nth_error_nth {A} (l:list A) i x d : nth_error l i = Some x -> nth i l d = x /\ i < length l.
Proof. revert i; induction l as [|a l IH]; intros [|i] H; cbn in *; try discriminate. - injection H as ->. split; [reflexivity | lia]. - destruct (IH i H). split; [assumption | lia]. Qed.

(* what thread j will have produced at the end: what it has so far, then its remaining sections *)
Definition final (s0:Shared) (ts:list (list section)) (acc:list (list Res)) (j:nat) : list Res :=
  nth j acc [] ++ solo Shared Res s0 (nth j ts []).

Theorem interleaving_invariant s0 : forall sched ts acc s,
  length acc = length ts ->
  (forall t, In t ts -> forall sec, In sec t -> reset_first Shared Res sec) ->
  let '(acc', ts', _) := exec Shared Res sched ts acc s in
  forall j, final s0 ts' acc' j = final s0 ts acc j.
Proof.
  induction sched as [|i r IH]; intros ts acc s Hlen Hrf; cbn [exec]; [reflexivity|].
  destruct (nth_error ts i) as [[|sec rest]|] eqn:E; try (apply IH; assumption).
  destruct (sec s) as [x s'] eqn:Es.
  destruct (nth_error_nth ts i (sec :: rest) [] E) as [Hn Hi].
  specialize (IH (update ts i rest) (update acc i (nth i acc [] ++ [x])) s').
  destruct (exec Shared Res r (update ts i rest) (update acc i (nth i acc [] ++ [x])) s') as [[acc' ts'] s''].
  intro j. rewrite IH.
  - unfold final. destruct (Nat.eq_dec i j) as [<-|Hij].
    + rewrite !nth_update_same by lia. rewrite Hn. cbn [solo map]. rewrite <- app_assoc. cbn [app].
      f_equal. f_equal.
      assert (R : reset_first Shared Res sec).
      { apply (Hrf (sec :: rest)); [eapply nth_error_In; exact E | left; reflexivity]. }
      rewrite (R s0 s), Es. reflexivity.
    + rewrite !nth_update_other by assumption. reflexivity.
  - rewrite !length_update. exact Hlen.
  - intros t Ht sec0 Hs. 
    assert (Hin : In t ts \/ t = rest).
    { clear - Ht. revert i Ht. induction ts as [|a l IHl]; intros [|i] Ht; cbn in *; try contradiction.
      - destruct Ht as [<-|Ht]; [right; reflexivity | left; right; exact Ht].
      - destruct Ht as [<-|Ht]; [left; left; reflexivity|]. destruct (IHl i Ht); [left; right; assumption | right; assumption]. }
    destruct Hin as [Hin|Heq].
    + eapply Hrf; eassumption.
    + subst t. apply (Hrf (sec :: rest)); [eapply nth_error_In; exact E | right; exact Hs].
Qed.

(* when every thread has finished, each has exactly the results it gets when it runs alone *)
Corollary interleaving_equals_sequential s0 sched ts s :
  (forall t, In t ts -> forall sec, In sec t -> reset_first Shared Res sec) ->
  let '(acc', ts', _) := exec Shared Res sched ts (map (fun _ => []) ts) s in
  (forall j, nth j ts' [] = []) ->
  forall j, nth j acc' [] = solo Shared Res s0 (nth j ts []).
Proof.
  intro Hrf. pose proof (interleaving_invariant s0 sched ts (map (fun _ => []) ts) s (map_length _ _) Hrf) as H.
  destruct (exec Shared Res sched ts (map (fun _ => []) ts) s) as [[acc' ts'] s'].
  intros Hdone j. specialize (H j). unfold final in H. rewrite Hdone in H. cbn [solo map] in H. rewrite app_nil_r in H.
  rewrite H. 
  assert (Hnil : nth j (map (fun _ : list section => @nil Res) ts) [] = []).
  { clear. revert j. induction ts as [|a l IHl]; intros [|j]; cbn; try reflexivity. apply IHl. }
  rewrite Hnil. reflexivity.
Qed.
End Proofs.
