(* Structural C03 theorem, part 1: fuel / depth facts, the leaf types (INTEGER, ENUMERATED, BOOLEAN, BIT STRING,
   OCTET STRING) at makeField level, the SEQUENCE OF count and the CHOICE header. *)
From Coq Require Import String NArith ZArith List Bool Lia Arith.
From Coq Require Import ZifyN ZifyNat ZifyBool.
Require Import GoSlice Bits AperCommon AperEnc AperDec Asn1 X691 Asn1Tags AperBits AperBitsGet AperBitsPut AperEncProofs
        AperStructPrim AperStructStr AperStructBits AperStructDefs.
Import ListNotations.
Open Scope N_scope.
Ltac Zify.zify_post_hook ::= Z.div_mod_to_equations.
Local Arguments N.add : simpl never.
Local Arguments N.mul : simpl never.
Local Arguments N.sub : simpl never.
Local Arguments N.div : simpl never.
Local Arguments N.modulo : simpl never.
Local Arguments N.land : simpl never.
Local Arguments N.lor : simpl never.
Local Arguments N.shiftr : simpl never.
Local Arguments N.shiftl : simpl never.
Local Arguments N.pow : simpl never.

(* ---------------------------------------------------------------- depth *)
Fixpoint fdepth (fs : list field) : nat :=
  match fs with [] => O | f :: r => Nat.max (ty_depth (f_ty f)) (fdepth r) end.
Lemma ty_depth_struct fs : ty_depth (TStruct fs) = S (fdepth fs).
Proof.
  cbn [ty_depth]. f_equal. induction fs as [|[[n0 p0] t0] r IH]; [reflexivity|]. cbn [fdepth f_ty snd]. rewrite <- IH. reflexivity.
Qed.
Lemma fdepth_in f fs : In f fs -> (ty_depth (f_ty f) <= fdepth fs)%nat.
Proof. induction fs as [|g r IH]; intros H; [contradiction|]. destruct H as [->|H]; cbn [fdepth]; [lia|]. specialize (IH H). lia. Qed.
Lemma ty_depth_pos t : (1 <= ty_depth t)%nat.
Proof. destruct t; cbn [ty_depth]; lia. Qed.
Lemma fdepth_nth fs k f : nth_error fs k = Some f -> (ty_depth (f_ty f) <= fdepth fs)%nat.
Proof. intros H. apply fdepth_in. eapply nth_error_In; eauto. Qed.

Lemma bok_of_forallb bs : forallb (fun b => b <? 256) bs = true -> bok bs.
Proof. apply bok_forallb. Qed.

(* ---------------------------------------------------------------- leaves *)
Lemma size_lb_some l : (0 <= l)%Z -> size_lb (Some l) = Some (Z.to_N l).
Proof. intros H. unfold size_lb. assert ((l <? 0)%Z = false) as -> by lia. reflexivity. Qed.
Lemma size_ub_some u : (0 <= u)%Z -> size_ub (Some u) = Some (Some (Z.to_N u)).
Proof. intros H. unfold size_ub. assert ((u <? 0)%Z = false) as -> by lia. reflexivity. Qed.

Ltac bools := repeat match goal with
  | H : _ && _ = true |- _ => apply andb_true_iff in H; destruct H
  end.

Theorem leaf_emits t : match t with TInt | TEnum | TBool | TBits | TOctets | TString => True | _ => False end ->
  forall f1 f2 f3 f4 p v s bl av b,
  abs_f (S f2) t p v = Some av -> sup_f (S f4) t p v = true ->
  x691 (t2a (S f1) t p) av (length bl) = XOk b -> small (bl ++ b) -> repr s bl ->
  emits (makeField (S f3) t p v s) bl b.
Proof.
  intros Ht f1 f2 f3 f4 p v s bl av b Ha Hs Hx Hsm Hr.
  destruct t; try contradiction; destruct v; cbn [abs_f] in Ha; try discriminate; cbn [sup_f] in Hs; cbn [makeField t2a] in *.
  - (* INTEGER *)
    injection Ha as <-. unfold int_ok in Hs. destruct (p_valueLB p) as [l|]; [|discriminate]. destruct (p_valueUB p) as [u|]; [|discriminate].
    cbn [x691] in Hx. bools.
    destruct (u - l + 1 <=? 65536)%Z eqn:E.
    + apply int_small_emits; auto; lia.
    + cbn [orb] in *. bools. assert (l = 0%Z) by lia. subst l. apply int_big_emits; auto; lia.
  - (* ENUMERATED *)
    injection Ha as <-. unfold enum_ok in Hs. destruct (p_valueLB p) as [[| |]|]; try discriminate. destruct (p_valueUB p) as [u|]; [|discriminate].
    bools. assert ((u <? 0)%Z = false) as E by lia. rewrite E in Hx.
    assert (Hn : n < Z.to_N u + 1). { cbn [x691] in Hx. destruct (Z.to_N u + 1 <=? n) eqn:E2; [discriminate|lia]. }
    replace (Some u) with (Some (Z.of_N (Z.to_N u + 1) - 1)%Z) by (f_equal; lia).
    apply enum_emits; auto; lia.
  - (* BOOLEAN *)
    injection Ha as <-. cbn [x691] in Hx. injection Hx as <-. apply bool_emits; auto.
  - (* BIT STRING *)
    destruct ((N.of_nat (List.length bs) =? (nbits + 7) / 8) && forallb (fun b0 => b0 <? 256) bs) eqn:Ew; [|discriminate].
    injection Ha as <-. bools. unfold str_ok in Hs. bools.
    destruct (p_sizeLB p) as [l|], (p_sizeUB p) as [u|]; try discriminate.
    + bools. rewrite size_lb_some, size_ub_some in Hx by lia. cbn [x691] in Hx.
      eapply bits_constrained_emits; eauto; try lia.
      * apply bok_forallb; assumption.
      * unfold len. lia.
      * intros He. rewrite He in *. cbn [negb orb] in *. lia.
    + cbn [size_lb size_ub x691] in Hx. destruct (p_sizeExt p); [discriminate|].
      eapply bits_unconstrained_emits; eauto; try lia.
      * apply bok_forallb; assumption.
      * unfold len. lia.
  - (* OCTET STRING *)
    injection Ha as <-. unfold str_ok in Hs. bools.
    destruct (p_sizeLB p) as [l|], (p_sizeUB p) as [u|]; try discriminate.
    + bools. rewrite size_lb_some, size_ub_some in Hx by lia. cbn [x691] in Hx.
      destruct (forallb (fun b0 => b0 <? 256) bs) eqn:Eb; [|discriminate].
      apply octets_constrained_emits; auto; try lia.
      * apply bok_forallb; assumption.
      * intros He. rewrite He in *. cbn [negb orb] in *. lia.
    + cbn [size_lb size_ub x691] in Hx. destruct (p_sizeExt p); [discriminate|].
      destruct (forallb (fun b0 => b0 <? 256) bs) eqn:Eb; [|discriminate].
      apply octets_unconstrained_emits; auto; try lia. apply bok_forallb; assumption.
  - (* string *)
    injection Ha as <-. unfold str_ok in Hs. bools.
    destruct (p_sizeLB p) as [l|], (p_sizeUB p) as [u|]; try discriminate.
    + bools. rewrite size_lb_some, size_ub_some in Hx by lia. cbn [x691] in Hx.
      destruct (forallb (fun b0 => b0 <? 256) bs) eqn:Eb; [|discriminate].
      apply octets_constrained_emits; auto; try lia.
      * apply bok_forallb; assumption.
      * intros He. rewrite He in *. cbn [negb orb] in *. lia.
    + cbn [size_lb size_ub x691] in Hx. destruct (p_sizeExt p); [discriminate|].
      destruct (forallb (fun b0 => b0 <? 256) bs) eqn:Eb; [|discriminate].
      apply octets_unconstrained_emits; auto; try lia. apply bok_forallb; assumption.
Qed.
