(* Side conditions of the structural C04 theorem (decoding of canonical X.691 encodings), directed by the abstract
   value: [supa t p av] - the ASN.1 value [av] of the type read from the Go type [t] under tags [p] only reaches
   constraint classes on which the library's decoder follows X.691, and every component reached occupies at least
   one bit ([ne]: a component of zero bits that ends the buffer is rejected by the library with "sequence truncated" -
   in NGAP only the field-less ...ExtIEs alternatives, which have no TS 38.413 value). *)
From Coq Require Import String NArith ZArith List Bool.
Require Import GoSlice Bits AperCommon AperEnc AperDec Asn1 AperStructDefs.
Import ListNotations.
Open Scope N_scope.

(* statically: the encoding of every value of the type has at least one bit *)
Fixpoint ne_f (fuel : nat) (t : ty) (p : params) : bool :=
  match fuel with
  | O => false
  | S f =>
      match t with
      | TInt => p_valueExt p || match p_valueLB p, p_valueUB p with Some l, Some u => negb (u - l + 1 =? 1)%Z | _, _ => false end
      | TEnum => p_valueExt p || match p_valueUB p with Some u => (1 <=? u)%Z | None => false end
      | TBool | TBits | TOctets | TString => true
      | TOid => false
      | TSlice _ => match p_sizeLB p, p_sizeUB p with Some l, Some u => p_sizeExt p || (l <? u)%Z | _, _ => false end
      | TPtr e => ne_f f e p
      | TStruct fs =>
          if is_choice fs then true
          else p_valueExt p || (0 <? count_optional fs)
               || match fs with
                  | f0 :: _ => negb (p_openType (f_params f0)) && negb (p_optional (f_params f0)) && ne_f f (f_ty f0) (f_params f0)
                  | [] => false
                  end
      end
  end.

Section FieldSupa.
  Variable rec : ty -> params -> aval -> bool.
  Variable ne : ty -> params -> bool.

  Definition open_supa (allf : list field) (i : nat) (fp : params) (ft : ty) (cv : aval) : bool :=
    match ft, cv with
    | TStruct cfs, AVOpen key ov =>
        is_choice cfs && negb (p_valueExt fp) && negb (p_sizeExt fp) && (count_optional cfs =? 0) &&
        let idx := find_field (p_refName fp) allf i 0 in
        negb (Nat.eqb idx i) &&
        match nth_error allf idx with
        | Some rf =>
            ref_shape (f_ty rf) && negb (p_optional (f_params rf)) && negb (p_openType (f_params rf)) &&
            let j := find_alt (tl cfs) 1 key in
            negb (Nat.eqb j 0) &&
            match nth_error cfs j with
            | Some a => rec (f_ty a) (f_params a) ov && ne (f_ty a) (f_params a)
            | None => false
            end
        | None => false
        end
    | _, _ => false
    end.

  Definition field_supa (allf : list field) (i : nat) (f : field) (c : option aval) : bool :=
    let fp := f_params f in
    match c with
    | None => p_optional fp && is_ptr (f_ty f)
    | Some cv =>
        (negb (p_optional fp) || is_ptr (f_ty f)) &&
        (if p_openType fp then negb (p_optional fp) && open_supa allf i fp (f_ty f) cv
         else rec (f_ty f) fp cv && ne (f_ty f) fp)
    end.

  Fixpoint fields_supa (allf : list field) (i : nat) (fs : list field) (cs : list (option aval)) : bool :=
    match fs, cs with
    | [], [] => true
    | f :: fr, c :: cr => field_supa allf i f c && fields_supa allf (S i) fr cr
    | _, _ => false
    end.
End FieldSupa.

Fixpoint supa_f (fuel : nat) (t : ty) (p : params) (av : aval) : bool :=
  match fuel with
  | O => false
  | S f =>
      match t with
      | TPtr e => supa_f f e p av
      | TInt => match av with AVInt z => int_ok p z && negb (p_sizeExt p) | _ => false end
      | TEnum => match av with AVEnum _ => enum_ok p && negb (p_sizeExt p) | _ => false end
      | TBool => match av with AVBool _ => negb (p_sizeExt p) && negb (p_valueExt p) | _ => false end
      | TBits => match av with AVBits c => str_ok p (len c) && negb (p_valueExt p) | _ => false end
      | TOctets | TString => match av with AVOctets bs => str_ok p (len bs) && negb (p_valueExt p) | _ => false end
      | TOid => false
      | TSlice e =>
          match av with
          | AVSeqOf l => slice_ok p (len l) && forallb (supa_f f e (clear_size p)) l
                         && (ne_f f e (clear_size p) || match l with [] => true | _ => false end)
          | _ => false
          end
      | TStruct fs =>
          negb (p_sizeExt p) &&
          match av with
          | AVChoice i x =>
              is_choice fs && choice_ok fs p && (count_optional fs =? 0) &&
              match nth_error fs (S (N.to_nat i)) with
              | Some a => supa_f f (f_ty a) (f_params a) x && ne_f f (f_ty a) (f_params a)
              | None => false
              end
          | AVSeq cs => negb (is_choice fs) && (count_optional fs <=? 64) && fields_supa (supa_f f) (ne_f f) fs 0 fs cs
          | _ => false
          end
      end
  end.

Definition supa (t : ty) (p : params) (av : aval) : bool := supa_f (S (ty_depth t)) t p av.
