From Coq Require Import NArith ZArith List Lia Bool.
From Coq Require Import ZifyN ZifyNat ZifyBool.
Require Import Dec DecProofs CreateUE UeIdentity.
Import ListNotations.
Open Scope N_scope.
Ltac Zify.zify_post_hook ::= Z.div_mod_to_equations.

Lemma to_ascii_inj a b : to_ascii a = to_ascii b -> a = b.
Proof.
  revert b; induction a as [|x a IH]; intros [|y b] H; try discriminate; [reflexivity|].
  assert (H1 : 48 + x = 48 + y) by exact (f_equal (fun l => hd 0 l) H).
  assert (H2 : to_ascii a = to_ascii b) by exact (f_equal (@tl N) H).
  f_equal; [lia|]. apply IH, H2.
Qed.

Lemma supi_distinct imsi i j : i <> j -> u_supi (create_ue imsi i) <> u_supi (create_ue imsi j).
Proof.
  intros Hij H. unfold create_ue in H. cbn [u_supi] in H.
  apply app_inv_head in H. apply to_ascii_inj in H. apply pad0_inj in H. lia.
Qed.

Lemma ranid_distinct imsi i j : i < j -> j < i + 10000 -> u_ranid (create_ue imsi i) <> u_ranid (create_ue imsi j).
Proof. intros H1 H2. unfold create_ue. cbn [u_ranid]. lia. Qed.

Lemma of_to_ascii l : of_ascii (to_ascii l) = l.
Proof. induction l as [|x l IH]; [reflexivity|]. cbn [to_ascii of_ascii map]. f_equal; [lia|]. exact IH. Qed.

Lemma ascii_ok_to_ascii l : digits_ok l = true -> ascii_digits_ok (to_ascii l) = true.
Proof.
  induction l as [|x l IH]; intro H; [reflexivity|].
  cbn [digits_ok forallb] in H. apply andb_true_iff in H. destruct H as [Hx Hl]. unfold is_digit in Hx.
  cbn [to_ascii map ascii_digits_ok forallb]. fold (to_ascii l). fold (ascii_digits_ok (to_ascii l)). rewrite (IH Hl). lia.
Qed.

Lemma to_ascii_app a b : to_ascii (a ++ b) = to_ascii a ++ to_ascii b.
Proof. apply map_app. Qed.

Lemma to_ascii_length a : length (to_ascii a) = length a.
Proof. apply map_length. Qed.

(* the SUPI of UE i keeps the PLMN digits and the number of digits while the MSIN has room *)
Lemma supi_in_plmn pre msin i :
  digits_ok pre = true -> digits_ok msin = true -> (1 <= length msin)%nat ->
  undec msin + i < 10 ^ N.of_nat (length msin) ->
  u_supi (create_ue (to_ascii (pre ++ msin)) i)
  = ascii_imsi_dash ++ to_ascii pre ++ to_ascii (pad0 (length msin) (undec msin + i)).
Proof.
  intros Hp Hm Hl Hc. unfold create_ue. cbn [u_supi]. f_equal. rewrite <- to_ascii_app. f_equal.
  unfold atoi_or_0.
  assert (Hd : digits_ok (pre ++ msin) = true) by (rewrite digits_ok_app, Hp, Hm; reflexivity).
  rewrite (ascii_ok_to_ascii _ Hd), of_to_ascii, to_ascii_length, app_length.
  destruct (to_ascii (pre ++ msin)) eqn:E.
  - apply (f_equal (@length N)) in E. rewrite to_ascii_length, app_length in E. cbn in E. lia.
  - apply pad0_prefix; assumption.
Qed.

Lemma supi_length pre msin i :
  digits_ok pre = true -> digits_ok msin = true -> (1 <= length msin)%nat ->
  undec msin + i < 10 ^ N.of_nat (length msin) ->
  length (u_supi (create_ue (to_ascii (pre ++ msin)) i)) = (5 + length (pre ++ msin))%nat.
Proof.
  intros Hp Hm Hl Hc. rewrite supi_in_plmn by assumption.
  rewrite !app_length, !to_ascii_length, pad0_length by (assumption || lia). reflexivity.
Qed.

Lemma sec_cap_exact_fin :
  forallb (fun ea => forallb (fun ia => advertises_exactly (sec_cap ea ia) ea ia) [0;1;2;3]) [0;1;2;3] = true.
Proof. vm_compute. reflexivity. Qed.

Lemma sec_cap_exact ea ia : ea < 4 -> ia < 4 -> advertises_exactly (sec_cap ea ia) ea ia = true.
Proof.
  intros He Hi. pose proof sec_cap_exact_fin as F. rewrite forallb_forall in F.
  assert (In ea [0;1;2;3]) as Ie by (cbn; lia). specialize (F ea Ie). rewrite forallb_forall in F.
  apply F. cbn; lia.
Qed.
