(* C13 — proofs.  (1) instantiation commutes with the navigation to procedure code, class and IEs (proved once
   over the template datatype); (2) reflective checks of the regenerated templates (Gen/Builders.v) against
   Spec/TS38413.v, lifted by (1) to every argument assignment; (3) refusal of out-of-range identifiers by the
   INTEGER encoder model for all values, and boundary behaviour of whole messages by computation. *)
From Coq Require Import ZArith NArith List String Bool Lia.
Require Import GoSlice AperCommon AperEnc AperDec NgapSchema AperCheck BuildersT TS38413 Builders Builders13.
Import ListNotations.

(* ------------------------------------------------------------------ (1) generic: inst commutes with navigation *)
Section Inst.
Variable s : env.
Variable e : option Z.

Lemma nth_error_map_inst : forall (l : list tval) n, nth_error (map (inst s e) l) n = option_map (inst s e) (nth_error l n).
Proof. induction l; destruct n; simpl; auto. Qed.

Lemma inst_choice : forall t c x, t_choice t = Some (c, x) -> v_choice (inst s e t) = Some (c, inst s e x).
Proof.
  intros t c x H. unfold t_choice in H.
  destruct t; try discriminate. destruct l as [|h r]; try discriminate. destruct h; try discriminate.
  destruct (z <=? 0)%Z eqn:Hz; try discriminate.
  unfold nth_tfield in H. destruct (z <? 0)%Z eqn:Hz2; try discriminate.
  destruct (nth_error (TVInt z :: r) (Z.to_nat z)) eqn:Hn; try discriminate.
  destruct t; try discriminate. inversion H; subst. clear H.
  change (inst s e (TVStruct (TVInt c :: r))) with (VStruct (map (inst s e) (TVInt c :: r))).
  change (map (inst s e) (TVInt c :: r)) with (VInt c :: map (inst s e) r).
  unfold v_choice. rewrite Hz. unfold nth_field. rewrite Hz2.
  change (VInt c :: map (inst s e) r) with (map (inst s e) (TVInt c :: r)).
  rewrite nth_error_map_inst, Hn. reflexivity.
Qed.

Lemma inst_ie : forall t id c alt x, t_ie t = Some (id, c, alt, x) -> v_ie (inst s e t) = Some (id, c, alt, inst s e x).
Proof.
  intros t id c alt x H. unfold t_ie in H.
  repeat match type of H with
         | context [match ?y with _ => _ end] => destruct y eqn:?; try discriminate
         end.
  inversion H; subst; clear H.
  match goal with Hc : t_choice _ = Some _ |- _ => apply inst_choice in Hc; cbn [inst map]; unfold v_ie; rewrite Hc end.
  reflexivity.
Qed.

Lemma inst_find : forall ies id x, t_find_ie ies id = Some x -> v_find_ie (map (inst s e) ies) id = Some (inst s e x).
Proof.
  induction ies as [|ie r IH]; intros id x H; simpl in H; try discriminate.
  destruct (t_ie ie) as [[[[i c] a] y]|] eqn:Hi; try discriminate.
  simpl. rewrite (inst_ie _ _ _ _ _ Hi).
  destruct (i =? id)%Z.
  - inversion H; subst; reflexivity.
  - apply IH; assumption.
Qed.

Lemma inst_heads : forall ies hs, t_ie_heads ies = Some hs -> v_ie_heads (map (inst s e) ies) = Some hs.
Proof.
  induction ies as [|ie r IH]; intros hs H; simpl in H.
  - inversion H; reflexivity.
  - destruct (t_ie ie) as [[[[i c] a] y]|] eqn:Hi; try discriminate.
    destruct (t_ie_heads r) as [l|] eqn:Hr; try discriminate.
    inversion H; subst; clear H. simpl. rewrite (inst_ie _ _ _ _ _ Hi), (IH _ eq_refl). reflexivity.
Qed.

Lemma inst_pdu : forall t pv, t_pdu t = Some pv ->
  v_pdu (inst s e t) = Some (mkview (tv_class pv) (tv_proc pv) (tv_crit pv) (tv_alt pv) (map (inst s e) (tv_ies pv))).
Proof.
  intros t pv H. unfold t_pdu in H.
  destruct (t_choice t) as [[cls m]|] eqn:Hc; try discriminate.
  apply inst_choice in Hc.
  repeat match type of H with
         | context [match ?y with _ => _ end] => destruct y eqn:?; try discriminate
         end.
  inversion H; subst; clear H.
  match goal with Hv : t_choice _ = Some _ |- _ => apply inst_choice in Hv; unfold v_pdu; rewrite Hc; cbn [inst map]; rewrite Hv end.
  cbn [inst map tv_class tv_proc tv_crit tv_alt tv_ies]. reflexivity.
Qed.

(* for every template, every IE id of the template and every argument assignment: looking the IE up in the
   instantiated message gives the instantiated IE value of the template *)
Theorem find_ie_inst : forall t id x, find_ie_t t id = Some x -> find_ie (inst s e t) id = Some (inst s e x).
Proof.
  intros t id x H. unfold find_ie_t in H. destruct (t_pdu t) as [pv|] eqn:Hp; try discriminate.
  unfold find_ie. rewrite (inst_pdu _ _ Hp). simpl. apply inst_find; assumption.
Qed.

Theorem int_argument_reaches_ie : forall t id a z,
  ie_int_hole t id a = true -> get_int s a = Some z -> find_ie (inst s e t) id = Some (VStruct [VInt z]).
Proof.
  intros t id a z H Hz. unfold ie_int_hole in H.
  destruct (find_ie_t t id) as [x|] eqn:Hf; try discriminate.
  repeat match type of H with
         | context [match ?y with _ => _ end] => destruct y eqn:?; try discriminate
         end.
  apply String.eqb_eq in H; subst.
  rewrite (find_ie_inst _ _ _ Hf). cbn [inst map]. rewrite Hz. reflexivity.
Qed.

Theorem bytes_argument_reaches_ie : forall t id a b,
  ie_bytes_hole t id a = true -> get_bytes s a = Some b -> find_ie (inst s e t) id = Some (VStruct [VOctets b]).
Proof.
  intros t id a b H Hb. unfold ie_bytes_hole in H.
  destruct (find_ie_t t id) as [x|] eqn:Hf; try discriminate.
  repeat match type of H with
         | context [match ?y with _ => _ end] => destruct y eqn:?; try discriminate
         end.
  apply String.eqb_eq in H; subst.
  rewrite (find_ie_inst _ _ _ Hf). cbn [inst map]. rewrite Hb. reflexivity.
Qed.
End Inst.

Lemma select_in : forall s vs t, select s vs = Some t -> exists cs, In (cs, t) vs.
Proof.
  induction vs as [|[cs t'] r IH]; intros t H; simpl in H; try discriminate.
  destruct (forallb (cond_holds s) cs).
  - inversion H; subst. exists cs. left; reflexivity.
  - destruct (IH _ H) as [cs' Hin]. exists cs'. right; assumption.
Qed.

(* ------------------------------------------------------------------ (2) reflective checks over Gen/Builders.v *)
Lemma all_heads_ok : forallb builder_head_ok (builders ++ wrappers) = true.
Proof. vm_compute. reflexivity. Qed.

Lemma stubs_are : stubs = ["BuildAMFStatusIndication"; "BuildUETNLABindingReleaseRequest"]%string.
Proof. vm_compute. reflexivity. Qed.

Lemma emulator_templates_present :
  map b_name emulator_wrapper_templates = emulator_wrappers /\ List.length emulator_builder_templates = 9%nat /\ unprobed = [].
Proof. vm_compute. repeat split; reflexivity. Qed.

Lemma emulator_conform :
  forallb wrapper_conforms (emulator_wrapper_templates ++ emulator_builder_templates) = true.
Proof. vm_compute. reflexivity. Qed.

Lemma emulator_values_placed :
  forallb (fun b => roles_ok b && direct_ok b && no_opaque b) (emulator_wrapper_templates ++ emulator_builder_templates) = true
  /\ forallb state_ok (builders ++ wrappers) = true
  /\ forallb gtp_sample_ok emulator_wrapper_templates = true.
Proof. vm_compute. repeat split; reflexivity. Qed.

Lemma emulator_boundaries :
  forallb (fun b => boundary_ok b && id_constraints_ok b) emulator_wrapper_templates = true.
Proof. vm_compute. reflexivity. Qed.

Lemma other_deviations_are : other_deviations = ["BuildHandoverFailure"; "BuildHandoverNotify"; "GetHandoverNotify"]%string.
Proof. vm_compute. reflexivity. Qed.

(* lifted: every argument assignment *)
Theorem every_builder_code_and_class :
  forall b s t, In b (builders ++ wrappers) -> select s (b_variants b) = Some t ->
    is_stub t = true \/
    exists m pv, message_of b = Some m /\ v_pdu (inst s None t) = Some pv /\
                 head_conforms m false (pv_class pv) (pv_proc pv) (pv_crit pv) = true.
Proof.
  intros b s t Hb Hs.
  pose proof all_heads_ok as H. rewrite forallb_forall in H. specialize (H b Hb).
  unfold builder_head_ok in H. destruct (message_of b) as [m|] eqn:Hm; try discriminate.
  rewrite forallb_forall in H. destruct (select_in _ _ _ Hs) as [cs Hin]. specialize (H _ Hin). simpl in H.
  apply orb_true_iff in H. destruct H as [H|H]; [left; assumption|right].
  unfold head_ok in H. destruct (t_pdu t) as [pv|] eqn:Hp; try discriminate.
  exists m. eexists. split; [reflexivity|]. split; [apply inst_pdu; eassumption|]. exact H.
Qed.

Theorem emulator_message_conforms :
  forall b s t, In b (emulator_wrapper_templates ++ emulator_builder_templates) -> select s (b_variants b) = Some t ->
    exists m rows pv hs, message_of b = Some m /\ m_ies m = Some rows /\ v_pdu (inst s None t) = Some pv /\
      head_conforms m true (pv_class pv) (pv_proc pv) (pv_crit pv) = true /\
      v_ie_heads (pv_ies pv) = Some hs /\ ies_conform rows hs = true.
Proof.
  intros b s t Hb Hs.
  pose proof emulator_conform as H. rewrite forallb_forall in H. specialize (H b Hb).
  unfold wrapper_conforms in H. destruct (message_of b) as [m|] eqn:Hm; try discriminate.
  rewrite forallb_forall in H. destruct (select_in _ _ _ Hs) as [cs Hin]. specialize (H _ Hin). simpl in H.
  apply andb_true_iff in H. destruct H as [H1 H2].
  unfold head_ok in H1. unfold table_ok in H2.
  destruct (m_ies m) as [rows|] eqn:Hr; try discriminate.
  destruct (t_pdu t) as [pv|] eqn:Hp; try discriminate.
  destruct (t_ie_heads (tv_ies pv)) as [hs|] eqn:Hh; try discriminate.
  exists m, rows. eexists. exists hs.
  split; [reflexivity|]. split; [exact Hr|]. split; [apply inst_pdu; eassumption|].
  split; [exact H1|]. split; [apply inst_heads; exact Hh | exact H2].
Qed.

(* the identifiers / payloads that are an IE of their own come back from the instantiated message, for every
   emulator wrapper (and underlying builder), every variant and every argument assignment *)
Theorem emulator_direct_values :
  forall b s t m p r id, In b (emulator_wrapper_templates ++ emulator_builder_templates) -> select s (b_variants b) = Some t ->
    message_of b = Some m -> In p (b_args b) -> role_of_param (fst p) = Some r -> role_ie m r = Some id ->
    (snd p = KInt -> forall z, get_int s (fst p) = Some z -> find_ie (inst s None t) id = Some (VStruct [VInt z])) /\
    (snd p = KBytes -> forall bs, get_bytes s (fst p) = Some bs -> find_ie (inst s None t) id = Some (VStruct [VOctets bs])).
Proof.
  intros b s t m p r id Hb Hs Hm Hp Hr Hid.
  destruct emulator_values_placed as [H _]. rewrite forallb_forall in H. specialize (H b Hb).
  apply andb_true_iff in H. destruct H as [H _]. apply andb_true_iff in H. destruct H as [_ H].
  unfold direct_ok in H. rewrite Hm in H. rewrite forallb_forall in H.
  destruct (select_in _ _ _ Hs) as [cs Hin]. specialize (H _ Hin). simpl in H.
  rewrite forallb_forall in H. specialize (H p Hp). rewrite Hr in H.
  split; intros Hk; rewrite Hk in H; rewrite Hid in H; intros.
  - eapply int_argument_reaches_ie; eassumption.
  - eapply bytes_argument_reaches_ie; eassumption.
Qed.

(* ------------------------------------------------------------------ (3) ranges *)
(* the INTEGER encoder model refuses, in any encoder state, a value below 0 or above the upper bound of a
   non-extensible constraint (0..ub): AMF-UE-NGAP-ID (ub = 2^40-1), RAN-UE-NGAP-ID (2^32-1), PDUSessionID (255) *)
Theorem integer_below_zero_refused : forall st z ub, (z < 0)%Z -> appendInteger st z false (Some 0%Z) (Some ub) = Err E_INT_SMALL.
Proof.
  intros st z ub H. unfold appendInteger.
  destruct (Z.ltb_spec z 0); [reflexivity | lia].
Qed.

Theorem integer_above_bound_refused : forall st z ub, (ub < z)%Z -> (0 <= z)%Z -> appendInteger st z false (Some 0%Z) (Some ub) = Err E_INT_LARGE.
Proof.
  intros st z ub H H0. unfold appendInteger.
  destruct (Z.ltb_spec z 0); [lia|].
  destruct (Z.leb_spec z ub); [lia|]. reflexivity.
Qed.
