(* C13, ranges - part 7: the NG Setup request.  No integer identifier; the range is the bit length 22..32 of the gNB id
   (BIT STRING (SIZE (22..32))).  The bit string is kept opaque during evaluation (stop at BIT STRING nodes). *)
From Coq Require Import ZArith NArith List String Bool Lia.
From Coq Require Import ZifyN ZifyNat ZifyBool.
Require Import GoSlice Bits AperBits AperCommon AperEnc AperDec NgapSchema AperCheck BuildersT TS38413 Builders Builders13 Asn1 X691 Asn1Tags
        AperStructDefs AperStructRefDefs AperStructSize Builders13Range Builders13RangeX Builders13RangeNE Builders13RangeTac Builders13RangeL.
Import ListNotations.
Open Scope string_scope.
Ltac Zify.zify_post_hook ::= Z.div_mod_to_equations.

Definition stop_bits (n : nat) (t : ty) : bool := match t with TBits => true | _ => false end.
Definition hbits (b : list N) (n : N) : list bool := firstn (N.to_nat n) (bits_of_bytes b).

Lemma stopA_bits n p b nb : len b = ((nb + 7) / 8)%N -> octs_ok b = true ->
  STOPA (S n) TBits p (VBits b nb) = Some (AVBits (hbits b nb)).
Proof.
  intros Hl Ho. unfold STOPA, hbits. cbn [abs_f]. unfold len in Hl. rewrite Hl, N.eqb_refl. unfold octs_ok in Ho. rewrite Ho. reflexivity.
Qed.
Lemma hbits_length b nb : len b = ((nb + 7) / 8)%N -> List.length (hbits b nb) = N.to_nat nb.
Proof.
  intros Hl. unfold hbits. rewrite firstn_length, bits_of_bytes_length. unfold len in Hl. lia.
Qed.
Lemma alen_hbits b nb : len b = ((nb + 7) / 8)%N -> alen (hbits b nb) = nb.
Proof. intros Hl. unfold alen. rewrite (hbits_length b nb Hl). lia. Qed.

Definition BITS (nb : N) : xs := size_st 22 (Some 32%N) false nb.
Lemma bits_if z : BITS (Z.to_N z) = if ((22 <=? z) && (z <=? 32))%Z then SOk else SViol.
Proof.
  unfold BITS, size_st, size_inroot. cbn [andb].
  destruct ((22 <=? z) && (z <=? 32))%Z eqn:E.
  - assert ((22 <=? Z.to_N z) && (Z.to_N z <=? 32) = true)%N as -> by lia. reflexivity.
  - assert ((22 <=? Z.to_N z) && (Z.to_N z <=? 32) = false)%N as -> by lia. reflexivity.
Qed.

Ltac abs_bits_tac :=
  rewrite <- (abs_h_eq stop_bits); lazy -[STOPA hbits];
  repeat (match goal with
          | Hl : len ?b = ((?nb + 7) / 8)%N, Ho : octs_ok ?b = true |- context [STOPA (S ?n) TBits ?p (VBits ?b ?nb)] =>
              rewrite (stopA_bits n p b nb Hl Ho)
          end; lazy -[STOPA hbits]);
  reflexivity.
Ltac asz_bits_tac :=
  unfold XB; cbn [asz Datatypes.length];
  repeat match goal with Hl : len ?b = ((?nb + 7) / 8)%N |- context [Datatypes.length (hbits ?b ?nb)] => rewrite (hbits_length b nb Hl) end;
  unfold len, alen in *; lia.
Ltac xst_bits_pre := lazy -[int_st oct_st size_st enum_st alen hbits BITS].
Ltac xst_bits_leaves :=
  repeat match goal with Hl : len ?b = ((?nb + 7) / 8)%N |- context [alen (hbits ?b ?nb)] => rewrite (alen_hbits b nb Hl) end;
  repeat match goal with |- context [size_st 22 (Some 32%N) false ?nb] => is_var nb; change (size_st 22 (Some 32%N) false nb) with (BITS nb) end;
  repeat (first [progress eval_closed_st | oct_tac | size_tac | int_hyp_tac]); cbv beta iota.
Ltac ne_status_bits_tac :=
  unfold ne_status; xst_bits_pre; xst_bits_leaves;
  repeat match goal with
         | |- context [BITS ?nb] => let E := fresh "E" in destruct (size_st_total 22 32 nb eq_refl) as [E|E]; unfold BITS; rewrite E; clear E
         end;
  vm_compute; reflexivity.
Ltac supr_bits_atom self :=
  first
    [ solve [closed_goal; vm_compute; reflexivity]
    | match goal with |- int_okr ?p ?z = true => rewrite (int_okr_nonext p z) by reflexivity; vm_compute; reflexivity end
    | match goal with H : octs_ok ?x = true |- _ ?x = true => exact H end
    | match goal with
      | H : len ?x = _ |- str_ok _ (len ?x) = true => rewrite H; vm_compute; reflexivity
      | |- str_ok ?p ?n = true =>
          first [apply (str_ok_mono p 0); [vm_compute; reflexivity|lia|lia] | apply (str_ok_mono p 1); [vm_compute; reflexivity|lia|lia]]
      end
    | match goal with
      | |- nonempty_bytes (makeField ?n ?t ?p ?v _) = true =>
          eapply (ne_bytes t n n n n p v);
          [ depth_tac | depth_tac | depth_tac | depth_tac | abs_bits_tac | self | asz_bits_tac | ne_status_bits_tac ]
      end
    | match goal with |- ?g => idtac "supr_bits_atom: unsolved" g; fail 1 end ].
Ltac supr_bits_tac := lazy -[makeField str_ok int_okr nonempty_bytes len]; split_ifs; supr_bits_atom supr_bits_tac.
Ltac good_bits_tac :=
  eexists; split; [unfold abs; abs_bits_tac|]; split; [unfold supr; supr_bits_tac|]; split; [asz_bits_tac|];
  unfold AT; xst_bits_pre; xst_bits_leaves;
  repeat match goal with |- context [BITS ?nb] => destruct (BITS nb) end; reflexivity.

Definition tNG := Eval vm_compute in match b_variants B_GetNGSetupRequest with (_, t) :: _ => t | _ => TVNil end.
Lemma G_ng s gnb pl bits nm :
  lookup "gnbId" (e_args s) = Some (ABytes gnb) -> lookup "mobilePLMN" (e_args s) = Some (ABytes pl) ->
  lookup "bitlength" (e_args s) = Some (BuildersT.AInt bits) -> lookup "name" (e_args s) = Some (ABytes nm) ->
  octs_ok gnb = true -> len gnb = ((Z.to_N bits + 7) / 8)%N -> (bits < 16384)%Z ->
  octs_ok pl = true -> len pl = 3%N -> octs_ok nm = true -> (1 <= len nm)%N -> (len nm <= 150)%N ->
  good (inst s None tNG) [BITS (Z.to_N bits)].
Proof.
  intros L1 L2 L3 L4 Hg Hgl Hb Hp Hpl Hn Hn1 Hn2. unfold tNG. inst_tac.
  assert (Hnb : (Z.to_N bits < 16384)%N) by lia. revert Hgl Hnb. generalize (Z.to_N bits). intros nb Hgl Hnb.
  good_bits_tac.
Qed.

Theorem R_ng s : env_wf B_GetNGSetupRequest s = true ->
  (ids_ok B_GetNGSetupRequest s = true -> exists bs, encode_call B_GetNGSetupRequest s = Ok bs) /\
  (ids_ok B_GetNGSetupRequest s = false -> exists e, encode_call B_GetNGSetupRequest s = Err e).
Proof.
  intros Hwf. env_tac B_GetNGSetupRequest Hwf.
  match goal with
  | H : gnb_ok s = true |- _ =>
      unfold gnb_ok in H; repeat match goal with Hl : lookup ?n ?l = Some _ |- _ => progress (rewrite Hl in H) end;
      apply N.eqb_eq in H
  end.
  repeat match goal with H : (_ <? _)%Z = true |- _ => apply Z.ltb_lt in H end.
  eassert (G : good _ _) by (eapply G_ng; eassumption).
  cbn [select forallb]; cbv beta iota; change (root_penc "NGAPPDU") with PE.
  rewrite bits_if in G.
  repeat match type of G with context [if ?c then SOk else SViol] => destruct c end;
  cbn [andb]; (split; intros Hids; try discriminate Hids);
  first [ solve [eapply good_ok; [exact G | repeat constructor]]
        | solve [eapply good_err; [exact G | unfold total; repeat constructor; auto | ex_tac]] ].
Qed.
