(* Structural C04 theorem: the model of aper.go decodes every canonical X.691 encoding (of an abstract value of the ASN.1
   type read from a Go type and its tags, within the supported classes) to a Go value denoting that abstract value,
   consuming exactly the encoding.  Induction on the nesting depth of the type. *)
From Coq Require Import String NArith ZArith List Bool Lia Arith.
From Coq Require Import ZifyN ZifyNat ZifyBool.
Require Import GoSlice Bits AperCommon AperEnc AperDec Asn1 X691 Asn1Tags AperBits AperBitsGet AperBitsPut AperEncProofs
        AperStructPrim AperStructStr AperStructDefs AperStructLeaf AperStructSeq AperStructFld AperStructMain
        AperRoundGet AperRoundPrim AperRoundLeaf AperRoundStr AperRoundBits AperRoundDefs AperRoundNe AperRoundField AperRoundSeq.
Import ListNotations.
Open Scope N_scope.
Ltac Zify.zify_post_hook ::= Z.div_mod_to_equations.
Local Arguments N.add : simpl never.
Local Arguments N.mul : simpl never.
Local Arguments N.sub : simpl never.
Local Arguments N.div : simpl never.
Local Arguments N.modulo : simpl never.
Local Arguments N.land : simpl never.
Local Arguments N.lor : simpl never.
Local Arguments N.shiftr : simpl never.
Local Arguments N.shiftl : simpl never.
Local Arguments N.pow : simpl never.

Definition DecStmt (t : ty) : Prop :=
  forall n1 n2 n3 n4 n5 p av bs pos b d,
    (ty_depth t <= n1)%nat -> (ty_depth t <= n2)%nat -> (ty_depth t <= n3)%nat -> (ty_depth t <= n4)%nat -> (ty_depth t <= n5)%nat ->
    supa_f n4 t p av = true -> x691 (t2a n1 t p) av pos = XOk b -> buf bs -> at_pos d bs pos ->
    bits_at bs pos b -> (pos < 8 * length bs)%nat ->
    adec_ok (parseField n3 t p d) bs (pos + length b) (fun v' => abs_f n2 t p v' = Some av /\ sup_f n5 t p v' = true).

Definition dec_elems (rec : ty -> params -> dst -> ares (val * dst)) (e : ty) (p' : params) :=
  fix elems (n : nat) (acc : list val) (s : dst) : ares (val * dst) :=
    match n with
    | O => aret (VList (rev acc), s)
    | S k => doa (v, s') <- rec e p' s; elems k (v :: acc) s'
    end.

Lemma bits_at_sub bs pos acc r : bits_at bs pos (acc ++ r) -> bits_at bs (pos + length acc) r.
Proof. intros H. apply bits_at_app in H. tauto. Qed.

Lemma pos_lt bs pos b : bits_at bs pos b -> b <> [] -> (pos < 8 * length bs)%nat.
Proof. intros H Hne. pose proof (bits_at_fit _ _ _ H Hne). destruct b; [congruence|cbn [length] in *; lia]. Qed.

Fixpoint bma (fr : list field) (cr : list (option aval)) : list bool :=
  match fr, cr with
  | f :: fr', c :: cr' => (if p_optional (f_params f) then [match c with Some _ => true | None => false end] else []) ++ bma fr' cr'
  | _, _ => []
  end.
Lemma seq_bitmap_bma f1 allf : forall fr cr, seq_bitmap (map (gty f1 allf) fr) cr = bma fr cr.
Proof.
  induction fr as [|f fr IH]; intros cr; destruct cr as [|c cr]; try reflexivity.
  unfold seq_bitmap in *. cbn [map combine flat_map bma]. rewrite IH. rewrite (surjective_pairing (gty f1 allf f)), gty_opt.
  destruct (p_optional (f_params f)); destruct c; reflexivity.
Qed.
Lemma bma_length : forall fr cr, length fr = length cr -> N.of_nat (length (bma fr cr)) = count_optional fr.
Proof.
  induction fr as [|f fr IH]; intros cr Hl; destruct cr as [|c cr]; try discriminate; [reflexivity|].
  injection Hl as Hl. cbn [bma]. rewrite app_length, count_optional_cons. specialize (IH cr Hl). destruct (p_optional (f_params f)); cbn [length]; lia.
Qed.

Lemma firstn_S_of_skipn {A} (l : list A) : forall i x r, skipn i l = x :: r -> firstn (S i) l = firstn i l ++ [x].
Proof.
  induction l as [|y l IH]; intros i x r H; [destruct i; discriminate|].
  destruct i; cbn [skipn firstn] in *; [injection H as -> _; reflexivity|]. cbn [app]. f_equal. eapply IH; eauto.
Qed.
Lemma all_some_app {A B} (g : A -> option B) l1 l2 r1 r2 :
  all_some (map g l1) = Some r1 -> all_some (map g l2) = Some r2 -> all_some (map g (l1 ++ l2)) = Some (r1 ++ r2).
Proof.
  revert r1; induction l1 as [|x l1 IH]; intros r1 H1 H2; cbn [map all_some app] in *.
  - injection H1 as <-. exact H2.
  - destruct (g x) as [y|]; [|discriminate]. destruct (all_some (map g l1)) as [r'|]; [|discriminate]. injection H1 as <-.
    rewrite (IH r' eq_refl H2). reflexivity.
Qed.
Lemma combine_app' {A B} (a a' : list A) (b b' : list B) : length a = length b -> combine (a ++ a') (b ++ b') = combine a b ++ combine a' b'.
Proof. revert b; induction a as [|x a IH]; intros [|y b] H; try discriminate; [reflexivity|]. cbn [app combine]. f_equal. apply IH. injection H as H. exact H. Qed.

Lemma habs_of_abs f2 (f : field) v cv : abs_f f2 (f_ty f) (f_params f) v = Some cv -> cv <> AVInvalid -> habs f2 (f, v) = Some (Some cv).
Proof.
  intros H Hne. unfold habs. destruct (f_ty f) eqn:Et; try (rewrite H; reflexivity). destruct v; try (rewrite H; reflexivity).
  destruct f2; cbn [abs_f] in H; [discriminate|]. injection H as <-. congruence.
Qed.

Lemma find_field_le name : forall fs i k, (find_field name fs i k <= k + i)%nat.
Proof.
  induction fs as [|f fs IH]; intros i k; destruct i; cbn [find_field]; try lia.
  destruct (String.eqb (f_name f) name); [lia|]. specialize (IH i (S k)). lia.
Qed.
Lemma nth_error_firstn {A} (l : list A) : forall i k, (k < i)%nat -> nth_error (firstn i l) k = nth_error l k.
Proof.
  induction l as [|x l IH]; intros i k H; [destruct i, k; reflexivity|]. destruct i; [lia|]. destruct k; cbn [firstn nth_error]; [reflexivity|].
  apply IH. lia.
Qed.
Lemma nth_error_combine {A B} (l1 : list A) (l2 : list B) : forall k a b,
  nth_error l1 k = Some a -> nth_error l2 k = Some b -> nth_error (combine l1 l2) k = Some (a, b).
Proof.
  revert l2; induction l1 as [|x l1 IH]; intros l2 k a b H1 H2; [destruct k; discriminate|].
  destruct l2 as [|y l2]; [destruct k; discriminate|]. destruct k; cbn [nth_error combine] in *; [congruence|]. eapply IH; eauto.
Qed.

Lemma fields_sup_snoc rec recm allf allv : forall pf pv i0 f v, length pf = length pv ->
  fields_sup rec recm allf allv i0 (pf ++ [f]) (pv ++ [v])
  = fields_sup rec recm allf allv i0 pf pv && field_sup rec recm allf allv (i0 + length pf) f v.
Proof.
  induction pf as [|g pf IH]; intros pv i0 f v Hl; destruct pv as [|w pv]; try discriminate.
  - cbn [app fields_sup length]. rewrite Nat.add_0_r, andb_true_r. reflexivity.
  - cbn [app fields_sup length]. injection Hl as Hl. rewrite IH by exact Hl. rewrite andb_assoc. f_equal. f_equal. lia.
Qed.

Lemma comp_enc_invalid vs ft p b : comp_enc vs ft AVInvalid p <> XOk b.
Proof. unfold comp_enc. destruct ft; try apply x691_invalid. discriminate. Qed.

Section Level.
  Variable n : nat.
  Hypothesis Hrec : forall t', (ty_depth t' <= n)%nat -> DecStmt t'.

  Lemma elems_dec e f1 f2 f3 f4 f5 p' bs pos0 :
    (ty_depth e <= n)%nat -> (ty_depth e <= f1)%nat -> (ty_depth e <= f2)%nat -> (ty_depth e <= f3)%nat -> (ty_depth e <= f4)%nat -> (ty_depth e <= f5)%nat ->
    buf bs -> forall l vacc d acc b,
      forallb (supa_f f4 e p') l = true -> (ne_f f4 e p' = true \/ l = []) ->
      x_elems (t2a f1 e p') pos0 l acc = XOk b -> at_pos d bs (pos0 + length acc) -> bits_at bs pos0 b ->
      adec_ok (dec_elems (parseField f3) e p' (length l) vacc d) bs (pos0 + length b)
              (fun v => exists vs, v = VList (rev vacc ++ vs) /\ all_some (map (abs_f f2 e p') vs) = Some l /\ forallb (sup_f f5 e p') vs = true).
  Proof.
    intros Hn H1 H2 H3 H4 H5 Hb. induction l as [|x l IH]; intros vacc d acc b Hs Hne Hx Hd Hbits.
    - cbn [x_elems] in Hx. apply xok_inj in Hx. subst b. cbn [length dec_elems]. apply adec_ret; [exact Hd|].
      exists []. rewrite app_nil_r. auto.
    - cbn [forallb] in Hs. apply andb_true_iff in Hs. destruct Hs as [Hs1 Hs2].
      destruct Hne as [Hne|Hne]; [|discriminate].
      cbn [x_elems] in Hx. destruct (x691 (t2a f1 e p') x (pos0 + length acc)) as [eb| |] eqn:Ee; cbn [xbind] in Hx; try discriminate.
      destruct (x_elems_prefix _ _ _ _ _ Hx) as [r Hbr]. subst b.
      assert (Hbe : bits_at bs (pos0 + length acc) eb).
      { rewrite <- app_assoc in Hbits. apply bits_at_sub in Hbits. apply bits_at_app in Hbits. tauto. }
      assert (Hene : eb <> []) by (eapply (ne_enc (ty_depth e) e (le_n _) f1 f4 f4); eauto).
      cbn [length dec_elems].
      destruct (Hrec e Hn f1 f2 f3 f4 f5 p' x bs (pos0 + length acc)%nat eb d) as (v & d1 & al & E & Hd1 & Hv & Hsv); auto.
      { eapply pos_lt; eauto. }
      eapply adec_bind; [exact E|]. cbv beta iota. fold (dec_elems (parseField f3) e p').
      destruct (IH (v :: vacc) d1 (acc ++ eb) ((acc ++ eb) ++ r) Hs2 (or_introl Hne) Hx) as (v2 & d2 & al2 & E2 & Hd2 & vs & -> & Hvs & Hss).
      + rewrite app_length, Nat.add_assoc. exact Hd1.
      + exact Hbits.
      + exists (VList (rev (v :: vacc) ++ vs)), d2, al2. split; [exact E2|]. split; [exact Hd2|].
        exists (v :: vs). split; [cbn [rev]; rewrite <- app_assoc; reflexivity|]. split; [cbn [map all_some]; rewrite Hv, Hvs; reflexivity|].
        cbn [forallb]. rewrite Hsv, Hss. reflexivity.
  Qed.

  (* ---- an open type component: length-prefixed octets decoded with the alternative selected by the identifier *)
  Lemma open_field_dec cfs fp' key j a ov f1 f2' f3' f4 f5 bs pos d inner L :
    is_choice cfs = true -> p_openType fp' = true -> p_refValue fp' = Some key -> p_sizeExt fp' = false -> p_valueExt fp' = false ->
    count_optional cfs = 0 -> AperDec.find_alt (tl cfs) 1 key = j -> j <> O -> nth_error cfs j = Some a ->
    (ty_depth (f_ty a) <= n)%nat -> (ty_depth (f_ty a) <= f1)%nat -> (ty_depth (f_ty a) <= f2')%nat -> (ty_depth (f_ty a) <= f3')%nat -> (ty_depth (f_ty a) <= f4)%nat -> (ty_depth (f_ty a) <= f5)%nat ->
    supa_f f4 (f_ty a) (f_params a) ov = true -> ne_f f4 (f_ty a) (f_params a) = true ->
    x691 (t2a f1 (f_ty a) (f_params a)) ov 0 = XOk inner ->
    lendet (N.of_nat (length (pack inner))) pos = XOk L ->
    buf bs -> at_pos d bs pos -> bits_at bs pos (L ++ bits_of_bytes (pack inner)) ->
    adec_ok (parseField (S f3') (TStruct cfs) fp' d) bs (pos + length (L ++ bits_of_bytes (pack inner)))
            (fun v => exists vs va, v = VStruct vs /\ length vs = length cfs /\ nth_error vs 0 = Some (VInt (Z.of_nat j))
                                 /\ nth_error vs j = Some va /\ abs_f f2' (f_ty a) (f_params a) va = Some ov
                                 /\ sup_f f5 (f_ty a) (f_params a) va = true
                                 /\ nonempty_bytes (makeField f5 (f_ty a) (f_params a) va (mkest [] 0)) = true).
  Proof.
    intros Hch Hop Hrv Hse Hve Hc0 Hj Hj0 Ha Dn D1 D2 D3 D4 D5 Hsup Hnea Hin HL Hb Hd Hbits.
    assert (Hjl : (j < length cfs)%nat) by (apply nth_error_Some; rewrite Ha; discriminate).
    destruct (pack_bits_at inner) as (Hpb & Hpok & Hpl & _).
    pose proof (lendet_ok_lt _ _ _ HL) as Hlt. pose proof (lendet_nonempty _ _ _ HL) as HLne.
    assert (Hpos : (pos < 8 * length bs)%nat) by (eapply pos_lt; [exact Hbits|apply app_ne_l; exact HLne]).
    cbn [parseField]. rewrite (not_truncated d bs pos Hd Hpos). rewrite Hse, Hve. cbn [andb].
    eapply adec_bind; [reflexivity|]. cbv beta iota. eapply adec_bind; [reflexivity|]. cbv beta iota.
    unfold decStruct. rewrite Hc0. change (0 <? 0) with false. cbv iota.
    eapply adec_bind; [reflexivity|]. cbv beta iota zeta. rewrite Hch, Hop, Hrv. rewrite Hj.
    assert (Nat.eqb j 0 = false) as -> by (apply Nat.eqb_neq; exact Hj0).
    change (@nth_error field) with (@nth_error (string * params * ty)) in *. rewrite Ha.
    unfold parseOpenType. rewrite abind_assoc.
    eapply adec_lift.
    { apply (open_dec_once _ d bs pos (pack inner) L); auto. unfold len. lia. }
    intros d1 Hd1. cbv beta iota.
    destruct (Hrec (f_ty a) Dn f1 f2' f3' f4 f5 (f_params a) ov (pack inner) 0%nat inner (mkdst (pack inner) 0 0)) as (va & d2 & al & E & _ & Hva & Hsva); auto.
    { split; [exact Hpok|]. unfold len, LIM. lia. }
    { apply at_pos_init. }
    { lia. }
    rewrite abind_assoc. eapply adec_bind; [exact E|]. cbv beta iota.
    eapply adec_bind; [reflexivity|]. cbv beta iota.
    apply adec_ret; [exact Hd1|].
    exists (set_nth (set_nth (zero_fields cfs) 0 (VInt (Z.of_nat j))) j va), va.
    split; [reflexivity|]. split; [rewrite !set_nth_length; apply zero_fields_length|].
    split.
    - rewrite nth_error_set_nth_other by lia. apply nth_error_set_nth_same. rewrite zero_fields_length. lia.
    - split; [apply nth_error_set_nth_same; rewrite set_nth_length, zero_fields_length; exact Hjl|]. split; [exact Hva|]. split; [exact Hsva|].
      (* the inner encoding of the decoded value is the (non-empty) canonical one *)
      assert (Hine : inner <> []) by (eapply (ne_enc (ty_depth (f_ty a)) (f_ty a) (le_n _) f1 f4 f4); eauto).
      destruct (main_all (ty_depth (f_ty a)) (f_ty a) (le_n _) f1 f2' f5 f5 (f_params a) va (mkest [] 0) [] ov inner) as (si & Ei & Ri); auto.
      + cbn [app]. pose proof (pack_len_ge inner). unfold small, LIM. lia.
      + apply repr_init.
      + rewrite Ei. cbn [nonempty_bytes]. cbn [app] in Ri. rewrite (repr_pack _ _ Ri).
        destruct (pack_bits inner) eqn:Ep; [|reflexivity]. exfalso. apply Hine.
        pose proof (pack_fuel_len_ge (S (length inner)) inner ltac:(lia)) as Hg. fold (pack_bits inner) in Hg. rewrite Ep in Hg.
        cbn [length] in Hg. destruct inner; [reflexivity|cbn [length] in Hg; lia].
  Qed.

  (* ---- the components of a SEQUENCE *)
  Lemma dec_seq_loop_ok allf cs f1 f2 f3 f4 f5 bs pos0 :
    (S (fdepth allf) <= S n)%nat -> (fdepth allf <= f1)%nat -> (fdepth allf <= f2)%nat -> (fdepth allf <= f3)%nat -> (fdepth allf <= f4)%nat -> (fdepth allf <= f5)%nat ->
    buf bs -> length allf = length cs ->
    forall fr cr i cnt pres hi dv d acc b,
      skipn i allf = fr -> skipn i cs = cr -> length dv = i -> (i <= length allf)%nat ->
      all_some (map (habs f2) (combine (firstn i allf) dv)) = Some (firstn i cs) ->
      (forall tl, fields_sup (sup_f f5) (makeField f5) allf (dv ++ tl) 0 (firstn i allf) dv = true) ->
      fields_supa (supa_f f4) (ne_f f4) allf i fr cr = true ->
      cnt = count_optional fr -> cnt <= 64 -> pres = hi * 2 ^ cnt + N_of_bits (bma fr cr) ->
      x_comps cs pos0 (map (gty f1 allf) fr) cr acc = XOk b -> at_pos d bs (pos0 + length acc) -> bits_at bs pos0 b ->
      adec_ok (dec_seq_loop (parseField f3) allf fr i cnt pres (dv ++ zero_fields fr) d) bs (pos0 + length b)
              (fun v => exists vals, v = VStruct vals /\ length vals = length allf /\ all_some (map (habs f2) (combine allf vals)) = Some cs
                                     /\ fields_sup (sup_f f5) (makeField f5) allf vals 0 allf vals = true).
  Proof.
    intros Dn D1 D2 D3 D4 D5 Hb Hlen.
    induction fr as [|f fr IH]; intros cr i cnt pres hi dv d acc b Hfr Hcr Hdv Hile Hpre Hsp Hsup Hcnt Hc64 Hpres Hx Hd Hbits;
      destruct cr as [|c cr]; cbn [fields_supa] in Hsup; try discriminate.
    - cbn [map x_comps] in Hx. apply xok_inj in Hx. subst b. cbn [dec_seq_loop zero_fields map]. rewrite app_nil_r.
      apply adec_ret; [exact Hd|]. exists dv.
      assert (Hi : (length allf <= i)%nat).
      { destruct (le_lt_dec (length allf) i); [assumption|]. apply (f_equal (@length field)) in Hfr. rewrite skipn_length in Hfr. cbn [length] in Hfr. lia. }
      rewrite firstn_all2 in Hpre by exact Hi. rewrite firstn_all2 in Hpre by lia.
      split; [reflexivity|]. split; [lia|]. split; [exact Hpre|].
      specialize (Hsp []). rewrite app_nil_r in Hsp. rewrite firstn_all2 in Hsp by exact Hi. exact Hsp.
    - apply andb_true_iff in Hsup. destruct Hsup as [Hs1 Hs2].
      destruct (skipn_step _ _ _ _ Hfr) as [Hfr' Hnf]. destruct (skipn_step _ _ _ _ Hcr) as [Hcr' Hnc].
      pose proof (firstn_S_of_skipn _ _ _ _ Hfr) as HfS. pose proof (firstn_S_of_skipn _ _ _ _ Hcr) as HcS.
      cbn [map] in Hx. rewrite (surjective_pairing (gty f1 allf f)), gty_opt in Hx. rewrite x_comps_cons in Hx.
      rewrite count_optional_cons in Hcnt. cbn [bma] in Hpres. subst cnt pres.
      assert (Hlr : length fr = length cr).
      { apply (f_equal (@length field)) in Hfr'. apply (f_equal (@length (option aval))) in Hcr'. rewrite skipn_length in *. lia. }
      assert (Hbl : N.of_nat (length (bma fr cr)) = count_optional fr) by (apply bma_length; exact Hlr).
      assert (Hfl : length (firstn i allf) = i) by (apply firstn_length_le; apply Nat.lt_le_incl; apply nth_error_Some; congruence).
      rewrite zero_fields_cons. cbn [dec_seq_loop]. unfold field_supa in Hs1.
      (* extending the decoded prefix by one value *)
      assert (Hext : forall v, habs f2 (f, v) = Some c ->
                all_some (map (habs f2) (combine (firstn (S i) allf) (dv ++ [v]))) = Some (firstn (S i) cs)).
      { intros v Hv. rewrite HfS, HcS. rewrite combine_app' by lia.
        apply (all_some_app (habs f2)); [exact Hpre|]. cbn [combine map all_some]. rewrite Hv. reflexivity. }
      assert (Hexts : forall v, (forall tl, field_sup (sup_f f5) (makeField f5) allf ((dv ++ [v]) ++ tl) i f v = true) ->
                forall tl, fields_sup (sup_f f5) (makeField f5) allf ((dv ++ [v]) ++ tl) 0 (firstn (S i) allf) (dv ++ [v]) = true).
      { intros v Hfv tl. rewrite HfS. rewrite fields_sup_snoc by lia. rewrite <- app_assoc. rewrite Hsp. cbn [andb Nat.add]. rewrite Hfl.
        rewrite app_assoc. apply Hfv. }
      destruct c as [cv|].
      + (* present *)
        destruct (comp_enc cs (snd (gty f1 allf f)) cv (pos0 + length acc)) as [e| |] eqn:Ee; cbn [xbind] in Hx; try discriminate.
        destruct (x_comps_prefix _ _ _ _ _ _ Hx) as [r Hbr]. subst b.
        assert (Hcvi : cv <> AVInvalid) by (intros ->; eapply comp_enc_invalid; eauto).
        assert (Hbe : bits_at bs (pos0 + length acc) e).
        { rewrite <- app_assoc in Hbits. apply bits_at_sub in Hbits. apply bits_at_app in Hbits. tauto. }
        apply andb_true_iff in Hs1. destruct Hs1 as [Hptr Hs1].
        set (cnt' := if p_optional (f_params f) && (0 <? (if p_optional (f_params f) then 1 else 0) + count_optional fr)
                     then (if p_optional (f_params f) then 1 else 0) + count_optional fr - 1
                     else (if p_optional (f_params f) then 1 else 0) + count_optional fr).
        assert (Hcnt' : cnt' = count_optional fr) by (unfold cnt'; destruct (p_optional (f_params f)); cbn [andb]; [assert (0 <? 1 + count_optional fr = true) as -> by lia|]; lia).
        assert (Htest : p_optional (f_params f) && (0 <? (if p_optional (f_params f) then 1 else 0) + count_optional fr)
                        && (N.land (hi * 2 ^ ((if p_optional (f_params f) then 1 else 0) + count_optional fr)
                                    + N_of_bits ((if p_optional (f_params f) then [true] else []) ++ bma fr cr))
                                   (shl64 1 cnt') =? 0) = false).
        { destruct (p_optional (f_params f)) eqn:Eo; [|reflexivity].
          assert (0 <? 1 + count_optional fr = true) as -> by lia. cbn [andb app].
          rewrite Hcnt'. rewrite shl64_one by lia. rewrite <- Hbl.
          replace (1 + N.of_nat (length (bma fr cr))) with (N.of_nat (S (length (bma fr cr)))) by lia.
          rewrite bitmap_test. reflexivity. }
        rewrite Htest.
        assert (Hnext : forall v d1, habs f2 (f, v) = Some (Some cv) ->
                  (forall tl, field_sup (sup_f f5) (makeField f5) allf ((dv ++ [v]) ++ tl) i f v = true) -> at_pos d1 bs (pos0 + length (acc ++ e)) ->
                  adec_ok (dec_seq_loop (parseField f3) allf fr (S i) cnt'
                             (hi * 2 ^ ((if p_optional (f_params f) then 1 else 0) + count_optional fr)
                              + N_of_bits ((if p_optional (f_params f) then [true] else []) ++ bma fr cr))
                             (set_nth (dv ++ zero_val (f_ty f) :: zero_fields fr) i v) d1) bs (pos0 + length ((acc ++ e) ++ r))
                    (fun v0 => exists vals, v0 = VStruct vals /\ length vals = length allf /\ all_some (map (habs f2) (combine allf vals)) = Some cs
                                            /\ fields_sup (sup_f f5) (makeField f5) allf vals 0 allf vals = true)).
        { intros v d1 Hv Hfv Hd1. pose proof (set_nth_app dv (zero_val (f_ty f)) (zero_fields fr) v) as Hsn. rewrite Hdv in Hsn. rewrite Hsn.
          replace (dv ++ v :: zero_fields fr) with ((dv ++ [v]) ++ zero_fields fr) by (rewrite <- app_assoc; reflexivity).
          assert (A1 : length (dv ++ [v]) = S i) by (rewrite app_length; cbn [length]; lia).
          assert (A2 : (S i <= length allf)%nat) by (apply nth_error_Some; congruence).
          assert (A3 : all_some (map (habs f2) (combine (firstn (S i) allf) (dv ++ [v]))) = Some (firstn (S i) cs)) by (apply Hext; exact Hv).
          assert (A4 : hi * 2 ^ ((if p_optional (f_params f) then 1 else 0) + count_optional fr)
                       + N_of_bits ((if p_optional (f_params f) then [true] else []) ++ bma fr cr)
                       = (if p_optional (f_params f) then 2 * hi + 1 else hi) * 2 ^ cnt' + N_of_bits (bma fr cr)).
          { rewrite Hcnt'. destruct (p_optional (f_params f)).
            - cbn [app]. rewrite N_of_bits_cons, Hbl. rewrite N.pow_add_r. change (2 ^ 1) with 2. lia.
            - cbn [app]. rewrite N.add_0_l. lia. }
          exact (IH cr (S i) cnt' _ (if p_optional (f_params f) then 2 * hi + 1 else hi) (dv ++ [v]) d1 (acc ++ e) ((acc ++ e) ++ r)
                    Hfr' Hcr' A1 A2 A3 (Hexts v Hfv) Hs2 Hcnt' ltac:(lia) A4 Hx Hd1 Hbits). }
        pose proof (fdepth_nth _ _ _ Hnf) as Hdf.
        destruct (p_openType (f_params f)) eqn:Eo.
        * (* open type *)
          apply andb_true_iff in Hs1. destruct Hs1 as [Hno Hos]. unfold open_supa in Hos.
          destruct (f_ty f) as [| | | | | | | | |cfs] eqn:Et; try discriminate. destruct cv as [| | | | | | | |key ov|]; try discriminate.
          apply andb_true_iff in Hos; destruct Hos as [Hos Hrest].
          apply andb_true_iff in Hos; destruct Hos as [Hos Hc0]. apply andb_true_iff in Hos; destruct Hos as [Hos Hse].
          apply andb_true_iff in Hos; destruct Hos as [Hch Hvx].
          cbv zeta in Hrest. apply andb_true_iff in Hrest; destruct Hrest as [Hidxne Hm].
          set (idx := find_field (p_refName (f_params f)) allf i 0) in *.
          assert (Hni : idx <> i) by (intros E'; rewrite E', Nat.eqb_refl in Hidxne; discriminate).
          destruct (nth_error allf idx) as [rf|] eqn:Erf; [|discriminate].
          apply andb_true_iff in Hm; destruct Hm as [Hm Hm2]. apply andb_true_iff in Hm; destruct Hm as [Hm Hrfo]. apply andb_true_iff in Hm; destruct Hm as [Hshape Hrfopt].
          cbv zeta in Hm2. apply andb_true_iff in Hm2; destruct Hm2 as [Hj0 Hm2].
          set (j := AperDec.find_alt (tl cfs) 1 key) in *.
          destruct (nth_error cfs j) as [a|] eqn:Ea; [|discriminate].
          apply andb_true_iff in Hm2; destruct Hm2 as [Hm2 Hnea].
          assert (Hjne : j <> O) by (intros E'; rewrite E' in Hj0; discriminate).
          (* the spec side *)
          unfold gty in Ee. rewrite Eo, Et in Ee. cbn [strip_ptr] in Ee.
          assert (Hidx : index_of (p_refName (f_params f)) allf 0 = Some idx).
          { apply (find_field_index _ allf i 0); [apply Nat.lt_le_incl; apply nth_error_Some; congruence|cbn [Nat.add]; exact Hni]. }
          rewrite Hidx, Hch, Hvx in Ee. cbn [andb] in Ee.
          destruct (all_some (map (alt_key f1) (tl cfs))) as [alts|] eqn:Ealts; cbn [snd comp_enc] in Ee; [|discriminate].
          destruct (nth_error cs idx) as [[sv|]|] eqn:Ecs; try discriminate.
          destruct (key_of sv) as [k|] eqn:Ek; [|discriminate].
          assert (Hfa : X691.find_alt key alts = Some (t2a f1 (f_ty a) (f_params a))).
          { destruct cfs as [|c0 cfs']; [destruct j; discriminate|]. destruct j as [|m] eqn:Ej; [congruence|]. cbn [tl nth_error] in *.
            eapply (find_alt_link' f1 key cfs' alts 1 m a); eauto. }
          rewrite Hfa in Ee. destruct (k =? key)%Z eqn:Ekk; [|discriminate]. assert (k = key) by lia. subst k.
          destruct (x691 (t2a f1 (f_ty a) (f_params a)) ov 0) as [inner| |] eqn:Einner; cbn [xbind] in Ee; try discriminate.
          destruct (lendet (N.of_nat (length (pack inner))) (pos0 + length acc)) as [L| |] eqn:EL; cbn [xbind] in Ee; try discriminate.
          apply xok_inj in Ee. subst e.
          (* the reference value was decoded before *)
          assert (Hidxlt : (idx < i)%nat).
          { pose proof (find_field_le (p_refName (f_params f)) allf i 0). fold idx in H. lia. }
          rewrite <- app_assoc in Hbits. pose proof (bits_at_sub _ _ _ _ Hbits) as Hbe2. apply bits_at_app in Hbe2. destruct Hbe2 as [Hbe2 _].
          assert (Nat.eqb idx i = false) as -> by (apply Nat.eqb_neq; exact Hni).
          assert (Hrv : exists rv, nth_error dv idx = Some rv) by (destruct (nth_error dv idx) eqn:E; [eauto|apply nth_error_None in E; lia]).
          destruct Hrv as [rv Hrv].
          rewrite nth_error_app1 by lia. rewrite Hrv.
          assert (Hhabs : habs f2 (rf, rv) = Some (Some sv)).
          { destruct (all_some_nth (habs f2) _ _ idx (rf, rv) Hpre) as (c' & Hc' & Hn').
            - apply nth_error_combine; [rewrite nth_error_firstn by lia; exact Erf|exact Hrv].
            - rewrite nth_error_firstn in Hn' by lia. rewrite Ecs in Hn'. congruence. }
          assert (Habsr : abs_f f2 (f_ty rf) (f_params rf) rv = Some sv).
          { unfold habs in Hhabs. destruct (f_ty rf); try discriminate; destruct (abs_f f2 _ (f_params rf) rv); congruence. }
          rewrite (get_ref_key _ _ _ _ _ _ Hshape Habsr Ek).
          eapply adec_bind; [reflexivity|]. cbv beta iota.
          destruct f3 as [|f3']; [pose proof (ty_depth_pos (TStruct cfs)); lia|].
          destruct f2 as [|f2']; [pose proof (ty_depth_pos (TStruct cfs)); lia|].
          assert (Hda : (S (ty_depth (f_ty a)) <= ty_depth (TStruct cfs))%nat).
          { rewrite ty_depth_struct. pose proof (fdepth_nth _ _ _ Ea). lia. }
          destruct (open_field_dec cfs (set_ref (f_params f) (Some key)) key j a ov f1 f2' f3' f4 f5 bs (pos0 + length acc)%nat d inner L) as (v & d1 & al & E & Hd1 & vs & va & -> & Hvl & Hv0 & Hvj & Hva & Hsva & Hnev); auto; try lia.
          { cbn [set_ref p_sizeExt]. destruct (p_sizeExt (f_params f)); [discriminate|reflexivity]. }
          { cbn [set_ref p_valueExt]. destruct (p_valueExt (f_params f)); [discriminate|reflexivity]. }
          eapply adec_bind; [exact E|]. cbv beta iota.
          assert (Hjl : (j < length cfs)%nat) by (apply nth_error_Some; congruence).
          assert (Hkey : p_refValue (f_params a) = Some key).
          { destruct cfs as [|c0 cfs']; [destruct j; discriminate|]. destruct j as [|m] eqn:Ej; [congruence|]. cbn [tl nth_error] in *.
            eapply (dec_find_alt_key key cfs' 1 m a); eauto. }
          destruct vs as [|v0 vr]; [discriminate|]. cbn [nth_error] in Hv0. injection Hv0 as ->.
          apply Hnext.
          -- (* the decoded open type denotes the same abstract value *)
             unfold habs. rewrite Et. cbn [abs_f]. normty.
             assert (Ec : Nat.eqb (@length (string * params * ty) cfs) (length (VInt (Z.of_nat j) :: vr)) = true) by (apply Nat.eqb_eq; lia).
             rewrite Ec. cbn [negb]. rewrite Hch.
             assert (((0 <? Z.of_nat j) && (Z.of_nat j <? Z.of_nat (@length (string * params * ty) cfs)))%Z = true) as -> by lia.
             rewrite Nat2Z.id. rewrite Ea, Hvj, Hva, Eo. rewrite Hkey. reflexivity.
          -- (* and satisfies the encoder-side side condition *)
             intros tl. unfold field_sup. rewrite Et, Eo. rewrite Hno. cbn [is_ptr orb andb].
             unfold open_sup. rewrite Hch, Hvx. normty.
             assert ((0 <? Z.of_nat j)%Z = true) as -> by lia.
             assert ((Z.of_nat j <? Z.of_nat (length cfs))%Z = true) as -> by lia.
             assert (Nat.eqb (length cfs) (length (VInt (Z.of_nat j) :: vr)) = true) as -> by (apply Nat.eqb_eq; lia).
             cbn [andb]. cbv zeta. fold idx. assert (Nat.eqb idx i = false) as -> by (apply Nat.eqb_neq; exact Hni). cbn [negb andb].
             rewrite Erf. rewrite <- app_assoc. rewrite nth_error_app1 by lia. rewrite Hrv.
             rewrite Nat2Z.id. rewrite Ea, Hvj, Hkey. rewrite (get_ref_key _ _ _ _ _ _ Hshape Habsr Ek).
             assert ((key =? key)%Z = true) as -> by lia. fold j. rewrite Nat.eqb_refl. rewrite Hsva, Hnev. reflexivity.
          -- rewrite !app_length in *. rewrite Nat.add_assoc. exact Hd1.
        * (* ordinary component *)
          apply andb_true_iff in Hs1. destruct Hs1 as [Hs1 Hne1].
          eapply adec_bind; [reflexivity|]. cbv beta iota.
          unfold gty in Ee. rewrite Eo in Ee. cbn [snd] in Ee. rewrite comp_enc_t2a in Ee.
          assert (Hene : e <> []) by (eapply (ne_enc (ty_depth (f_ty f)) (f_ty f) (le_n _) f1 f4 f4); eauto; lia).
          destruct (Hrec (f_ty f) ltac:(lia) f1 f2 f3 f4 f5 (f_params f) cv bs (pos0 + length acc)%nat e d) as (v & d1 & al & E & Hd1 & Hv & Hsv); auto; try lia.
          { eapply pos_lt; eauto. }
          eapply adec_bind; [exact E|]. cbv beta iota.
          apply Hnext; [apply habs_of_abs; assumption| |rewrite app_length, Nat.add_assoc; exact Hd1].
          intros tl. destruct (field_cases f2 f5 allf ((dv ++ [v]) ++ tl) i f v) as [(e0 & Et0 & ->)|[_ Hfs]].
          { exfalso. rewrite Et0 in Hv. destruct f2; cbn [abs_f] in Hv; [discriminate|]. injection Hv as Hv. congruence. }
          rewrite Hfs, Eo, Hptr, Hsv. reflexivity.
      + (* absent *)
        apply andb_true_iff in Hs1. destruct Hs1 as [Eo Hptr].
        destruct (f_ty f) as [| | | | | | | |e0|] eqn:Et; try discriminate. rewrite Eo in *. cbn [app zero_val].
        assert (0 <? 1 + count_optional fr = true) as -> by lia. cbn [andb].
        replace (1 + count_optional fr - 1) with (count_optional fr) by lia.
        rewrite shl64_one by lia. rewrite <- Hbl.
        replace (1 + N.of_nat (length (bma fr cr))) with (N.of_nat (S (length (bma fr cr)))) by lia.
        rewrite bitmap_test. cbn [negb]. cbv iota.
        replace (dv ++ VNil :: zero_fields fr) with ((dv ++ [VNil]) ++ zero_fields fr) by (rewrite <- app_assoc; reflexivity).
        assert (A1 : length (dv ++ [VNil]) = S i) by (rewrite app_length; cbn [length]; lia).
        assert (A2 : (S i <= length allf)%nat) by (apply nth_error_Some; congruence).
        assert (A3 : all_some (map (habs f2) (combine (firstn (S i) allf) (dv ++ [VNil]))) = Some (firstn (S i) cs)).
        { apply Hext. unfold habs. rewrite Et, Eo. reflexivity. }
        assert (A4 : hi * 2 ^ N.of_nat (S (length (bma fr cr))) + N_of_bits (false :: bma fr cr)
                     = (2 * hi) * 2 ^ N.of_nat (length (bma fr cr)) + N_of_bits (bma fr cr)).
        { rewrite N_of_bits_cons. rewrite Nat2N.inj_succ, N.pow_succ_r'. lia. }
        assert (A5 : forall tl, fields_sup (sup_f f5) (makeField f5) allf ((dv ++ [VNil]) ++ tl) 0 (firstn (S i) allf) (dv ++ [VNil]) = true).
        { apply Hexts. intros tl. unfold field_sup. rewrite Et. exact Eo. }
        exact (IH cr (S i) (N.of_nat (length (bma fr cr))) _ (2 * hi) (dv ++ [VNil]) d acc b Hfr' Hcr' A1 A2 A3 A5 Hs2 Hbl ltac:(lia) A4 Hx Hd Hbits).
  Qed.
End Level.

Lemma dec_elems_unfold rec e p' n acc s :
  (fix elems (n : nat) (acc : list val) (s : dst) : ares (val * dst) :=
     match n with
     | O => aret (VList (rev acc), s)
     | S k => doa (v, s') <- rec e p' s; elems k (v :: acc) s'
     end) n acc s = dec_elems rec e p' n acc s.
Proof. reflexivity. Qed.

Lemma adec_weaken r bs pos (P Q : val -> Prop) : adec_ok r bs pos P -> (forall v, P v -> Q v) -> adec_ok r bs pos Q.
Proof. intros (v & d' & al & E & H & HP) HPQ. exists v, d', al. auto. Qed.

Lemma leaf_sup t : is_leaf t -> forall f2 f4 f5 p v av,
  abs_f (S f2) t p v = Some av -> supa_f (S f4) t p av = true -> sup_f (S f5) t p v = true.
Proof.
  intros Ht f2 f4 f5 p v av Ha Hs. destruct t; try contradiction; destruct v; cbn [abs_f] in Ha; try discriminate; cbn [sup_f].
  - injection Ha as <-. cbn [supa_f] in Hs. apply andb_true_iff in Hs. tauto.
  - injection Ha as <-. cbn [supa_f] in Hs. apply andb_true_iff in Hs. tauto.
  - reflexivity.
  - destruct ((N.of_nat (length bs) =? (nbits + 7) / 8) && forallb (fun b => b <? 256) bs) eqn:E; [|discriminate]. injection Ha as <-.
    cbn [supa_f] in Hs. apply andb_true_iff in Hs. destruct Hs as [Hs _]. apply andb_true_iff in E. destruct E as [E _].
    replace nbits with (len (firstn (N.to_nat nbits) (bits_of_bytes bs))); [exact Hs|].
    unfold len. rewrite firstn_length_le by (rewrite bits_of_bytes_length; lia). lia.
  - injection Ha as <-. cbn [supa_f] in Hs. apply andb_true_iff in Hs. tauto.
  - injection Ha as <-. cbn [supa_f] in Hs. apply andb_true_iff in Hs. tauto.
Qed.

Theorem dec_all : forall n t, (ty_depth t <= n)%nat -> DecStmt t.
Proof.
  induction n as [|n IH]; intros t Hd; [pose proof (ty_depth_pos t); lia|].
  unfold DecStmt. intros n1 n2 n3 n4 n5 p av bs pos b d D1 D2 D3 D4 D5 Hs Hx Hb Hd0 Hbits Hpos.
  destruct n1 as [|n1]; [pose proof (ty_depth_pos t); lia|]. destruct n2 as [|n2]; [pose proof (ty_depth_pos t); lia|].
  destruct n3 as [|n3]; [pose proof (ty_depth_pos t); lia|]. destruct n4 as [|n4]; [pose proof (ty_depth_pos t); lia|].
  destruct n5 as [|n5]; [pose proof (ty_depth_pos t); lia|].
  pose proof (not_truncated d bs pos Hd0 Hpos) as Htr.
  destruct t as [| | | | | | |e|e|fs].
  - eapply adec_weaken; [eapply (leaf_dec TInt I); eauto|]. intros v Hv. cbv beta in Hv. split; [exact Hv|]. exact (leaf_sup TInt I n2 n4 n5 p v av Hv Hs).
  - eapply adec_weaken; [eapply (leaf_dec TEnum I); eauto|]. intros v Hv. cbv beta in Hv. split; [exact Hv|]. exact (leaf_sup TEnum I n2 n4 n5 p v av Hv Hs).
  - eapply adec_weaken; [eapply (leaf_dec TBool I); eauto|]. intros v Hv. cbv beta in Hv. split; [exact Hv|]. exact (leaf_sup TBool I n2 n4 n5 p v av Hv Hs).
  - eapply adec_weaken; [eapply (leaf_dec TBits I); eauto|]. intros v Hv. cbv beta in Hv. split; [exact Hv|]. exact (leaf_sup TBits I n2 n4 n5 p v av Hv Hs).
  - eapply adec_weaken; [eapply (leaf_dec TOctets I); eauto|]. intros v Hv. cbv beta in Hv. split; [exact Hv|]. exact (leaf_sup TOctets I n2 n4 n5 p v av Hv Hs).
  - eapply adec_weaken; [eapply (leaf_dec TString I); eauto|]. intros v Hv. cbv beta in Hv. split; [exact Hv|]. exact (leaf_sup TString I n2 n4 n5 p v av Hv Hs).
  - discriminate.
  - (* SEQUENCE OF *)
    cbn [ty_depth] in *. cbn [supa_f] in Hs. destruct av as [| | | | | | |l| |]; try discriminate.
    apply andb_true_iff in Hs. destruct Hs as [Hs Hne]. apply andb_true_iff in Hs. destruct Hs as [Hok Hsl].
    pose proof Hok as Hok'. unfold slice_ok in Hok'.
    destruct (p_sizeLB p) as [lb|] eqn:Elb; [|discriminate]. destruct (p_sizeUB p) as [ub|] eqn:Eub; [|discriminate].
    apply andb_true_iff in Hok'. destruct Hok' as [Hcls Hroot]. bools.
    cbn [t2a] in Hx. rewrite Elb, Eub, size_lb_some, size_ub_some in Hx by lia. rewrite x691_seqof in Hx. fold (len l) in Hx.
    destruct (size_prefix (Z.to_N lb) (Some (Z.to_N ub)) (p_sizeExt p) (len l) pos) as [pre| |] eqn:Epre; cbn [xbind] in Hx; try discriminate.
    destruct (x_elems_prefix _ _ _ _ _ Hx) as [rest Hb']. subst b.
    unfold size_prefix, size_inroot in Epre. assert (Z.to_N ub <? 65536 = true) as Eu by lia. rewrite Eu in Epre.
    assert (Hin : (Z.to_N lb <=? len l) && (len l <=? Z.to_N ub) = true).
    { destruct ((Z.to_N lb <=? len l) && (len l <=? Z.to_N ub)) eqn:E; [reflexivity|]. cbn [negb andb] in Epre. rewrite andb_true_r in Epre.
      destruct (p_sizeExt p); [cbn [negb orb] in Hroot; congruence|discriminate]. }
    rewrite Hin in Epre. cbn [negb] in Epre. rewrite andb_false_r in Epre. apply andb_true_iff in Hin. destruct Hin as [Hin1 Hin2].
    set (pre0 := if p_sizeExt p then [false] else @nil bool) in *.
    assert (Hp0 : exists L, pre = pre0 ++ L /\
              (if Z.to_N lb =? Z.to_N ub then XOk [] else cwn (Z.to_N ub - Z.to_N lb + 1) (len l - Z.to_N lb) (pos + length pre0)) = XOk L).
    { destruct (if Z.to_N lb =? Z.to_N ub then XOk [] else cwn (Z.to_N ub - Z.to_N lb + 1) (len l - Z.to_N lb) (pos + length pre0)) as [L| |];
        cbn [xbind] in Epre; try discriminate. apply xok_inj in Epre. subst pre. eauto. }
    destruct Hp0 as (L & -> & HL).
    pose proof Hbits as Hbits0. rewrite <- !app_assoc in Hbits. apply bits_at_app in Hbits. destruct Hbits as [Hbp Hbr].
    apply bits_at_app in Hbr. destruct Hbr as [HbL Hbe].
    cbn [parseField]. rewrite Htr.
    apply (read_ext0 (p_sizeExt p) d bs pos); auto. intros d1 Hd1. cbv beta iota. fold pre0 in Hd1.
    assert (p_valueExt p && negb true = false) as -> by apply andb_false_r.
    eapply adec_bind; [reflexivity|]. cbv beta iota.
    unfold decSequenceOf. rewrite Elb, Eub. assert ((lb <? 65536)%Z = true) as -> by lia. assert ((ub <? 65536)%Z = true) as -> by lia.
    cbn [negb andb]. rewrite i64_small by lia. rewrite u64z_small by lia.
    pose proof Hb as [_ Hlen]. unfold LIM in Hlen.
    (* the count *)
    assert (Hcount : exists d2 k, (if (1 <? ub - lb + 1)%Z
                  then match parseConstraintValue d1 (ub - lb + 1) with
                       | (Ok n0, s') => aret (u64 (n0 + Z.to_N lb), s')
                       | (Err _, s') => aret (Z.to_N lb, s')
                       | (Panic p0, _) => (Panic p0, 0)
                       | (OutOfFuel, _) => (OutOfFuel, 0)
                       end
                  else if (ub - lb + 1 =? 1)%Z then aret (Z.to_N lb, d1)
                       else alift (dos (_, s) <- parseAlignBits d1;
                                   if len (d_bytes s) <=? d_byteOffset s then (Err E_OUT_OF_RANGE, s)
                                   else match idx (d_bytes s) (d_byteOffset s) with
                                        | Ok b0 => (Ok b0, mkdst (d_bytes s) (u64 (d_byteOffset s + 1)) (d_bitsOffset s))
                                        | Err e0 => (Err e0, s) | Panic p0 => (Panic p0, s) | OutOfFuel => (OutOfFuel, s)
                                        end)) = (Ok (len l, d2), k) /\ at_pos d2 bs (pos + length pre0 + length L)).
    { destruct (Z.to_N lb =? Z.to_N ub) eqn:Efix.
      - apply xok_inj in HL. subst L. assert ((1 <? ub - lb + 1)%Z = false) as -> by lia. assert ((ub - lb + 1 =? 1)%Z = true) as -> by lia.
        exists d1, 0. split; [replace (Z.to_N lb) with (len l) by lia; reflexivity|]. cbn [length]. rewrite Nat.add_0_r. exact Hd1.
      - assert ((1 <? ub - lb + 1)%Z = true) as -> by lia.
        destruct (rd_cwn d1 bs (pos + length pre0) (Z.to_N ub - Z.to_N lb + 1) (len l - Z.to_N lb) L) as (d2 & E2 & Hd2); auto; try lia.
        replace (ub - lb + 1)%Z with (Z.of_N (Z.to_N ub - Z.to_N lb + 1)) by lia. rewrite E2.
        exists d2, 0. split; [|exact Hd2]. rewrite u64_small by (unfold TWO64; lia). replace (len l - Z.to_N lb + Z.to_N lb) with (len l) by lia. reflexivity. }
    destruct Hcount as (d2 & k & Ec & Hd2). eapply adec_bind; [exact Ec|]. cbv beta iota.
    assert (Hll : len l < 65536) by lia.
    rewrite i64n_small by lia. assert ((Z.of_N (len l) <? 0)%Z = false) as -> by lia.
    eapply adec_bind; [reflexivity|]. cbv beta.
    rewrite dec_elems_unfold. replace (Z.to_nat (Z.of_N (len l))) with (length l) by (unfold len; lia).
    destruct (elems_dec n IH e n1 n2 n3 n4 n5 (clear_size p) bs pos ltac:(lia) ltac:(lia) ltac:(lia) ltac:(lia) ltac:(lia) ltac:(lia) Hb l [] d2 (pre0 ++ L) ((pre0 ++ L) ++ rest))
      as (v & d3 & al & E3 & Hd3 & vs & -> & Hvs & Hss); auto.
    + destruct l; [right; reflexivity|left]. rewrite orb_false_r in Hne. exact Hne.
    + rewrite app_length, Nat.add_assoc. exact Hd2.
    + exists (VList vs), d3, al. split; [exact E3|]. split; [exact Hd3|]. split; [cbn [abs_f]; rewrite Hvs; reflexivity|].
      cbn [sup_f]. rewrite Hss, andb_true_r.
      assert (Hlv : len vs = len l) by (unfold len; pose proof (all_some_length _ _ Hvs) as HH; rewrite map_length in HH; lia). rewrite Hlv. exact Hok.
  - (* pointer *)
    cbn [ty_depth] in *. cbn [supa_f] in Hs. cbn [t2a] in Hx. cbn [parseField]. rewrite Htr.
    destruct (IH e ltac:(lia) n1 n2 n3 n4 n5 p av bs pos b d) as (v & d1 & al & E & Hd1 & Hv & Hsv); auto; try lia.
    eapply adec_bind; [exact E|]. cbv beta iota. apply adec_ret; [exact Hd1|]. cbn [abs_f sup_f]. auto.
  - (* struct *)
    rewrite ty_depth_struct in *. cbn [supa_f] in Hs. apply andb_true_iff in Hs. destruct Hs as [Hse Hs].
    assert (Ese : p_sizeExt p = false) by (destruct (p_sizeExt p); [discriminate|reflexivity]).
    cbn [parseField]. rewrite Htr, Ese. eapply adec_bind; [reflexivity|]. cbv beta iota. rewrite andb_true_r.
    pose proof Hb as [_ Hlen]. unfold LIM in Hlen.
    destruct av as [| | | | |cs|idx x| | |]; try discriminate.
    + (* SEQUENCE *)
      apply andb_true_iff in Hs. destruct Hs as [Hs Hfs]. apply andb_true_iff in Hs. destruct Hs as [Hch Hc64].
      assert (Ech : is_choice fs = false) by (destruct (is_choice fs); [discriminate|reflexivity]).
      rewrite t2a_seq in Hx by exact Ech. rewrite x691_seq in Hx. rewrite map_length in Hx.
      match type of Hx with (if negb ?c then _ else _) = _ => destruct c eqn:El end; cbn [negb] in Hx; [|discriminate]. apply Nat.eqb_eq in El.
      rewrite seq_bitmap_bma in Hx.
      set (pre := if p_valueExt p then [false] else @nil bool) in *.
      destruct (x_comps_prefix _ _ _ _ _ _ Hx) as [rest Hb']. subst b.
      pose proof Hbits as Hbits0. rewrite <- !app_assoc in Hbits. apply bits_at_app in Hbits. destruct Hbits as [Hbp Hbr].
      apply bits_at_app in Hbr. destruct Hbr as [Hbm _].
      apply (read_ext0 (p_valueExt p) d bs pos); auto. intros d1 Hd1. cbv beta iota. fold pre in Hd1.
      unfold decStruct. rewrite Ech.
      assert (Hbl : N.of_nat (length (bma fs cs)) = count_optional fs) by (apply bma_length; exact El).
      assert (Hbmr : exists d2 k, (if 0 <? count_optional fs then alift (getBitsValue d1 (count_optional fs)) else aret (0, d1))
                                  = (Ok (N_of_bits (bma fs cs), d2), k) /\ at_pos d2 bs (pos + length pre + length (bma fs cs))).
      { destruct (0 <? count_optional fs) eqn:E0.
        - destruct (rd_bits d1 bs (pos + length pre) (count_optional fs) (N_of_bits (bma fs cs))) as (d2 & E2 & Hd2); auto; try lia.
          + rewrite <- Hbl. apply N_of_bits_lt.
          + replace (N.to_nat (count_optional fs)) with (length (bma fs cs)) by lia. rewrite bits_of_N_of_bits. exact Hbm.
          + rewrite E2. exists d2, 0. split; [reflexivity|]. replace (length (bma fs cs)) with (N.to_nat (count_optional fs)) by lia. exact Hd2.
        - assert (length (bma fs cs) = O) by lia. destruct (bma fs cs); [|cbn in *; lia]. exists d1, 0. split; [reflexivity|]. cbn [length]. rewrite Nat.add_0_r. exact Hd1. }
      destruct Hbmr as (d2 & k & Ebm & Hd2). eapply adec_bind; [exact Ebm|]. cbv beta iota zeta.
      destruct (dec_seq_loop_ok n IH fs cs n1 n2 n3 n4 n5 bs pos ltac:(lia) ltac:(lia) ltac:(lia) ltac:(lia) ltac:(lia) ltac:(lia) Hb El
                  fs cs 0%nat (count_optional fs) (N_of_bits (bma fs cs)) 0 [] d2 (pre ++ bma fs cs) ((pre ++ bma fs cs) ++ rest))
        as (v & d3 & al & E3 & Hd3 & vals & -> & Hvl & Hvs & Hfsup); auto; try lia.
      * rewrite app_length, Nat.add_assoc. exact Hd2.
      * cbn [app] in E3. exists (VStruct vals), d3, al. split; [exact E3|]. split; [exact Hd3|].
        split; [rewrite abs_f_seq by (try exact Ech; lia); rewrite Hvs; reflexivity|].
        cbn [sup_f]. rewrite Ech, Hc64, Hfsup. reflexivity.
    + (* CHOICE *)
      apply andb_true_iff in Hs. destruct Hs as [Hs Hnth]. apply andb_true_iff in Hs. destruct Hs as [Hs Hc0]. apply andb_true_iff in Hs. destruct Hs as [Hch Hco].
      unfold choice_ok in Hco. apply andb_true_iff in Hco. destruct Hco as [Hno Hco].
      destruct (p_valueUB p) as [u|] eqn:Eu; [|discriminate]. bools.
      assert (Eop : p_openType p = false) by (destruct (p_openType p); [discriminate|reflexivity]).
      cbn [t2a] in Hx. rewrite Hch, Eop, Eu in Hx. normty.
      assert (Htl : length (tl fs) = (length fs - 1)%nat) by (destruct fs; cbn [tl length]; lia).
      assert (Hcond : ((u + 1 =? Z.of_nat (length (tl fs))) && (0 <? u + 1))%Z = true) by lia. rewrite Hcond in Hx.
      cbn [x691] in Hx. rewrite map_length in Hx.
      destruct (nth_error fs (S (N.to_nat idx))) as [a|] eqn:Ea; [|discriminate].
      apply andb_true_iff in Hnth. destruct Hnth as [Hsa Hnea].
      match type of Hx with match nth_error ?LL ?KK with _ => _ end = _ =>
        assert (Hn' : nth_error LL KK = Some (t2a n1 (f_ty a) (f_params a))) end.
      { rewrite nth_error_map, nth_error_tl. normty. rewrite Ea. reflexivity. }
      rewrite Hn' in Hx. normty.
      assert (Nat.eqb (length (tl fs)) 1 = false) as E1 by (apply Nat.eqb_neq; lia). rewrite E1 in Hx.
      set (pre := if p_valueExt p then [false] else @nil bool) in *.
      destruct (cwn (N.of_nat (length (tl fs))) idx (pos + length pre)) as [ib| |] eqn:Eib; cbn [xbind] in Hx; try discriminate.
      destruct (x691 (t2a n1 (f_ty a) (f_params a)) x (pos + length (pre ++ ib))) as [eb| |] eqn:Eeb; cbn [xbind] in Hx; try discriminate.
      apply xok_inj in Hx. subst b.
      assert (Hidx : idx < N.of_nat (length (tl fs))).
      { unfold cwn in Eib. destruct ((N.of_nat (length (tl fs)) =? 0) || (N.of_nat (length (tl fs)) <=? idx)) eqn:E; [discriminate|]. lia. }
      pose proof Hbits as Hbits0. rewrite <- !app_assoc in Hbits. apply bits_at_app in Hbits. destruct Hbits as [Hbp Hbr].
      apply bits_at_app in Hbr. destruct Hbr as [Hbi Hbe].
      apply (read_ext0 (p_valueExt p) d bs pos); auto. intros d1 Hd1. cbv beta iota. fold pre in Hd1.
      unfold decStruct. assert (count_optional fs = 0) as -> by lia. change (0 <? 0) with false. cbv iota.
      eapply adec_bind; [reflexivity|]. cbv beta iota zeta. rewrite Hch, Eop, Eu.
      destruct (rd_choice_index d1 bs (pos + length pre) u idx ib) as (d2 & E2 & Hd2); auto; try lia.
      { replace (Z.to_N u + 1) with (N.of_nat (length (tl fs))) by lia. exact Eib. }
      rewrite E2. normty.
      assert ((Z.of_N idx + 1 =? 0)%Z = false) as -> by lia.
      assert ((Z.of_N idx + 1 >=? Z.of_nat (length fs))%Z = false) as -> by lia.
      assert ((Z.of_N idx + 1 <? 0)%Z = false) as -> by lia.
      replace (Z.to_nat (Z.of_N idx + 1)) with (S (N.to_nat idx)) by lia. rewrite Ea.
      pose proof (fdepth_nth _ _ _ Ea) as Hda.
      assert (Hene : eb <> []) by (eapply (ne_enc (ty_depth (f_ty a)) (f_ty a) (le_n _) n1 n4 n4); eauto; lia).
      destruct (IH (f_ty a) ltac:(lia) n1 n2 n3 n4 n5 (f_params a) x bs (pos + length pre + length ib)%nat eb d2) as (v & d3 & al & E3 & Hd3 & Hv & Hsv); auto; try lia.
      { rewrite app_length, Nat.add_assoc in Eeb. exact Eeb. }
      { eapply pos_lt; eauto. }
      eapply adec_bind; [exact E3|]. cbv beta iota.
      apply adec_ret; [rewrite !app_length, !Nat.add_assoc; exact Hd3|].
      (* the decoded CHOICE denotes the abstract value *)
      assert (Hsl : (S (N.to_nat idx) < length fs)%nat) by (apply nth_error_Some; congruence).
      assert (Hco2 : choice_ok fs p = true).
      { unfold choice_ok. rewrite Eop, Eu. cbn [negb andb]. normty. lia. }
      cbn [abs_f sup_f]. rewrite Hco2.
      assert (Ec : Nat.eqb (length fs) (length (set_nth (set_nth (zero_fields fs) 0 (VInt (Z.of_N idx + 1))) (S (N.to_nat idx)) v)) = true).
      { apply Nat.eqb_eq. rewrite !set_nth_length, zero_fields_length. reflexivity. }
      rewrite Ec. cbn [negb]. rewrite Hch.
      destruct (zero_fields fs) as [|z0 zr] eqn:Ez; [apply (f_equal (@length val)) in Ez; rewrite zero_fields_length in Ez; cbn [length] in Ez; normty; lia|].
      cbn [set_nth]. assert (((0 <? Z.of_N idx + 1) && (Z.of_N idx + 1 <? Z.of_nat (length fs)))%Z = true) as -> by lia.
      replace (Z.to_nat (Z.of_N idx + 1)) with (S (N.to_nat idx)) by lia. rewrite Ea. cbn [nth_error].
      rewrite nth_error_set_nth_same.
      * rewrite Hv, Eop, Hsv. split; [f_equal; f_equal; lia|reflexivity].
      * apply (f_equal (@length val)) in Ez. rewrite zero_fields_length in Ez. cbn [length] in Ez. normty. lia.
Qed.
