(* Witnesses (by computation on the faithful model, each confirmed on the real code through the harness / a scratch
   reflect.StructOf probe) for the constraint classes that the structural theorem's side condition [sup] excludes and
   that were not recorded before.  None of them has an NGAP (TS 38.413) instance. *)
From Coq Require Import String NArith ZArith List Bool.
Require Import GoSlice Bits AperCommon AperEnc AperDec AperCheck Asn1 X691 Asn1Tags X691Check AperEncProofs AperStructDefs.
Import ListNotations.
Open Scope N_scope.
Local Open Scope string_scope.

(* extensible SEQUENCE OF with more elements than the root allows: the count is written as the single octet n & 0xff,
   X.691 10.9.3.6 wants the two-octet form from 128 on.  Go: aperenc seqof "sizeExt,sizeLB:1,sizeUB:2", 130 elements
   -> 8082ff..c0 *)
Definition T_ext_seqof := T_one (TSlice (TStruct [("V", pv 0 1, TInt)])) (ps true 1 2).
Definition V_ext_seqof := VStruct [VList (repeat (VStruct [VInt 1]) 130)].
Example ext_seqof_above_root_refuted :
  marshal T_ext_seqof p_empty V_ext_seqof = Ok ([128; 130] ++ repeat 255 16 ++ [192])%list /\
  spec_encode T_ext_seqof p_empty V_ext_seqof = SVBytes ([128; 128; 130] ++ repeat 255 16 ++ [192])%list /\
  sup T_ext_seqof p_empty V_ext_seqof = false.
Proof. repeat split; vm_compute; reflexivity. Qed.

(* CHOICE with a single alternative: one index bit is written where X.691 22.4 writes none.
   Go: aperenc choice nalt 1 "valueLB:0,valueUB:0" -> 0005 *)
Definition T_choice1 := T_one (TStruct [("Present", p_empty, TInt); ("A1", pv 0 255, TPtr TInt)]) (pv 0 0).
Definition V_choice1 := VStruct [VStruct [VInt 1; VPtr (VInt 5)]].
Example single_alternative_choice_refuted :
  marshal T_choice1 p_empty V_choice1 = Ok [0; 5] /\ spec_encode T_choice1 p_empty V_choice1 = SVBytes [5] /\
  sup T_choice1 p_empty V_choice1 = false.
Proof. repeat split; vm_compute; reflexivity. Qed.

(* open type whose actual value encodes to zero bits: the library writes length 0 and no content octet, X.691 10.2.1
   (via 10.1) a single zero octet with length 1; the library's decoder rejects the library's own encoding
   ("sequence truncated") and accepts the canonical one.  Go (scratch probe with reflect.StructOf): enc 0700,
   dec 0700 -> error, dec 070100 -> ok *)
Definition T_open_empty :=
  TStruct [("Id", pv 0 255, TInt);
           ("Value", mkp false false false true None None None None None "Id",
            TStruct [("Present", p_empty, TInt); ("A", mkp false false false false None None None None (Some 7%Z) "", TPtr (TStruct []))])].
Definition V_open_empty := VStruct [VInt 7; VStruct [VInt 1; VPtr (VStruct [])]].
Example open_type_empty_content_refuted :
  marshal T_open_empty p_empty V_open_empty = Ok [7; 0] /\
  spec_encode T_open_empty p_empty V_open_empty = SVBytes [7; 1; 0] /\
  (exists e, unmarshal (dec_fuel T_open_empty) T_open_empty p_empty [7; 0] = Err e) /\
  unmarshal (dec_fuel T_open_empty) T_open_empty p_empty [7; 1; 0] = Ok V_open_empty /\
  sup T_open_empty p_empty V_open_empty = false.
Proof. repeat split; try eexists; vm_compute; reflexivity. Qed.
