(* Characterising lemmas for Model/Count.v: every mask/shift expression of counter.go as arithmetic
   (div / mod / multiplication by powers of two), proved by bit extensionality for ALL values of the uint32
   field at once; then the 24-bit counter laws used by C06 / C10, by lia over mod 2^24. *)
From Coq Require Import NArith ZArith Lia Bool.
From Coq Require Import ZifyN ZifyNat ZifyBool.
Require Import Bytes Count.
Ltac Zify.zify_post_hook ::= Z.div_mod_to_equations.
Open Scope N_scope.

(* ---- generic bit-level facts *)

(* x & (ones(m) << k)  =  (((x >> k) mod 2^m) << k) *)
Lemma land_shifted_ones c m k :
  N.land c (N.shiftl (N.ones m) k) = N.shiftl (N.land (N.shiftr c k) (N.ones m)) k.
Proof.
  apply N.bits_inj. intro i.
  rewrite N.land_spec.
  destruct (N.lt_ge_cases i k) as [Hlt|Hge].
  - rewrite !N.shiftl_spec_low by assumption. apply andb_false_r.
  - rewrite !N.shiftl_spec_high' by assumption.
    rewrite N.land_spec, N.shiftr_spec'.
    replace (i - k + k) with i by lia. reflexivity.
Qed.

Lemma land_shifted_ones_arith c m k :
  N.land c (N.shiftl (N.ones m) k) = ((c / 2 ^ k) mod 2 ^ m) * 2 ^ k.
Proof. rewrite land_shifted_ones, N.shiftl_mul_pow2, N.land_ones, N.shiftr_div_pow2. reflexivity. Qed.

(* (a << k) | b = a * 2^k + b   when b < 2^k: no bit position is shared, so the OR is a sum *)
Lemma land_shiftl_small a b k : b < 2 ^ k -> N.land (N.shiftl a k) b = 0.
Proof.
  intro Hb. apply N.bits_inj. intro i.
  rewrite N.land_spec, N.bits_0.
  destruct (N.lt_ge_cases i k) as [Hlt|Hge].
  - rewrite N.shiftl_spec_low by assumption. reflexivity.
  - replace (N.testbit b i) with false; [apply andb_false_r|].
    symmetry. destruct (N.eq_dec b 0) as [->|Hnz]; [apply N.bits_0|].
    apply N.bits_above_log2. apply N.lt_le_trans with k; [|assumption].
    apply N.log2_lt_pow2; lia.
Qed.

Lemma lor_shiftl_small a b k : b < 2 ^ k -> N.lor (N.shiftl a k) b = a * 2 ^ k + b.
Proof.
  intro Hb. rewrite <- N.lxor_lor by (apply land_shiftl_small; assumption).
  rewrite <- N.add_nocarry_lxor by (apply land_shiftl_small; assumption).
  rewrite N.shiftl_mul_pow2. reflexivity.
Qed.

(* ---- the masks of counter.go as shifted runs of ones *)
Lemma mask_00ffffff : 0x00ffffff = N.ones 24. Proof. reflexivity. Qed.
Lemma mask_000000ff : 0x000000ff = N.ones 8. Proof. reflexivity. Qed.
Lemma mask_ffffff00 : 0xffffff00 = N.shiftl (N.ones 24) 8. Proof. reflexivity. Qed.
Lemma mask_00ffff00 : 0x00ffff00 = N.shiftl (N.ones 16) 8. Proof. reflexivity. Qed.
Lemma mask_ff0000ff : 0xff0000ff = N.lor (N.shiftl (N.ones 8) 24) (N.ones 8). Proof. reflexivity. Qed.

Lemma w8_mod x : w8 x = x mod 256.
Proof. unfold w8. change 255 with (N.ones 8). rewrite N.land_ones. reflexivity. Qed.
Lemma w16_mod x : w16 x = x mod 65536.
Proof. unfold w16. change 65535 with (N.ones 16). rewrite N.land_ones. reflexivity. Qed.
Lemma w32_mod x : w32 x = x mod 4294967296.
Proof. unfold w32. change 4294967295 with (N.ones 32). rewrite N.land_ones. reflexivity. Qed.

(* ---- each operation of Count as arithmetic, for every value of the uint32 field *)
Lemma cnt_mask_mod c : cnt_mask c = c mod 16777216.
Proof. unfold cnt_mask. rewrite mask_00ffffff, N.land_ones. reflexivity. Qed.

Lemma cnt_sqn_mod c : cnt_sqn c = c mod 256.
Proof.
  unfold cnt_sqn. rewrite w8_mod, mask_000000ff, N.land_ones. change (2 ^ 8) with 256.
  rewrite N.mod_mod by discriminate. reflexivity.
Qed.

Lemma land_ffffff00 c : c < 4294967296 -> N.land c 0xffffff00 = (c / 256) * 256.
Proof.
  intro H. rewrite mask_ffffff00, land_shifted_ones_arith.
  change (2 ^ 8) with 256. change (2 ^ 24) with 16777216.
  rewrite N.mod_small; [reflexivity|]. lia.
Qed.

(* the lemma of the task text: SetSQN for every counter value and every octet *)
Lemma lor_land_ffffff00 c s : c < 4294967296 -> s < 256 -> N.lor (N.land c 0xffffff00) s = (c / 256) * 256 + s.
Proof.
  intros Hc Hs. rewrite mask_ffffff00, land_shifted_ones.
  rewrite lor_shiftl_small by exact Hs.
  rewrite N.land_ones, N.shiftr_div_pow2.
  change (2 ^ 8) with 256. change (2 ^ 24) with 16777216.
  rewrite N.mod_small; [reflexivity|]. lia.
Qed.

Lemma cnt_setsqn_arith c s : c < 4294967296 -> cnt_setsqn c s = (c / 256) * 256 + s mod 256.
Proof.
  intro Hc. unfold cnt_setsqn. rewrite w8_mod. apply lor_land_ffffff00; [assumption|].
  apply N.mod_lt. discriminate.
Qed.

Lemma cnt_overflow_arith c : cnt_overflow c = (c / 256) mod 65536.
Proof.
  unfold cnt_overflow. rewrite w16_mod, mask_00ffff00, land_shifted_ones.
  rewrite N.shiftr_shiftl_l by reflexivity. change (8 - 8) with 0. rewrite N.shiftl_0_r.
  rewrite N.land_ones, N.shiftr_div_pow2. change (2 ^ 8) with 256. change (2 ^ 16) with 65536.
  rewrite N.mod_mod by discriminate. reflexivity.
Qed.

Lemma land_ff0000ff c : c < 4294967296 -> N.land c 0xff0000ff = N.lor (N.shiftl (c / 16777216) 24) (c mod 256).
Proof.
  intro Hc. rewrite mask_ff0000ff, N.land_lor_distr_r, land_shifted_ones, !N.land_ones, N.shiftr_div_pow2.
  change (2 ^ 24) with 16777216. change (2 ^ 8) with 256.
  rewrite (N.mod_small (c / 16777216)) by lia. reflexivity.
Qed.

Lemma cnt_setoverflow_arith c o :
  c < 4294967296 -> cnt_setoverflow c o = (c / 16777216) * 16777216 + (o mod 65536) * 256 + c mod 256.
Proof.
  intro Hc. unfold cnt_setoverflow. rewrite land_ff0000ff by assumption.
  rewrite w16_mod, w32_mod.
  assert (Ho : o mod 65536 < 65536) by (apply N.mod_lt; discriminate).
  assert (Hl : c mod 256 < 256) by (apply N.mod_lt; discriminate).
  assert (Hs : N.shiftl (o mod 65536) 8 mod 4294967296 = N.shiftl (o mod 65536) 8).
  { apply N.mod_small. rewrite N.shiftl_mul_pow2. change (2 ^ 8) with 256. lia. }
  rewrite Hs.
  (* (H | l) | O = H | (O | l) *)
  rewrite <- N.lor_assoc, (N.lor_comm (c mod 256)).
  rewrite (lor_shiftl_small (o mod 65536) (c mod 256) 8) by exact Hl.
  change (2 ^ 8) with 256.
  rewrite lor_shiftl_small; change (2 ^ 24) with 16777216; lia.
Qed.

Lemma cnt_addone_arith c : cnt_addone c = ((c + 1) mod 4294967296) mod 16777216.
Proof. unfold cnt_addone. rewrite cnt_mask_mod, w32_mod. reflexivity. Qed.

(* ---- bounds: every operation keeps the field a uint32; Get/AddOne leave it below 2^24 *)
Lemma cnt_mask_lt c : cnt_mask c < 16777216.
Proof. rewrite cnt_mask_mod. apply N.mod_lt. discriminate. Qed.
Lemma cnt_addone_lt c : cnt_addone c < 16777216.
Proof. unfold cnt_addone. apply cnt_mask_lt. Qed.

(* ---- the 24-bit counter laws (field below 2^24, which Get/AddOne/Set establish and every operation keeps) *)
Lemma cnt_mask_id c : c < 16777216 -> cnt_mask c = c.
Proof. intro H. rewrite cnt_mask_mod. apply N.mod_small. assumption. Qed.

Lemma cnt_get_id c : c < 16777216 -> cnt_get c = (c, c).
Proof. intro H. unfold cnt_get. rewrite cnt_mask_id by assumption. reflexivity. Qed.

(* COUNT + 1 with the carry from the sequence number into the overflow counter and the wrap at 2^24 *)
Lemma cnt_addone_24 c : c < 16777216 -> cnt_addone c = (c + 1) mod 16777216.
Proof. intro H. rewrite cnt_addone_arith. lia. Qed.

Lemma cnt_overflow_24 c : c < 16777216 -> cnt_overflow c = c / 256.
Proof. intro H. rewrite cnt_overflow_arith. lia. Qed.

(* NAS COUNT = overflow (16 bits) || sequence number (8 bits) *)
Lemma cnt_split c : c < 16777216 -> c = cnt_overflow c * 256 + cnt_sqn c.
Proof. intro H. rewrite cnt_overflow_24, cnt_sqn_mod by assumption. lia. Qed.

Lemma cnt_set_arith c o s : c < 16777216 -> o < 65536 -> s < 256 -> cnt_set c o s = o * 256 + s.
Proof.
  intros Hc Ho Hs. unfold cnt_set.
  rewrite cnt_setsqn_arith; rewrite cnt_setoverflow_arith by lia; lia.
Qed.

Lemma cnt_set_0 c : c < 16777216 -> cnt_set c 0 0 = 0.
Proof. intro H. rewrite cnt_set_arith by lia. reflexivity. Qed.

Lemma cnt_set_lt c o s : c < 16777216 -> cnt_set c o s < 16777216.
Proof.
  intro Hc. unfold cnt_set.
  rewrite cnt_setsqn_arith; rewrite cnt_setoverflow_arith by lia; lia.
Qed.

(* after AddOne: the sequence-number octet and the overflow counter of the successor, all values at once *)
Lemma cnt_addone_sqn c : c < 16777216 -> cnt_sqn (cnt_addone c) = (cnt_sqn c + 1) mod 256.
Proof. intro H. rewrite cnt_addone_24, !cnt_sqn_mod by assumption. lia. Qed.

Lemma cnt_addone_overflow c :
  c < 16777216 ->
  cnt_overflow (cnt_addone c) = if cnt_sqn c =? 255 then (cnt_overflow c + 1) mod 65536 else cnt_overflow c.
Proof.
  intro H. rewrite cnt_addone_24 by assumption.
  rewrite !cnt_overflow_24, cnt_sqn_mod by lia.
  destruct (N.eqb_spec (c mod 256) 255); lia.
Qed.

(* ---- the receiver's estimate as NASDecode computes it:
   if SQN() > sqn { SetOverflow(Overflow()+1) }; SetSQN(sqn)
   equals the sender's COUNT whenever that COUNT is 1..255 ahead of the stored one (mod 2^24) *)
Definition cnt_estimate (c sqn:N) : N :=
  cnt_setsqn (if sqn <? cnt_sqn c then cnt_bump_overflow c else c) sqn.

Lemma cnt_estimate_arith c s :
  c < 16777216 -> s < 256 ->
  cnt_estimate c s = (((if s <? c mod 256 then c / 256 + 1 else c / 256) mod 65536) * 256 + s).
Proof.
  intros Hc Hs. unfold cnt_estimate, cnt_bump_overflow. rewrite cnt_sqn_mod.
  destruct (N.ltb_spec s (c mod 256)).
  - rewrite cnt_setsqn_arith; rewrite cnt_setoverflow_arith by lia; rewrite w16_mod, cnt_overflow_24 by assumption; lia.
  - rewrite cnt_setsqn_arith by lia. lia.
Qed.

Lemma cnt_estimate_lt c s : c < 16777216 -> s < 256 -> cnt_estimate c s < 16777216.
Proof. intros Hc Hs. rewrite cnt_estimate_arith by assumption. lia. Qed.

Lemma cnt_estimate_advance c d :
  c < 16777216 -> 1 <= d -> d <= 255 ->
  cnt_estimate c (((c + d) mod 16777216) mod 256) = (c + d) mod 16777216.
Proof.
  intros Hc H1 H2. rewrite cnt_estimate_arith by lia.
  destruct (N.ltb_spec (((c + d) mod 16777216) mod 256) (c mod 256)); lia.
Qed.

(* a new-context header: Set(0,0) first, so the estimate is the received sequence number with overflow 0 *)
Lemma cnt_estimate_after_reset c s : c < 16777216 -> s < 256 -> cnt_estimate (cnt_set c 0 0) s = s.
Proof.
  intros Hc Hs. rewrite cnt_set_0 by assumption. rewrite cnt_estimate_arith by lia.
  change (0 mod 256) with 0. change (0 / 256) with 0. destruct (N.ltb_spec s 0); lia.
Qed.
