(* C13, ranges - part 3b: a list argument.  Evaluation (Builders13RangeTac) cannot go through a list of unknown length,
   and the fuel-indexed functions abs_f / supr_f cannot be left partially applied (their normal form under a binder
   is exponential in the fuel).  [abs_h] / [supr_h] are abs_f / supr_f that hand the node selected by [stop] to a
   named function (STOPA / STOPS = the original functions, never unfolded by the evaluation); they are equal to the
   originals, and the stopped node is then treated by the lemmas on lists at the end. *)
From Coq Require Import String NArith ZArith List Bool Lia Arith.
From Coq Require Import ZifyN ZifyNat ZifyBool.
Require Import GoSlice Bits AperCommon AperEnc AperDec Asn1 X691 Asn1Tags AperStructDefs AperStructSize AperStructRefDefs
        Builders13Range Builders13RangeX Builders13RangeNE Builders13RangeTac.
Import ListNotations.
Open Scope N_scope.

Definition STOPA (n : nat) (t : ty) (p : params) (v : val) : option Asn1.aval := abs_f n t p v.
Definition STOPS (n : nat) (t : ty) (p : params) (v : val) : bool := supr_f n t p v.

Section Stop.
  Variable stop : nat -> ty -> bool.

  Fixpoint abs_h (fuel : nat) (t : ty) (p : params) (v : val) : option Asn1.aval :=
    if stop fuel t then STOPA fuel t p v else
    match fuel with
    | O => None
    | S f =>
        match t, v with
        | TInt, VInt z => Some (AVInt z)
        | TEnum, VEnum n => Some (AVEnum n)
        | TBool, VBool b => Some (AVBool b)
        | TBits, VBits bs n =>
            if (N.of_nat (List.length bs) =? (n + 7) / 8) && forallb (fun b => b <? 256) bs
            then Some (AVBits (firstn (N.to_nat n) (bits_of_bytes bs))) else None
        | TOctets, VOctets bs | TString, VOctets bs => Some (AVOctets bs)
        | TPtr e, VPtr v' => abs_h f e p v'
        | TPtr _, VNil => Some AVInvalid
        | TSlice e, VList l =>
            match all_some (map (abs_h f e (clear_size p)) l) with Some l' => Some (AVSeqOf l') | None => None end
        | TStruct fs, VStruct vs =>
            if negb (Nat.eqb (List.length fs) (List.length vs)) then None
            else if is_choice fs then
              match vs with
              | VInt present :: _ =>
                  if ((0 <? present) && (present <? Z.of_nat (List.length fs)))%Z then
                    match nth_error fs (Z.to_nat present), nth_error vs (Z.to_nat present) with
                    | Some a, Some av =>
                        match abs_h f (f_ty a) (f_params a) av with
                        | Some x => if p_openType p
                                    then match p_refValue (f_params a) with
                                         | Some k => Some (AVOpen k x) | None => Some AVInvalid end
                                    else Some (AVChoice (Z.to_N (present - 1)) x)
                        | None => None
                        end
                    | _, _ => None
                    end
                  else Some AVInvalid
              | _ => None
              end
            else
              match all_some (map (fun av => let '(a, x) := av in
                                             match f_ty a, x with
                                             | TPtr _, VNil => if p_optional (f_params a) then Some None else Some (Some AVInvalid)
                                             | _, _ => match abs_h f (f_ty a) (f_params a) x with
                                                       | Some y => Some (Some y) | None => None end
                                             end) (combine fs vs)) with
              | Some cs => Some (AVSeq cs)
              | None => None
              end
        | _, _ => None
        end
    end.

  Fixpoint supr_h (fuel : nat) (t : ty) (p : params) (v : val) : bool :=
    if stop fuel t then STOPS fuel t p v else
    match fuel with
    | O => false
    | S f =>
        match t, v with
        | TInt, VInt z => int_okr p z
        | TEnum, VEnum i => enum_ok p && (i <? 18446744073709551616)
        | TBool, VBool _ => true
        | TBits, VBits _ n => str_ok p n
        | TOctets, VOctets bs | TString, VOctets bs => str_ok p (len bs) && forallb (fun b => b <? 256) bs
        | TPtr e, VPtr v' => supr_h f e p v'
        | TPtr _, VNil => true
        | TSlice e, VList l => slice_ok p (len l) && forallb (supr_h f e (clear_size p)) l
        | TStruct fs, VStruct vs =>
            if is_choice fs then
              choice_ok fs p &&
              match vs with
              | VInt present :: _ =>
                  (0 <=? present)%Z &&
                  (if (0 <? present)%Z && (present <? Z.of_nat (List.length fs))%Z then
                     match nth_error fs (Z.to_nat present), nth_error vs (Z.to_nat present) with
                     | Some a, Some av => supr_h f (f_ty a) (f_params a) av
                     | _, _ => true
                     end
                   else true)
              | _ => true
              end
            else (count_optional fs <=? 64) && fields_supr (supr_h f) (makeField f) fs vs 0 fs vs
        | _, _ => false
        end
    end.

  Lemma abs_h_eq : forall fuel t p v, abs_h fuel t p v = abs_f fuel t p v.
  Proof.
    induction fuel as [|f IH]; intros t p v; cbn [abs_h]; (destruct (stop _ t); [reflexivity|]); [reflexivity|].
    destruct t, v; try reflexivity; cbn [abs_f].
    - (* slice *) rewrite (map_ext _ _ (IH t (clear_size p))). reflexivity.
    - (* pointer *) apply IH.
    - (* struct *)
      destruct (negb _); [reflexivity|]. destruct (is_choice fields).
      + destruct l as [|[present| | | | | | | |] r]; try reflexivity.
        destruct (_ && _)%Z; [|reflexivity]. destruct (nth_error fields _); [|reflexivity]. destruct (nth_error _ _); [|reflexivity].
        rewrite IH. reflexivity.
      + match goal with |- match all_some (map ?g1 ?l) with _ => _ end = match all_some (map ?g2 ?l) with _ => _ end =>
          assert (E : forall x, g1 x = g2 x) end.
        { intros [a x]. destruct (f_ty a), x; try reflexivity; rewrite IH; reflexivity. }
        rewrite (map_ext _ _ E). reflexivity.
  Qed.

  Lemma fields_supr_ext (r1 r2 : ty -> params -> val -> bool) m allf allv :
    (forall t p v, r1 t p v = r2 t p v) ->
    forall fs vs i, fields_supr r1 m allf allv i fs vs = fields_supr r2 m allf allv i fs vs.
  Proof.
    intros H. induction fs as [|f fr IHf]; intros vs i; destruct vs as [|x vr]; cbn [fields_supr]; try reflexivity.
    rewrite IHf. f_equal. unfold field_supr, open_supr.
    destruct (f_ty f), x; try reflexivity; rewrite ?H; try reflexivity.
    all: try (destruct (p_openType (f_params f)); [|rewrite ?H; reflexivity]).
    all: try reflexivity.
    all: repeat match goal with |- context [match ?y with _ => _ end] => destruct y; try reflexivity end; rewrite ?H; reflexivity.
  Qed.

  Lemma forallb_ext' {A} (f g : A -> bool) l : (forall x, f x = g x) -> forallb f l = forallb g l.
  Proof. intros H. induction l as [|a l IHl]; [reflexivity|]. cbn [forallb]. rewrite H, IHl. reflexivity. Qed.

  Lemma supr_h_eq : forall fuel t p v, supr_h fuel t p v = supr_f fuel t p v.
  Proof.
    induction fuel as [|f IH]; intros t p v; cbn [supr_h]; (destruct (stop _ t); [reflexivity|]); [reflexivity|].
    destruct t, v; try reflexivity; cbn [supr_f].
    - f_equal. apply forallb_ext'. intro x. apply IH.
    - apply IH.
    - destruct (is_choice fields).
      + f_equal. destruct l as [|[present| | | | | | | |] r]; try reflexivity. f_equal.
        destruct (_ && _)%Z; [|reflexivity]. destruct (nth_error fields _); [|reflexivity]. destruct (nth_error _ _); [|reflexivity]. apply IH.
      + f_equal. apply fields_supr_ext. exact IH.
  Qed.
End Stop.

(* stop at a SEQUENCE OF whose items begin with a pDUSessionID component (the session lists) *)
Definition stop_item (n : nat) (t : ty) : bool :=
  match t with TSlice (TStruct ((name, _, _) :: _)) => String.eqb name "PDUSessionID" | _ => false end.

Lemma stopA_list {A} n e p (item : A -> val) (aitem : A -> Asn1.aval) zs :
  (forall z, abs_f n e (clear_size p) (item z) = Some (aitem z)) ->
  STOPA (S n) (TSlice e) p (VList (hmap item zs)) = Some (AVSeqOf (hmap aitem zs)).
Proof. intros H. unfold STOPA, hmap. cbn [abs_f]. rewrite (all_some_map_map _ item aitem zs H). reflexivity. Qed.

Lemma slice_ok_nonext p n : p_sizeExt p = false -> slice_ok p n = slice_ok p 0.
Proof. intros H. unfold slice_ok. rewrite H. reflexivity. Qed.
Lemma stopS_list {A} n e p (item : A -> val) zs :
  p_sizeExt p = false -> slice_ok p 0 = true -> (forall z, supr_f n e (clear_size p) (item z) = true) ->
  STOPS (S n) (TSlice e) p (VList (hmap item zs)) = true.
Proof.
  intros He H0 H. unfold STOPS, hmap. cbn [supr_f]. rewrite (slice_ok_nonext p _ He), H0. cbn [andb].
  apply forallb_map_true. exact H.
Qed.

(* the statuses of a SEQUENCE (SIZE (1..256)) OF and of its elements, as conditions on the argument *)
Definition SZL {A} (zs : list A) : xs := size_st 1 (Some 256) false (alen zs).
Lemma szl_if {A} (zs : list A) : SZL zs = if ((1 <=? List.length zs)%nat && (List.length zs <=? 256)%nat) then SOk else SViol.
Proof.
  unfold SZL, size_st, size_inroot, alen. cbn [andb].
  destruct ((1 <=? List.length zs)%nat && (List.length zs <=? 256)%nat) eqn:E.
  - assert ((1 <=? N.of_nat (List.length zs)) && (N.of_nat (List.length zs) <=? 256) = true) as -> by lia. reflexivity.
  - assert ((1 <=? N.of_nat (List.length zs)) && (N.of_nat (List.length zs) <=? 256) = false) as -> by lia. reflexivity.
Qed.
Lemma els_if (f : Z -> xs) (g : Z -> bool) zs : (forall z, f z = if g z then SOk else SViol) ->
  ELS f zs = if forallb g zs then SOk else SViol.
Proof.
  intros H. unfold ELS. induction zs as [|z zs IH]; [reflexivity|]. cbn [map xfirst forallb]. rewrite H, IH.
  destruct (g z); reflexivity.
Qed.

Lemma asz_list_hmap {A} (h : A -> Asn1.aval) c zs : (forall z, asz (h z) = c) -> asz_list (hmap h zs) = (c * List.length zs)%nat.
Proof. apply asz_list_map. Qed.

(* ---- tactics for a value with one opaque list  VList (hmap item zs) *)
Ltac abs_list_tac :=
  rewrite <- (abs_h_eq stop_item); lazy -[STOPA hmap];
  repeat (match goal with
          | |- context [STOPA (S ?n) (TSlice ?e) ?p (VList (hmap ?it ?zs))] =>
              erewrite (stopA_list n e p it _ zs) by (intro; vm_compute; reflexivity)
          end; lazy -[STOPA hmap]);
  reflexivity.

Ltac asz_list_tac :=
  unfold XB; cbn [asz Datatypes.length];
  repeat match goal with
         | |- context [?f (@hmap Z Asn1.aval ?h ?zs)] =>
             change (f (hmap h zs)) with (asz_list (hmap h zs));
             let c := eval vm_compute in (asz (h 0%Z)) in
             rewrite (asz_list_hmap h c zs) by (intro; reflexivity)
         end;
  unfold len, alen in *; lia.

(* the elements of the opaque list: their status is the status of the identifiers *)
Ltac els_tac F :=
  match goal with
  | |- context [?f (?g (@hmap Z Asn1.aval ?h ?zs))] =>
      let X := fresh "X" in
      pose (X := fun x : Asn1.aval => match g [x] with y :: _ => y | [] => SUnk end);
      change (f (g (hmap h zs))) with (xfirst (map X (hmap h zs)));
      rewrite (els_intro X h F zs)
        by (intro; unfold X, SID, AMF, RAN; lazy -[int_st oct_st size_st enum_st alen hmap ELS]; repeat (progress eval_closed_st);
            cbv beta iota; repeat int_case_tac; reflexivity);
      clear X
  end.

Ltac xst_list_pre := lazy -[int_st oct_st size_st enum_st alen hmap ELS SZL].
Ltac xst_list_leaves F :=
  repeat (first [progress eval_closed_st | oct_tac | size_tac | int_hyp_tac]); cbv beta iota;
  rewrite ?alen_hmap; try els_tac F;
  repeat match goal with |- context [size_st 1 (Some 256) false (alen ?zs)] => change (size_st 1 (Some 256) false (alen zs)) with (SZL zs) end.

Ltac ne_status_list_tac :=
  unfold ne_status; xst_list_pre; xst_list_leaves SID; repeat int_case_tac;
  repeat match goal with
         | |- context [SZL ?zs] => let E := fresh "E" in destruct (size_st_total 1 256 (alen zs) eq_refl) as [E|E]; unfold SZL; rewrite E; clear E
         | |- context [ELS ?f ?zs] => let E := fresh "E" in destruct (els_total f zs ltac:(intro; unfold SID; apply int_st_total)) as [E|E]; rewrite E; clear E
         end;
  vm_compute; reflexivity.

Ltac supr_list_atom self :=
  first
    [ solve [closed_goal; vm_compute; reflexivity]
    | match goal with |- int_okr ?p ?z = true => rewrite (int_okr_nonext p z) by reflexivity; vm_compute; reflexivity end
    | match goal with H : octs_ok ?x = true |- _ ?x = true => exact H end
    | match goal with
      | H : len ?x = _ |- str_ok _ (len ?x) = true => rewrite H; vm_compute; reflexivity
      | |- str_ok ?p (len ?x) = true =>
          first [apply (str_ok_mono p 0); [vm_compute; reflexivity|lia|lia] | apply (str_ok_mono p 1); [vm_compute; reflexivity|lia|lia]]
      end
    | match goal with
      | |- STOPS (S ?n) (TSlice ?e) ?p (VList (hmap ?it ?zs)) = true =>
          apply (stopS_list n e p it zs); [reflexivity | vm_compute; reflexivity | intro; supr_tac]
      end
    | match goal with
      | |- nonempty_bytes (makeField ?n ?t ?p ?v _) = true =>
          eapply (ne_bytes t n n n n p v);
          [ depth_tac | depth_tac | depth_tac | depth_tac | abs_list_tac | self | asz_list_tac | ne_status_list_tac ]
      end
    | match goal with |- ?g => idtac "supr_list_atom: unsolved" g; fail 1 end ].
Ltac supr_list_tac :=
  rewrite <- (supr_h_eq stop_item); lazy -[makeField str_ok int_okr nonempty_bytes len STOPS hmap]; split_ifs;
  supr_list_atom supr_list_tac.

Ltac hide_list := match goal with |- context [VList (map ?f ?zs)] => change (map f zs) with (hmap f zs) end.
Ltac good_list_tac :=
  eexists; split; [unfold abs; abs_list_tac|]; split; [unfold supr; supr_list_tac|]; split; [asz_list_tac|];
  unfold AT, AMF, RAN, SID; xst_list_pre; xst_list_leaves (fun z : Z => int_st (Some 0%Z) (Some 255%Z) false z);
  repeat int_case_tac;
  repeat match goal with
         | |- context [SZL ?zs] => destruct (SZL zs)
         | |- context [ELS ?f ?zs] => destruct (ELS f zs)
         end; reflexivity.
