From Coq Require Import List String Bool Arith NArith.
Require Import Bytes Interleave InterleaveProofs Concurrency Footprints Snow3g Security SecProofs.
Import ListNotations.

(* reflective, over the footprints extracted from the current source *)
Lemma footprints_conform : footprints_ok footprints = true.
Proof. vm_compute. reflexivity. Qed.

(* the calls that use the shared SNOW 3G state, as critical sections: the section's result is the call's result *)
Definition sec_result := Security.sres bytes.
Definition nea1_section (ck:bytes) (count bearer dir:N) (ibs:bytes) (len:N) : section Snow3g.state sec_result :=
  fun st => let (st', r) := NEA1 st ck count bearer dir ibs len in (r, st').
Definition nia1_section (ik:bytes) (count bearer dir:N) (msg:bytes) (len:N) : section Snow3g.state sec_result :=
  fun st => let (st', r) := NIA1 st ik count bearer dir msg len in (r, st').
Definition encrypt_section E alg key count bearer dir payload : section Snow3g.state sec_result :=
  fun st => let (st', r) := NASEncrypt E st alg key count bearer dir payload in (r, st').
Definition mac_section E alg key count bearer dir msg : section Snow3g.state sec_result :=
  fun st => let (st', r) := NASMacCalculate E st alg key count bearer dir msg in (r, st').

Inductive sec_op : section Snow3g.state sec_result -> Prop :=
| op_nea1 ck c b d i l : sec_op (nea1_section ck c b d i l)
| op_nia1 ik c b d m l : sec_op (nia1_section ik c b d m l)
| op_enc E a k c b d p : sec_op (encrypt_section E a k c b d p)
| op_mac E a k c b d m : sec_op (mac_section E a k c b d m).

Lemma sec_ops_reset_first sec : sec_op sec -> reset_first Snow3g.state sec_result sec.
Proof.
  intros H s s'. destruct H; unfold nea1_section, nia1_section, encrypt_section, mac_section.
  - pose proof (NEA1_state_independent s s' ck c b d i l) as E.
    destruct (NEA1 s ck c b d i l), (NEA1 s' ck c b d i l). exact E.
  - pose proof (NIA1_state_independent s s' ik c b d m l) as E.
    destruct (NIA1 s ik c b d m l), (NIA1 s' ik c b d m l). exact E.
  - pose proof (NASEncrypt_state_independent E s s' a k c b d p) as Q.
    destruct (NASEncrypt E s a k c b d p), (NASEncrypt E s' a k c b d p). exact Q.
  - pose proof (NASMacCalculate_state_independent E s s' a k c b d m) as Q.
    destruct (NASMacCalculate E s a k c b d m), (NASMacCalculate E s' a k c b d m). exact Q.
Qed.

(* any number of threads, each any sequence of ciphering / MAC calls with its own arguments, any schedule of the
   critical sections: when all have finished, every thread has the results it gets running alone *)
Theorem security_calls_interleave_safely s0 sched (ts:list (list (section Snow3g.state sec_result))) s :
  (forall t, In t ts -> forall sec, In sec t -> sec_op sec) ->
  let '(acc', ts', _) := exec Snow3g.state sec_result sched ts (map (fun _ => []) ts) s in
  (forall j, nth j ts' [] = []) ->
  forall j, nth j acc' [] = solo Snow3g.state sec_result s0 (nth j ts []).
Proof.
  intro H. apply interleaving_equals_sequential.
  intros t Ht sec Hs. apply sec_ops_reset_first. eapply H; eassumption.
Qed.

(* why the lock is needed: at the granularity InitSnow3g / GenerateKeystream (no mutual exclusion around the pair)
   a two-thread schedule gives thread 1 a keystream that is not its own *)
Definition k1 : list N := [1;2;3;4]. Definition k2 : list N := [5;6;7;8]. Definition iv0 : list N := [0;0;0;0].
Example unlocked_schedule_goes_wrong :
  let alone := snd (GenerateKeystream (InitSnow3g zero_state k1 iv0) 2) in
  let st := InitSnow3g zero_state k1 iv0 in       (* thread 1: init *)
  let st := InitSnow3g st k2 iv0 in               (* thread 2: init — overwrites the shared state *)
  snd (GenerateKeystream st 2) <> alone.          (* thread 1: generate *)
Proof. vm_compute. discriminate. Qed.
