(* C07 / C10: 128-NEA2 and 128-NIA2 keep no package-level state (reflective over the regenerated footprints): no key
   schedule, keystream or scratch buffer outlives a call, so what a call returns cannot depend on the keys and messages of
   earlier calls or of other UEs. (128-NEA1 / 128-NIA1 do keep the SNOW 3G registers in package-level variables, under
   a lock; their independence from the incoming register state is proved in Proofs/SecProofs.v.) *)
From Coq Require Import List String Bool.
Require Import Concurrency Footprints.
Open Scope string_scope.

(* the footprint family whose entry points are security.NEA2 and security.NIA2 *)
Definition aes_family : string := "nea2_nia2".
Lemma nea2_nia2_keep_no_state : family_stateless footprints aes_family = true.
Proof. vm_compute. reflexivity. Qed.
