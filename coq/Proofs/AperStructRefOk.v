(* [supr] and a valid encoding give [sup]: the relaxations of supr are exactly the validity conditions that
   x691 ... = XOk implies.  Used to run the C03.1 theorem on the components encoded before a violating one. *)
From Coq Require Import String NArith ZArith List Bool Lia Arith.
From Coq Require Import ZifyN ZifyNat ZifyBool.
Require Import GoSlice Bits AperCommon AperEnc AperDec Asn1 X691 Asn1Tags AperBits AperBitsGet AperBitsPut AperEncProofs
        AperStructPrim AperStructStr AperStructDefs AperStructLeaf AperStructSeq AperStructFld AperStructMain
        AperRoundPrim AperRoundNe AperRoundSeq AperRoundMain AperStructRefDefs.
Import ListNotations.
Open Scope N_scope.
Ltac Zify.zify_post_hook ::= Z.div_mod_to_equations.

Definition OkStmt (t : ty) : Prop :=
  forall n1 n2 n4 p v av pos b,
    (ty_depth t <= n1)%nat -> (ty_depth t <= n2)%nat -> (ty_depth t <= n4)%nat ->
    abs_f n2 t p v = Some av -> supr_f n4 t p v = true -> x691 (t2a n1 t p) av pos = XOk b ->
    sup_f n4 t p v = true.

Section Level.
  Variable n : nat.
  Hypothesis Hrec : forall t', (ty_depth t' <= n)%nat -> OkStmt t'.

  Lemma elems_ok e f1 f2 f4 p' pos0 :
    (ty_depth e <= n)%nat -> (ty_depth e <= f1)%nat -> (ty_depth e <= f2)%nat -> (ty_depth e <= f4)%nat ->
    forall l l' acc b, all_some (map (abs_f f2 e p') l) = Some l' -> forallb (supr_f f4 e p') l = true ->
      x_elems (t2a f1 e p') pos0 l' acc = XOk b -> forallb (sup_f f4 e p') l = true.
  Proof.
    intros Hn H1 H2 H4. induction l as [|x l IH]; intros l' acc b Ha Hs Hx; [reflexivity|].
    apply all_some_cons in Ha. destruct Ha as (y & l2 & Hy & Ha' & ->).
    cbn [forallb] in *. apply andb_true_iff in Hs. destruct Hs as [Hs1 Hs2].
    cbn [x_elems] in Hx. destruct (x691 (t2a f1 e p') y (pos0 + length acc)) as [eb| |] eqn:Ee; cbn [xbind] in Hx; try discriminate.
    rewrite (Hrec e Hn f1 f2 f4 p' x y (pos0 + length acc)%nat eb); auto. cbn [andb]. eapply IH; eauto.
  Qed.

  Lemma field_ok allf allv allcs f1 f2 f4 pos0 i f x cv0 (acc : bits) e :
    (fdepth allf <= n)%nat -> (fdepth allf <= f1)%nat -> (fdepth allf <= f2)%nat -> (fdepth allf <= f4)%nat ->
    length allf = length allv -> all_some (map (habs f2) (combine allf allv)) = Some allcs ->
    nth_error allf i = Some f ->
    habs f2 (f, x) = Some (Some cv0) ->
    field_supr (supr_f f4) (makeField f4) allf allv i f x = true ->
    comp_enc allcs (snd (gty f1 allf f)) cv0 (pos0 + length acc) = XOk e ->
    field_sup (sup_f f4) (makeField f4) allf allv i f x = true.
  Proof.
    intros Dn D1 D2 D4 Hlen Hall Hnf Hc Hs1 Ee0. pose proof (fdepth_nth _ _ _ Hnf) as Hdf.
    (* this component *)
    unfold field_supr in Hs1. unfold field_sup. unfold habs in Hc.
    destruct (f_ty f) as [| | | | | | |e0|e0|cfs] eqn:Et.
    all: try (destruct x; try discriminate).
    all: try (destruct (abs_f f2 _ (f_params f) _) as [cv|] eqn:Eabs; [|discriminate]; injection Hc as <-; pose proof Ee0 as Ee).
    all: try (destruct (p_openType (f_params f)) eqn:Eo;
              [apply andb_true_iff in Hs1; destruct Hs1 as [_ Hs1]; apply andb_true_iff in Hs1; destruct Hs1 as [_ Hs1];
               unfold open_supr, open_sup in Hs1; cbn [andb] in Hs1; discriminate|]).
    all: try (apply andb_true_iff in Hs1; destruct Hs1 as [Hp Hs1]; rewrite Hp; cbn [andb];
              unfold gty in Ee; rewrite Eo, Et in Ee; cbn [snd] in Ee; rewrite comp_enc_t2a in Ee;
              rewrite <- Et in *; apply (Hrec (f_ty f) ltac:(lia) f1 f2 f4 (f_params f) _ cv (pos0 + length acc)%nat e); auto; lia).
    - (* nil pointer *)
      destruct (p_optional (f_params f)) eqn:Eopt; [reflexivity|]. injection Hc as <-.
      exfalso. eapply comp_enc_invalid; eauto.
    - (* a struct-typed component: ordinary or open type *)
      apply andb_true_iff in Hs1. destruct Hs1 as [Hp Hs1]. rewrite Hp. cbn [andb].
      destruct (p_openType (f_params f)) eqn:Eo.
      2:{ unfold gty in Ee. rewrite Eo, Et in Ee. cbn [snd] in Ee. rewrite comp_enc_t2a in Ee.
          rewrite <- Et in *. apply (Hrec (f_ty f) ltac:(lia) f1 f2 f4 (f_params f) _ cv (pos0 + length acc)%nat e); auto; lia. }
      apply andb_true_iff in Hs1. destruct Hs1 as [Hno Hos]. rewrite Hno. cbn [andb].
      unfold open_supr in Hos. unfold open_sup. destruct l as [|[present| | | | | | | |] cvr]; try discriminate.
      apply andb_true_iff in Hos; destruct Hos as [Hos Hrest].
      apply andb_true_iff in Hos; destruct Hos as [Hos Hleq].
      apply andb_true_iff in Hos; destruct Hos as [Hos Hplt].
      apply andb_true_iff in Hos; destruct Hos as [Hos Hpgt].
      apply andb_true_iff in Hos; destruct Hos as [Hch Hvx].
      cbv zeta in Hrest. apply andb_true_iff in Hrest; destruct Hrest as [Hidxne Hm].
      rewrite Hch, Hvx, Hpgt, Hplt, Hleq. cbn [andb]. cbv zeta.
      set (idx := find_field (p_refName (f_params f)) allf i 0) in *. rewrite Hidxne. cbn [andb].
      assert (Hni : idx <> i) by (intros E'; rewrite E', Nat.eqb_refl in Hidxne; discriminate).
      destruct (nth_error allf idx) as [rf|] eqn:Erf; [|discriminate].
      destruct (nth_error allv idx) as [rv|] eqn:Erv; [|discriminate].
      destruct (nth_error cfs (Z.to_nat present)) as [a|] eqn:Ea; [|discriminate].
      destruct (nth_error (VInt present :: cvr) (Z.to_nat present)) as [av|] eqn:Eav; [|discriminate].
      apply andb_true_iff in Hm; destruct Hm as [Href Hm].
      apply andb_true_iff in Href; destruct Href as [Href Hrfo]. apply andb_true_iff in Href; destruct Href as [Hshape Hrfopt].
      destruct (p_refValue (f_params a)) as [r|] eqn:Er; [|discriminate].
      destruct (get_ref REF_FUEL (f_ty rf) rv) as [z| | |] eqn:Ez; try discriminate.
      apply Nat.eqb_eq in Hleq.
      assert (Hda : (S (ty_depth (f_ty a)) <= ty_depth (TStruct cfs))%nat).
      { rewrite ty_depth_struct. pose proof (fdepth_nth _ _ _ Ea). lia. }
      destruct f2 as [|f2']; [pose proof (ty_depth_pos (TStruct cfs)); lia|].
      cbn [abs_f] in Eabs.
      match type of Eabs with (if negb ?c then _ else _) = _ => assert (Ec : c = true) by (apply Nat.eqb_eq; exact Hleq) end.
      rewrite Ec in Eabs. cbn [negb] in Eabs. rewrite Hch in Eabs.
      assert (Hrange : ((0 <? present) && (present <? Z.of_nat (length cfs)))%Z = true) by lia.
      match type of Eabs with (if ?c then _ else _) = _ => replace c with true in Eabs by (symmetry; exact Hrange) end.
      rewrite Ea, Eav in Eabs.
      destruct (abs_f f2' (f_ty a) (f_params a) av) as [xx|] eqn:Exx; [|discriminate].
      rewrite Eo, Er in Eabs. injection Eabs as <-.
      unfold gty in Ee. rewrite Eo, Et in Ee. cbn [strip_ptr] in Ee.
      assert (Hidx : index_of (p_refName (f_params f)) allf 0 = Some idx).
      { apply (find_field_index _ allf i 0); [apply Nat.lt_le_incl; apply nth_error_Some; congruence|cbn [Nat.add]; exact Hni]. }
      rewrite Hidx, Hch, Hvx in Ee. cbn [andb] in Ee.
      destruct (all_some (map (alt_key f1) (tl cfs))) as [alts|] eqn:Ealts; cbn [snd comp_enc] in Ee; [|discriminate].
      (* the identifier component, read alike by the specification and the library *)
      destruct (all_some_nth (habs (S f2')) _ _ idx (rf, rv) Hall) as (c' & Hc' & Hn').
      { apply nth_error_combine; assumption. }
      assert (Habsr : exists sv, c' = Some sv /\ abs_f (S f2') (f_ty rf) (f_params rf) rv = Some sv).
      { unfold habs in Hc'. destruct (f_ty rf); try discriminate; destruct (abs_f (S f2') _ (f_params rf) rv) as [sv|]; try discriminate; injection Hc' as <-; eauto. }
      destruct Habsr as (sv & -> & Habsr). rewrite Hn' in Ee.
      destruct (key_of sv) as [k|] eqn:Ek; [|discriminate].
      destruct (X691.find_alt r alts) as [at'|] eqn:Efa; [|discriminate].
      destruct (k =? r)%Z eqn:Ekr; [|discriminate]. assert (k = r) by lia. subst k.
      pose proof (get_ref_key _ _ _ _ _ _ Hshape Habsr Ek) as Hg. rewrite Ez in Hg. injection Hg as ->.
      assert ((r =? r)%Z = true) as Hrr by lia. rewrite Hrr in *. cbn [negb orb andb] in Hm.
      apply andb_true_iff in Hm; destruct Hm as [Hm Hne].
      apply andb_true_iff in Hm; destruct Hm as [Hfind Hsupa].
      rewrite Hfind, Hne. cbn [andb]. rewrite andb_true_r. apply Nat.eqb_eq in Hfind.
      assert (Hfa : X691.find_alt r alts = Some (t2a f1 (f_ty a) (f_params a))).
      { destruct cfs as [|c0 cfs']; [destruct (Z.to_nat present); discriminate|].
        destruct (Z.to_nat present) as [|m] eqn:Em; [lia|]. cbn [tl nth_error] in *.
        eapply (find_alt_link f1 r cfs' alts 1 m a); eauto. }
      rewrite Hfa in Efa. injection Efa as <-.
      destruct (x691 (t2a f1 (f_ty a) (f_params a)) xx 0) as [inner| |] eqn:Einner; cbn [xbind] in Ee; try discriminate.
      apply (Hrec (f_ty a) ltac:(lia) f1 f2' f4 (f_params a) av xx 0%nat inner); auto; lia.
  Qed.

  Lemma fields_ok allf allv allcs f1 f2 f4 pos0 :
    (fdepth allf <= n)%nat -> (fdepth allf <= f1)%nat -> (fdepth allf <= f2)%nat -> (fdepth allf <= f4)%nat ->
    length allf = length allv -> all_some (map (habs f2) (combine allf allv)) = Some allcs ->
    forall fr vr cr i acc b,
      skipn i allf = fr -> skipn i allv = vr ->
      all_some (map (habs f2) (combine fr vr)) = Some cr ->
      fields_supr (supr_f f4) (makeField f4) allf allv i fr vr = true ->
      x_comps allcs pos0 (map (gty f1 allf) fr) cr acc = XOk b ->
      fields_sup (sup_f f4) (makeField f4) allf allv i fr vr = true.
  Proof.
    intros Dn D1 D2 D4 Hlen Hall.
    induction fr as [|f fr IH]; intros vr cr i acc b Hfr Hvr Hcr Hsup Hx; destruct vr as [|x vr]; cbn [fields_supr] in Hsup; try discriminate; [reflexivity|].
    cbn [combine] in Hcr. apply all_some_cons in Hcr. destruct Hcr as (c & cr' & Hc & Hcr' & ->).
    apply andb_true_iff in Hsup. destruct Hsup as [Hs1 Hs2].
    destruct (skipn_step _ _ _ _ Hfr) as [Hfr' Hnf]. destruct (skipn_step _ _ _ _ Hvr) as [Hvr' Hnv].
    cbn [map] in Hx. rewrite (surjective_pairing (gty f1 allf f)), gty_opt in Hx. rewrite x_comps_cons in Hx.
    cbn [fields_sup]. apply andb_true_iff. destruct c as [cv|].
    - destruct (comp_enc allcs (snd (gty f1 allf f)) cv (pos0 + length acc)) as [e| |] eqn:Ee; cbn [xbind] in Hx; try discriminate.
      split; [eapply (field_ok allf allv allcs f1 f2 f4 pos0 i f x cv acc e); eauto|eapply IH; eauto].
    - destruct (p_optional (f_params f)) eqn:Eo; [|discriminate]. split; [|eapply IH; eauto].
      unfold habs in Hc. unfold field_sup. destruct (f_ty f); try (destruct (abs_f f2 _ (f_params f) x); discriminate).
      destruct x; try (destruct (abs_f f2 _ (f_params f) _); discriminate). exact Eo.
  Qed.
End Level.

Theorem supr_ok_all : forall n t, (ty_depth t <= n)%nat -> OkStmt t.
Proof.
  induction n as [|n IH]; intros t Hd; [pose proof (ty_depth_pos t); lia|].
  unfold OkStmt. intros n1 n2 n4 p v av pos b D1 D2 D4 Ha Hs Hx.
  destruct n1 as [|n1]; [pose proof (ty_depth_pos t); lia|]. destruct n2 as [|n2]; [pose proof (ty_depth_pos t); lia|].
  destruct n4 as [|n4]; [pose proof (ty_depth_pos t); lia|].
  destruct t as [| | | | | | |e|e|fs]; destruct v; cbn [abs_f] in Ha; try discriminate; cbn [supr_f] in Hs; try discriminate; cbn [sup_f].
  - (* INTEGER *)
    injection Ha as <-. cbn [t2a x691] in Hx. unfold int_okr in Hs. unfold int_ok.
    destruct (p_valueLB p) as [l|]; [|discriminate]. destruct (p_valueUB p) as [u|]; [|discriminate]. bools.
    unfold enc_int in Hx. destruct ((l <=? z)%Z && (z <=? u)%Z) eqn:Ein.
    + apply andb_true_iff. split; [|assumption]. apply andb_true_iff. split; [|assumption]. apply andb_true_iff. split; [|assumption]. reflexivity.
    + exfalso. cbn [negb] in Hx. rewrite andb_true_r in Hx. destruct (p_valueExt p); [cbn [negb orb] in *; congruence|discriminate].
  - apply andb_true_iff in Hs. tauto.
  - reflexivity.
  - exact Hs.
  - apply andb_true_iff in Hs. tauto.
  - apply andb_true_iff in Hs. tauto.
  - (* SEQUENCE OF *)
    cbn [ty_depth] in *. destruct (all_some (map (abs_f n2 e (clear_size p)) l)) as [l'|] eqn:El; [|discriminate]. injection Ha as <-.
    apply andb_true_iff in Hs. destruct Hs as [Hok Hsl]. rewrite Hok. cbn [andb].
    pose proof Hok as Hok'. unfold slice_ok in Hok'.
    destruct (p_sizeLB p) as [lb|] eqn:Elb; [|discriminate]. destruct (p_sizeUB p) as [ub|] eqn:Eub; [|discriminate].
    apply andb_true_iff in Hok'. destruct Hok' as [Hcls _]. bools.
    cbn [t2a] in Hx. rewrite Elb, Eub, size_lb_some, size_ub_some in Hx by lia. rewrite x691_seqof in Hx.
    destruct (size_prefix _ _ _ _ _) as [pre| |]; cbn [xbind] in Hx; try discriminate.
    eapply (elems_ok n IH e n1 n2 n4); eauto; lia.
  - (* nil pointer *)
    injection Ha as <-. exfalso. eapply x691_invalid; eauto.
  - (* pointer *)
    cbn [ty_depth] in *. cbn [t2a] in Hx. eapply (IH e ltac:(lia) n1 n2 n4); eauto; lia.
  - (* struct *)
    rewrite ty_depth_struct in *.
    destruct (Nat.eqb (@length (string * params * ty) fs) (length l)) eqn:Elen; cbn [negb] in Ha; [|discriminate]. apply Nat.eqb_eq in Elen.
    destruct (is_choice fs) eqn:Ech.
    + (* CHOICE *)
      apply andb_true_iff in Hs. destruct Hs as [Hco Hs]. rewrite Hco. cbn [andb].
      destruct l as [|[present| | | | | | | |] vr]; try discriminate; try reflexivity.
      apply andb_true_iff in Hs. destruct Hs as [_ Hs].
      destruct ((0 <? present)%Z && (present <? Z.of_nat (length fs))%Z) eqn:Erange.
      2:{ injection Ha as <-. exfalso. eapply x691_invalid; eauto. }
      bools. normty.
      destruct (nth_error fs (Z.to_nat present)) as [a|] eqn:Ea; [|reflexivity].
      destruct (nth_error (VInt present :: vr) (Z.to_nat present)) as [av'|] eqn:Eav; [|reflexivity].
      destruct (abs_f n2 (f_ty a) (f_params a) av') as [xx|] eqn:Exx; [|discriminate].
      unfold choice_ok in Hco. apply andb_true_iff in Hco. destruct Hco as [Hno Hco].
      destruct (p_valueUB p) as [u|] eqn:Eu; [|discriminate]. bools.
      assert (Eop : p_openType p = false) by (destruct (p_openType p); [discriminate|reflexivity]). rewrite Eop in *.
      injection Ha as <-. cbn [t2a] in Hx. rewrite Ech, Eop, Eu in Hx. normty.
      assert (Htl : length (tl fs) = (length fs - 1)%nat) by (destruct fs; cbn [tl length]; lia).
      assert (Hcond : ((u + 1 =? Z.of_nat (length (tl fs))) && (0 <? u + 1))%Z = true) by lia. rewrite Hcond in Hx.
      cbn [x691] in Hx. rewrite map_length in Hx.
      match type of Hx with match nth_error ?LL ?KK with _ => _ end = _ =>
        assert (Hnth : nth_error LL KK = Some (t2a n1 (f_ty a) (f_params a))) end.
      { rewrite nth_error_map, nth_error_tl. replace (S (N.to_nat (Z.to_N (present - 1)))) with (Z.to_nat present) by lia.
        normty. rewrite Ea. reflexivity. }
      rewrite Hnth in Hx.
      match type of Hx with (dox ib <- ?EE; _) = _ => destruct EE as [ib| |] end; cbn [xbind] in Hx; try discriminate.
      destruct (x691 (t2a n1 (f_ty a) (f_params a)) xx _) as [eb| |] eqn:Eeb; cbn [xbind] in Hx; try discriminate.
      pose proof (fdepth_nth _ _ _ Ea) as Hda.
      eapply (IH (f_ty a) ltac:(lia) n1 n2 n4); eauto; lia.
    + (* SEQUENCE *)
      apply andb_true_iff in Hs. destruct Hs as [Hcnt Hs]. rewrite Hcnt. cbn [andb].
      change (match all_some (map (habs n2) (combine fs l)) with Some cs => Some (AVSeq cs) | None => None end = Some av) in Ha.
      destruct (all_some (map (habs n2) (combine fs l))) as [cs|] eqn:Ecs; [|discriminate]. injection Ha as <-.
      rewrite t2a_seq in Hx by exact Ech. rewrite x691_seq in Hx.
      match type of Hx with (if negb ?c then _ else _) = _ => destruct c end; cbn [negb] in Hx; [|discriminate].
      eapply (fields_ok n IH fs l cs n1 n2 n4 pos); eauto; try lia.
Qed.

Theorem supr_ok t p v av at' b pos :
  tags_to_asn1 t p = Some at' -> abs t p v = Some av -> supr t p v = true -> x691 at' av pos = XOk b -> sup t p v = true.
Proof.
  intros Ht Ha Hs Hx. unfold tags_to_asn1 in Ht.
  assert (Hat : t2a (S (ty_depth t)) t p = at') by (destruct (t2a (S (ty_depth t)) t p); congruence). subst at'.
  eapply (supr_ok_all (ty_depth t) t (le_n _) (S (ty_depth t)) (S (ty_depth t)) (S (ty_depth t))); eauto.
Qed.
