From Coq Require Import List String Bool Arith ZArith Lia.
Require Import DriverTypes DriverConv Lifecycle MainWiring.
Import ListNotations.
Open Scope string_scope.

(* ---- min-trees of configuration fields *)
Lemma eval_le_leaves c b : forall n l, eval_bound c b = Some n -> bound_leaves b = Some l ->
  (forall f, In f l -> (n <= cfg_get c f)%Z) /\ (exists f, In f l /\ n = cfg_get c f).
Proof.
  induction b as [f|x IHx y IHy|s|s]; intros n l He Hl; cbn [eval_bound bound_leaves] in *; try discriminate.
  - injection He as <-. injection Hl as <-. split.
    + intros g [<-|[]]. lia.
    + exists f. split; [left; reflexivity | reflexivity].
  - destruct (eval_bound c x) as [a|]; [|discriminate]. destruct (eval_bound c y) as [d|]; [|discriminate].
    destruct (bound_leaves x) as [lx|]; [|discriminate]. destruct (bound_leaves y) as [ly|]; [|discriminate].
    injection He as <-. injection Hl as <-.
    destruct (IHx a lx eq_refl eq_refl) as [X1 [fx [Fx Ex]]]. destruct (IHy d ly eq_refl eq_refl) as [Y1 [fy [Fy Ey]]].
    split.
    + intros g Hg. apply in_app_or in Hg. destruct Hg as [Hg|Hg]; [specialize (X1 g Hg) | specialize (Y1 g Hg)]; lia.
    + destruct (Z.min_spec a d) as [[_ ->]|[_ ->]]; [exists fx | exists fy]; (split; [apply in_or_app; auto | assumption]).
Qed.

Lemma bound_le_sound c b1 b2 n1 n2 :
  bound_le b1 b2 = true -> eval_bound c b1 = Some n1 -> eval_bound c b2 = Some n2 -> (n1 <= n2)%Z.
Proof.
  unfold bound_le. intros H E1 E2.
  destruct (bound_leaves b1) as [l1|] eqn:L1; [|discriminate]. destruct (bound_leaves b2) as [l2|] eqn:L2; [|discriminate].
  destruct (eval_le_leaves c b1 n1 l1 E1 L1) as [A _]. destruct (eval_le_leaves c b2 n2 l2 E2 L2) as [_ [f [Hf ->]]].
  rewrite forallb_forall in H. specialize (H f Hf). apply existsb_exists in H. destruct H as [g [Hg Heq]].
  apply String.eqb_eq in Heq. subst g. apply A, Hg.
Qed.

(* ---- membership in the schedule *)
Lemma in_indexed procs p i : forall n k, In (p, i) (indexed n k procs) <-> In p procs /\ k <= i < k + n.
Proof.
  induction n as [|n IH]; intro k; cbn [indexed].
  - split; [contradiction | lia].
  - rewrite in_app_iff, IH. rewrite in_map_iff. split.
    + intros [[q [Hq Hin]]|[Hp Hr]]; [injection Hq as -> ->; split; [assumption | lia] | split; [assumption | lia]].
    + intros [Hp Hr]. destruct (Nat.eq_dec i k) as [->|Hne]; [left; exists p; auto | right; split; [assumption | lia]].
Qed.

Lemma in_schedule w c p i :
  In (p, i) (schedule w c) <->
  exists b cs n, In (Loop b cs) w /\ In p (map c_proc cs) /\ eval_bound c b = Some n /\ (Z.of_nat i < n)%Z.
Proof.
  unfold schedule. rewrite in_flat_map. split.
  - intros [s [Hs Hin]]. destruct s as [cs|b cs]; cbn [schedule_of_step] in Hin; [contradiction|].
    destruct (eval_bound c b) as [n|] eqn:E; [|contradiction].
    apply in_indexed in Hin. destruct Hin as [Hp Hr]. exists b, cs, n. repeat split; try assumption. lia.
  - intros [b [cs [n [Hs [Hp [E Hr]]]]]]. exists (Loop b cs). split; [assumption|]. cbn [schedule_of_step]. rewrite E.
    apply in_indexed. split; [assumption | lia].
Qed.

(* each per-UE procedure is run by exactly one loop *)
Definition loops_with (w:list step) (p:string) : list step :=
  filter (fun s => match s with Loop _ cs => existsb (fun c => String.eqb (c_proc c) p) cs | _ => false end) w.
Definition unique_loops (w:list step) : bool :=
  forallb (fun p => Nat.eqb (List.length (loops_with w p)) 1)
          ["stgutg.RegisterUE"; "stgutg.EstablishPDU"; "stgutg.ServiceRequest"; "stgutg.ReleasePDU"; "stgutg.DeregisterUE"].

Lemma existsb_proc cs p : existsb (fun c => String.eqb (c_proc c) p) cs = true <-> In p (map c_proc cs).
Proof.
  rewrite existsb_exists, in_map_iff. split.
  - intros [c [Hc He]]. apply String.eqb_eq in He. exists c. auto.
  - intros [c [He Hc]]. exists c. split; [assumption | apply String.eqb_eq; assumption].
Qed.

Lemma loop_bound_unique w p b cs :
  List.length (loops_with w p) = 1 -> In (Loop b cs) w -> In p (map c_proc cs) -> loop_bound w p = Some b.
Proof.
  unfold loop_bound, loops_with. intros Hu Hin Hp.
  set (f := fun s => match s with Loop _ cs0 => existsb (fun c => String.eqb (c_proc c) p) cs0 | _ => false end) in *.
  assert (Hf : f (Loop b cs) = true) by (apply existsb_proc; assumption).
  assert (Hm : In (Loop b cs) (filter f w)) by (apply filter_In; auto).
  destruct (filter f w) as [|s [|s' r]] eqn:Ef; try discriminate Hu. destruct Hm as [->|[]].
  (* find returns the first element of the filter *)
  assert (Hfind : forall l, filter f l = [Loop b cs] -> find f l = Some (Loop b cs)).
  { induction l as [|a l IHl]; cbn [filter find]; [discriminate|]. destruct (f a) eqn:Fa.
    - intro H. injection H as -> _. reflexivity.
    - apply IHl. }
  rewrite (Hfind w Ef). reflexivity.
Qed.

Theorem prerequisite_scheduled w :
  clamps_ok w = true -> unique_loops w = true ->
  forall c p q i, prerequisite p = Some q -> In (p, i) (schedule w c) -> In (q, i) (schedule w c).
Proof.
  intros Hc Hu c p q i Hpq Hin.
  assert (Hp5 : In p ["stgutg.EstablishPDU"; "stgutg.ServiceRequest"; "stgutg.ReleasePDU"; "stgutg.DeregisterUE"]).
  { unfold prerequisite in Hpq. cbn [In].
    destruct (String.eqb p "stgutg.EstablishPDU") eqn:E1; [apply String.eqb_eq in E1; auto|].
    destruct (String.eqb p "stgutg.ServiceRequest") eqn:E2; [apply String.eqb_eq in E2; auto|].
    destruct (String.eqb p "stgutg.ReleasePDU") eqn:E3; [apply String.eqb_eq in E3; auto|].
    destruct (String.eqb p "stgutg.DeregisterUE") eqn:E4; [apply String.eqb_eq in E4; auto 6 | discriminate]. }
  unfold clamps_ok in Hc. rewrite forallb_forall in Hc. specialize (Hc p Hp5). unfold clamp_ok in Hc. rewrite Hpq in Hc.
  destruct (loop_bound w p) as [bp|] eqn:Lp; [|discriminate]. destruct (loop_bound w q) as [bq|] eqn:Lq; [|discriminate].
  apply andb_true_iff in Hc. destruct Hc as [Hle _].
  apply in_schedule in Hin. destruct Hin as [b [cs [n [Hs [Hp [E Hr]]]]]].
  (* the loop that ran p is the one loop_bound names *)
  assert (Hup : List.length (loops_with w p) = 1).
  { unfold unique_loops in Hu. rewrite forallb_forall in Hu. apply Nat.eqb_eq, Hu. cbn [In] in *. intuition. }
  rewrite (loop_bound_unique w p b cs Hup Hs Hp) in Lp. injection Lp as ->.
  (* the loop of q *)
  unfold loop_bound in Lq.
  destruct (find (fun s => match s with Loop _ cs0 => existsb (fun c0 => String.eqb (c_proc c0) q) cs0 | _ => false end) w) as [[cs'|b' cs']|] eqn:F; try discriminate.
  injection Lq as ->. apply find_some in F. destruct F as [Hs' Hq']. apply existsb_proc in Hq'.
  (* its bound evaluates (same configuration fields) and is at least n *)
  assert (Hev : exists m, eval_bound c bq = Some m).
  { unfold bound_le in Hle. destruct (bound_leaves bp); [|discriminate]. destruct (bound_leaves bq) as [lq|] eqn:Lb; [|discriminate].
    clear - Lb. revert lq Lb. induction bq as [f|x IHx y IHy|s|s]; intros lq Lb; cbn [bound_leaves eval_bound] in *; try discriminate.
    - eexists; reflexivity.
    - destruct (bound_leaves x) as [lx|]; [|discriminate]. destruct (bound_leaves y) as [ly|]; [|discriminate].
      destruct (IHx lx eq_refl) as [a ->]. destruct (IHy ly eq_refl) as [d ->]. eexists; reflexivity. }
  destruct Hev as [m Em]. pose proof (bound_le_sound c bp bq n m Hle E Em) as Hnm.
  apply in_schedule. exists bq, cs', m. repeat split; try assumption. lia.
Qed.

(* reflective facts about the regenerated wiring *)
Lemma wiring_clamps_ok : clamps_ok wiring_mode2 = true /\ unique_loops wiring_mode2 = true.
Proof. vm_compute. split; reflexivity. Qed.

(* ---- session identity *)
Lemma session_id_consistent v : (0 <= v)%Z ->
  (ngap_session_id v = Some (nas_session_id v) <-> (v mod 10000 <= 255)%Z).
Proof.
  intro Hv. unfold ngap_session_id, nas_session_id, pdu_id.
  destruct (v mod 10000 <=? 255)%Z eqn:E.
  - apply Z.leb_le in E. split; [intros _; exact E | intros _; f_equal; symmetry; apply Z.mod_small; pose proof (Z.mod_pos_bound v 10000); lia].
  - apply Z.leb_gt in E. split; [discriminate | lia].
Qed.

(* ---- uplink NAS COUNT is never used twice under one key *)
Require Import NArith Count NasSec RefNasPeer NasSecProofs.
Local Open Scope N_scope.

Lemma NoDup_map_seq (f:nat -> N) : forall n a,
  (forall i j, (a <= i < a + n)%nat -> (a <= j < a + n)%nat -> f i = f j -> i = j) -> NoDup (map f (seq a n)).
Proof.
  induction n as [|n IH]; intros a Hinj; cbn [seq map]; [constructor|]. constructor.
  - intro Hin. apply in_map_iff in Hin. destruct Hin as [j [Hf Hj]]. apply in_seq in Hj.
    assert (j = a) by (apply Hinj; try lia; exact Hf). lia.
  - apply IH. intros i j Hi Hj. apply Hinj; lia.
Qed.

Theorem counts_never_reused (rest:list bool) next :
  Forall (fun b => b = false) rest -> N.of_nat (S (List.length rest)) <= 16777216 ->
  NoDup (ul_counts next (true :: rest)).
Proof.
  intros Hf Hlen. change (true :: rest) with (List.app (@nil bool) (true :: rest)). rewrite (ul_counts_since_reset [] rest next Hf). cbn [ul_counts app].
  apply NoDup_map_seq. intros i j Hi Hj Heq.
  rewrite !N.mod_small in Heq by lia. lia.
Qed.
