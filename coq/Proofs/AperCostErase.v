(* C14, time bound, part 1: the step-counting decoder (Model/AperDecCost.v) is the decoder model (Model/AperDec.v) with a
   counter attached: dropping the counter gives the same result and the same cursor, for all inputs and all fuel. *)
From Coq Require Import NArith ZArith List Bool String.
Require Import GoSlice AperCommon AperEnc AperDec AperDecCost.
Import ListNotations.
Open Scope N_scope.

Lemma cbind_erase {A B} (rc : cres A) (fc : A -> dst -> cres B) (r : sres A) (f : A -> dst -> sres B) :
  fst rc = r -> (forall a s, fst (fc a s) = f a s) -> fst (cbind rc fc) = sbind r f.
Proof.
  intros <- Hf. destruct rc as [[[a|e|q|] s] n]; cbn [cbind sbind fst]; try reflexivity.
  rewrite <- Hf. destruct (fc a s). reflexivity.
Qed.

Lemma ctick_fst {A} k (r : cres A) : fst (ctick k r) = fst r.
Proof. reflexivity. Qed.

Ltac erase_step :=
  match goal with
  | |- fst (cbind _ _) = sbind _ _ => apply cbind_erase; [|intros ? ?]
  | |- fst (ctick _ _) = _ => rewrite ctick_fst
  | |- fst (cpure _) = _ => reflexivity
  | |- fst (if ?c then _ else _) = _ => destruct c
  | |- fst (let '(_, _) := ?x in _) = _ => destruct x
  | |- fst (match ?x with _ => _ end) = _ => destruct x
  | |- _ => reflexivity
  end.
Ltac erase := repeat erase_step.

Lemma getBitsValueC_erase s n : fst (getBitsValueC s n) = getBitsValue s n.
Proof. reflexivity. Qed.
Lemma getBitStringC_erase s n : fst (getBitStringC s n) = getBitString s n.
Proof. reflexivity. Qed.

Lemma parseAlignBitsC_erase s : fst (parseAlignBitsC s) = parseAlignBits s.
Proof. unfold parseAlignBitsC, parseAlignBits. erase. Qed.

Lemma parseConstraintValueC_erase s r : fst (parseConstraintValueC s r) = parseConstraintValue s r.
Proof. unfold parseConstraintValueC, parseConstraintValue. erase. apply parseAlignBitsC_erase. Qed.

Lemma parseLengthC_erase s r : fst (parseLengthC s r) = parseLength s r.
Proof.
  unfold parseLengthC, parseLength. erase; try apply parseConstraintValueC_erase; try apply parseAlignBitsC_erase.
Qed.

Lemma bits_dec_loopC_erase sr lb : forall fuel s acc accLen,
  fst (bits_dec_loopC fuel s sr lb acc accLen) = bits_dec_loop fuel s sr lb acc accLen.
Proof.
  induction fuel as [|f IH]; intros s acc accLen; cbn [bits_dec_loopC bits_dec_loop]; [reflexivity|].
  erase; try apply parseLengthC_erase; try apply parseAlignBitsC_erase. apply IH.
Qed.

Lemma parseBitStringC_erase s ext lbp ubp : fst (parseBitStringC s ext lbp ubp) = parseBitString s ext lbp ubp.
Proof.
  unfold parseBitStringC, parseBitString. destruct (dec_size_bounds ext lbp ubp) as [[lb ub] sr].
  erase; try apply parseAlignBitsC_erase. apply bits_dec_loopC_erase.
Qed.

Lemma oct_dec_loopC_erase sr lb : forall fuel s acc,
  fst (oct_dec_loopC fuel s sr lb acc) = oct_dec_loop fuel s sr lb acc.
Proof.
  induction fuel as [|f IH]; intros s acc; cbn [oct_dec_loopC oct_dec_loop]; [reflexivity|].
  erase; try apply parseLengthC_erase; try apply parseAlignBitsC_erase. apply IH.
Qed.

Lemma parseOctetStringC_erase s ext lbp ubp : fst (parseOctetStringC s ext lbp ubp) = parseOctetString s ext lbp ubp.
Proof.
  unfold parseOctetStringC, parseOctetString. destruct (dec_size_bounds ext lbp ubp) as [[lb ub] sr].
  erase; try apply parseAlignBitsC_erase. apply oct_dec_loopC_erase.
Qed.

Lemma parseBoolC_erase s : fst (parseBoolC s) = parseBool s.
Proof. unfold parseBoolC, parseBool. erase. Qed.

Lemma parseIntegerC_erase s ext lbp ubp : fst (parseIntegerC s ext lbp ubp) = parseInteger s ext lbp ubp.
Proof.
  unfold parseIntegerC, parseInteger.
  destruct (if ext then (0, -1, -1)%Z else match lbp with None => (0, -1, -1)%Z | Some l => match ubp with Some u => (l, u, i64 (u - l + 1)) | None => (l, (-1)%Z, 0%Z) end end) as [[lb ub] vr].
  erase; try apply parseConstraintValueC_erase; try apply parseAlignBitsC_erase.
Qed.

Lemma parseEnumeratedC_erase s ext lbp ubp : fst (parseEnumeratedC s ext lbp ubp) = parseEnumerated s ext lbp ubp.
Proof. unfold parseEnumeratedC, parseEnumerated. erase. apply parseConstraintValueC_erase. Qed.

Lemma getChoiceIndexC_erase s ext ubp : fst (getChoiceIndexC s ext ubp) = getChoiceIndex s ext ubp.
Proof. unfold getChoiceIndexC, getChoiceIndex. erase. apply parseConstraintValueC_erase. Qed.

Lemma open_dec_loopC_erase : forall fuel s acc, fst (open_dec_loopC fuel s acc) = open_dec_loop fuel s acc.
Proof.
  induction fuel as [|f IH]; intros s acc; cbn [open_dec_loopC open_dec_loop]; [reflexivity|].
  erase; try apply parseLengthC_erase; try apply parseAlignBitsC_erase. apply IH.
Qed.

(* a fragment marker announces at least 16384 units *)
Lemma parseLength_repeat s r v s' : parseLength s r = (Ok (v, true), s') -> 16384 <= v.
Proof.
  unfold parseLength. destruct ((r <=? 65536) && (0 <? r))%Z.
  - destruct (parseConstraintValue s r) as [[x|e|q|] s1]; cbn [sbind]; intros E; inversion E.
  - destruct (parseAlignBits s) as [[x|e|q|] s1]; cbn [sbind]; try (intros E; discriminate E).
    destruct (getBitsValue s1 8) as [[fb|e|q|] s2]; cbn [sbind]; try (intros E; discriminate E).
    destruct (N.land fb 128 =? 0); [intros E; inversion E|].
    destruct (N.land fb 64 =? 0).
    { destruct (getBitsValue s2 8) as [[sb|e|q|] s3]; cbn [sbind]; intros E; inversion E. }
    destruct ((N.land fb 63 <? 1) || (4 <? N.land fb 63)) eqn:E4; [intros E; discriminate E|].
    intros E. assert (Hv : v = 16384 * N.land fb 63) by congruence. subst v. clear E.
    apply Bool.orb_false_iff in E4 as (E1 & _). apply N.ltb_ge in E1.
    rewrite <- (N.mul_1_r 16384) at 1. apply N.mul_le_mono_l. exact E1.
Qed.

(* ---- parseField level: the result component (value and cursor, or error / panic / out of fuel) *)
Lemma abind_erase {A B} (rc r : ares A) (fc f : A -> ares B) :
  fst rc = fst r -> (forall a, fst (fc a) = fst (f a)) -> fst (abind rc fc) = fst (abind r f).
Proof.
  destruct rc as [[a|e|q|] n], r as [[a'|e'|q'|] n']; cbn [fst abind]; intros E Hf; try discriminate; try (injection E as <-; reflexivity); try reflexivity.
  injection E as <-. specialize (Hf a). destruct (fc a), (f a). exact Hf.
Qed.

Lemma clift_erase {A} (rc : cres A) (r : sres A) : fst rc = r -> fst (clift rc) = fst (alift r).
Proof. intros <-. destruct rc as [[[a|e|q|] s] n]; reflexivity. Qed.

Lemma atick_fst {A} k (r : ares A) : fst (atick k r) = fst r.
Proof. reflexivity. Qed.

Lemma ext_bit_erase (b : bool) s :
  fst (if b then clift (doc (b, s) <- getBitsValueC s 1; cpure (Ok (negb (b =? 0)), s)) else aret (false, s)) =
  fst (if b then alift (dos (b, s) <- getBitsValue s 1; (Ok (negb (b =? 0)), s)) else aret (false, s)).
Proof. destruct b; [|reflexivity]. apply clift_erase. erase. Qed.

Lemma ref_paramsC_erase allf vals i fp :
  fst (ref_paramsC allf vals i fp) =
  fst (if p_openType fp then
         let index := find_field (p_refName fp) allf i 0 in
         if Nat.eqb index i then aerr E_OPEN_NOFIELD
         else match nth_error allf index, nth_error vals index with
              | Some rf, Some rv => (match get_ref REF_FUEL (f_ty rf) rv with
                                     | Ok z => aret (set_ref fp (Some z))
                                     | Err e => aerr e | Panic q => (Panic q, 0) | OutOfFuel => (OutOfFuel, 0) end)
              | _, _ => (Panic P_ILLTYPED, 0)
              end
       else aret fp).
Proof.
  unfold ref_paramsC. destruct (p_openType fp); [|reflexivity]. cbv zeta. rewrite atick_fst.
  destruct (Nat.eqb _ i); [reflexivity|].
  destruct (nth_error allf _); [|reflexivity]. destruct (nth_error vals _); [|reflexivity].
  rewrite atick_fst. reflexivity.
Qed.

Section RecE.
  Variable recC rec : ty -> params -> dst -> ares (val * dst).
  Hypothesis Hrec : forall t p s, fst (recC t p s) = fst (rec t p s).

  Lemma seqof_elemsC_erase e p' : forall n acc s,
    fst (seqof_elemsC recC e p' n acc s) =
    fst ((fix elems (n : nat) (acc : list val) (s : dst) : ares (val * dst) :=
            match n with
            | O => aret (VList (rev acc), s)
            | S k => doa (v, s') <- rec e p' s; elems k (v :: acc) s'
            end) n acc s).
  Proof.
    induction n as [|n IH]; intros acc s; [reflexivity|].
    cbn [seqof_elemsC]. rewrite atick_fst. apply abind_erase; [apply Hrec|].
    intros [v s']. apply IH.
  Qed.

  Lemma decSequenceOfC_erase e p ext s : fst (decSequenceOfC recC e p ext s) = fst (decSequenceOf rec e p ext s).
  Proof.
    unfold decSequenceOfC, decSequenceOf. cbv zeta.
    apply abind_erase.
    - match goal with |- fst (if ?c then _ else _) = _ => destruct c end.
      + rewrite <- parseConstraintValueC_erase. destruct (parseConstraintValueC s _) as [[[n|e'|q|] s'] c]; reflexivity.
      + match goal with |- fst (if ?c then _ else _) = _ => destruct c end; [reflexivity|].
        apply clift_erase. erase. apply parseAlignBitsC_erase.
    - intros [n s']. destruct (i64n n <? 0)%Z; [reflexivity|].
      unfold abind at 1. cbv beta iota.
      match goal with |- _ = fst (let '(r', m) := ?g in _) => destruct g as [r' m] eqn:Eg end.
      cbn [fst]. pose proof (seqof_elemsC_erase e (clear_size p) (Z.to_nat (i64n n)) [] s') as H.
      rewrite Eg in H. exact H.
  Qed.

  Lemma parseOpenTypeC_erase t p s : fst (parseOpenTypeC recC t p s) = fst (parseOpenType rec t p s).
  Proof.
    unfold parseOpenTypeC, parseOpenType. apply abind_erase; [apply clift_erase, open_dec_loopC_erase|].
    intros [bytes s']. apply abind_erase; [apply Hrec|]. intros [v s'']. reflexivity.
  Qed.

  Lemma dec_seq_loopC_erase allf : forall fs i cnt pres vals s,
    fst (dec_seq_loopC recC allf fs i cnt pres vals s) = fst (dec_seq_loop rec allf fs i cnt pres vals s).
  Proof.
    induction fs as [|f fr IH]; intros i cnt pres vals s; [reflexivity|].
    cbn [dec_seq_loopC dec_seq_loop]. rewrite atick_fst. cbv zeta.
    match goal with |- fst (if ?c then _ else _) = _ => destruct c end; [apply IH|].
    apply abind_erase; [apply ref_paramsC_erase|]. intros fp'.
    apply abind_erase; [apply Hrec|]. intros [v s']. apply IH.
  Qed.

  Lemma decStructC_erase fs p ext s : fst (decStructC recC fs p ext s) = fst (decStruct rec fs p ext s).
  Proof.
    unfold decStructC, decStruct. cbv zeta. rewrite atick_fst.
    apply abind_erase.
    { destruct (0 <? count_optional fs); [|reflexivity]. apply clift_erase. reflexivity. }
    intros [pres s1].
    destruct (is_choice fs); [|apply dec_seq_loopC_erase].
    destruct (p_openType p).
    - destruct (p_refValue p) as [refValue|]; [|reflexivity]. rewrite atick_fst.
      destruct (Nat.eqb _ 0); [reflexivity|]. destruct (nth_error fs _) as [f|]; [|reflexivity].
      apply abind_erase; [apply parseOpenTypeC_erase|]. intros [v s']. reflexivity.
    - rewrite <- getChoiceIndexC_erase.
      destruct (getChoiceIndexC s1 ext (p_valueUB p)) as [[[present|e|q|] s2] c]; cbn [fst]; try reflexivity.
      rewrite atick_fst.
      destruct (present =? 0)%Z; [reflexivity|]. destruct (present >=? _)%Z; [reflexivity|].
      destruct (present <? 0)%Z; [reflexivity|]. destruct (nth_error fs _) as [f|]; [|reflexivity].
      apply abind_erase; [apply Hrec|]. intros [v s']. reflexivity.
  Qed.
End RecE.

Theorem parseFieldC_erase : forall fuel t p s, fst (parseFieldC fuel t p s) = fst (parseField fuel t p s).
Proof.
  induction fuel as [|f IH]; intros t p s; [reflexivity|].
  cbn [parseFieldC parseField]. rewrite atick_fst.
  destruct (d_byteOffset s =? len (d_bytes s)); [reflexivity|].
  destruct t;
    try (apply abind_erase; [apply ext_bit_erase|]; intros [x s1];
         apply abind_erase; [apply ext_bit_erase|]; intros [y s2]).
  - apply abind_erase; [apply clift_erase, parseIntegerC_erase|]. intros [z s3]. reflexivity.
  - apply abind_erase; [apply clift_erase, parseEnumeratedC_erase|]. intros [z s3]. reflexivity.
  - apply abind_erase; [apply clift_erase, parseBoolC_erase|]. intros [z s3]. reflexivity.
  - apply abind_erase; [apply clift_erase, parseBitStringC_erase|]. intros [[bs n] s3]. reflexivity.
  - apply abind_erase; [apply clift_erase, parseOctetStringC_erase|]. intros [z s3]. reflexivity.
  - apply abind_erase; [apply clift_erase, parseOctetStringC_erase|]. intros [z s3]. reflexivity.
  - reflexivity.
  - apply decSequenceOfC_erase. exact (IH).
  - apply abind_erase; [apply IH|]. intros [v s']. reflexivity.
  - apply decStructC_erase. exact (IH).
Qed.

(* UnmarshalWithParams: the step-counting run returns what the model returns *)
Theorem unmarshal_costed_result fuel t p bs :
  fst (unmarshal_costed fuel t p bs) = fst (unmarshal_full fuel t p bs).
Proof. apply parseFieldC_erase. Qed.

Theorem unmarshal_costed_unmarshal fuel t p bs :
  match fst (unmarshal_costed fuel t p bs) with
  | Ok (v, _) => Ok v | Err e => Err e | Panic q => Panic q | OutOfFuel => OutOfFuel
  end = unmarshal fuel t p bs.
Proof. unfold unmarshal. rewrite unmarshal_costed_result. reflexivity. Qed.
