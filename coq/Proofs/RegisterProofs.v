(* C01: composition of the models of CreateUE (C16), EncodeSuci (C11), DeriveRESstarAndSetKey (C05) and NASEncode (C06)
   against the reference AMF checker (Spec/RefAMF.v). *)
From Coq Require Import NArith ZArith List Bool Lia.
From Coq Require Import ZifyN ZifyNat ZifyBool.
Require Import Bytes Dec DecProofs CreateUE CreateUEProofs SuciEnc Suci SuciProofs RanUe RanUeProofs Count NasSec NasSecProofs
               RefNasPeer TS33501 TS35206 Register RefAMF.
Import ListNotations.
Open Scope N_scope.
Ltac Zify.zify_post_hook ::= Z.div_mod_to_equations.

Lemma eqb_l_refl l : eqb_l l l = true.
Proof. induction l as [|x l IH]; [reflexivity|]. cbn [eqb_l]. rewrite N.eqb_refl, IH. reflexivity. Qed.

Lemma ascii_digits_are_digits d : digits_ok d = true -> forallb RanUe.is_digit (to_ascii d) = true.
Proof.
  induction d as [|x d IH]; intro Hd; [reflexivity|].
  cbn [digits_ok forallb] in Hd. apply andb_true_iff in Hd. destruct Hd as [Hx Hd]. unfold Dec.is_digit in Hx.
  cbn [to_ascii map forallb]. fold (to_ascii d). rewrite (IH Hd). unfold RanUe.is_digit. 
  replace ((48 <=? 48 + x) && (48 + x <=? 57)) with true by lia. reflexivity.
Qed.

Lemma mobile_identity_found buf tail b3 :
  N.of_nat (length buf) < 65536 ->
  mobile_identity_of REGISTRATION_REQUEST ([126; 0; 65; b3] ++ Register.len2 buf ++ buf ++ tail) = Some buf.
Proof.
  intro Hl. unfold Register.len2, mobile_identity_of, REGISTRATION_REQUEST. cbn [app].
  replace (65 =? 65) with true by reflexivity.
  assert (Hbe : be16 (N.of_nat (length buf) / 256) (N.of_nat (length buf) mod 256) = N.of_nat (length buf)) by (unfold be16; lia).
  rewrite Hbe. rewrite app_length.
  replace (N.of_nat (length buf) <=? N.of_nat (length buf + length tail)) with true by lia.
  cbn [andb]. rewrite Nat2N.id. f_equal.
  clear. induction buf as [|x buf IH]; [destruct tail; reflexivity|]. cbn [length app firstn]. f_equal. apply IH.
Qed.

Lemma msin_octets_length : forall l, (length (msin_octets l) <= length l)%nat.
Proof. induction l as [|a | a b r IHr] using SuciProofs.pair_ind; cbn [msin_octets length]; lia. Qed.
Lemma encode_suci_length l n buf : encode_suci l n = Some buf -> (length buf <= 8 + length l)%nat.
Proof.
  unfold encode_suci. intro Hb.
  destruct (Nat.ltb 2 n).
  - destruct (Nat.ltb (length l) 6); [discriminate|].
    pose proof (msin_octets_length (skipn 6 l)) as M. rewrite skipn_length in M.
    set (t := msin_octets (skipn 6 l)) in *. apply (f_equal (fun o => match o with Some b => length b | None => O end)) in Hb.
    cbn [app length] in Hb. lia.
  - destruct (Nat.ltb (length l) 5); [discriminate|].
    pose proof (msin_octets_length (skipn 5 l)) as M. rewrite skipn_length in M.
    set (t := msin_octets (skipn 5 l)) in *. apply (f_equal (fun o => match o with Some b => length b | None => O end)) in Hb.
    cbn [app length] in Hb. lia.
Qed.

Section Composition.
Variable E : bytes -> bytes -> bytes.
Variable H : bytes -> bytes -> bytes.
Variable enc mac : N -> list N -> N -> N -> N -> list N -> option (list N).
Hypothesis E_len : forall k x, length (E k x) = 16%nat.
Hypothesis H_len : forall k x, length (H k x) = 32%nat.
(* what the composition needs of the NAS algorithms, only for the ones CreateUE selects (5G-EA0, 128-5G-IA2) and only for
   16-octet keys: a 4-octet MAC, ciphering is an involution, both are defined.  Proofs/RegisterGo.v discharges them for
   Model/Security.v's algorithms (C07). *)
Hypothesis mac_len4 : forall k c d m t, mac 2 k c 1 d m = Some t -> length t = 4%nat.
Hypothesis enc_inv : forall k c d p q, enc 0 k c 1 d p = Some q -> enc 0 k c 1 d q = Some p.
Hypothesis protect_defined : forall kenc kint c hdr p, length kenc = 16%nat -> length kint = 16%nat ->
  protect enc mac (mk_ctx 0 2 kenc kint) UPLINK c hdr p <> None.

Lemma protected_accepted ctx c hdr plain pkt mt rest :
  c_ea ctx = 0 -> c_ia ctx = 2 -> c < 16777216 -> 1 <= hdr -> hdr <= 4 -> plain = 126 :: 0 :: mt :: rest ->
  protect enc mac ctx UPLINK c hdr plain = Some pkt ->
  protected_ok enc mac ctx c hdr mt pkt = Some ((c + 1) mod 16777216).
Proof.
  intros Hea Hia Hc H1 H4 Hpl Hp. unfold protected_ok.
  assert (ML : forall c d m t, mac (c_ia ctx) (c_kint ctx) c 1 d m = Some t -> length t = 4%nat)
    by (rewrite Hia; intros; eapply mac_len4; eassumption).
  assert (EI : forall c d p q, True -> enc (c_ea ctx) (c_kenc ctx) c 1 d p = Some q -> enc (c_ea ctx) (c_kenc ctx) c 1 d q = Some p)
    by (rewrite Hea; intros; eapply enc_inv; eassumption).
  pose proof (receive_protect enc mac ctx (fun _ => True) ML EI UPLINK c hdr plain pkt Hc H1 H4 I Hp) as R.
  unfold ul_receive. rewrite R.
  (* layout of pkt *)
  unfold protect in Hp.
  destruct (if hdr_ciphered hdr then enc (c_ea ctx) (c_kenc ctx) c BEARER_3GPP UPLINK plain else Some plain) as [body|]; [|discriminate].
  destruct (mac (c_ia ctx) (c_kint ctx) c BEARER_3GPP UPLINK (c mod 256 :: body)) as [m|] eqn:Hm; [|discriminate].
  pose proof (ML _ _ _ _ Hm) as Hl.
  destruct m as [|m1 [|m2 [|m3 [|m4 [|? ?]]]]]; try discriminate Hl.
  injection Hp as <-. cbn [app nth].
  rewrite N.eqb_refl. cbn [negb]. rewrite N.eqb_refl. cbn [negb].
  subst plain. rewrite N.eqb_refl. reflexivity.
Qed.

Theorem registration_accepted mcc mnc msin ks opcs ops k opc idx rand sqn amff :
  digits_ok mcc = true -> digits_ok mnc = true -> digits_ok msin = true ->
  length mcc = 3%nat -> (length mnc = 2%nat \/ length mnc = 3%nat) -> (1 <= length msin)%nat ->
  (length (mcc ++ mnc ++ msin) <= 15)%nat ->
  undec msin + idx < 10 ^ N.of_nat (length msin) ->
  hex_decode ks = Some k -> opcs <> [] -> hex_decode opcs = Some opc -> length k = 16%nat -> length opc = 16%nat ->
  length rand = 16%nat -> length sqn = 6%nat ->
  let g := {| g_imsi := to_ascii (mcc ++ mnc ++ msin); g_mcc := to_ascii mcc; g_mnc := to_ascii mnc; g_k := ks; g_opc := opcs; g_op := ops |} in
  let s := {| sub_mcc := mcc; sub_mnc := mnc; sub_msin := pad0 (length msin) (undec msin + idx); sub_k := k; sub_opc := opc |} in
  let ch := {| ch_rand := rand; ch_sqn := sqn; ch_amf := amff |} in
  exists o, register_ue E H enc mac g idx rand (amf_autn E s ch) = RegOk o
    /\ amf_registration E H enc mac s ch (o_regreq o) (o_authresp o) (o_smc_complete o) (o_reg_complete o) = Registered 2
    /\ o_supi o = ascii_imsi_dash ++ sub_imsi_ascii s
    /\ ul (o_final o) = 2.
Proof.
  intros Hdc Hdn Hdm Lc Ln Lm L15 Hcap Hks Hne Hopc Lk Lo Lr Ls g s ch.
  set (msin' := pad0 (length msin) (undec msin + idx)) in *.
  assert (Hdm' : digits_ok msin' = true) by apply pad0_digits.
  assert (Lm' : length msin' = length msin) by (apply pad0_length; assumption).
  assert (Hpre : digits_ok (mcc ++ mnc) = true) by (rewrite digits_ok_app, Hdc, Hdn; reflexivity).
  (* CreateUE *)
  assert (Hsupi : u_supi (create_ue (g_imsi g) idx) = ascii_imsi_dash ++ to_ascii (mcc ++ mnc ++ msin')).
  { unfold g. cbn [g_imsi]. rewrite (app_assoc mcc mnc msin). rewrite (supi_in_plmn (mcc ++ mnc) msin idx Hpre Hdm Lm Hcap).
    fold msin'. rewrite <- to_ascii_app, <- app_assoc. reflexivity. }
  unfold register_ue. rewrite Hsupi.
  change (skipn 5 (ascii_imsi_dash ++ to_ascii (mcc ++ mnc ++ msin'))) with (to_ascii (mcc ++ mnc ++ msin')).
  (* EncodeSuci *)
  destruct (suci_roundtrip mcc mnc msin' Hdc Hdn Hdm' Lc Ln) as [buf [Hbuf Hdec]].
  unfold g at 1. cbn [g_mnc]. rewrite to_ascii_length. rewrite Hbuf.
  (* key derivation *)
  assert (Hd : forallb RanUe.is_digit (to_ascii (mcc ++ mnc ++ msin')) = true).
  { apply ascii_digits_are_digits. rewrite !digits_ok_app, Hdc, Hdn, Hdm'. reflexivity. }
  assert (Hlen : length (to_ascii (mcc ++ mnc ++ msin')) = length (mcc ++ mnc ++ msin)).
  { rewrite to_ascii_length, !app_length, Lm'. reflexivity. }
  assert (H5 : (5 <= length (to_ascii (mcc ++ mnc ++ msin')))%nat).
  { rewrite Hlen, !app_length, Lc. destruct Ln as [-> | ->]; lia. }
  assert (H15 : (length (to_ascii (mcc ++ mnc ++ msin')) <= 15)%nat) by (rewrite Hlen; exact L15).
  change (u_ea (create_ue (g_imsi g) idx)) with 0. change (u_ia (create_ue (g_imsi g) idx)) with 2.
  unfold g at 1 2 3 4 5. cbn [g_k g_opc g_op g_mnc g_mcc].
  change (amf_autn E s ch) with (autn E k opc rand sqn amff).
  change ascii_imsi_dash with s_imsi_dash.
  rewrite (derive_is_network_sqn E H E_len H_len ks opcs ops k opc rand sqn amff (to_ascii mcc) (to_ascii mnc)
             (to_ascii (mcc ++ mnc ++ msin')) 0 2 Hks Hne Hopc Lk Lo Lr Ls); try assumption;
    try (rewrite to_ascii_length; assumption); try lia.
  unfold ue_of_keys.
  set (keys := network_keys_sqn E H k opc rand sqn (to_ascii mcc) (to_ascii mnc) (to_ascii (mcc ++ mnc ++ msin')) 0 2).
  cbn [ue_res_star ue_knasenc ue_knasint].
  assert (Lke : length (k_nas_enc keys) = 16%nat) by (unfold keys, network_keys_sqn, network_keys, derive, kdf; cbn [k_nas_enc]; rewrite skipn_length, H_len; reflexivity).
  assert (Lki : length (k_nas_int keys) = 16%nat) by (unfold keys, network_keys_sqn, network_keys, derive, kdf; cbn [k_nas_int]; rewrite skipn_length, H_len; reflexivity).
  (* the two protected messages *)
  set (st0 := mk_ue 0 0 0 2 (k_nas_enc keys) (k_nas_int keys)).
  set (cap := sec_cap 0 2).
  set (smc_plain := security_mode_complete (registration_request buf cap true)).
  unfold encode_nas_pdu_with_security at 1. change (w8 4) with 4.
  assert (Wf0 : wf st0) by (unfold wf, st0; cbn [ul dl]; lia).
  rewrite (nas_encode_is_protect enc mac st0 smc_plain 4 true Wf0). cbn zeta.
  change (ul_count_for (ul st0) true) with 0. change (ctx_of st0) with (mk_ctx 0 2 (k_nas_enc keys) (k_nas_int keys)).
  destruct (protect enc mac (mk_ctx 0 2 (k_nas_enc keys) (k_nas_int keys)) UPLINK 0 4 smc_plain) as [pkt1|] eqn:P1;
    [| exfalso; exact (protect_defined _ _ _ _ _ Lke Lki P1)].
  cbn [ea ia kenc kint]. change (ul_next 0) with 1.
  set (st1 := mk_ue 1 0 (ea st0) (ia st0) (kenc st0) (kint st0)).
  unfold encode_nas_pdu_with_security. change (w8 2) with 2.
  assert (Wf1 : wf st1) by (unfold wf, st1; cbn [ul dl]; lia).
  rewrite (nas_encode_is_protect enc mac st1 registration_complete 2 false Wf1). cbn zeta.
  change (ul_count_for (ul st1) false) with 1. change (ctx_of st1) with (mk_ctx 0 2 (k_nas_enc keys) (k_nas_int keys)).
  destruct (protect enc mac (mk_ctx 0 2 (k_nas_enc keys) (k_nas_int keys)) UPLINK 1 2 registration_complete) as [pkt2|] eqn:P2;
    [| exfalso; exact (protect_defined _ _ _ _ _ Lke Lki P2)].
  eexists. split; [reflexivity|]. cbn [o_regreq o_authresp o_smc_complete o_reg_complete o_supi o_final].
  split; [| split; [unfold sub_imsi_ascii, ascii; cbn [sub_mcc sub_mnc sub_msin]; reflexivity | reflexivity]].
  (* the AMF's checks *)
  unfold amf_registration.
  assert (Hid : identifies s (registration_request buf cap false) = true).
  { unfold identifies, registration_request, s. cbn [sub_mcc sub_mnc sub_msin].
    rewrite mobile_identity_found.
    - unfold suci_is. rewrite Hdec. unfold suci_of. cbn [s_mcc s_mnc s_msin s_ri s_scheme s_hnpk]. rewrite !eqb_l_refl. reflexivity.
    - pose proof (encode_suci_length _ _ _ Hbuf) as Hlb. lia. }
  rewrite Hid. cbn [negb].
  assert (Hres : res_matches E H s ch (authentication_response (res_star keys)) = true).
  { unfold res_matches, authentication_response, amf_keys, s, ch, sub_imsi_ascii, ascii. cbn [sub_k sub_opc sub_mcc sub_mnc sub_msin ch_rand ch_sqn].
    fold (to_ascii mcc) (to_ascii mnc) (to_ascii (mcc ++ mnc ++ msin')). fold keys. apply eqb_octets_refl. }
  rewrite Hres. cbn [negb].
  assert (Hctx : amf_ctx E H s ch = mk_ctx 0 2 (k_nas_enc keys) (k_nas_int keys)).
  { unfold amf_ctx, amf_keys, s, ch, sub_imsi_ascii, ascii. cbn [sub_k sub_opc sub_mcc sub_mnc sub_msin ch_rand ch_sqn]. reflexivity. }
  rewrite Hctx.
  rewrite (protected_accepted (mk_ctx 0 2 (k_nas_enc keys) (k_nas_int keys)) 0 4 smc_plain pkt1 SECURITY_MODE_COMPLETE _ eq_refl eq_refl ltac:(lia) ltac:(lia) ltac:(lia) eq_refl P1).
  change ((0 + 1) mod 16777216) with 1.
  rewrite (protected_accepted (mk_ctx 0 2 (k_nas_enc keys) (k_nas_int keys)) 1 2 registration_complete pkt2 REGISTRATION_COMPLETE _ eq_refl eq_refl ltac:(lia) ltac:(lia) ltac:(lia) eq_refl P2).
  reflexivity.
Qed.
End Composition.
