(* The definitional AES-128 of Crypto/AES.v returns 16 octets for every 16-octet key (any block):
   needed to say that CTR keystream covers the whole message when E = aes128. *)
From Coq Require Import NArith List Lia Bool.
Require Import Bytes AES.
Import ListNotations.
Open Scope N_scope.

Definition len4 (w:bytes) : Prop := length w = 4%nat.

Lemma xor_bytes_len a b : length (xor_bytes a b) = Nat.min (length a) (length b).
Proof. revert b; induction a as [|x a IH]; intros [|y b]; cbn [xor_bytes length Nat.min]; try reflexivity. rewrite IH. reflexivity. Qed.

Lemma nth_len4 ws i : Forall len4 ws -> (i < length ws)%nat -> len4 (nth i ws []).
Proof. intros H Hi. rewrite Forall_forall in H. apply H, nth_In, Hi. Qed.

Lemma sub_rot_len w : len4 w -> length (sub_word (rot_word w)) = 4%nat.
Proof.
  unfold len4. intro H. destruct w as [|a [|b [|c [|d [|e w]]]]]; cbn in H; try lia. reflexivity.
Qed.

Lemma expand_inv n : forall i rc ws, i = length ws -> (4 <= i)%nat -> Forall len4 ws ->
  length (expand n i rc ws) = (i + n)%nat /\ Forall len4 (expand n i rc ws).
Proof.
  induction n as [|n IH]; intros i rc ws Hi H4 Hall; cbn [expand]; [split; [lia | exact Hall]|].
  assert (Hp : len4 (nth (i - 1) ws [])) by (apply nth_len4; [exact Hall | lia]).
  assert (Hw : len4 (nth (i - 4) ws [])) by (apply nth_len4; [exact Hall | lia]).
  destruct (Nat.eqb (Nat.modulo i 4) 0).
  - set (t := match sub_word (rot_word (nth (i - 1) ws [])) with [] => [] | x :: r => N.lxor x rc :: r end).
    assert (Ht : length t = 4%nat).
    { unfold t. pose proof (sub_rot_len _ Hp) as H. destruct (sub_word (rot_word (nth (i - 1) ws []))); [cbn in H; lia | exact H]. }
    destruct (IH (S i) (xtime rc) (ws ++ [xor_bytes (nth (i - 4) ws []) t])) as [L F].
    + rewrite app_length. cbn. lia.
    + lia.
    + apply Forall_app. split; [exact Hall|]. constructor; [|constructor]. unfold len4 in *. rewrite xor_bytes_len, Hw, Ht. reflexivity.
    + split; [lia | exact F].
  - destruct (IH (S i) rc (ws ++ [xor_bytes (nth (i - 4) ws []) (nth (i - 1) ws [])])) as [L F].
    + rewrite app_length. cbn. lia.
    + lia.
    + apply Forall_app. split; [exact Hall|]. constructor; [|constructor]. unfold len4 in *. rewrite xor_bytes_len, Hw, Hp. reflexivity.
    + split; [lia | exact F].
Qed.

Lemma concat_len4 l : Forall len4 l -> length (concat l) = (4 * length l)%nat.
Proof.
  induction 1 as [|w l Hw Hl IH]; [reflexivity|]. cbn [concat length]. rewrite app_length, IH. unfold len4 in Hw. lia.
Qed.
Lemma Forall_firstn' {A} (P:A -> Prop) n l : Forall P l -> Forall P (firstn n l).
Proof. intro H. rewrite Forall_forall in *. intros x Hx. apply H. rewrite <- (firstn_skipn n l). apply in_or_app. left. exact Hx. Qed.
Lemma Forall_skipn' {A} (P:A -> Prop) n l : Forall P l -> Forall P (skipn n l).
Proof. intro H. rewrite Forall_forall in *. intros x Hx. apply H. rewrite <- (firstn_skipn n l). apply in_or_app. right. exact Hx. Qed.

Lemma shift_rows_len s : length (shift_rows s) = 16%nat.
Proof. unfold shift_rows. rewrite map_length, seq_length. reflexivity. Qed.

Theorem aes128_length key blk : length key = 16%nat -> length (aes128 key blk) = 16%nat.
Proof.
  intro Hk.
  do 16 (destruct key as [|? key]; [cbn in Hk; lia|]). destruct key; [|cbn in Hk; lia]. clear Hk.
  unfold aes128, key_schedule.
  match goal with |- context [expand 40 4 1 ?c] => set (ws := expand 40 4 1 c) end.
  assert (H : length ws = 44%nat /\ Forall len4 ws).
  { unfold ws. apply (expand_inv 40 4 1).
    - reflexivity.
    - lia.
    - repeat constructor. }
  destruct H as [Hl Hf]. clearbody ws.
  cbn [seq map nth].
  unfold add_round_key. rewrite xor_bytes_len, shift_rows_len.
  rewrite concat_len4 by (apply Forall_firstn', Forall_skipn', Hf).
  rewrite firstn_length, skipn_length, Hl. reflexivity.
Qed.
