(* Reader of BIT STRING (parseBitString) against X.691 clause 16.  The octets returned are sliced out of the input, so the
   unused low bits of the last octet are whatever follows in the buffer: the value is determined up to its first
   BitLength bits. *)
From Coq Require Import String NArith ZArith List Bool Lia Arith.
From Coq Require Import ZifyN ZifyNat ZifyBool.
Require Import GoSlice Bits AperCommon AperEnc AperDec Asn1 X691 AperBits AperBitsGet AperBitsPut AperEncProofs
        AperStructPrim AperStructStr AperStructSeq AperRoundGet AperRoundPrim AperRoundLeaf AperRoundStr.
Import ListNotations.
Open Scope N_scope.
Ltac Zify.zify_post_hook ::= Z.div_mod_to_equations.
Local Arguments N.add : simpl never.
Local Arguments N.mul : simpl never.
Local Arguments N.sub : simpl never.
Local Arguments N.div : simpl never.
Local Arguments N.modulo : simpl never.
Local Arguments N.land : simpl never.
Local Arguments N.lor : simpl never.
Local Arguments N.shiftr : simpl never.
Local Arguments N.shiftl : simpl never.
Local Arguments N.pow : simpl never.

(* what is known of a decoded bit string *)
Definition bits_val (r : list N * N) (c : bits) : Prop :=
  snd r = N.of_nat (length c) /\ bok (fst r) /\ len (fst r) = (snd r + 7) / 8 /\ firstn (length c) (bits_of_bytes (fst r)) = c.

Lemma rd_aligned_bits d bs pos c :
  at_pos d bs pos -> (pos mod 8 = 0)%nat -> buf bs -> c <> [] -> bits_at bs pos c ->
  let n := N.of_nat (length c) in let sizes := (n + 7) / 8 in
  exists chunk,
    slice (d_bytes d) (d_byteOffset d) (u64 (d_byteOffset d + sizes)) = Ok chunk /\
    bits_val (chunk, n) c /\
    (len (d_bytes d) <? u64 (d_byteOffset d + sizes)) = false /\
    at_pos (mkdst (d_bytes d) (if n mod 8 =? 0 then u64 (d_byteOffset d + sizes) else sub64 (u64 (d_byteOffset d + sizes)) 1) (n mod 8)) bs (pos + length c).
Proof.
  intros (H1 & H2 & H3) Ha [Hb Hl] Hne Hbits n sizes. rewrite H1, H2.
  pose proof (bits_at_fit _ _ _ Hbits Hne) as Hfit. unfold LIM, len in Hl.
  assert (Hsz : sizes = N.of_nat (N.to_nat sizes)) by lia.
  assert (Hav : (pos / 8 + N.to_nat sizes <= length bs)%nat) by (unfold sizes, n; lia).
  exists (firstn (N.to_nat sizes) (skipn (pos / 8) bs)).
  split.
  { replace (u64 (N.of_nat (pos / 8) + sizes)) with (u64 (N.of_nat (pos / 8) + N.of_nat (N.to_nat sizes))) by (f_equal; lia).
    apply slice_chunk; [exact Hav|unfold LIM; exact Hl]. }
  assert (Hcl : length (firstn (N.to_nat sizes) (skipn (pos / 8) bs)) = N.to_nat sizes) by (apply firstn_length_le; rewrite skipn_length; lia).
  split; [|split].
  - unfold bits_val. cbn [fst snd]. split; [reflexivity|]. split; [apply bok_firstn; apply bok_skipn; exact Hb|].
    split; [unfold len; rewrite Hcl; fold n; fold sizes; lia|].
    rewrite chunk_bits by exact Ha. rewrite firstn_firstn. replace (Nat.min (length c) (8 * N.to_nat sizes)) with (length c) by (unfold sizes, n; lia).
    apply bits_at_first. exact Hbits.
  - rewrite u64_small by (unfold TWO64; lia). unfold len. lia.
  - unfold at_pos. cbn [d_bytes d_byteOffset d_bitsOffset]. rewrite u64_small by (unfold TWO64; lia).
    split; [reflexivity|]. destruct (n mod 8 =? 0) eqn:E.
    + split; unfold sizes, n in *; lia.
    + rewrite sub64_small by (unfold TWO64, sizes, n in *; lia). split; unfold sizes, n in *; lia.
Qed.

Lemma bits_dec_once k d bs pos sr lb c L :
  at_pos d bs pos -> buf bs -> (0 <= lb < 65536)%Z -> Z.to_N lb <= N.of_nat (length c) -> N.of_nat (length c) < 65536 ->
  (forall d0, at_pos d0 bs pos -> dec_ok (parseLength d0 sr) bs (pos + length L) (N.of_nat (length c) - Z.to_N lb, false)) ->
  bits_at bs (pos + length L) (if N.of_nat (length c) =? 0 then [] else align (pos + length L) ++ c) ->
  exists r, dec_ok (bits_dec_loop (S k) d sr lb [] 0) bs
         (pos + length (L ++ (if N.of_nat (length c) =? 0 then [] else align (pos + length L) ++ c))) r /\ bits_val r c.
Proof.
  intros Hd Hb Hlb Hge Hn HL Hbits. cbn [bits_dec_loop]. set (n := N.of_nat (length c)) in *.
  assert (HLd := HL d Hd). destruct HLd as (d1 & E1 & Hd1). rewrite E1. cbn [sbind]. cbv beta iota.
  rewrite u64z_small by lia. rewrite u64_small by (unfold TWO64; lia). replace (n - Z.to_N lb + Z.to_N lb) with n by lia.
  destruct (n =? 0) eqn:E0.
  - assert (length c = O) by (unfold n in E0; lia). destruct c; [|cbn in *; lia].
    exists ([], 0). split; [exists d1; rewrite app_nil_r; auto|]. unfold bits_val. cbn [fst snd length]. repeat split; try reflexivity. constructor.
  - apply bits_at_app in Hbits. destruct Hbits as [Hb1 Hb2]. unfold align in Hb2. rewrite repeat_length in Hb2.
    destruct (rd_align d1 bs _ Hd1 Hb Hb1) as (d2 & E2 & Hd2). rewrite E2. cbn [sbind].
    assert (Ha2 : ((pos + length L + pad_len (pos + length L)) mod 8 = 0)%nat) by apply pad_len_spec.
    assert (Hcne : c <> []) by (intros ->; cbn in E0; unfold n in E0; cbn in E0; lia).
    destruct (rd_aligned_bits d2 bs _ c Hd2 Ha2 Hb Hcne Hb2) as (chunk & Hs & Hbv & Hchk & Hat). fold n in Hs, Hbv, Hchk, Hat.
    rewrite (u64_small (n + 7)) by (unfold TWO64; lia). rewrite shiftr3. rewrite Hchk, Hs. rewrite land7.
    exists (chunk, u64 (0 + n)). rewrite N.add_0_l, u64_small by (unfold TWO64; lia). split; [|exact Hbv].
    eexists. split; [reflexivity|]. rewrite !app_length. unfold align. rewrite repeat_length. rewrite !Nat.add_assoc. exact Hat.
Qed.

Theorem rd_bitstring_unconstrained d bs pos c b :
  at_pos d bs pos -> buf bs -> N.of_nat (length c) < 16384 ->
  enc_string 0 None false (N.of_nat (length c)) c false pos = XOk b -> bits_at bs pos b ->
  exists r, dec_ok (parseBitString d false None None) bs (pos + length b) r /\ bits_val r c.
Proof.
  intros Hd Hb Hn Hx Hbits. unfold parseBitString, dec_size_bounds. cbn [Z.ltb Z.compare Z.eqb].
  unfold enc_string, size_prefix, size_inroot, size_fixed in Hx. cbn [andb negb] in Hx.
  assert (0 <=? N.of_nat (length c) = true) as E1 by lia. rewrite E1 in Hx. cbn [andb negb app length] in Hx. rewrite Nat.add_0_r in Hx.
  destruct (lendet (N.of_nat (length c)) pos) as [L| |] eqn:EL; cbn [xbind] in Hx; try discriminate.
  assert (Hb' : b = L ++ (if N.of_nat (length c) =? 0 then [] else align (pos + length L) ++ c)).
  { destruct (N.of_nat (length c) =? 0); apply xok_inj in Hx; subst b; [rewrite app_nil_r|]; reflexivity. }
  subst b. apply bits_at_app in Hbits. destruct Hbits as [HbL Hbr].
  apply (bits_dec_once (length (d_bytes d)) d bs pos (-1) 0 c L); auto; try lia.
  intros d0 Hd0. change (Z.to_N 0) with 0. rewrite N.sub_0_r. apply rd_lendet; auto.
Qed.

Theorem rd_bitstring_constrained d bs pos lb ub c b :
  at_pos d bs pos -> buf bs -> (0 <= lb <= ub)%Z -> (0 < ub < 65536)%Z ->
  Z.to_N lb <= N.of_nat (length c) <= Z.to_N ub ->
  enc_string (Z.to_N lb) (Some (Z.to_N ub)) false (N.of_nat (length c)) c (Z.to_N ub <=? 16) pos = XOk b ->
  bits_at bs pos b ->
  exists r, dec_ok (parseBitString d false (Some lb) (Some ub)) bs (pos + length b) r /\ bits_val r c.
Proof.
  intros Hd Hb Hlb Hub Hin Hx Hbits. unfold parseBitString, dec_size_bounds. rewrite i64_small by lia.
  assert ((65535 <? ub)%Z = false) as -> by lia.
  unfold enc_string, size_prefix, size_inroot, size_fixed in Hx.
  assert (Z.to_N ub <? 65536 = true) as Eu by lia. rewrite Eu in Hx.
  set (n := N.of_nat (length c)) in *.
  assert ((Z.to_N lb <=? n) && (n <=? Z.to_N ub) = true) as Ein by lia. rewrite Ein in Hx.
  cbn [negb andb app length] in Hx. rewrite Nat.add_0_r in Hx.
  pose proof Hb as [Hbok Hlen]. unfold LIM in Hlen.
  destruct (Z.to_N lb =? Z.to_N ub) eqn:Efix.
  - cbn [xbind andb app length] in Hx. rewrite Nat.add_0_r in Hx.
    assert ((ub - lb + 1 =? 1)%Z = true) as -> by lia. assert (Hnn : n = Z.to_N ub) by lia.
    assert (Hcne : c <> []) by (intros ->; unfold n in Hnn; cbn in Hnn; lia).
    rewrite (u64z_small (ub + 7)) by lia. rewrite shiftr3. rewrite (u64z_small ub) by lia.
    replace (Z.to_N (ub + 7)) with (n + 7) by lia. rewrite <- Hnn.
    assert (Z.to_N ub <=? 16 = negb (2 <? (n + 7) / 8)) as Esm by lia. rewrite Esm in Hx.
    destruct (2 <? (n + 7) / 8) eqn:E2; cbn [negb] in Hx; apply xok_inj in Hx; subst b.
    + apply bits_at_app in Hbits. destruct Hbits as [Hb1 Hb2]. unfold align in Hb2. rewrite repeat_length in Hb2.
      destruct (rd_align d bs _ Hd Hb Hb1) as (d2 & E2' & Hd2). rewrite E2'. cbn [sbind].
      assert (Ha2 : ((pos + pad_len pos) mod 8 = 0)%nat) by apply pad_len_spec.
      destruct (rd_aligned_bits d2 bs _ c Hd2 Ha2 Hb Hcne Hb2) as (chunk & Hs & Hbv & Hchk & Hat). fold n in Hs, Hbv, Hchk, Hat.
      rewrite Hchk, Hs. rewrite land7. exists (chunk, n). split; [|exact Hbv].
      eexists. split; [reflexivity|]. rewrite app_length. unfold align. rewrite repeat_length. rewrite Nat.add_assoc.
      destruct (n mod 8 =? 0) eqn:Em.
      * assert (0 <? n mod 8 = false) as -> by lia. exact Hat.
      * assert (0 <? n mod 8 = true) as -> by lia. exact Hat.
    + destruct (getBitString_at d bs pos n Hd Hb ltac:(unfold n in *; lia)) as (r & d' & Eg & Hd' & Hr & Hrl & Hrb).
      { pose proof (bits_at_fit _ _ _ Hbits Hcne) as Hf. unfold n. lia. }
      rewrite Eg. cbn [sbind]. exists (r, n). split.
      * exists d'. split; [reflexivity|]. unfold n in Hd'. rewrite Nat2N.id in Hd'. exact Hd'.
      * unfold bits_val. cbn [fst snd]. split; [reflexivity|]. split; [exact Hr|]. split; [exact Hrl|].
        rewrite Hrb. unfold n. rewrite Nat2N.id. rewrite (bits_at_first _ _ _ Hbits). rewrite firstn_app_l by lia. apply firstn_all.
  - destruct (cwn (Z.to_N ub - Z.to_N lb + 1) (n - Z.to_N lb) pos) as [L| |] eqn:EL; cbn [xbind] in Hx; try discriminate.
    cbn [andb] in Hx.
    assert (Hb' : b = L ++ (if n =? 0 then [] else align (pos + length L) ++ c)).
    { destruct (n =? 0); apply xok_inj in Hx; subst b; [rewrite app_nil_r|]; reflexivity. }
    subst b. assert ((ub - lb + 1 =? 1)%Z = false) as -> by lia.
    apply bits_at_app in Hbits. destruct Hbits as [HbL Hbr].
    apply (bits_dec_once (length (d_bytes d)) d bs pos (ub - lb + 1) lb c L); auto; try (unfold n in *; lia).
    intros d0 Hd0. replace (ub - lb + 1)%Z with (Z.of_N (Z.to_N ub - Z.to_N lb + 1)) by lia. apply rd_clen; auto; lia.
Qed.
