"""Process-level tie (DESIGN.md 4.3): the unmodified main() built with -tags verif talks to the independent
Python reference AMF (refamf/) over an inherited AF_UNIX/SOCK_SEQPACKET socketpair."""
import os, random, shutil, socket, subprocess, sys, time
from . import common as C

sys.path.insert(0, os.path.join(C.VERIF, "refamf"))


def yaml_of(cfg):
    """cfg: dict with the documented keys -> config.yaml text.  gnb_id is given as bytes (all < 0x80)."""
    esc = "".join("\\x%02x" % b for b in cfg["gnb_id"])
    lines = ["info:", "  version: 0.9.0", "configuration:"]
    def q(s): return '"%s"' % s
    items = [("amf_ngap_ip", cfg.get("amf_ngap_ip", "127.0.0.1")), ("amf_ngap_port", cfg.get("amf_ngap_port", 38412)),
             ("gnb_gtp_ip", cfg["gnb_gtp"]), ("stg_ngap_ip", cfg.get("stg_ngap_ip", "127.0.0.1")), ("stg_ngap_port", cfg.get("stg_ngap_port", 9487)),
             ("initial_imsi", q(cfg["imsi"])), ("mcc", q(cfg["mcc"])), ("mnc", q(cfg["mnc"])), ("gnb_id", q(esc)),
             ("gnb_bitlength", cfg["gnb_bitlength"]), ("gnb_name", q(cfg["gnb_name"])), ("k", q(cfg["k"])), ("opc", q(cfg["opc"])),
             ("op", q(cfg.get("op", cfg["opc"]))), ("sst", cfg.get("sst", 1)), ("sd", q(cfg.get("sd", "010203"))),
             ("downlink_iface", q("lo")), ("uplink_iface", q("lo")), ("ue_number", cfg.get("ue_number", 1)),
             ("ue_registration", cfg["counts"][0]), ("ue_pdu", cfg["counts"][1]), ("ue_service", cfg["counts"][2]),
             ("ue_pdu_release", cfg["counts"][3]), ("ue_deregistration", cfg["counts"][4])]
    return "\n".join(lines + ["  %s: %s" % kv for kv in items]) + "\n"


def amf_cfg(cfg, strict=False):
    n = max(cfg["counts"][0], 1)
    w = len(cfg["imsi"])
    subs = {("%0*d" % (w, int(cfg["imsi"]) + i)) for i in range(n)}
    return dict(mcc=cfg["mcc"], mnc=cfg["mnc"], gnb_id=bytes(cfg["gnb_id"]), gnb_bitlength=cfg["gnb_bitlength"], gnb_name=cfg["gnb_name"],
                k=cfg["k"], opc=cfg["opc"], gnb_gtp=cfg["gnb_gtp"], subscribers=subs, strict=strict,
                sst=cfg.get("sst", 1), sd=cfg.get("sd", "010203"), **({"qos_lens": cfg["qos_lens"]} if "qos_lens" in cfg else {}),
                **({"first_amf_id": cfg["first_amf_id"]} if "first_amf_id" in cfg else {}),
                **({"flow_desc_len": cfg["flow_desc_len"]} if "flow_desc_len" in cfg else {}),
                **({"exact16k": cfg["exact16k"]} if "exact16k" in cfg else {}),
                **({"other_plmn_first": cfg["other_plmn_first"]} if "other_plmn_first" in cfg else {}),
                **({"snssai_shift": cfg["snssai_shift"]} if "snssai_shift" in cfg else {}),
                **({"unsolicited_before_setup": cfg["unsolicited_before_setup"]} if "unsolicited_before_setup" in cfg else {}),
                **({"dlnas_phase": cfg["dlnas_phase"]} if "dlnas_phase" in cfg else {}),
                **({k: cfg[k] for k in ("int_priority", "enc_priority") if k in cfg}))


GARBAGE = b"\xff\xfe\xfd"


def classify_downlink(b):
    """kind of a downlink NGAP message built by the reference AMF (for the C19 oracle)"""
    import perdec, per
    try:
        v = perdec.decode("ngapType.NGAPPDU", "valueExt,valueLB:0,valueUB:2", b)
        cls, procc, ies = perdec.pdu_info(v)
    except Exception:
        return "undecodable"
    names = {(2, 21): "NGSetupResponse", (1, 14): "InitialContextSetupRequest", (1, 29): "PDUSessionResourceSetupRequest",
             (1, 28): "PDUSessionResourceReleaseCommand", (1, 41): "UEContextReleaseCommand"}
    if (cls, procc) in names:
        return names[(cls, procc)]
    if (cls, procc) == (1, 4):
        nas = None
        for i, c, x in perdec.ie_list(ies):
            if i == 38:
                nas = bytes.fromhex(x[0]["hex"])
        if nas is None:
            return "DownlinkNASTransport"
        inner = nas[7:] if nas[1] & 15 else nas
        t = inner[2] if len(inner) > 2 else -1
        return {0x56: "DL:AuthenticationRequest", 0x5d: "DL:SecurityModeCommand", 0x54: "DL:ConfigurationUpdateCommand",
                0x46: "DL:DeregistrationAccept", 0x68: "DL:DLNASTransport", 0x4e: "DL:ServiceAccept"}.get(t, "DL:0x%02x" % t)
    return "ngap-%d-%d" % (cls, procc)


def make_garbage(kind, genuine):
    """bytes that are not a decodable NGAP PDU: fixed octets, or a truncation of the genuine answer"""
    if kind == "minus1" and genuine and len(genuine) > 1:
        # the genuine answer with its last octet missing
        import perdec
        try:
            perdec.decode("ngapType.NGAPPDU", "valueExt,valueLB:0,valueUB:2", genuine[:-1])
        except Exception:
            return genuine[:-1]
        return GARBAGE
    if kind == "inner" and genuine and len(genuine) > 8:
        # the genuine answer with a sound envelope (first octets and announced length untouched) and a damaged body: the number
        # of information elements it announces is one more than it carries
        import perdec
        k = 3 + (1 if genuine[3] < 0x80 else 2) + 2
        cand = genuine[:k] + bytes([(genuine[k] + 1) & 0xff]) + genuine[k + 1:]
        try:
            perdec.decode("ngapType.NGAPPDU", "valueExt,valueLB:0,valueUB:2", cand)
        except Exception:
            return cand
        return GARBAGE
    if kind == "emptyval" and genuine and len(genuine) > 4:
        # the genuine answer's three header octets followed by an open-type length of zero: a message with no content at all
        import perdec
        cand = genuine[:3] + b"\x00"
        try:
            perdec.decode("ngapType.NGAPPDU", "valueExt,valueLB:0,valueUB:2", cand)
        except Exception:
            return cand
        return GARBAGE
    if kind == "idx3":
        # the root CHOICE has three alternatives in two bits: index 3 is no NGAP PDU, whatever follows
        import perdec
        for cand in (b"\x60\x03abc", b"\x60\x00"):
            try:
                perdec.decode("ngapType.NGAPPDU", "valueExt,valueLB:0,valueUB:2", cand)
            except Exception:
                return cand
        return GARBAGE
    if kind in ("text", "padbits"):
        # what a wrong peer sends (an HTTP error / request line), or the genuine answer with one of the padding bits of its first
        # octet set: not an aligned-PER NGAP PDU for the independent decoder; GARBAGE when that decoder accepts it
        import perdec
        cand = (b"HTTP/1.1 400 Bad Request\r\n\r\n" if (genuine is None or len(genuine) % 2) else b"GET / HTTP/1.1\r\n\r\n") if kind == "text" else (
            bytes([genuine[0] | 0x01]) + genuine[1:] if genuine else GARBAGE)
        try:
            perdec.decode("ngapType.NGAPPDU", "valueExt,valueLB:0,valueUB:2", cand)
        except Exception:
            return cand
        return GARBAGE
    if kind == "fill":
        # undecodable octets that fill a 2048-octet receive buffer exactly / overflow it
        return b"\xff\xfe\xfd\xfc" * 512
    if kind == "over":
        return b"\xff\xfe\xfd\xfc" * 750
    if kind == "ff" or not genuine:
        return GARBAGE
    import perdec
    for n in (len(genuine) // 2, len(genuine) // 3, 6, 4, 3):
        cand = genuine[:max(n, 1)]
        try:
            perdec.decode("ngapType.NGAPPDU", "valueExt,valueLB:0,valueUB:2", cand)
        except Exception:
            return cand
    return GARBAGE


def drain(sock):
    """uplink messages the emulator had ALREADY written when the association is closed (they were sitting in the socket):
    the close then takes effect after them"""
    n = 0
    try:
        # first stop accepting (from here on the emulator's writes fail with EPIPE), then count what it had written before
        # that instant: without this, a message written between the last empty read and the close would succeed uncounted
        try:
            sock.shutdown(socket.SHUT_RD)
        except OSError:
            pass
        sock.setblocking(False)
        while True:
            m = sock.recv(65536)
            if not m:
                break
            n += 1
    except (BlockingIOError, OSError):
        pass
    return n


_RUNS = [0]


def run(binary, cfg, seed, fault=None, argv=("-t",), timeout=90, strict=False, yaml_text=None):
    """fault = None | (j, 'close', i) | (j, 'garbage', i, variant): applied to the answer to the j-th uplink message
    (0-based): close = the AMF sends the first i downlink messages of its answer, then closes; garbage = the i-th
    downlink message of the answer is replaced by undecodable bytes (variant 'ff' | 'trunc').
    Returns dict(verdict, rc, uplinks, nrep, kinds, stdout, amf, t_after_fault, findings)."""
    import refamf
    R = random.Random(seed)
    amf = refamf.AMF(amf_cfg(cfg, strict), R)
    wd = C.scratch_dir("run")
    open(os.path.join(wd, "config.yaml"), "w").write(yaml_text if yaml_text is not None else yaml_of(cfg))
    a, b = socket.socketpair(socket.AF_UNIX, socket.SOCK_SEQPACKET)
    env = dict(os.environ, STGUTG_VERIF_FD=str(b.fileno()))
    # ambient inputs: every second run of the emulator has the environment variables set that the current sources read beyond
    # those of the pinned tree (none on the unchanged tree)
    _RUNS[0] += 1
    if C.ambient_env_vars() and _RUNS[0] % 2 == 0:
        amb = {n: os.path.join(C.WORK, "ambient-" + n) for n in C.ambient_env_vars()}
        env.update(amb)
        cfg["ambient_env"] = amb          # shows in the reported input
    p = subprocess.Popen([binary, *argv], cwd=wd, env=env, pass_fds=[b.fileno()], stdout=subprocess.PIPE, stderr=subprocess.STDOUT)
    b.close()
    a.settimeout(20)
    k, verdict, nrep, t_fault, uplinks, kinds, garbage_sent, late = 0, "ok", [], None, [], [], None, 0
    try:
        while True:
            try:
                m = a.recv(65536)
            except socket.timeout:
                verdict = "amf-timeout"
                break
            if not m:
                break
            uplinks.append(m)
            if fault and fault[0] == k and fault[1] == "close" and fault[2] == 0:
                # close at once (before computing any answer): the emulator may be about to write again within milliseconds
                t_fault = time.time()
                late = drain(a)
                a.close()
                verdict = "fault close@%d after 0 replies" % k
                break
            try:
                outs = list(amf.handle(m))
            except refamf.Reject as e:
                verdict = "REJECT at uplink message %d: %s" % (k, e)
                a.close()
                break
            except Exception as e:      # the AMF itself must never take the run down silently
                verdict = "AMF-ERROR at uplink message %d: %r" % (k, e)
                a.close()
                break
            kinds.append([classify_downlink(o) for o in outs])
            nrep.append(len(outs))
            if fault and fault[0] == k and fault[1] == "close":
                for o in outs[:fault[2]]:
                    a.send(o)
                t_fault = time.time()
                late = drain(a)
                a.close()
                verdict = "fault close@%d after %d replies" % (k, fault[2])
                break
            if fault and fault[0] == k and fault[1] == "garbage":
                t_fault = time.time()
                i = fault[2]
                if fault[3] == "late":
                    time.sleep(0.3)          # the undecodable answer arrives a little late (it is undecodable all the same)
                garbage_sent = make_garbage("ff" if fault[3] == "late" else fault[3], outs[i] if i < len(outs) else b"")
                outs = outs[:i] + [garbage_sent] + outs[i + 1:]
                verdict = "fault garbage@%d reply %d" % (k, i)
            for o in outs:
                a.send(o)
            k += 1
    except OSError as e:
        verdict += " oserr %s" % e
    try:
        out, _ = p.communicate(timeout=timeout)
        rc = p.returncode
    except subprocess.TimeoutExpired:
        p.kill()
        out, _ = p.communicate()
        rc = "HANG"
    t_end = time.time()
    try:
        a.close()
    except OSError:
        pass
    shutil.rmtree(wd, ignore_errors=True)
    return dict(verdict=verdict, rc=rc, uplinks=uplinks, nrep=nrep, kinds=kinds, stdout=out.decode(errors="replace"), amf=amf, sent_before_close=late,
                t_after_fault=(t_end - t_fault) if t_fault else None, findings=list(amf.findings),
                garbage=garbage_sent.hex() if garbage_sent else None)


def default_cfg(rng=None, counts=(1, 1, 1, 1, 1)):
    cfg = dict(imsi="208930000000003", mcc="208", mnc="93", gnb_id=bytes([0, 1, 2]), gnb_bitlength=24, gnb_name="gnb1",
               k="8baf473f2f8fd09487cccbd7097c6862", opc="8e27b6af0e692e750f32667a3b14605d", gnb_gtp="10.1.2.3", counts=list(counts))
    if rng is not None:
        mnc = rng.choice(["01", "93", "07", "123", "001"])
        mcc = rng.digits(3)
        # the last four digits give the PDU session identity (SUPI mod 10^4): keep it in 1..9 here; identities above
        # 15 / 255 are the recorded C02 finding
        n_free = (rng.choice([8, 9, 10]) if len(mnc) == 2 else rng.choice([7, 8, 9])) - 4
        cfg.update(mcc=mcc, mnc=mnc, imsi=mcc + mnc + rng.digits(n_free) + "000" + str(rng.range(1, 9)),
                   k=rng.bytes(16).hex(), opc=rng.bytes(16).hex())
        bl = rng.range(22, 32)
        cfg.update(gnb_bitlength=bl, gnb_id=bytes(rng.below(128) for _ in range((bl + 7) // 8)),
                   gnb_name="".join(rng.choice("abcdefgh-XYZ019") for _ in range(rng.choice([1, 7, 40]))),
                   gnb_gtp="10.%d.%d.%d" % (rng.below(256), rng.below(256), rng.range(1, 254)))
        # an AMF-side choice: where the reference AMF's cycle of optional downlink IEs starts (a function of values already
        # drawn, so that the configurations of earlier runs stay what they were)
        cfg["dlnas_phase"] = sum(cfg["gnb_id"]) % 8
    return cfg


def registration_runs(chk, binary, cfgs, what):
    """process-level registrations of the real main() against the strict reference AMF, reported under the calling check:
    each property whose subject (identities, keys, ...) is decided inside RegisterUE also sees the procedure itself"""
    import concurrent.futures as cf
    with cf.ThreadPoolExecutor(max_workers=8) as ex:
        runs = list(ex.map(lambda c: run(binary, c, chk.seed & 0xffff, strict=True), cfgs))
    rows = []
    for c, r in zip(cfgs, runs):
        ok = r["rc"] == 0 and r["verdict"].startswith("ok") and not r["findings"]
        rows.append({"imsi": c["imsi"], "mcc": c["mcc"], "mnc": c["mnc"], "verdict": r["verdict"], "rc": r["rc"]})
        with chk._lock:
            chk.cov["evaluations"] += 1
            chk._distinct.add("registration-%s-%s" % (c["imsi"], c["mnc"]))
        if not ok:
            chk.violation({"theorem_or_stream": "process: registration against the reference AMF (%s)" % what,
                           "input": {k: (v.hex() if isinstance(v, bytes) else v) for k, v in c.items()},
                           "observed": {"verdict": r["verdict"], "rc": r["rc"], "findings": r["findings"], "stdout": r["stdout"][-600:]},
                           "why": "the reference AMF did not accept the registration the emulator performed for this configuration"})
    chk.cov["registration_runs"] = rows
