"""setup: build everything from files on disk; selftest: the mechanical hygiene gates of DESIGN.md section 3."""
import os, re, subprocess, sys
from . import common as C

FORBIDDEN = re.compile(r"\b(Admitted|admit|Axiom|Axioms|Parameter|Parameters|Conjecture|Admit Obligations|Unset Guard Checking|"
                       r"Unset Positivity Checking|Unset Universe Checking|bypass_check|native_compute)\b")


def selftest(verbose=True):
    bad = []
    for f in C.coq_project_files():
        txt = open(os.path.join(C.COQ, f)).read()
        txt_nc = re.sub(r"\(\*.*?\*\)", "", txt, flags=re.S)
        for m in FORBIDDEN.finditer(txt_nc):
            bad.append("%s: %s" % (f, m.group(0)))
        if re.search(r"^\s*(Variable|Hypothesis|Variables|Hypotheses)\b", txt_nc, re.M):
            # must be inside a Section
            depth = 0
            for line in txt_nc.splitlines():
                if re.match(r"\s*Section\s", line):
                    depth += 1
                elif re.match(r"\s*End\s", line) and depth > 0:
                    depth -= 1
                elif re.match(r"\s*(Variable|Hypothesis|Variables|Hypotheses)\b", line) and depth == 0:
                    bad.append("%s: %s outside a section" % (f, line.strip()))
    # frozen fall-back data must follow the unchanged tree: say so when it does not (information, not a hygiene problem:
    # on a modified tree the two legitimately differ)
    try:
        body = lambda t: t[t.index("*)") + 2:] if "*)" in t else t
        g = body(open(os.path.join(C.COQ, "Spec", "DriverSkelGolden.v")).read())
        r = body(open(os.path.join(C.COQ, "Gen", "DriverSkel.v")).read())
        if verbose and g.strip() != r.strip():
            print("selftest: note: Spec/DriverSkelGolden.v differs from the regenerated Gen/DriverSkel.v")
    except OSError:
        pass
    if verbose:
        for b in bad:
            print("selftest:", b)
        print("selftest: %d files scanned, %d problems" % (len(C.coq_project_files()), len(bad)))
    return 1 if bad else 0


def main():
    os.makedirs(C.WORK, exist_ok=True)
    h, err = C.build_harness()
    if h is None:
        print(err)
        return 1
    # translators first so that Gen/ reflects the tree
    from . import gen
    gen.regen_all(h)
    C.coq_prepare()
    ok, out, failing, dt = C.coq_make(["all"], timeout=3000)
    if not ok:
        # every check builds (and reports on) the targets of its own property; a file that does not compile
        # here makes exactly the checks that depend on it fail, not the set-up
        print(out[-3000:])
        print("setup: some Coq files did not build (first failure at %s); the checks depending on them will report it" % failing)
    rc = selftest()
    b, err = C.build_emulator()
    if b is None:
        print("setup: emulator build failed:", err[-2000:])
    print("setup done (coq build %.0fs)" % dt)
    return rc
