"""Generic check protocol (DESIGN.md section 2 and 5): regenerate, build proofs, run correspondence
streams, decide, write evidence."""
import concurrent.futures as cf, hashlib, json, os, re, sys, threading, time
from . import common as C

ALLOWED_AXIOMS = set()   # stdlib axioms we rely on would be named here (none so far)


class Stream:
    """One correspondence stream: same PRNG-derived inputs through the implementation (Go harness)
    and through the executable Coq model/spec."""
    name = "stream"
    sub = None                 # harness sub-command
    requires = []              # Coq modules to Require in cases.v
    model_check = None         # Coq: case -> bool   (observed == model)
    spec_check = None          # Coq: case -> bool   (observed == spec)   optional
    model_out = None           # Coq: case -> printable expected value    optional
    shard = 400
    eval_timeout = 900
    harness_timeout = 600

    def generate(self, rng, tier):
        raise NotImplementedError

    def coq_case(self, case, obs):
        raise NotImplementedError

    def go_case(self, case):
        return case

    def classify(self, case, obs):
        return "all"

    def key(self, case, obs):
        """hashable identifying a distinct non-trivial case, or None when trivial"""
        return json.dumps([self.go_case(case), obs], sort_keys=True, default=str)

    def known(self, case, obs):
        """known-finding key this failing case falls under, or None"""
        return None

    def direct_check(self, case, obs):
        """optional python-side oracle on the implementation's output alone (e.g. pairwise
        distinctness); returns None or a message"""
        return None


class Check:
    pid = "C00"
    title = ""
    prop_files = []            # Properties/*.v of this property
    extra_targets = []         # further .vo to build
    streams = []
    trusted = []
    assumptions = []
    corpus_dir = None

    def __init__(self, tier, seed):
        self.tier, self.seed = tier, seed
        self.rng = C.SplitMix64(seed)
        self.t0 = time.time()
        self.violations = []     # (replay_path, suffix)
        self.known_hits = {}
        self.cov = {"evaluations": 0, "distinct_nontrivial": 0, "samples": [], "streams": {}, "distribution": {}}
        self._distinct = set()
        self._lock = threading.RLock()

    # ---- hooks for subclasses
    def regen(self, harness):
        """run translators; return list of Gen files that changed"""
        return []

    def extra(self, harness, build_ok):
        """property-specific additional checks (process level etc.); may call self.violation"""
        return

    # ---- protocol
    def violation(self, payload, suffix=""):
        payload = dict(payload, property=self.pid, seed=self.seed, tier=self.tier)
        path = C.write_replay(self.pid, payload)
        with self._lock:
            self.violations.append((path, suffix))

    def known_finding(self, key, what):
        self.known_hits[key] = what

    def run(self):
        harness, err = C.build_harness()
        build_ok, failing, make_out = True, None, ""
        n_thm = 0
        assum_txt = ""
        if harness is None:
            self.violation({"theorem_or_stream": "harness build (correspondence cannot run)", "detail": err[-4000:],
                            "how_to_replay": "./check %s --tier %s" % (self.pid, self.tier)}, "no-failing-input-found")
        else:
            try:
                changed = self.regen(harness)
            except Exception as e:            # translator cannot digest the source any more
                changed = []
                build_ok, failing = False, "translator: %s" % e
            if build_ok:
                targets = [f.replace(".v", ".vo") for f in self.prop_files] + list(self.extra_targets)
                build_ok, make_out, failing, dt = C.coq_make(targets)
            if build_ok:
                for pf in self.prop_files:
                    rc, txt = C.coq_assumptions(pf)
                    assum_txt += txt
                    if rc != 0:
                        build_ok, failing = False, pf
                n_thm = sum(len(re.findall(r"^\s*(Theorem|Lemma|Corollary|Example)\s", open(os.path.join(C.COQ, pf)).read(), re.M))
                            for pf in self.prop_files)
                bad_ax = self.check_axioms(assum_txt)
                if bad_ax:
                    build_ok, failing = False, "axioms: " + "; ".join(bad_ax)
            if build_ok:
                self.cov["obligations"] = max(n_thm, 1)
                self.cov["discharged"] = max(n_thm, 1)
            else:
                self.cov["proof_build"] = "FAILED at %s (no obligation is claimed as discharged in this run)" % failing
            self.cov["checker_cmd"] = "make -C coq -j%d %s  &&  coqc <each Properties file> (Print Assumptions captured)" % (
                C.NCPU, " ".join(f.replace(".v", ".vo") for f in self.prop_files))
            self.cov["print_assumptions"] = self.summarise_assumptions(assum_txt)
            # correspondence
            spec_fail = False
            model_fail = []
            stream_errors = []
            # when a proof obligation broke, the streams search harder for a failing input
            self.search_mode = not build_ok
            for st_ in self.streams:
                st_.search = self.search_mode

            def one(st):
                try:
                    return st, self.run_stream(st, harness), None
                except Exception as e:
                    return st, None, e
            with cf.ThreadPoolExecutor(max_workers=4) as ex:
                results = list(ex.map(one, self.streams))
            for st, r, e in results:
                if isinstance(e, C.HarnessDied) and e.case is not None and e.rc not in (-9, 124, 137):
                    # the code under test ended the whole process while working on this case: that case is a failing input
                    # (nothing is returned for it), unless the harness was killed from outside (timeout / memory)
                    payload = {"theorem_or_stream": st.name, "input": e.case, "observed": {"process_exit_status": e.rc, "stderr": e.stderr},
                               "why": "the code under test terminated the process instead of returning a result for this input",
                               "how_to_replay": "./check %s --replay <this file>" % self.pid}
                    try:
                        if e.before and len(json.dumps(e.before, default=str)) <= 1 << 20:
                            payload["previous_inputs"] = e.before
                    except Exception:
                        pass
                    self.violation(payload)
                    continue
                if e is not None:
                    stream_errors.append("%s: %s" % (st.name, str(e)[-1500:]))
                    C.log("stream %s failed: %s" % (st.name, str(e)[-3000:]))
                    continue
                if r["spec_bad"]:
                    spec_fail = True
                if r["model_bad"]:
                    model_fail.append(st.name)
            try:
                self.extra(harness, build_ok)
            except Exception as e:
                stream_errors.append("extra: %s" % str(e)[-1500:])
            if stream_errors and not self.violations:
                self.violation({"theorem_or_stream": "correspondence stream could not be evaluated", "detail": stream_errors,
                                "how_to_replay": "./check %s --tier %s" % (self.pid, self.tier)}, "no-failing-input-found")
            if not build_ok and not self.violations:
                self.violation({"theorem_or_stream": failing, "detail": self.tail(make_out + assum_txt),
                                "note": "a proof obligation no longer checks and no input on which the implementation departs from the specification was found in this run's search",
                                "how_to_replay": "./check %s --tier %s" % (self.pid, self.tier)}, "no-failing-input-found")
            if model_fail and not spec_fail and not self.violations:
                self.violation({"theorem_or_stream": "correspondence: " + ", ".join(model_fail),
                                "note": "model and implementation disagree but the implementation still meets the specification on every disagreeing input found",
                                "how_to_replay": "./check %s --tier %s" % (self.pid, self.tier)}, "no-failing-input-found")
        self.finish()

    def tail(self, txt, n=3000):
        i = txt.find("Error")
        if i >= 0:
            return txt[max(0, i - 800): i + 2200]
        return txt[-n:]

    def check_axioms(self, txt):
        bad = []
        for m in re.finditer(r"Axioms:\s*(.*?)(?=\n\S|\Z)", txt, re.S):
            for line in m.group(1).splitlines():
                mm = re.match(r"\s*([A-Za-z0-9_.']+)\s*:", line)
                if mm and mm.group(1) not in ALLOWED_AXIOMS:
                    bad.append(mm.group(1))
        return bad

    def summarise_assumptions(self, txt):
        closed = len(re.findall(r"Closed under the global context", txt))
        ax = self.check_axioms(txt)
        return {"closed_under_global_context": closed, "axioms": ax}

    # ---- streams
    def run_stream(self, st, harness):
        t_start = time.time()
        rng = self.rng.fork(st.name)
        cases = self.corpus_cases(st) + st.generate(rng, self.tier)
        gcs = [st.go_case(c) for c in cases]            # exactly what the harness process saw, in this order
        obs = C.harness_call(harness, st.sub, gcs, timeout=st.harness_timeout) if st.sub else [None] * len(cases)
        info = {"cases": len(cases), "model_bad": 0, "spec_bad": 0}
        dist = {}
        with self._lock:
            for c, o in zip(cases, obs):
                k = st.key(c, o)
                if k is not None:
                    self._distinct.add(hashlib.sha256((st.name + k).encode()).hexdigest())
                cl = st.classify(c, o)
                dist[cl] = dist.get(cl, 0) + 1
            self.cov["evaluations"] += len(cases)
            self.cov["distribution"][st.name] = dist
            if cases:
                self.cov["samples"].append({"stream": st.name, "case": st.go_case(cases[len(cases) // 2]), "observed": obs[len(cases) // 2]})
        # python-side direct oracle
        for i, (c, o) in enumerate(zip(cases, obs)):
            msg = st.direct_check(c, o)
            # results handed out earlier must not change: the harness keeps the slice the previous call returned and
            # reports it again as "prev_now" (streams name the output field that holds it in `retained_field`)
            if not msg and isinstance(o, dict) and "input_after" in o:
                msg = "the decoder wrote into its input buffer: it now reads %s" % o["input_after"][:120]
            rf = getattr(st, "retained_field", None)
            if not msg and rf and i > 0 and isinstance(o, dict) and "prev_now" in o and isinstance(obs[i - 1], dict) and rf in obs[i - 1]:
                if o["prev_now"] != obs[i - 1][rf]:
                    msg = "the result returned by the previous call (%s) reads %s after this call" % (obs[i - 1][rf][:80], o["prev_now"][:80])
            if msg:
                info["spec_bad"] += 1
                if info["spec_bad"] <= 3:
                    self.report_case(st, c, o, "direct oracle: " + msg, None, gc=gcs[i], prev=gcs[max(0, i - 400):i])
        bad_model, bad_spec = self.eval_cases(st, cases, obs)
        info["model_bad"] = len(bad_model)
        for i in sorted(set(bad_spec) | set(bad_model)):
            c, o = cases[i], obs[i]
            in_spec = (i in bad_spec) if st.spec_check else True
            if not in_spec:
                continue           # impl == spec on this input; only the model is off
            info["spec_bad"] += 1
            if self.is_known(st, c, o):          # recorded finding: say so, do not let it use up the report budget
                self.report_case(st, c, o, "known finding", None)
                continue
            reported = info.get("reported", 0)
            if reported >= 3:
                continue
            info["reported"] = reported + 1
            exp = self.expected(st, c, o)
            model_only = (not st.spec_check) and ("malformed" in st.name or getattr(st, "model_only", False))
            if model_only:
                # outside the property's domain (malformed stream): the model no longer describes the code, which by
                # itself is not a failing input of the property
                self.violation({"theorem_or_stream": "correspondence: " + st.name, "input": st.go_case(c), "observed": o, "expected": exp,
                                "why": "model and implementation disagree on an input outside the property's domain"}, "no-failing-input-found")
                continue
            self.report_case(st, c, o, "implementation differs from %s" % ("specification" if st.spec_check else "model (proved equal to the specification)"), exp,
                             gc=gcs[i], prev=gcs[max(0, i - 400):i])
        info["wall_s"] = round(time.time() - t_start, 1)
        self.cov["streams"][st.name] = info
        return info

    def is_known(self, st, c, o):
        k = st.known(c, o)
        return k is not None and any(f.get("key") == k and f.get("property") == self.pid and f.get("status") == "known" for f in C.known_findings())

    def report_case(self, st, c, o, why, expected, gc=None, prev=None):
        k = st.known(c, o)
        if k is not None and any(f.get("key") == k and f.get("property") == self.pid and f.get("status") == "known" for f in C.known_findings()):
            self.known_finding(k, next(f["what"] for f in C.known_findings() if f.get("key") == k and f.get("property") == self.pid))
            return
        payload = {"theorem_or_stream": st.name, "input": gc if gc is not None else st.go_case(c), "observed": o, "expected": expected, "why": why,
                   "how_to_replay": "./check %s --replay <this file>" % self.pid}
        if prev and st.sub and getattr(st, "history_dependent", True):
            # the calls that preceded this one in the same harness process (at most 400, at most 1 MB): the replay runs them
            # first, in this order, so that a result that depends on what was computed before is reproduced
            try:
                if len(json.dumps(prev, default=str)) <= 1 << 20:
                    payload["previous_inputs"] = prev
            except Exception:
                pass
        self.violation(payload)

    def corpus_cases(self, st):
        d = os.path.join(C.VERIF, "corpus", self.pid)
        out = []
        if os.path.isdir(d):
            for f in sorted(os.listdir(d)):
                if f.startswith(st.name + "-") and f.endswith(".json"):
                    out.append(json.load(open(os.path.join(d, f))))
        return out

    def cases_text(self, st, cases, obs, fns):
        hdr = "From Coq Require Import NArith ZArith List Bool.\nImport ListNotations.\n"
        hdr += "".join("Require Import %s.\n" % r for r in st.requires)
        hdr += "Open Scope N_scope.\n"
        ctype = getattr(st, "case_type", None)
        body = "Definition cases %s:= [\n" % ((": list (%s) " % ctype) if ctype else "") + ";\n".join(st.coq_case(c, o) for c, o in zip(cases, obs)) + "\n].\n"
        body += ("Fixpoint bad_idx {A} (f : A -> bool) (i : nat) (l : list A) : list nat :=\n"
                 "  match l with nil => nil | x :: r => if f x then bad_idx f (S i) r else i :: bad_idx f (S i) r end.\n")
        for nm, fn in fns:
            body += "Definition %s := Eval vm_compute in bad_idx %s 0%%nat cases.\nPrint %s.\n" % (nm, fn, nm)
        return hdr + body

    def eval_cases(self, st, cases, obs):
        fns = []
        if st.model_check:
            fns.append(("bad_model", st.model_check))
        if st.spec_check:
            fns.append(("bad_spec", st.spec_check))
        if not fns or not cases:
            return [], []
        shards = [(i, cases[i:i + st.shard], obs[i:i + st.shard]) for i in range(0, len(cases), st.shard)]
        bad_model, bad_spec = [], []

        def work(sh):
            off, cs, os_ = sh
            rc, out = C.coq_eval(self.cases_text(st, cs, os_, fns), timeout=st.eval_timeout)
            if rc != 0:
                raise RuntimeError("cases.v for stream %s does not evaluate:\n%s" % (st.name, out[-2500:]))
            bm = C.parse_nat_list(out, "bad_model") if st.model_check else []
            bs = C.parse_nat_list(out, "bad_spec") if st.spec_check else []
            if bm is None or bs is None:
                raise RuntimeError("cannot parse coqc output for %s:\n%s" % (st.name, out[-1500:]))
            return [off + x for x in bm], [off + x for x in bs]

        with cf.ThreadPoolExecutor(max_workers=min(C.NCPU, max(1, len(shards)))) as ex:
            for bm, bs in ex.map(work, shards):
                bad_model += bm
                bad_spec += bs
        return bad_model, bad_spec

    def expected(self, st, c, o):
        if not st.model_out:
            return None
        hdr = "From Coq Require Import NArith ZArith List Bool.\nImport ListNotations.\n"
        hdr += "".join("Require Import %s.\n" % r for r in st.requires) + "Open Scope N_scope.\n"
        rc, out = C.coq_eval(hdr + "Eval vm_compute in (%s %s)." % (st.model_out, st.coq_case(c, o)), timeout=300)
        return " ".join(out.split())[:4000]

    # ---- wrap up
    def finish(self):
        self.cov["distinct_nontrivial"] = len(self._distinct)
        self.cov["trusted_base"] = self.trusted
        self.cov.setdefault("rule", "cases are drawn from the SplitMix64 PRNG seeded by VERIF_SEED by the per-stream generators "
                            "described in DESIGN.md; a case is distinct/non-trivial when the pair (canonical input, observed output) "
                            "has not been seen before in this run")
        self.cov["known_findings_hit"] = sorted(self.known_hits)
        for k, what in sorted(self.known_hits.items()):
            print("KNOWN-FINDING: property=%s %s" % (self.pid, what))
        for f in C.known_findings():
            if f.get("property") == self.pid and f.get("status") == "known" and f.get("always_report") and f["key"] not in self.known_hits:
                print("KNOWN-FINDING: property=%s %s" % (self.pid, f["what"]))
        C.write_evidence(self.pid, self.tier, self.seed, self.cov, time.time() - self.t0, len(self.violations), self.assumptions)
        real = [v for v in self.violations if not v[1]]
        # a concrete failing input makes the "no failing input found" reports redundant
        self.violations = real if real else self.violations
        for path, suffix in self.violations[:10]:
            print("VIOLATION property=%s replay=%s%s" % (self.pid, os.path.relpath(path, C.VERIF), (" " + suffix) if suffix else ""))
        sys.stdout.flush()
        sys.exit(1 if self.violations else 0)
