"""./check Cxx --replay <file>: run the recorded input again through implementation, model and spec."""
import json, sys
from . import common as C


def run(cls, path):
    rp = json.load(open(path))
    chk = cls(rp.get("tier", "quick"), rp.get("seed", 0))
    name = rp.get("theorem_or_stream")
    st = next((s for s in chk.streams if s.name == name), None)
    if st is None or "input" not in rp:
        print("replay names %r: no recorded input; re-running the whole check" % name)
        chk.run()
        return 0
    harness, err = C.build_harness()
    if harness is None:
        print(err)
        return 2
    try:
        chk.regen(harness)
        C.coq_make([f.replace(".v", ".vo") for f in chk.prop_files] + list(chk.extra_targets))
    except Exception as e:
        print("regeneration/build before replay failed:", e)
    case = rp["input"]
    if hasattr(st, "prepare"):
        st.prepare(harness, chk)
    if hasattr(st, "from_replay"):
        case = st.from_replay(case)
    prev = rp.get("previous_inputs")
    try:
        return _replay(rp, chk, st, harness, case, prev, path)
    except C.HarnessDied as e:
        print("the code under test terminated the harness process (exit status %s) on this input:\n%s" % (e.rc, e.stderr[-600:]))
        print("VIOLATION property=%s replay=%s" % (chk.pid, path))
        return 1


def _replay(rp, chk, st, harness, case, prev, path):
    if prev:
        # history-dependent stream: the recorded preceding calls first, in the same harness process
        pcs = list(prev)                      # recorded exactly as the harness process saw them
        both = C.harness_call(harness, st.sub, pcs + [rp["input"]])
        print("after %d preceding calls of the recorded history" % len(pcs))
        obs = both[-1:]
    else:
        obs = C.harness_call(harness, st.sub, [st.go_case(case)])
    print("input:    ", json.dumps(st.go_case(case))[:2000])
    print("observed: ", json.dumps(obs[0])[:2000])
    msg = st.direct_check(case, obs[0])
    bm, bs = chk.eval_cases(st, [case], obs)
    print("expected: ", chk.expected(st, case, obs[0]))
    bad = bool(msg) or bool(bs) or (bool(bm) and not st.spec_check)
    if bad:
        print("VIOLATION property=%s replay=%s" % (chk.pid, path))
        return 1
    print("no violation on this input with the current tree")
    return 0
