"""C08 — NAS message codec is lossless for all message types (free5gclib/nas as carried by STGUTG).

Tie: the descriptors (Gen/NasDesc.v) are regenerated from the Go source by `harness gen-nas` on every run and the
theorems of Properties/C08.v are re-checked against them; the interpreter semantics (Model/NasCodec.v) is compared
with the real PlainNasEncode/PlainNasDecode on PRNG-drawn generic messages and byte strings."""
import json
import re
from .. import common as C
from .. import gen
from ..prop import Check, Stream

DESC = {}          # filled by regen(): output of `harness gen-nas json`


def load_desc(harness):
    rc, out, err, dt = C.run([harness, "gen-nas", "json"], timeout=600, cwd=C.REPO)
    if rc != 0:
        raise RuntimeError("gen-nas json failed: %s" % (out + err)[-1500:])
    d = json.loads(out)
    DESC.clear()
    DESC.update(d)
    DESC["T"] = {t["name"]: t for t in d["types"]}
    DESC["M"] = {m["name"]: m for m in d["msgs"]}
    return d


# ----------------------------------------------------------------------------- generic messages
def q(s):
    return '"%s"%%string' % s.replace('"', '""')


def coq_fval(f):
    return "(%s, mk_fval %s %d %d %s)" % (q(f["name"]), C.cbool(f.get("present", False)), int(f.get("iei", 0)), int(f.get("len", 0)),
                                          C.cN(bytes.fromhex(f.get("body", ""))))


def coq_nas(m):
    return "(mk_nas %s %s %s [%s])" % (q(str(m.get("kind", ""))), C.cN(bytes.fromhex(m.get("hdr", ""))), q(str(m.get("struct", ""))),
                                       ";".join(coq_fval(f) for f in (m.get("fields") or [])))


def coq_obytes(o, key):
    if key in o:
        return "(OB %s)" % C.cN(bytes.fromhex(o[key]))
    if key + "_err" in o:
        return "OE"
    if key + "_panic" in o:
        return "OP"
    return None


def coq_odec(o):
    if "dec" in o:
        re = coq_obytes(o, "reenc") or "OE"
        return "(OD %s %s)" % (coq_nas(o["dec"]), re)
    if "dec_err" in o:
        return "ODE"
    if "dec_panic" in o:
        return "ODP"
    return "ONone"


OVERSIZE = 60000    # a misparsed TLV-E length makes the library allocate up to 65535 octets; such an observation is
                    # not given to coqc (list literal too deep); the case is classified "oversize" and only the
                    # python-side oracles apply to it


def too_deep(t):
    """a list literal with tens of thousands of elements overflows coqc's parser stack; the total size does not matter"""
    return any(seg.count(";") > 30000 for seg in re.findall(r"\[([^\[\]]*)\]", t))


def rt_case(c, o):
    t = "(%s, %s, %s)" % (coq_nas(c["msg"]), coq_obytes(o, "enc") or "OP", coq_odec(o))
    return t if not too_deep(t) else '(mk_nas ""%string [] ""%string [], OE, ONone)'


def oversize(o):
    return len(json.dumps(o)) > OVERSIZE // 2


class Gen:
    """Generators over the regenerated descriptors (sizes, IEI constants, formats come from the Go source)."""

    def __init__(self, rng, tier):
        self.rng, self.tier = rng, tier
        self.entries = []          # (kind, header_len, type_index, epd, msgtype, msg descriptor)
        by_enc = {m["enc_func"]: m for m in DESC["msgs"]}
        # when the translator no longer recognises the dispatch code (a proof obligation is then broken anyway) the generators
        # fall back on the TS 24.007 discriminators so that the search for a concrete failing input still runs
        epd = {r[2]: int(r[1]) for r in (DESC.get("epd_decode") or [])} or {"Gmm": 0x7E, "Gsm": 0x2E}
        for kind, key in (("Gmm", "gmm"), ("Gsm", "gsm")):
            h = DESC[key]
            for cn, v, fn in h["encode"]:
                if fn in by_enc:
                    self.entries.append((kind, h["header_len"], h["type_index"], epd.get(kind, 0), int(v), by_enc[fn]))

    def ty(self, f):
        return DESC["T"][f["type"]]

    def consts(self, m):
        return {c["field"]: c["const"] for c in (m["cases"] or [])}

    def enc_ops(self, m, name):
        for g in m["enc"]:
            if g["field"] == name:
                return [o.split(":")[0] for o in g["ops"]]
        return []

    def buflen(self, lenw, style):
        r = self.rng
        if style == "min":
            return 0
        if style == "one":
            return 1
        if style == "max":
            if lenw == 1:
                return 255
            return r.choice([256, 300]) if self.tier == "quick" else r.choice([256, 1000, 4096])
        return r.range(0, 24)

    def value(self, m, f, style="rand"):
        """a well-formed present value of field f of message m"""
        r, t = self.rng, self.ty(f)
        ops = self.enc_ops(m, f["name"])
        v = {"name": f["name"], "present": True, "iei": 0, "len": 0, "body": ""}
        if f["optional"] and t["has_iei"]:
            v["iei"] = self.consts(m).get(f["name"], 0)
        if t["body"] == "octet":
            o = r.below(256)
            if t["new"] == "nibble":
                nib = {"min": 0, "max": 15}.get(style, r.below(16))
                o = (self.consts(m).get(f["name"], 0) << 4 | nib) & 0xFF
            v["body"] = "%02x" % o
            if t["lenw"]:
                v["len"] = r.choice([1, 1, 0, r.below(1 << (8 * t["lenw"]))])
        elif t["body"] == "array":
            n = t["n"]
            if "BodyUptoLen" in ops:
                ln = {"min": 0, "one": min(1, n), "max": n}.get(style, r.range(0, n))
                v["len"] = ln
                v["body"] = (r.bytes(ln) + bytes(n - ln)).hex()
            else:
                v["body"] = r.bytes(n).hex()
                if t["lenw"]:
                    v["len"] = r.choice([n, n, 0, r.below(1 << (8 * t["lenw"]))])
        elif t["body"] == "buffer":
            ln = self.buflen(t["lenw"], style)
            v["len"] = ln
            v["body"] = r.bytes(ln).hex()
        return v

    def message(self, e, subset, style="rand"):
        kind, hl, ti, epd, mt, m = e
        fields = []
        opt_i = 0
        for i, f in enumerate(m["fields"]):
            if f["optional"]:
                if opt_i in subset:
                    fields.append(self.value(m, f, style))
                else:
                    fields.append({"name": f["name"], "present": False, "iei": 0, "len": 0, "body": ""})
                opt_i += 1
            else:
                v = self.value(m, f, style)
                if i == 0 and self.ty(f)["body"] == "octet":
                    v["body"] = "%02x" % epd
                if i == ti and self.ty(f)["body"] == "octet":
                    v["body"] = "%02x" % mt
                fields.append(v)
        # GmmHeader/GsmHeader duplicate the first octets of the message (that is what decoding leaves there)
        hdr = bytearray(bytes.fromhex("".join(v["body"] for v in fields))[:hl].ljust(hl, b"\0"))
        hdr[ti] = mt
        return {"kind": kind, "hdr": bytes(hdr).hex(), "struct": m["name"], "fields": fields}

    def nopt(self, e):
        return sum(1 for f in e[5]["fields"] if f["optional"])

    def subsets(self, k, extra):
        r = self.rng
        if k <= 4:
            return [set(i for i in range(k) if (s >> i) & 1) for s in range(1 << k)]
        out = [set(), set(range(k))] + [{i} for i in range(k)]
        for _ in range(extra):
            out.append(set(i for i in range(k) if r.chance(1, 2)))
        return out

    # python-side rendering of the Encode statements: only used to build byte-string inputs
    def chunk(self, m, v):
        t = DESC["T"][next(f for f in m["fields"] if f["name"] == v["name"])["type"]]
        body = bytes.fromhex(v["body"])
        out = b""
        for op in self.enc_ops(m, v["name"]):
            if op == "Iei":
                out += bytes([v["iei"] & 255])
            elif op == "Len":
                out += int(v["len"]).to_bytes(t["lenw"], "big")
            elif op == "Body":
                out += body
            elif op == "BodyUptoLen":
                out += body[:v["len"]]
        return out

    def chunks(self, e, msg):
        m = e[5]
        mand = b"".join(self.chunk(m, v) for v, f in zip(msg["fields"], m["fields"]) if not f["optional"])
        opt = [self.chunk(m, v) for v, f in zip(msg["fields"], m["fields"]) if f["optional"] and v["present"]]
        return mand, opt


class WellFormed(Stream):
    """random well-formed messages of every dispatched type through PlainNasEncode -> PlainNasDecode -> PlainNasEncode"""
    name = "nasrt-wellformed"
    sub = "nasrt"
    retained_field = "enc"
    requires = ["String", "Bytes", "NasValue", "NasCodec", "NasCorr"]
    model_check = "nasrt_check"
    spec_check = "nasrt_lossless"
    model_out = "nasrt_expect"
    shard = 25

    def generate(self, rng, tier):
        g = Gen(rng, tier)
        cases = []
        for e in g.entries:
            k = g.nopt(e)
            subs = g.subsets(k, 3 if tier == "quick" else 40)
            for i, s in enumerate(subs):
                style = ["rand", "min", "one", "max"][i % 4] if len(subs) > 3 else ["min", "max", "rand"][i % 3]
                if style == "max" and len(s) > 3 and tier == "quick":
                    style = "rand"
                cases.append({"msg": g.message(e, s, style), "cls": "k=%d" % min(k, 10) + ("+" if k > 10 else "")})
            for style in ("min", "one", "max"):
                cases.append({"msg": g.message(e, set(range(min(k, 3))), style), "cls": "len-" + style})
        return cases

    def go_case(self, c):
        return c["msg"]

    def from_replay(self, c):
        return {"msg": c, "cls": "replay"}

    def classify(self, c, o):
        return c["cls"]

    def coq_case(self, c, o):
        return rt_case(c, o)

    def direct_check(self, c, o):
        if "panic" in o:
            return "harness panic: " + o["panic"]
        # the same judgement as nasrt_lossless, made here as well so that it survives a proof / translator break
        if "enc" in o:
            if "dec" not in o:
                return "the library cannot decode its own encoding of a well-formed message: %s" % (o.get("dec_err") or o.get("dec_panic"))
            if o["dec"].get("fields") != c["msg"]["fields"]:
                return "decode(encode m) differs from m"
            if o.get("reenc") != o["enc"]:
                return "re-encoding the decoded message gives other bytes"
        return None


class Odd(Stream):
    """messages outside wf_msg (Len above capacity, Len <> len(Buffer), foreign IEI, non-zero tail, header type not
    matching the struct, unknown header type): the model must still say what the library does"""
    name = "nasrt-odd"
    sub = "nasrt"
    retained_field = "enc"
    requires = ["String", "Bytes", "NasValue", "NasCodec", "NasCorr"]
    model_check = "nasrt_check"
    model_out = "nasrt_expect"
    shard = 25

    def generate(self, rng, tier):
        g = Gen(rng, tier)
        cases = []
        n = 3 if tier == "quick" else 20
        for e in g.entries:
            m = e[5]
            k = g.nopt(e)
            for j in range(n):
                msg = g.message(e, set(i for i in range(k) if rng.chance(2, 3)), "rand")
                kind = rng.choice(["len", "iei", "tail", "hdr", "struct", "len"])
                cand = [v for v in msg["fields"] if v["present"]]
                v = rng.choice(cand)
                f = next(f for f in m["fields"] if f["name"] == v["name"])
                t = g.ty(f)
                if kind == "len" and t["lenw"]:
                    # (uint16 lengths are kept below 1200 here: a 65535-octet make() ends up as a list literal coqc cannot parse)
                    top = 256 if t["lenw"] == 1 else 1200
                    v["len"] = rng.choice([len(v["body"]) // 2 + 1, 0, top - 1, rng.below(top)])
                elif kind == "iei" and t["has_iei"]:
                    v["iei"] = rng.below(256)
                elif kind == "iei" and t["new"] == "nibble":
                    v["body"] = "%02x" % rng.below(256)
                elif kind == "tail" and t["body"] == "array":
                    v["body"] = rng.bytes(t["n"]).hex()
                elif kind == "hdr":
                    h = bytearray(bytes.fromhex(msg["hdr"]))
                    h[e[2]] = rng.choice([0, 1, 64, 73, 99, 105, 192, 196, 200, 215, 255, rng.below(256)])
                    msg["hdr"] = bytes(h).hex()
                elif kind == "struct":
                    o = rng.choice([x for x in g.entries if x[0] == e[0]])
                    h = bytearray(bytes.fromhex(msg["hdr"]))
                    h[e[2]] = o[4]
                    msg["hdr"] = bytes(h).hex()
                else:
                    # mandatory octets that steer the decoder (EPD, message type)
                    i = rng.choice([0, e[2]])
                    msg["fields"][i]["body"] = "%02x" % rng.choice([0x7E, 0x2E, 0, e[4], rng.below(256)])
                cases.append({"msg": msg, "cls": kind})
        return cases

    def go_case(self, c):
        return c["msg"]

    def from_replay(self, c):
        return {"msg": c, "cls": "replay"}

    def classify(self, c, o):
        return c["cls"] + ("/panic" if any(k.endswith("_panic") for k in o) else "") + ("/oversize" if oversize(o) else "")

    def coq_case(self, c, o):
        return rt_case(c, o)


class Bytes(Stream):
    """byte strings through PlainNasDecode (+ re-encode): optional IEs shuffled, truncations (short-read semantics),
    unknown message types / EPDs, duplicated and unknown IEs, random tails"""
    name = "nasdec"
    sub = "nasdec"
    requires = ["String", "Bytes", "NasValue", "NasCodec", "NasCorr"]
    model_check = "nasdec_check"
    model_out = "nasdec_expect"
    shard = 40

    def generate(self, rng, tier):
        g = Gen(rng, tier)
        cases = []

        def add(b, cls, expect=None):
            cases.append({"hex": bytes(b).hex(), "cls": cls, "expect": expect})

        for b in [b"", b"\x7e", b"\x2e", b"\x7e\x00", b"\x2e\x00\x00", b"\x00\x00\x41", b"\x7f\x00\x41"]:
            add(b, "tiny")
        known = {(e[0], e[4]) for e in g.entries}
        for mt in range(256):
            if ("Gmm", mt) not in known:
                add(bytes([0x7E, 0, mt]) + rng.bytes(rng.below(6)), "unknown-type")
            if ("Gsm", mt) not in known and (mt % 3 == 0 or tier != "quick"):
                add(bytes([0x2E, 1, 1, mt]) + rng.bytes(rng.below(6)), "unknown-type")
        for epd in [0, 1, 0x2D, 0x2F, 0x7D, 0x7F, 0xFF] + [rng.below(256) for _ in range(6)]:
            if epd not in (0x7E, 0x2E):
                add(bytes([epd]) + rng.bytes(5), "unknown-epd")
        n = 2 if tier == "quick" else 12
        for e in g.entries:
            k = g.nopt(e)
            for j in range(n):
                msg = g.message(e, set(i for i in range(k) if rng.chance(1, 2)) if j else set(range(k)), "rand")
                mand, opt = g.chunks(e, msg)
                canonical = mand + b"".join(opt)
                # canonical IE order = the order of the struct's fields (the order of the TS 24.501 table), not whatever
                # order the encoder's statements happen to have
                add(canonical, "canonical", expect=msg)
                if len(opt) > 1:
                    sh = rng.shuffle(opt)
                    add(mand + b"".join(sh), "shuffled", expect=msg)
                    add(mand + b"".join(reversed(opt)), "shuffled", expect=msg)
                # truncations
                cuts = set([len(mand)] + [rng.below(len(canonical) + 1) for _ in range(3)])
                if len(canonical) <= 24:
                    cuts |= set(range(len(canonical)))
                for c in sorted(cuts):
                    add(canonical[:c], "truncated")
                # duplicates / unknown IEIs / garbage tail
                if opt:
                    add(canonical + rng.choice(opt), "duplicate-ie")
                add(mand + bytes([rng.choice([0x00, 0x01, 0x7F, 0x80, 0xFF, rng.below(256)])]) + b"".join(opt), "foreign-iei")
                add(canonical + rng.bytes(rng.range(1, 12)), "garbage-tail")
        return cases

    def go_case(self, c):
        return {"hex": c["hex"]}

    def from_replay(self, c):
        return {"hex": c["hex"], "cls": "replay", "expect": None}

    def classify(self, c, o):
        return c["cls"] + ("/panic" if "dec_panic" in o else "/err" if "dec_err" in o else "") + ("/oversize" if oversize(o) else "")

    def coq_case(self, c, o):
        t = "(%s, %s)" % (C.cN(bytes.fromhex(c["hex"])), coq_odec(o))
        return t if len(t) <= OVERSIZE else "([], ODP)"

    def direct_check(self, c, o):
        if "panic" in o:
            return "harness panic: " + o["panic"]
        if c["cls"].startswith("unknown-") and "dec_err" not in o:
            return "unknown message type / EPD not reported as an error"
        if c["cls"] == "shuffled":
            # optional IEs are recognised whatever order they arrive in
            if "dec" not in o or o["dec"].get("fields") != c["expect"]["fields"]:
                return "decoding a permutation of the optional IEs does not give the message that was encoded"
        if c["cls"] == "canonical":
            # a well-formed byte string in canonical IE order is decoded to the message it encodes and re-encoded identically
            if "dec" not in o or o["dec"].get("fields") != c["expect"]["fields"]:
                return "decoding a well-formed byte string in canonical IE order does not give the message it encodes: %s" % (o.get("dec_err") or "fields differ")
            if o.get("reenc") != c["hex"]:
                return "re-encoding what was decoded from a canonical byte string gives %s" % (o.get("reenc") or o.get("reenc_err"))
        return None


class TsBytes(Stream):
    """well-formed byte strings in the sense of TS 24.501 itself (tables 8.2.x / 8.3.x as transcribed in Spec/TS24501Tables.v,
    every message type, optional IEs in table order, built by the Coq reference encoder of the C09 check): decoding and
    encoding again must reproduce them. The other streams take the IEI constants from the Go source, so a constant that
    drifts away from the specification is self-consistent there and only shows here."""
    name = "ts-bytes"
    sub = "nasdec"

    def generate(self, rng, tier):
        from . import C09
        self._ref = C09.RefEnc()
        return self._ref.generate(rng, tier)

    def go_case(self, c):
        return {k: v for k, v in self._ref.go_case(c).items() if k in ("hex", "_epd", "_ty", "_ieis")}

    def from_replay(self, c):
        self._ref = __import__("vlib.props.C09", fromlist=["RefEnc"]).RefEnc()
        return {"hex": c["hex"], "epd": c.get("_epd"), "ty": c.get("_ty"), "ieis": c.get("_ieis", []), "cls": "replay", "mand": [], "opt": []}

    def classify(self, c, o):
        return "epd %02x" % c["epd"] if isinstance(c.get("epd"), int) else "replay"

    def key(self, c, o):
        return c["hex"]

    def direct_check(self, c, o):
        if "panic" in o or any(k.endswith("_panic") for k in o): return "decoding / re-encoding a TS 24.501 message panics: %r" % {k: v for k, v in o.items() if "panic" in k}
        if "dec_err" in o: return "a well-formed TS 24.501 message is rejected: " + str(o["dec_err"])
        if o.get("reenc") != c["hex"]:
            return "a well-formed TS 24.501 byte string (message type %s, IEIs %s in table order) is not reproduced by decode + encode: %s" % (
                c.get("ty"), c.get("ieis"), str(o.get("reenc", o.get("reenc_err")))[:300])
        return None


class C08(Check):
    pid = "C08"
    prop_files = ["Properties/C08.v"]
    extra_targets = ["Model/NasCorr.vo", "Model/NasLayout.vo", "Model/NasRefCorr.vo"]
    streams = [WellFormed(), Odd(), Bytes(), TsBytes()]
    trusted = ["Coq 8.16.1 kernel incl. vm_compute (no native_compute)", "no axioms (Print Assumptions: closed under the global context)",
               "translator harness/gen_nas.go (go/ast; statements outside the recognised shapes become Unrecognised and fail desc_pair_ok)",
               "interpreter semantics of Model/NasCodec.v (binary.Read/Write, slicing, SetLen, IEI loop) tied by the streams nasrt-wellformed, nasrt-odd, nasdec",
               "Go harness cmd_nas.go (reflect: field-by-field construction and dump of nasMessage structs)"]
    assumptions = ["messages are values of the Go types (octets < 256, array sizes, Len widths) and satisfy wf_msg: Iei = the message's IEI constant "
                   "(0 for mandatory fields, whose Iei member is not transmitted), Len = len(Buffer), Len <= N and zero octets after Len for Octet[:Len] fields",
                   "SecurityProtected5GSNASMessage (8.2.28) has no PlainNas dispatch entry and a statement the translator does not model; it is outside the theorems"]

    def regen(self, harness):
        load_desc(harness)
        changed = []
        if gen.run_translator(harness, "gen-nas", "NasDesc.v", ("coq",)):
            changed.append("NasDesc.v")
        self._fresh = True
        return changed

    def eval_cases(self, st, cases, obs):
        # `./check Cxx --replay f` evaluates cases without going through run(): make sure the model is the one of the current tree
        if not getattr(self, "_fresh", False):
            h, err = C.build_harness()
            if h is None:
                raise RuntimeError(err)
            self.regen(h)
            C.coq_make([t for t in self.extra_targets])
        return super().eval_cases(st, cases, obs)
