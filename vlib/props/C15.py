"""C15 — in-repo Milenage library = TS 35.206; AUTN accepted iff valid (free5gclib/milenage).

Streams (harness command `milenage`, one exported function per case):
  functions  F1, F2345, GenerateOPC, MilenageGenerate on random and boundary K/OP/RAND/SQN/AMF
  autn       Milenage_check on valid AUTNs for SQN pairs (equal, +-1, differing only in octet 0 / 5, random)
             and on every single-octet and several (thorough: all) single-bit corruptions of each
  auts       Milenage_auts on the AUTS a stale AUTN provokes and on its corruptions
  malformed  short / long buffers and keys (error and panic returns; model only)
The valid tokens are produced by a small generator-side Milenage (below); it is never used as an oracle:
every verdict is model_check / spec_check evaluated in Coq on what the Go code returned."""
from .. import common as C
from ..prop import Check, Stream


# ----------------------------------------------------------------------------- generator-side Milenage
def _gm(a, b):
    r = 0
    for _ in range(8):
        if b & 1:
            r ^= a
        h = a & 0x80
        a = (a << 1) & 0xff
        if h:
            a ^= 0x1b
        b >>= 1
    return r


def _sb(x):
    i = 1
    if x == 0:
        i = 0
    else:
        for _ in range(254):
            i = _gm(i, x)
    r = i
    for k in range(1, 5):
        r ^= ((i << k) | (i >> (8 - k))) & 0xff
    return r ^ 0x63


SBOX = [_sb(x) for x in range(256)]


def aes(key, blk):
    w = [list(key[4 * i:4 * i + 4]) for i in range(4)]
    rc = 1
    for i in range(4, 44):
        t = list(w[i - 1])
        if i % 4 == 0:
            t = t[1:] + t[:1]
            t = [SBOX[b] for b in t]
            t[0] ^= rc
            rc = _gm(rc, 2)
        w.append([a ^ b for a, b in zip(w[i - 4], t)])
    rk = [sum(w[4 * r:4 * r + 4], []) for r in range(11)]
    s = [a ^ b for a, b in zip(blk, rk[0])]
    for rnd in range(1, 11):
        s = [SBOX[b] for b in s]
        s = [s[(i + 4 * (i % 4)) % 16] for i in range(16)]
        if rnd < 10:
            n = []
            for c in range(4):
                a = s[4 * c:4 * c + 4]
                n += [_gm(a[0], 2) ^ _gm(a[1], 3) ^ a[2] ^ a[3], a[0] ^ _gm(a[1], 2) ^ _gm(a[2], 3) ^ a[3],
                      a[0] ^ a[1] ^ _gm(a[2], 2) ^ _gm(a[3], 3), _gm(a[0], 3) ^ a[1] ^ a[2] ^ _gm(a[3], 2)]
            s = n
        s = [a ^ b for a, b in zip(s, rk[rnd])]
    return bytes(s)


def xor(a, b):
    return bytes(x ^ y for x, y in zip(a, b))


def gen_milenage(k, opc, rand, sqn, amf):
    rot = lambda b, r: b[r:] + b[:r]
    c = lambda n: bytes(15) + bytes([n])
    temp = aes(k, xor(rand, opc))
    in1 = sqn + amf + sqn + amf
    out1 = xor(aes(k, xor(temp, rot(xor(in1, opc), 8))), opc)
    o = [xor(aes(k, xor(rot(xor(temp, opc), r), c(n))), opc) for r, n in ((0, 1), (4, 2), (8, 4), (12, 8))]
    return dict(mac_a=out1[:8], mac_s=out1[8:], res=o[0][8:], ak=o[0][:6], ck=o[1], ik=o[2], aks=o[3][:6])


def gen_autn(k, opc, rand, sqn, amf):
    m = gen_milenage(k, opc, rand, sqn, amf)
    return xor(sqn, m["ak"]) + amf + m["mac_a"]


def gen_auts(k, opc, rand, sqn_ms):
    m = gen_milenage(k, opc, rand, sqn_ms, b"\0\0")
    return xor(sqn_ms, m["aks"]) + m["mac_s"]


SET1 = dict(k="465b5ce8b199b49faa5f0a2ee238a6bc", op="cdc202d5123e20f62b6d676ac72cb318", opc="cd63cb71954a9f4e48a5994e37a02baf",
            rand="23553cbe9637a89d218ae64dae47bf35", sqn="ff9bb4d0b607", amf="b9b9")
# shipped src/config.yaml
CONF = dict(k="465b5ce8b199b49faa5f0a2ee238a6bc", opc="e8ed289deba952e4283b54e88e6183ca", op="e8ed289deba952e4283b54e88e6183ca")


def hb(h):
    return C.cN(bytes.fromhex(h))


def zc(n):
    return "(%d)%%Z" % n


class MilStream(Stream):
    sub = "milenage"
    retained_field = "opc"
    requires = ["Bytes", "AES", "Milenage", "TS35206", "MilenageCases"]
    model_check = "c15_model_check"
    spec_check = "c15_spec_check"
    model_out = "c15_expected"
    shard = 24

    _n = 0

    def go_case(self, c):
        # every other call goes through persistent, overwritten caller buffers (results must be a function of the
        # arguments only, whatever buffers carried them and whatever was computed before)
        d = {k: v for k, v in c.items() if k != "kind"}
        MilStream._n += 1
        if "reuse" not in d:           # a replayed case carries the mode it ran in
            d["reuse"] = MilStream._n % 2 == 1
        return d

    def classify(self, c, o):
        return c.get("kind", c["fn"])

    def direct_check(self, c, o):
        # the harness runs every call a second time with output buffers pre-filled with a5 and watches its input slices
        if o.get("mutated_inputs"):
            return "the library wrote into its input(s) %s" % ", ".join(o["mutated_inputs"])
        if o.get("subset_mismatch"):
            return "F2345 asked for a subset of its outputs gives other values than when asked for all: %s" % "; ".join(o["subset_mismatch"][:4])
        if o.get("wrote_outside_inputs"):
            return "with its inputs handed over as windows into one contiguous record the library changed the record: " + o["wrote_outside_inputs"]
        if o.get("depends_on_input_layout"):
            return "the results depend on whether the inputs are separate allocations or windows into one record: " + o["depends_on_input_layout"]
        if o.get("depends_on_buffer_contents"):
            return "output(s) %s depend on what the caller's output buffer held before the call" % ", ".join(o["depends_on_buffer_contents"])
        return None

    def coq_case(self, c, o):
        return "(" + self.coq_case0(c, o) + ")"

    def coq_case0(self, c, o):
        fn = c["fn"]
        pan = "panic" in o
        g = lambda k: hb(o.get(k, "")) if not pan else "[]"
        if fn in ("F1", "F2345", "GenerateOPC"):
            st = 2 if pan else (1 if o.get("err") else 0)
        else:
            st = 2 if pan else 0
        if fn == "F1":
            return "CF1 %s %s %s %s %s %d %s %s" % (hb(c["opc"]), hb(c["k"]), hb(c["rand"]), hb(c["sqn"]), hb(c["amf"]), st, g("mac_a"), g("mac_s"))
        if fn == "F2345":
            return "CF2345 %s %s %s %d %s %s %s %s %s" % (hb(c["opc"]), hb(c["k"]), hb(c["rand"]), st, g("res"), g("ck"), g("ik"), g("ak"), g("akstar"))
        if fn == "GenerateOPC":
            return "COPC %s %s %d %s" % (hb(c["k"]), hb(c["op"]), st, g("opc"))
        if fn == "MilenageGenerate":
            return "CGen %s %s %s %s %s %d %d %s %s %s %s %s %d" % (hb(c["opc"]), hb(c["amf"]), hb(c["k"]), hb(c["sqn"]), hb(c["rand"]), c["res_len"], st,
                                                                  g("autn"), g("ik"), g("ck"), g("ak"), g("res"), 0 if pan else o["res_len"])
        if fn == "Milenage_check":
            return "CChk %s %s %s %s %s %d %d %s %s %s %s %d %s" % (hb(c["opc"]), hb(c["k"]), hb(c["sqn"]), hb(c["rand"]), hb(c["autn"]), c["res_len"], st,
                                                                  zc(0 if pan else o["rc"]), g("ik"), g("ck"), g("res"), 0 if pan else o["res_len"], g("auts"))
        if fn == "Milenage_auts":
            return "CAuts %s %s %s %s %d %s %s" % (hb(c["opc"]), hb(c["k"]), hb(c["rand"]), hb(c["auts"]), st, zc(0 if pan else o["rc"]), g("sqn"))
        raise ValueError(fn)


def rnd_cfg(rng):
    return dict(k=rng.bytes(16), opc=rng.bytes(16), rand=rng.bytes(16), amf=rng.bytes(2))


def corruptions(rng, n_octets, tier, nbits):
    """(position, xor mask) list: every single octet with a random non-zero mask, plus single bits"""
    out = [(i, rng.range(1, 255)) for i in range(n_octets)]
    if tier == "quick":
        bits = [rng.below(8 * n_octets) for _ in range(nbits)]
        bits += [0, 7, 8 * n_octets - 1]          # first / last bit always
    else:
        bits = range(8 * n_octets)
    out += [(b // 8, 0x80 >> (b % 8)) for b in bits]
    return out


def flip(b, pos, mask):
    b = bytearray(b)
    b[pos] ^= mask
    return bytes(b)


def sqn_pairs(rng):
    """(kind, sqn_net, sqn_ue) as 48-bit integers"""
    M = (1 << 48) - 1
    out = []
    s = rng.below(M - 2) + 1
    out.append(("equal", s, s))
    out.append(("net=ue+1", s + 1, s))
    out.append(("net=ue-1", s - 1, s))
    lo = rng.below(1 << 40)
    a, b = rng.below(256), rng.below(256)
    if a == b:
        b = (a + 1) % 256
    a, b = max(a, b), min(a, b)
    out.append(("octet0-only net>ue", (a << 40) | lo, (b << 40) | lo))
    out.append(("octet0-only net<ue", (b << 40) | lo, (a << 40) | lo))
    hi = rng.below(1 << 40) << 8
    a, b = rng.below(256), rng.below(256)
    if a == b:
        b = (a + 1) % 256
    a, b = max(a, b), min(a, b)
    out.append(("octet5-only net>ue", hi | a, hi | b))
    out.append(("octet5-only net<ue", hi | b, hi | a))
    # carries across an octet boundary: numeric order versus octet-wise order
    out.append(("carry net>ue", 0x0100, 0x00ff))
    out.append(("carry net<ue", 0x00ffffffffff, 0x010000000000))
    out.append(("zero/zero", 0, 0))
    out.append(("max/max-1", M, M - 1))
    out.append(("random", rng.below(M + 1), rng.below(M + 1)))
    return out


class Functions(MilStream):
    name = "functions"
    history_dependent = True       # a replay file also records the preceding call

    def generate(self, rng, tier):
        n = 10 if tier == "quick" else 120
        cs = []
        fixed = [dict(SET1), dict(SET1, k="00" * 16, op="00" * 16, opc="00" * 16, rand="00" * 16, sqn="00" * 6, amf="0000"),
                 dict(SET1, k="ff" * 16, op="ff" * 16, opc="ff" * 16, rand="ff" * 16, sqn="ff" * 6, amf="ffff"),
                 dict(SET1, k=CONF["k"], op=CONF["op"], opc=CONF["opc"])]
        for i in range(n):
            fixed.append(dict(k=rng.bytes(16).hex(), op=rng.bytes(16).hex(), opc=rng.bytes(16).hex(), rand=rng.bytes(16).hex(),
                              sqn=rng.bytes(6).hex(), amf=rng.bytes(2).hex()))
        # SQN xor AK beginning with one / two zero octets (the field is six octets whatever its value)
        for nz in (1, 2, 1):
            g = rnd_cfg(rng)
            ak = gen_autn(g["k"], g["opc"], g["rand"], bytes(6), g["amf"])[:6]
            sqn = ak[:nz] + rng.bytes(6 - nz)
            fixed.append(dict(k=g["k"].hex(), op=rng.bytes(16).hex(), opc=g["opc"].hex(), rand=g["rand"].hex(), sqn=sqn.hex(), amf=g["amf"].hex()))
        # runs of subscribers that share all components but ONE (an OP rotation at fixed K and RAND, the same challenge for two
        # keys, ...): a result may depend on nothing but the call's own arguments, whatever was computed just before
        for vary in ("opc", "k", "rand", "sqn", "amf", "op"):
            base = dict(fixed[-1])
            for j in range(3):
                nb = {"sqn": 6, "amf": 2}.get(vary, 16)
                fixed.append(dict(base, **{vary: rng.bytes(nb).hex()}))
            fixed.append(dict(base))
        for f in fixed:
            cs.append(dict(fn="F1", opc=f["opc"], k=f["k"], rand=f["rand"], sqn=f["sqn"], amf=f["amf"]))
            cs.append(dict(fn="F2345", opc=f["opc"], k=f["k"], rand=f["rand"]))
            cs.append(dict(fn="GenerateOPC", k=f["k"], op=f["op"]))
            cs.append(dict(fn="MilenageGenerate", opc=f["opc"], amf=f["amf"], k=f["k"], sqn=f["sqn"], rand=f["rand"],
                           res_len=rng.choice([8, 8, 8, 9, 16, 1 << 40])))
        cs.append(dict(fn="MilenageGenerate", opc=SET1["opc"], amf=SET1["amf"], k=SET1["k"], sqn=SET1["sqn"], rand=SET1["rand"], res_len=7, kind="MilenageGenerate res_len<8"))
        cs.append(dict(fn="MilenageGenerate", opc=SET1["opc"], amf=SET1["amf"], k=SET1["k"], sqn=SET1["sqn"], rand=SET1["rand"], res_len=0, kind="MilenageGenerate res_len<8"))
        return cs


class Autn(MilStream):
    name = "autn"

    def generate(self, rng, tier):
        cs = []
        rounds = 1 if tier == "quick" else 6
        nbits = 5
        for r in range(rounds):
            for kind, net, ue in sqn_pairs(rng):
                g = rnd_cfg(rng)
                sn, su = net.to_bytes(6, "big"), ue.to_bytes(6, "big")
                autn = gen_autn(g["k"], g["opc"], g["rand"], sn, g["amf"])
                base = dict(fn="Milenage_check", opc=g["opc"].hex(), k=g["k"].hex(), sqn=su.hex(), rand=g["rand"].hex(), res_len=rng.choice([0, 8, 77]))
                cs.append(dict(base, autn=autn.hex(), kind="valid-mac " + kind))
                heavy = tier != "quick" or kind in ("net=ue+1", "octet0-only net>ue", "equal", "carry net>ue")
                cor = corruptions(rng, 16, tier, nbits) if heavy else [(i, rng.range(1, 255)) for i in (0, 5, 6, 8, 15)]
                for pos, mask in cor:
                    what = "sqn" if pos < 6 else ("amf" if pos < 8 else "mac")
                    cs.append(dict(base, autn=flip(autn, pos, mask).hex(), kind="corrupt-%s %s" % (what, "fresh" if net > ue else "stale")))
                # corruptions of several MAC-A octets at once whose differences cancel under xor / sum to zero: "if and
                # only if MAC-A is exactly f1" leaves no room for a comparison that folds the differences
                fresh = "fresh" if net > ue else "stale"
                i, j = 8 + rng.below(8), 8 + rng.below(8)
                if i != j:
                    m = rng.range(1, 255)
                    cs.append(dict(base, autn=flip(flip(autn, i, m), j, m).hex(), kind="corrupt-mac-pair-same-mask " + fresh))
                    a = bytearray(autn); a[i], a[j] = a[j], a[i]
                    if bytes(a) != autn:
                        cs.append(dict(base, autn=bytes(a).hex(), kind="corrupt-mac-swapped-octets " + fresh))
                    a = bytearray(autn); a[i] = (a[i] + 1) & 0xff; a[j] = (a[j] - 1) & 0xff
                    cs.append(dict(base, autn=bytes(a).hex(), kind="corrupt-mac-plus-minus " + fresh))
                cs.append(dict(base, autn=(autn[:8] + bytes(x ^ 0xff for x in autn[8:])).hex(), kind="corrupt-mac-inverted " + fresh))
                cs.append(dict(base, autn=(autn[:8] + autn[8:][::-1]).hex(), kind="corrupt-mac-reversed " + fresh))
        return cs


class Auts(MilStream):
    name = "auts"

    def generate(self, rng, tier):
        cs = []
        rounds = 3 if tier == "quick" else 20
        for r in range(rounds):
            g = rnd_cfg(rng)
            ms = rng.choice([0, 1, (1 << 48) - 1, rng.below(1 << 48), rng.below(1 << 48)]).to_bytes(6, "big")
            auts = gen_auts(g["k"], g["opc"], g["rand"], ms)
            base = dict(fn="Milenage_auts", opc=g["opc"].hex(), k=g["k"].hex(), rand=g["rand"].hex())
            cs.append(dict(base, auts=auts.hex(), kind="valid-auts"))
            for pos, mask in corruptions(rng, 14, tier, 4):
                cs.append(dict(base, auts=flip(auts, pos, mask).hex(), kind="corrupt-%s" % ("conc-sqn" if pos < 6 else "mac-s")))
            # the round trip through the code itself: a stale AUTN makes Milenage_check emit an AUTS; the same
            # UE-side inputs are in the `autn` stream, here the network-side check of the token the generator predicts
            cs.append(dict(base, auts=(auts + rng.bytes(3)).hex(), kind="auts-longer-than-14"))
        return cs


class Malformed(MilStream):
    name = "malformed"
    spec_check = None
    model_out = None      # c15_expected is the specification's answer, which says nothing about these inputs

    def generate(self, rng, tier):
        cs = []
        f = dict(SET1)
        autn = gen_autn(*(bytes.fromhex(f[x]) for x in ("k", "opc", "rand", "sqn", "amf"))).hex()
        auts = gen_auts(*(bytes.fromhex(f[x]) for x in ("k", "opc", "rand", "sqn"))).hex()
        cut = lambda h, n: h[:2 * n]
        for kl in (0, 1, 15, 17, 31, 33):            # 24 / 32 would select AES-192 / AES-256: outside the model
            k = rng.bytes(kl).hex()
            cs += [dict(fn="F1", opc=f["opc"], k=k, rand=f["rand"], sqn=f["sqn"], amf=f["amf"], kind="bad-key-length"),
                   dict(fn="F2345", opc=f["opc"], k=k, rand=f["rand"], kind="bad-key-length"),
                   dict(fn="GenerateOPC", k=k, op=f["op"], kind="bad-key-length"),
                   dict(fn="MilenageGenerate", opc=f["opc"], amf=f["amf"], k=k, sqn=f["sqn"], rand=f["rand"], res_len=8, kind="bad-key-length"),
                   dict(fn="Milenage_check", opc=f["opc"], k=k, sqn=f["sqn"], rand=f["rand"], autn=autn, res_len=5, kind="bad-key-length"),
                   dict(fn="Milenage_auts", opc=f["opc"], k=k, rand=f["rand"], auts=auts, kind="bad-key-length")]
        for fld, lens in (("opc", (0, 15, 17)), ("rand", (0, 15, 20)), ("sqn", (0, 2, 5, 7)), ("amf", (0, 1, 3))):
            for n in lens:
                v = (f[fld] + "a5" * 8)[:2 * n]
                g = dict(f, **{fld: v})
                cs += [dict(fn="F1", opc=g["opc"], k=g["k"], rand=g["rand"], sqn=g["sqn"], amf=g["amf"], kind="buffer-length " + fld),
                       dict(fn="MilenageGenerate", opc=g["opc"], amf=g["amf"], k=g["k"], sqn=g["sqn"], rand=g["rand"], res_len=8, kind="buffer-length " + fld)]
                if fld in ("opc", "rand"):
                    cs += [dict(fn="F2345", opc=g["opc"], k=g["k"], rand=g["rand"], kind="buffer-length " + fld),
                           dict(fn="Milenage_auts", opc=g["opc"], k=g["k"], rand=g["rand"], auts=auts, kind="buffer-length " + fld)]
                if fld != "amf":
                    cs.append(dict(fn="Milenage_check", opc=g["opc"], k=g["k"], sqn=g["sqn"], rand=g["rand"], autn=autn, res_len=8, kind="buffer-length " + fld))
        for n in (0, 5, 6, 7, 8, 9, 15, 17):
            cs.append(dict(fn="Milenage_check", opc=f["opc"], k=f["k"], sqn="ff9bb4d0b606", rand=f["rand"], autn=(autn + "00")[:2 * n], res_len=8, kind="buffer-length autn"))
            cs.append(dict(fn="Milenage_check", opc=f["opc"], k=f["k"], sqn="ff9bb4d0b607", rand=f["rand"], autn=(autn + "00")[:2 * n], res_len=8, kind="buffer-length autn"))
        for n in (0, 5, 6, 13, 15):
            cs.append(dict(fn="Milenage_auts", opc=f["opc"], k=f["k"], rand=f["rand"], auts=(auts + "00")[:2 * n], kind="buffer-length auts"))
        for n in (0, 15, 17):
            cs.append(dict(fn="GenerateOPC", k=f["k"], op=(f["op"] + "77")[:2 * n], kind="buffer-length op"))
        # the sqn buffer shorter than 6 but differing before its end: os_memcmp never reaches the missing octet
        cs.append(dict(fn="Milenage_check", opc=f["opc"], k=f["k"], sqn="00", rand=f["rand"], autn=autn, res_len=8, kind="buffer-length sqn"))
        cs.append(dict(fn="Milenage_check", opc=f["opc"], k=f["k"], sqn="ff9c", rand=f["rand"], autn=autn, res_len=8, kind="buffer-length sqn"))
        return cs

    def direct_check(self, c, o):
        # "checking succeeds ... if and only if MAC-A is exactly f1 over the concealed SQN and AMF": an AUTN shorter than
        # 16 octets carries no complete MAC-A, so whatever else happens it must not be accepted
        if c["fn"] == "Milenage_check" and len(c["autn"]) < 32 and isinstance(o, dict) and o.get("rc") == 0:
            return "an AUTN of %d octets (no complete SQN^AK || AMF || MAC-A) is accepted (rc = 0)" % (len(c["autn"]) // 2)
        return MilStream.direct_check(self, c, o)


class Concurrent(Stream):
    """the same library calls made for 8 subscribers at once must give what they give one at a time (the functions are
    specified per call: TS 35.206 has no hidden state)"""
    name = "concurrent"
    sub = "conc"
    model_check = None
    spec_check = None
    requires = []

    def generate(self, rng, tier):
        return [{"family": "milenage", "goroutines": 8, "iters": 1500 if tier == "quick" else 20000}]

    def classify(self, c, o):
        return "same" if o.get("different") == 0 else "different"

    def key(self, c, o):
        return "milenage-conc"

    def coq_case(self, c, o):
        return ""

    def direct_check(self, c, o):
        if o.get("different", 1) != 0 or "harness_error" in o or "panic" in o:
            return "concurrent use for different subscribers changes the results: %s" % (o.get("first") or o)
        return None


class C15(Check):
    pid = "C15"
    prop_files = ["Properties/C15.v"]
    extra_targets = ["Model/MilenageCases.vo"]
    streams = [Functions(), Autn(), Auts(), Malformed(), Concurrent()]
    trusted = ["Coq 8.16.1 kernel incl. vm_compute (no native_compute)", "no axioms (Print Assumptions: closed under the global context)",
               "hand-written model Model/Milenage.v of free5gclib/milenage tied by the correspondence streams functions, autn, auts, malformed",
               "Crypto/AES.v (FIPS-197, vector C.1 as Example) stands for Go crypto/aes in the executed model; theorems hold for any block cipher E with 16-octet output",
               "Go harness cmd_milenage.go (buffers with capacity == length, documented output sizes)",
               "generator-side Python Milenage only chooses inputs (valid AUTN/AUTS to corrupt); it is no oracle"]
    assumptions = ["K, OPc/OP, RAND, AUTN of 16 octets, SQN of 6, AMF of 2, AUTS of 14 octets (other lengths: model only, error/panic returns)",
                   "AES-192/256 keys (24/32 octets) are accepted by the Go code and are outside the model",
                   "SQN freshness = strictly greater than the UE's SQN (TS 33.102 Annex C windows/IND are not implemented by the code)",
                   "Milenage_check tests freshness before MAC-A (TS 33.102 6.3.3 tests MAC first): a stale AUTN with a wrong MAC yields -2 and an AUTS; accept/reject is unaffected (recorded as c15_failure_class_refuted)"]
