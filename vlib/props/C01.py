"""C01 — NG Setup + registration accepted by a conformant AMF.
Composition theorem (C16 + C11 + C05 + C06 models vs the reference AMF checker) + process-level runs of the real
main() against the independent Python reference AMF; the NAS PDUs seen on the wire are compared with the Coq model
and judged by the Coq reference AMF."""
import concurrent.futures as cf, sys, os
from .. import common as C, proc
from ..prop import Check, Stream


def dl(s):
    return "[" + ";".join(s) + "]"


class Registration(Stream):
    name = "registration"
    sub = None
    requires = ["Bytes", "Register", "RefAMF", "RegisterInst"]
    model_check = "c01_model_check"
    spec_check = "c01_spec_check"
    shard = 2
    eval_timeout = 1200

    def __init__(self):
        self.binary = None
        self.notes = []

    def generate(self, rng, tier):
        import perdec
        n_cfg = 6 if tier == "quick" else 24
        cfgs = []
        for i in range(n_cfg):
            r = rng.fork("cfg%d" % i)
            cfg = proc.default_cfg(r if i else None, counts=[2, 0, 0, 0, 0])
            # the operator's algorithm priority lists (any AMF choice): the UE is told to use the first one it advertises
            cfg["int_priority"], cfg["enc_priority"] = [[2, 1, 0], [1, 2, 0], [0, 2, 1], [3, 1, 2]][i % 4][:], [[0, 1, 2], [2, 1, 0], [1, 0, 2], [3, 2, 0]][i % 4][:]
            # which downlink NAS transports get which optional IEs (TS 38.413 9.2.5.2): every phase of the reference AMF's cycle,
            # so that the long ones (150-character Old AMF name, 8-slice Allowed NSSAI) fall on each message of the exchange in some run
            cfg["dlnas_phase"] = i % 8
            if i % 4 == 2:
                cfg["int_priority"] = [2, 0, 1]       # NIA0 first would select null integrity for a UE that advertised it
            if i % 8 in (2, 5):  # both ends of the gNB ID size range (22..32 bits)
                bl = 22 if i % 8 == 2 else 32
                cfg.update(gnb_bitlength=bl, gnb_id=bytes(r.below(128) for _ in range((bl + 7) // 8)))
            if i % 4 == 3:       # hexadecimal key material that begins with the digit 0 / with a zero octet
                cfg["k"] = "0" + cfg["k"][1:]
                cfg["opc"] = "00" + cfg["opc"][2:]
            if i % 4 == 1:       # OP-only configuration: opc: "" in the file, the network holds OPc = E_K(OP) xor OP
                import crypto5g
                op = r.bytes(16)
                k = bytes.fromhex(cfg["k"])
                cfg["op"] = op.hex()
                cfg["opc"] = bytes(a ^ b for a, b in zip(crypto5g.aes(k, op), op)).hex()
                cfg["opc_text"] = ""
            fid = [256, 0, (1 << 40) - 2, 1 << 32, 65536, 1 << 24, 255, None][i % 8]          # first AMF-UE-NGAP-ID the network assigns: ends of the range, exact powers of 256
            if fid is not None:
                cfg["first_amf_id"] = fid
            if i % 8 in (4, 5):
                # the shortest and the longest RAN node names (SIZE(1..150,...)): short strings take the other alignment rule
                ln = [1, 2, 3, 150][(i % 8 - 4) + 2 * ((i // 8) % 2)]
                cfg["gnb_name"] = "".join(r.choice("abcdefgh-XYZ019") for _ in range(ln))
            elif i % 4 >= 2:
                # RAN node names at which an enclosing X.691 length determinant is exactly 128 (the first two-octet
                # length): the name IE value for 126 characters, the whole message for the length found by trying
                lens = self.boundary_names(cfg)
                ln = lens[(i // 4 + i % 2) % len(lens)]
                cfg["gnb_name"] = "".join(r.choice("abcdefgh-XYZ019") for _ in range(ln))
            cfgs.append(cfg)
        with cf.ThreadPoolExecutor(max_workers=8) as ex:
            runs = list(ex.map(lambda c: proc.run(self.binary, c, rng.s & 0xffff, strict=True, yaml_text=self.yaml(c)), cfgs))
        cases = []
        for cfg, r in zip(cfgs, runs):
            ok = r["rc"] == 0 and r["verdict"].startswith("ok") and not r["findings"]
            note = {"imsi": cfg["imsi"], "mnc": cfg["mnc"], "gnb_bits": cfg["gnb_bitlength"], "name_len": len(cfg["gnb_name"]), "verdict": r["verdict"], "rc": r["rc"], "findings": r["findings"]}
            self.notes.append(note)
            if not ok:
                cases.append({"cfg": cfg, "failed": note, "stdout": r["stdout"][-800:]})
                continue
            # uplink NAS PDUs per RAN-UE-NGAP-ID
            per_ue = {}
            for m in r["uplinks"]:
                v = perdec.decode("ngapType.NGAPPDU", "valueExt,valueLB:0,valueUB:2", m)
                cls, pr, ies = perdec.pdu_info(v)
                L = perdec.ie_list(ies)
                ran = [int(x[0]) for i, c, x in L if i == 85]
                nas = [bytes.fromhex(x[0]["hex"]) for i, c, x in L if i == 38]
                if ran and nas:
                    per_ue.setdefault(ran[0], []).append(nas[0])
            for idx, ue in enumerate(sorted(r["amf"].ues.values(), key=lambda u: u.supi)):
                cases.append({"cfg": cfg, "idx": idx, "rand": ue.rand, "autn": ue.autn, "sqn": ue.sqn, "amf": ue.amf_field,
                              "supi": ue.supi, "ran": ue.ran, "nas": per_ue.get(ue.ran, [])})
        return cases

    def boundary_names(self, cfg):
        """name lengths for which some length determinant of this configuration's NGSetupRequest is 128 (found with
        the real builder through the harness; [126] when that fails)"""
        out = [126]
        try:
            import refamf
            plmn = bytes(refamf.plmn_bytes(cfg["mcc"], cfg["mnc"])).hex()
            calls = [{"calls": [{"fn": "GetNGSetupRequest", "gnbid": bytes(cfg["gnb_id"]).hex(), "plmn": plmn,
                                 "bits": str(cfg["gnb_bitlength"]), "name": ("a" * ln).encode().hex()}], "value": False} for ln in range(1, 151)]
            res = C.harness_call(self.harness, "getmsg", calls)
            for ln, o in zip(range(1, 151), res):
                h = bytes.fromhex(o["results"][0].get("hex", ""))
                if len(h) > 4 and (h[3] == 0x80 and len(h) - 5 == 128 or len(h) - 4 == 128):
                    out.append(ln)
        except Exception:
            pass
        return sorted(set(out))

    def yaml(self, cfg):
        y = proc.yaml_of(cfg)
        if cfg.get("opc_text") == "":
            y = y.replace('opc: "%s"' % cfg["opc"], 'opc: ""')
        return y

    def go_case(self, c):
        d = {k: (v.hex() if isinstance(v, bytes) else v) for k, v in c.items() if k not in ("cfg", "nas")}
        d["imsi"] = c["cfg"]["imsi"]
        d["mnc"] = c["cfg"]["mnc"]
        if "nas" in c:
            d["nas"] = [n.hex() for n in c["nas"]]
        return d

    def classify(self, c, o):
        return "failed-run" if "failed" in c else "mnc%d-ue%d" % (len(c["cfg"]["mnc"]), c["idx"])

    def key(self, c, o):
        return None if "failed" in c else c["supi"] + c["rand"].hex()

    def direct_check(self, c, o):
        if "failed" in c:
            return "the reference AMF rejected the conversation or the emulator failed: %s" % (c["failed"],)
        if len(c["nas"]) != 4:
            return "expected 4 uplink NAS PDUs for the UE, saw %d" % len(c["nas"])
        return None

    def coq_case(self, c, o):
        if "failed" in c or len(c["nas"]) != 4:
            return ("({| g_imsi := []; g_mcc := []; g_mnc := []; g_k := []; g_opc := []; g_op := [] |}, 0, ([], []), "
                    "({| sub_mcc := []; sub_mnc := []; sub_msin := []; sub_k := []; sub_opc := [] |}, {| ch_rand := []; ch_sqn := []; ch_amf := [] |}), (0, [], [], [], []))")
        cfg = c["cfg"]
        opc_txt = "" if cfg.get("opc_text") == "" else cfg["opc"]
        g = "{| g_imsi := %s; g_mcc := %s; g_mnc := %s; g_k := %s; g_opc := %s; g_op := %s |}" % (
            C.cstr(cfg["imsi"]), C.cstr(cfg["mcc"]), C.cstr(cfg["mnc"]), C.cstr(cfg["k"]), C.cstr(opc_txt), C.cstr(cfg.get("op", cfg["opc"])))
        supi = c["supi"]
        npl = len(cfg["mcc"]) + len(cfg["mnc"])
        s = "{| sub_mcc := %s; sub_mnc := %s; sub_msin := %s; sub_k := %s; sub_opc := %s |}" % (
            dl(cfg["mcc"]), dl(cfg["mnc"]), dl(supi[npl:]), C.cN(bytes.fromhex(cfg["k"])), C.cN(bytes.fromhex(cfg["opc"])))
        ch = "{| ch_rand := %s; ch_sqn := %s; ch_amf := %s |}" % (C.cN(c["rand"]), C.cN(c["sqn"]), C.cN(c["amf"]))
        n = c["nas"]
        return "(%s, %d, (%s, %s), (%s, %s), (%d, %s, %s, %s, %s))" % (g, c["idx"], C.cN(c["rand"]), C.cN(c["autn"]), s, ch, c["ran"],
                                                                      C.cN(n[0]), C.cN(n[1]), C.cN(n[2]), C.cN(n[3]))


class C01(Check):
    pid = "C01"
    prop_files = ["Properties/C01.v"]
    extra_targets = ["Model/RegisterInst.vo"]
    trusted = ["Coq 8.16.1 kernel incl. vm_compute (no native_compute)", "no axioms (Print Assumptions: closed under the global context)",
               "hand models Model/Register.v (NAS side of RegisterUE as a composition of the C16/C11/C05/C06 models) tied to the real process: the NAS PDUs the unmodified main() puts on the wire are compared octet by octet with the model evaluated by vm_compute (AES, HMAC-SHA-256, CMAC computed inside Coq)",
               "Spec/RefAMF.v reference AMF checker (TS 24.501 / TS 33.501 / TS 33.102 from memory); refamf/ Python reference AMF (own X.691 codec over a frozen golden schema, own crypto) as the live peer, in strict mode",
               "hypotheses on E/H/enc/mac in the theorem (16/32-octet outputs, 4-octet MAC, involutive ciphering, algorithms defined for EA0/IA2) are C07's / the primitives' properties",
               "verif hook: tglib.ConnectToAmf adopts an inherited SEQPACKET socket (build tag verif)"]
    assumptions = ["valid configuration: IMSI = MCC(3) MNC(2|3) MSIN digits, at most 15 digits, beginning with the configured MCC/MNC; K and OPc (or OP) 32 hex digits; gNB id of ceil(bitlength/8) octets below 0x80",
                   "the NGAP side of the claim (mandatory IEs, criticalities, identifiers, PLMN) is judged at run time by the reference AMF and proved in C13/C11; the theorem here covers the NAS side"]

    def __init__(self, tier, seed):
        super().__init__(tier, seed)
        self.streams = [Registration()]

    def run(self):
        b, err = C.build_emulator()
        if b is None:
            raise RuntimeError(err)
        sys.path.insert(0, os.path.join(C.VERIF, "refamf"))
        self.streams[0].binary = b
        self.streams[0].harness = C.build_harness()[0]
        super().run()
