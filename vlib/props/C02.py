"""C02 — session lifecycle for N UEs: clamps, identities, COUNT, reported session data.
Theorems over the regenerated wiring + the real process against the reference AMF/SMF."""
import concurrent.futures as cf, os, re, sys
from .. import common as C, gen, proc
from ..prop import Check
from . import C12

COUNT_KEYS = ["Test_ue_registation", "Test_ue_pdu_establishment", "Test_ue_service", "Test_ue_pdu_release", "Test_ue_deregistration"]
BANNER = ">> All tests finished"

# what the reference AMF objects to on the unchanged tree, keyed narrowly (known_findings.json)
FINDING_KEYS = [
    (r"^ngKSI \d+ != assigned \d+$", "C02:service-request:ngksi-constant"),
    (r"^5G-S-TMSI type-of-identity octet 0x0 != 0xf4$", "C02:service-request:5g-s-tmsi-type-octet"),
    (r"^5G-S-TMSI fe0000000001 != assigned [0-9a-f]+$", "C02:service-request:5g-s-tmsi-constant"),
    (r"^PTI 0 unassigned in 5GSM message 0xd1$", "C02:pti-0:release-request"),
    (r"^PTI 0 unassigned in 5GSM message 0xd4$", "C02:pti-0:release-complete"),
    (r"^PDU session id \d+ outside 1\.\.15$", "C02:session-id-above-15"),
]


class AssignedValues(C12.TransferLib):
    """"reports exactly the UE IPv4 address, uplink TEID and UPF address the network assigned": every value of every
    octet of the UPF address and of the TEID, in transfers built by the library's own encoder, through the emulator's
    extractor and the Coq model of it (C12 proves exactness for all of them; this stream ties the claim to the code here)"""
    name = "assigned-values"

    def generate(self, rng, tier):
        cs = []
        for pos in range(8):
            for v in range(256):
                b = bytearray(rng.bytes(8))
                b[pos] = v
                if rng.chance(1, 2):            # the rest of the address as in common deployments (10.x, 172.x, 192.168.x)
                    b[0] = rng.choice([10, 172, 192])
                    if pos == 0:
                        b[0] = v
                cs.append({"dl": rng.choice([-1, 10 ** 9, 4 * 10 ** 12]), "ul": rng.choice([1, 10 ** 9]), "addr": bytes(b[:4]).hex(), "teid": bytes(b[4:]).hex(),
                           "pdutype": rng.choice([-1, 0]), "qfi": rng.choice([1, 5, 9, rng.below(64)])})
        return cs


class C02(Check):
    pid = "C02"
    prop_files = ["Properties/C02.v"]
    streams = [AssignedValues()]
    trusted = ["Coq 8.16.1 kernel incl. vm_compute (no native_compute)", "no axioms (Print Assumptions: closed under the global context)",
               "translator gen-mainwiring (go/ast): loop bounds (Min clamps) and call order of main() regenerated from the working tree",
               "refamf/ Python reference AMF/SMF (non-strict: deviations are collected and must all fall under a recorded known finding)",
               "verif hooks: inherited socket in tglib.ConnectToAmf; EstablishPDU prints the session it returns (both build tag verif)"]
    assumptions = ["acceptance criteria of the reference AMF as fixed in DESIGN.md §7 C02",
                   "session identities above 255 make the NGAP encoder refuse and the emulator stop: recorded finding, exercised by one configuration per run"]

    def regen(self, harness):
        return gen.regen(harness, {"MainWiring.v"})

    def model_schedule(self, counts):
        cfg = "[" + ";".join('("%s",(%d)%%Z)' % (k, v) for k, v in zip(COUNT_KEYS, counts)) + "]"
        txt = ("From Coq Require Import List String Bool Arith ZArith.\nRequire Import DriverTypes DriverConv Lifecycle MainWiring.\n"
               "Import ListNotations. Open Scope string_scope.\n"
               "Definition code (p:string) : nat := if String.eqb p \"stgutg.RegisterUE\" then 1 else if String.eqb p \"stgutg.EstablishPDU\" then 2 else "
               "if String.eqb p \"stgutg.ServiceRequest\" then 3 else if String.eqb p \"stgutg.ReleasePDU\" then 4 else if String.eqb p \"stgutg.DeregisterUE\" then 5 else 0.\n"
               "Definition sched := Eval vm_compute in map (fun x => (code (fst x), snd x)) (schedule wiring_mode2 %s).\nPrint sched.\n" % cfg)
        rc, out = C.coq_eval(txt)
        flat = " ".join(out.split())
        m = re.search(r"sched = (\[.*?\]|nil) :", flat)
        if rc != 0 or not m:
            raise RuntimeError("cannot evaluate the schedule: " + out[-1200:])
        return [(int(a), int(b)) for a, b in re.findall(r"\(\s*(\d+),\s*(\d+)\s*\)", m.group(1).replace("%nat", "")) if int(a) != 0]

    def observed_schedule(self, stdout, imsi):
        """(procedure code, UE index) in the order the emulator announces them"""
        out = []
        base = int(imsi)
        for line in stdout.splitlines():
            m = re.match(r">> \[ UE REGISTRATION TEST (\d+) \]", line)
            if m:
                out.append((1, int(m.group(1)) - 1))
                continue
            for pat, code in ((r">> Establishing PDU session for imsi-(\d+)", 2), (r">> Requesting service for imsi-(\d+)", 3),
                              (r">> Releasing PDU session for imsi-(\d+)", 4), (r">> Deregistering UE imsi-(\d+)", 5)):
                m = re.match(pat, line)
                if m:
                    out.append((code, int(m.group(1)) - base))
        return out

    def extra(self, harness, build_ok):
        binary, err = C.build_emulator()
        if binary is None:
            raise RuntimeError("emulator build failed: " + err[-1500:])
        sys.path.insert(0, os.path.join(C.VERIF, "refamf"))
        # counts above / below the number registered, zero and negative counts
        plans = [[2, 5, 1, 9, 7], [3, 1, 2, 0, 2], [1, 1, 1, 1, 1], [2, -1, 3, 3, 1]]
        if self.tier != "quick":
            plans += [[4, 4, 4, 4, 4], [3, 2, 0, 2, 3], [2, 2, 2, 1, 0], [1, 0, 5, 5, 1]]
        cfgs = []
        for i, counts in enumerate(plans):
            r = self.rng.fork("plan%d" % i)
            cfg = proc.default_cfg(r if i else None, counts=counts)
            # the AMF-UE-NGAP-ID the network assigns first: both ends of INTEGER (0..2^40-1), the 32-bit edge, a random one
            fid = [0, (1 << 40) - 3, 1 << 32, None][i % 4]
            if fid is not None:
                cfg["first_amf_id"] = fid
            if i == 2:
                cfg["mcc"], cfg["mnc"] = "001", "01"          # a SUPI that begins with 0 (the test PLMN 001/01)
            if i:
                # IMSIs of 15, 14, 13 and 10 digits (the MSIN is what remains after MCC and MNC)
                total = [15, 14, 13, 10][i % 4]
                free = total - 3 - len(cfg["mnc"]) - 4
                cfg["imsi"] = cfg["mcc"] + cfg["mnc"] + r.digits(free) + "000" + str(r.range(1, 9))
            cfgs.append(cfg)
        # more UEs than a PDU session identity has values in TS 24.007 (1..15): the identities 16, 17 are the recorded
        # finding session-id-above-15; every UE must still act under its own identities throughout
        many = proc.default_cfg(counts=[17, 17, 0, 0, 17])
        many["imsi"] = "208930000000001"
        cfgs.append(many)
        # a SUPI ending in 0000: the session identity derived from it is 0 (part of the recorded finding "outside 1..15"); it
        # must be the same 0 in every message of every procedure
        sixteen = proc.default_cfg(counts=[1, 1, 1, 1, 1])
        sixteen["imsi"] = "208930000000016"          # identity 16 (recorded finding: above 15), the same 16 in every procedure
        cfgs.append(sixteen)
        zero = proc.default_cfg(counts=[2, 2, 2, 2, 2])
        zero["imsi"] = "208930000010000"
        cfgs.append(zero)
        # one configuration whose session identity exceeds 255 (recorded finding): IMSI ...0300
        big = proc.default_cfg(counts=[1, 1, 0, 0, 0])
        big["imsi"] = "208930000000300"
        with cf.ThreadPoolExecutor(max_workers=8) as ex:
            runs = list(ex.map(lambda c: proc.run(binary, c, self.seed, strict=False, timeout=240), cfgs + [big]))
        rows = []
        for cfg, r in zip(cfgs, runs[:-1]):
            counts = cfg["counts"]
            row = {"counts": counts, "imsi": cfg["imsi"], "verdict": r["verdict"], "rc": r["rc"], "uplinks": len(r["uplinks"])}
            with self._lock:
                self.cov["evaluations"] += 1
                self._distinct.add("lifecycle-%s" % counts)
            # 1. the conversation completes and the AMF accepts every message, up to recorded findings
            unknown = []
            for f in r["findings"]:
                key = next((k for pat, k in FINDING_KEYS if re.match(pat, f)), None)
                if key and any(x.get("key") == key and x.get("property") == "C02" and x.get("status") == "known" for x in C.known_findings()):
                    self.known_finding(key, next(x["what"] for x in C.known_findings() if x.get("key") == key))
                else:
                    unknown.append(f)
            if r["rc"] != 0 or BANNER not in r["stdout"] or not r["verdict"].startswith("ok") or unknown:
                self.violation({"theorem_or_stream": "process: lifecycle against the reference AMF", "input": {"counts": counts, "imsi": cfg["imsi"], "mnc": cfg["mnc"]},
                                "observed": {"verdict": r["verdict"], "rc": r["rc"], "unlisted_findings": unknown, "stdout_tail": r["stdout"][-600:]},
                                "why": "a message was rejected / the run did not complete / a deviation that is not a recorded finding"})
                rows.append(row)
                continue
            # 2. schedule = model (clamps)
            pred = self.model_schedule(counts)
            obs = self.observed_schedule(r["stdout"], cfg["imsi"])
            row["schedule"] = obs
            if obs != pred:
                self.violation({"theorem_or_stream": "correspondence: Model/Lifecycle.v schedule vs process", "input": {"counts": counts},
                                "observed": obs, "expected": pred, "why": "procedures ran for other UE indices / in another order than the regenerated wiring predicts"},
                               "no-failing-input-found")
            # the property itself on the observation: prerequisites
            done = set()
            for code, i in obs:
                need = {2: 1, 3: 2, 4: 2, 5: 1}.get(code)
                if need and (need, i) not in done:
                    self.violation({"theorem_or_stream": "process: prerequisite order", "input": {"counts": counts}, "observed": obs,
                                    "why": "procedure %d attempted for UE %d before its prerequisite %d" % (code, i, need)})
                done.add((code, i))
            # what the emulator says it did, the network must have seen: a deregistered UE is gone at the AMF, a UE with an
            # established session has one there
            w = len(cfg["imsi"])
            by_supi = {u.supi: u for u in r["amf"].ues.values()}
            for code, i in obs:
                u = by_supi.get("%0*d" % (w, int(cfg["imsi"]) + i))
                if code == 5 and (u is None or u.state != "gone"):
                    self.violation({"theorem_or_stream": "process: lifecycle against the reference AMF", "input": {"counts": counts, "imsi": cfg["imsi"], "ue_index": i},
                                    "observed": {"amf_side_state": getattr(u, "state", None), "amf_ue_ngap_id": getattr(u, "amf", None)},
                                    "why": "the emulator ran the deregistration of this UE but the AMF never saw it complete"})
                if code == 2 and (u is None or not hasattr(u, "ip")):
                    self.violation({"theorem_or_stream": "process: lifecycle against the reference AMF", "input": {"counts": counts, "imsi": cfg["imsi"], "ue_index": i},
                                    "observed": {"amf_side_state": getattr(u, "state", None), "amf_ue_ngap_id": getattr(u, "amf", None)},
                                    "why": "the emulator ran the session establishment of this UE but the SMF never assigned a session"})
            # 3. reported session data = assigned
            reported = {}
            for m in re.finditer(r"VERIF-SESSION imsi-(\d+) (\S+) (\d+) (\S+)", r["stdout"]):
                reported[m.group(1)] = (m.group(2), int(m.group(3)), m.group(4))
            for ue in r["amf"].ues.values():
                if hasattr(ue, "ip"):
                    exp = (".".join(str(b) for b in ue.ip), int.from_bytes(ue.teid, "big"), ".".join(str(b) for b in ue.upf))
                    if reported.get(ue.supi) != exp:
                        self.violation({"theorem_or_stream": "process: reported session data", "input": {"counts": counts, "supi": ue.supi},
                                        "observed": reported.get(ue.supi), "expected": exp, "why": "reported UE address / TEID / UPF address differ from the assigned ones"})
            # 4. per-UE identities and COUNTs as the AMF saw them
            ues = list(r["amf"].ues.values())
            row["ues"] = [{"supi": u.supi, "ran": u.ran, "ul_count_next": u.ulcount, "state": u.state} for u in ues]
            if len({u.supi for u in ues}) != len(ues) or len({u.ran for u in ues}) != len(ues):
                self.violation({"theorem_or_stream": "process: UE identities", "input": {"counts": counts}, "observed": row["ues"], "why": "two UEs share a SUPI or RAN-UE-NGAP-ID"})
            rows.append(row)
        # an unsolicited downlink message overtakes the second UE's setup request (an accepting network may send one at any
        # time): the emulator may handle it or stop, but whatever it REPORTS is what the network assigned, and it answers no
        # setup request it has not read (the reference SMF rejects a response for a session it has not asked for)
        un = proc.default_cfg(counts=[2, 2, 0, 0, 0])
        un["unsolicited_before_setup"] = 2
        ru = proc.run(binary, un, self.seed, strict=False, timeout=120)
        with self._lock:
            self.cov["evaluations"] += 1
            self._distinct.add("unsolicited-before-setup")
        rep = {m.group(1): (m.group(2), int(m.group(3)), m.group(4)) for m in re.finditer(r"VERIF-SESSION imsi-(\d+) (\S+) (\d+) (\S+)", ru["stdout"])}
        exp = {u.supi: (".".join(str(b) for b in u.ip), int.from_bytes(u.teid, "big"), ".".join(str(b) for b in u.upf)) for u in ru["amf"].ues.values() if hasattr(u, "ip")}
        wrong = {k: v for k, v in rep.items() if exp.get(k) != v}
        self.cov["unsolicited_before_setup"] = {"rc": ru["rc"], "verdict": ru["verdict"], "reported": rep, "assigned": exp}
        if wrong or ru["verdict"].startswith("REJECT") or ru["rc"] == "HANG":
            self.violation({"theorem_or_stream": "process: unsolicited downlink message before a setup request", "input": {"counts": un["counts"], "imsi": un["imsi"], "unsolicited_before_setup": 2},
                            "observed": {"rc": ru["rc"], "verdict": ru["verdict"], "reported": rep, "stdout": ru["stdout"][-600:]}, "expected": {"assigned": exp},
                            "why": "after an unsolicited downlink message the emulator reported session data the network did not assign to that UE, or answered a setup request it had not read"})
        # the session-identity finding
        r = runs[-1]
        key = "C02:session-id-above-255"
        listed = any(x.get("key") == key and x.get("status") == "known" for x in C.known_findings())
        refused = r["rc"] != 0 and "larger than upperbound" in r["stdout"]
        if refused and listed:
            self.known_finding(key, next(x["what"] for x in C.known_findings() if x.get("key") == key))
        elif refused or (r["rc"] != 0):
            self.violation({"theorem_or_stream": "process: lifecycle against the reference AMF", "input": {"imsi": big["imsi"], "counts": big["counts"]},
                            "observed": {"verdict": r["verdict"], "rc": r["rc"], "stdout_tail": r["stdout"][-500:]}, "why": "session establishment failed"})
        with self._lock:
            self.cov["evaluations"] += 1
            self._distinct.add("lifecycle-big-session-id")
        self.cov["process"] = rows
        self.cov["samples"].append({"lifecycle": rows[:1]})
        self.cov["rule"] = ("each case = one test-mode run of the unmodified main() with N UEs and five repetition counts (above/below the number registered, "
                            "zero, negative) against the reference AMF/SMF; distinct by the count vector")
