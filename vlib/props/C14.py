"""C14 — NGAP decoding is total: value or error, never a panic, a hang or an unbounded allocation."""
from .. import common as C
from .. import gen as G
from ..prop import Stream
from . import AperLib as A

REQ = ["Coq.Strings.String", "GoSlice", "AperCommon", "AperEnc", "AperDec", "NgapSchema", "AperCheck"]

# per-call limits of the observable (DESIGN.md C14): the schema's worst chain of over-claimed lists reserves 16.25 MB;
# everything else the decoder allocates (trace strings, reflect.New) is proportional to the work done on <= 4 KiB of input
ALLOC_LIMIT = 20 * 1024 * 1024     # + 64 KiB per input octet
TIME_LIMIT_NS = 2_000_000_000
HISTORIC = "000e0012000001006e000b200003a3529440011003e8"     # panicked before fix 1966540 (zero-bit read)


def ie_headers(b):
    """offsets of the information elements (id, criticality, length, value) of the ProtocolIE container of an NGAP PDU whose
    lengths all have the one-octet form; [] when the layout is not that simple"""
    try:
        if len(b) < 8 or b[3] >= 0x80 or 4 + b[3] != len(b):
            return []
        n = (b[5] << 8) | b[6]
        i, out = 7, []
        for _ in range(n):
            if i + 4 > len(b) or b[i + 3] >= 0x80:
                return out
            out.append(i)
            i += 4 + b[i + 3]
        return out if i == len(b) else []
    except IndexError:
        return []


class NgapMalformed(Stream):
    """every prefix, bit / byte corruptions, splices of valid encodings of every message type, random bytes"""
    name = "ngap-malformed"
    sub = "ngapfuzz"
    requires = REQ
    model_check = "dec_model_check"
    spec_check = "dec_total_check"
    model_out = "dec_model_out"
    shard = 120
    harness_timeout = 1200

    def prepare(self, harness, chk):
        self.S = A.Schema.get(harness)

    def seeds(self, rng, tier):
        S = self.S
        ref = A.Ref(S)
        out = []
        self.values = []
        reps = 1 if tier == "quick" else 4
        for rep in range(reps):
            for (cls, j, code, name) in A.ngap_messages(S):
                try:
                    v = A.gen_pdu_of(A.Gen(S, rng), S, cls, j)
                    out.append(("NGAPPDU", ref.encode("ngapType.NGAPPDU", S.root["NGAPPDU"]["Params"], v)))
                    self.values.append(("NGAPPDU", "ngapType.NGAPPDU", S.root["NGAPPDU"]["Params"], v))
                except (A.NoValue, A.Refuse, A.Frag):
                    continue
            for r in S.roots[1:]:
                try:
                    v = A.Gen(S, rng).gen(r['Type'], A.parse_tag(r['Params']))
                    out.append((r['Name'], ref.encode(r['Type'], r['Params'], v)))
                    self.values.append((r['Name'], r['Type'], r['Params'], v))
                except (A.NoValue, A.Refuse, A.Frag):
                    continue
        return out

    def generate(self, rng, tier):
        quick = tier == "quick"
        seeds = self.seeds(rng, tier)
        cases = [{"root": "NGAPPDU", "hex": HISTORIC, "kind": "historic"}]
        hb = bytes.fromhex(HISTORIC)
        for i in range(len(hb)):
            cases.append({"root": "NGAPPDU", "hex": hb[:i].hex(), "kind": "historic-prefix"})

        def add(root, b, kind):
            cases.append({"root": root, "hex": bytes(b[:4096]).hex(), "kind": kind})
        full_prefix = set(rng.below(len(seeds)) for _ in range(12 if quick else 80))
        for si, (root, b) in enumerate(seeds):
            add(root, b, "valid")
            if si in full_prefix and len(b) <= 400:
                for i in range(len(b)):
                    add(root, b[:i], "prefix")
            else:
                for _ in range(2 if quick else 8):
                    add(root, b[:rng.below(len(b) + 1)], "prefix")
            for _ in range(3 if quick else 16):          # single-bit corruptions
                m = bytearray(b); k = rng.below(len(m) * 8); m[k // 8] ^= 0x80 >> (k % 8); add(root, m, "bitflip")
            for _ in range(3 if quick else 16):          # byte corruptions, adversarial lengths and counts
                m = bytearray(b); k = rng.below(len(m)); m[k] = rng.choice([0x00, 0xff, 0x80, 0x7f, 0xc4, 0xbf, rng.below(256)]); add(root, m, "bytecorrupt")
            if rng.chance(1, 2 if quick else 1):         # multi-byte corruption
                m = bytearray(b)
                for _ in range(rng.range(2, 5)):
                    m[rng.below(len(m))] = rng.below(256)
                add(root, m, "multicorrupt")
            if rng.chance(1, 3 if quick else 1):         # insertion / deletion
                m = bytearray(b); k = rng.below(len(m))
                if rng.chance(1, 2): del m[k]
                else: m.insert(k, rng.below(256))
                add(root, m, "indel")
        # over-claimed lengths and counts, written by the reference encoder itself so that the enclosing open-type
        # lengths stay right: fragment-marker runs, 16383, the constraint's maximum
        ref = A.Ref(self.S)
        for (root, tname, params, v) in self.values:
            cnt = A.Adv(); A.adv.cur = cnt
            try:
                ref.encode(tname, params, v)
            except (A.Refuse, A.Frag):
                continue
            finally:
                A.adv.cur = None
            sites = list(range(cnt.n))
            picks = sites if len(sites) <= 3 else [rng.choice(sites) for _ in range(3 if quick else 10)]
            plan = [(site, rng.choice(['frag', 'frag', 'frag', 'max', 'b127']), rng.choice([1, 2, 4, 16, 40]),
                     rng.choice([0xC4, 0xC4, 0xC1, 0xC2, 0xC3])) for site in picks]
            # every element count that is a general length determinant gets the longest marker run
            plan += [(site, 'frag', 40, 0xC4) for site in sites if cnt.kinds[site] == 'count*']
            for (site, mode, k, marker) in plan:
                a = A.Adv(site, mode, k, marker)
                A.adv.cur = a
                try:
                    add(root, ref.encode(tname, params, v), "overclaim-" + mode)
                except (A.Refuse, A.Frag):
                    pass
                finally:
                    A.adv.cur = None
        # length-prefixed INTEGERs (extension additions above the root, unconstrained ones) carried in 9..200 content octets:
        # consistent encodings of numbers beyond 64 bits
        for (root, tname, params, v) in self.values:
            cnt = A.Adv(mode='bigint'); A.adv.cur = cnt
            try:
                ref.encode(tname, params, v)
            except (A.Refuse, A.Frag):
                continue
            finally:
                A.adv.cur = None
            for site in range(cnt.n)[:(2 if quick else 8)]:
                # ... and in NO content octet at all (length 0), which X.691 never produces
                for L in ([0, rng.choice([9, 16]), rng.choice([17, 64, 127])] if quick else [0, 1, 8, 9, 10, 16, 17, 32, 64, 127, 200]):
                    A.adv.cur = A.Adv(site, 'bigint', L, rng.below(256))
                    try:
                        add(root, ref.encode(tname, params, v), "bigint")
                    except (A.Refuse, A.Frag):
                        pass
                    finally:
                        A.adv.cur = None
        # an information element of the top-level list given an identifier the message does not define, together with a
        # length that claims more than is left (enclosing lengths untouched, further elements after it)
        for (root, b) in seeds:
            if root != "NGAPPDU":
                continue
            pos = ie_headers(b)
            for k in (pos[:-1] if len(pos) > 1 else pos)[:(2 if quick else 6)]:
                for newlen in ([0x7f, rng.range(0x40, 0x7e)] if quick else [0x00, 0x01, 0x3f, 0x7f, 0x80, 0xbf, 0xc1, 0xc4, 0xff, rng.below(256)]):
                    m = bytearray(b)
                    m[k], m[k + 1] = 0x0f, 0x55
                    m[k + 3] = newlen
                    add(root, m, "unknown-ie-overclaim")
        for _ in range(60 if quick else 1500):           # splices
            (r1, a), (r2, b) = rng.choice(seeds), rng.choice(seeds)
            add(r1, a[:rng.below(len(a) + 1)] + b[rng.below(len(b) + 1):], "splice")
        for _ in range(60 if quick else 1500):           # random bytes
            n = rng.choice([0, 1, 2, 3, 4, 8, 16, 32, 64, rng.range(0, 200)])
            b = bytearray(rng.bytes(n))
            if n >= 4 and rng.chance(1, 2):
                b[0] = rng.choice([0x00, 0x20, 0x40]); b[1] = rng.below(64); b[2] = rng.choice([0x00, 0x40, 0x80])
            add(rng.choice(["NGAPPDU", "NGAPPDU", rng.choice(seeds)[0]]), b, "random")
        return cases

    def go_case(self, c):
        return {"root": c["root"], "hex": c["hex"], "value": True}

    def coq_case(self, c, o):
        return '(ngap_dec_case "%s"%%string %s %s)' % (c["root"], C.cN(bytes.fromhex(c['hex'])), A.coq_dobs_ngap(self.S, c["root"], o))

    def classify(self, c, o):
        return c["kind"] + ":" + o.get("r", "?")

    def key(self, c, o):
        return c["root"] + ":" + c["hex"]

    def direct_check(self, c, o):
        if o.get("r") == "panic": return "decoder panicked: " + str(o.get("msg"))
        if o.get("r") == "timeout": return "decoder did not return within the time limit"
        if o.get("alloc", 0) > ALLOC_LIMIT + 65536 * (len(c["hex"]) // 2): return "decoding allocated %d bytes for %d input octets" % (o["alloc"], len(c["hex"]) // 2)
        if o.get("ns", 0) > TIME_LIMIT_NS: return "decoding took %d ns" % o["ns"]
        return None


class PrimMalformed(Stream):
    """arbitrary octets into aper.Unmarshal over the primitive constraint shapes"""
    name = "prim-malformed"
    sub = "aperdec"
    requires = REQ
    model_check = "dec_model_check"
    spec_check = "dec_total_check"
    model_out = "dec_model_out"
    shard = 300

    def generate(self, rng, tier):
        shapes = {}
        for c in A.prim_cases(rng, "quick", deep_lens=[]):
            shapes[(c['kind'], c['tag'], c.get('etag', ''), c.get('nalt', 0))] = c
        shapes = list(shapes.values())
        out = []
        n = 700 if tier == "quick" else 12000
        for i in range(n):
            c = rng.choice(shapes)
            d = {k: c[k] for k in ('kind', 'tag', 'etag', 'nalt') if k in c}
            d['pre'] = rng.below(8)
            ln = rng.choice([0, 1, 1, 2, 2, 3, 4, 5, 8, 12, 40])
            b = bytearray(rng.bytes(ln))
            if ln and rng.chance(1, 2):
                b[rng.below(min(ln, 3))] = rng.choice([0, 0, 1, 0x80, 0xff, 0x40, 0xc1])
            d['hex'] = bytes(b).hex()
            out.append(d)
        return out

    def coq_case(self, c, o):
        return "(%s, p_empty, %s, %s)" % (A.prim_coq_type(c), C.cN(bytes.fromhex(c['hex'])), A.coq_dobs_prim(c, o))

    def classify(self, c, o):
        return c['kind'] + ":" + ("panic" if 'panic' in o else "err" if 'err' in o else "ok")

    def direct_check(self, c, o):
        if 'panic' in o: return "aper.Unmarshal panicked: " + o['panic']
        return None


class C14(A.AperCheck):
    pid = "C14"
    prop_files = ["Properties/C14.v"]
    extra_targets = ["Model/AperCheck.vo"]
    streams = [NgapMalformed(), PrimMalformed()]
    trusted = ["Coq 8.16.1 kernel incl. vm_compute (no native_compute); no axioms (Print Assumptions: closed under the global context)",
               "hand-written models Model/AperEnc.v, Model/AperDec.v (marshal.go / aper.go) tied by the correspondence streams: implementation == model on every case, incl. error identity and panics",
               "Model/AperDecCost.v: step-counting copy of Model/AperDec.v; proved to return the same results (c14_steps_same_result); which operations count as a step is a modelling choice stated in that file",
               "Go slices modelled with capacity == length (the harness hands exact-capacity slices to the codec)",
               "reflect-based translator harness/gen_ngapschema.go (a copy of parseFieldParameters; root parameter strings read from ngap.go / build.go)",
               "Spec/NgapGolden.v: frozen transcription of the TS 38.413 types in tag notation (cross-checked against an independent Python X.691 reference on ~24000 values in the design round)",
               "Spec/X691.v written from ITU-T X.691 (08/2015), aligned variant, lengths below 16384, no extension additions",
               "Python reference encoder in vlib/props/AperLib.py (only used to produce canonical encodings; checked equal to the Coq specification on every case)"]
    assumptions = ["inputs below 2^32 octets (the property: 4 KiB)",
                   "totality, the allocation bound and the step bound (steps <= 3365 + 38896*|input|, Properties/C14.v c14_decode_linear_time) are proved for every NGAP root; "
                   "a step is what Model/AperDecCost.v counts (reader calls, loop turns, octets copied; not the trace-string formatting, reflect bookkeeping or the clearing of reserved memory); "
                   "wall-clock time of the implementation is observed by the malformed streams only",
                   "allocation limit of the stream: 20 MiB + 64 KiB per input octet (schema worst chain 16.25 MB, DESIGN.md C14)"]

    def regen(self, harness):
        ch = G.run_translator(harness, "gen-ngapschema", "NgapSchema.v")
        return ["NgapSchema.v"] if ch else []
