"""Shared pieces of the C03 / C04 / C14 checks: the NGAP schema as the Go harness extracts it, tag parsing,
rendering of values as Coq terms, the schema-driven value generator, an independent Python X.691 reference
(used to produce canonical encodings that are fed to the Go decoder; the Coq spec is checked equal to it on
the same cases), classification of the known deviation classes, and a Check base class that reports every
failing case (not only the first three)."""
import json, os, re
from .. import common as C
from ..prop import Check, Stream

# ----------------------------------------------------------------------------- tags
def parse_tag(s):
    p = {'optional': False, 'sizeExt': False, 'valueExt': False, 'sizeLB': None, 'sizeUB': None, 'valueLB': None,
         'valueUB': None, 'openType': False, 'refName': '', 'refValue': None}

    def pi(x):
        return int(x) if re.fullmatch(r'[+-]?\d+', x) and -2**63 <= int(x) < 2**63 else None
    for part in s.split(','):
        if part == 'optional': p['optional'] = True
        elif part == 'sizeExt': p['sizeExt'] = True
        elif part == 'valueExt': p['valueExt'] = True
        elif part.startswith('sizeLB:'):
            if pi(part[7:]) is not None: p['sizeLB'] = pi(part[7:])
        elif part.startswith('sizeUB:'):
            if pi(part[7:]) is not None: p['sizeUB'] = pi(part[7:])
        elif part.startswith('valueLB:'):
            if pi(part[8:]) is not None: p['valueLB'] = pi(part[8:])
        elif part.startswith('valueUB:'):
            if pi(part[8:]) is not None: p['valueUB'] = pi(part[8:])
        elif part.startswith('default:'): pass
        elif part == 'openType': p['openType'] = True
        elif part.startswith('referenceFieldName:'): p['refName'] = part[19:]
        elif part.startswith('referenceFieldValue:'):
            if pi(part[20:]) is not None: p['refValue'] = pi(part[20:])
    return p


def cz(z):
    return "(%d)%%Z" % z if z < 0 else "%d%%Z" % z


def coptz(z):
    return "None" if z is None else "(Some %s)" % cz(z)


def coq_params(p):
    return '(mkp %s %s %s %s %s %s %s %s %s "%s"%%string)' % (
        C.cbool(p['optional']), C.cbool(p['sizeExt']), C.cbool(p['valueExt']), C.cbool(p['openType']),
        coptz(p['sizeLB']), coptz(p['sizeUB']), coptz(p['valueLB']), coptz(p['valueUB']), coptz(p['refValue']), p['refName'])


# ----------------------------------------------------------------------------- schema
class Schema:
    _cache = {}

    def __init__(self, harness):
        rc, out, err, dt = C.run([harness, "gen-ngapschema", "-json"], cwd=C.REPO, timeout=300)
        if rc != 0:
            raise RuntimeError("gen-ngapschema -json failed: " + (out + err)[-1000:])
        d = json.loads(out)
        self.types = d['types']
        self.roots = d['roots']            # [{Name, Type, Params, DecParams}]
        self.root = {r['Name']: r for r in self.roots}
        for t in self.types.values():
            for f in t.get('fields') or []:
                f['p'] = parse_tag(f['tag'])

    @classmethod
    def get(cls, harness):
        if harness not in cls._cache:
            cls._cache[harness] = Schema(harness)
        return cls._cache[harness]

    def is_choice(self, t):
        return t['kind'] == 'struct' and t.get('fields') and t['fields'][0]['name'] == 'Present'

    def coq_ident(self, tname):
        return "T_" + tname.replace("ngapType.", "").replace(".", "_")

    # JSON value tree -> Coq [val]
    def coq_val(self, tname, v):
        t = self.types[tname]
        k = t['kind']
        if k == 'ptr':
            return "VNil" if v is None else "(VPtr %s)" % self.coq_val(t['elem'], v)
        if k == 'int':
            return "(VInt %s)" % cz(int(v))
        if k == 'enum':
            return "(VEnum %d)" % int(v)
        if k == 'bool':
            return "(VBool %s)" % C.cbool(bool(v))
        if k == 'bitstring':
            return "(VBits %s %d)" % (C.cN(bytes.fromhex(v['hex'])), int(v['nbits']))
        if k in ('octetstring', 'string', 'oid'):
            return "(VOctets %s)" % C.cN(bytes.fromhex(v['hex']))
        if k == 'slice':
            return "(VList [%s])" % ";".join(self.coq_val(t['elem'], x) for x in (v or []))
        if k == 'struct':
            fs = t.get('fields') or []
            return "(VStruct [%s])" % ";".join(self.coq_val(f['type'], x) for f, x in zip(fs, v))
        raise ValueError(k)


# ----------------------------------------------------------------------------- error messages -> model codes
ERRMAP = [
    ("Get bits overflow", 1), ("Bits Value is over capacity", 2), ("Value range is negative", 3),
    ("Constraint Value is large than 65536", 4), ("bitString Length is over upperbound", 5), ("bitString Length(", 6),
    ("OctetString Length is over upperbound", 7), ("OctetString Length(", 8), ("INTEGER value is smaller", 9),
    ("INTEGER value is larger", 10), ("ENUMERATED value constraint is error", 11), ("Unsupport the extensive value of ENUMERATED", 12),
    ("ENUMERATED value is larger", 13), ("ENUMERATED value is smaller", 14), ("SEQUENCE OF Size is larger", 15),
    ("SEQUENCE OF Size is lower", 16), ("Encoding Length ", 17), ("The upper bound of CHIOCE is missing", 18),
    ("The upper bound of CHIOCE is negative", 19), ("Unsupport value of CHOICE type is in Extensed", 20),
    ("aper: cannot marshal nil value", 21), ("Unsupport ObjectIdenfier type", 22), ("struct contains unexported", 23),
    ("nil element in SEQUENCE type", 24), ("CHOICE or OpenType present is 0", 25), ("Present is bigger than number of struct field", 26),
    ("OpenType reference value is empty", 27), ("reference value and present reference value is not match", 28),
    ("Open type is not reference to the other field", 29), ("unsupported: ", 30), ("ReferenceField Value present is 0", 31),
    ("OpenType reference only support INTEGER", 32), ("Align Bit is not zero", 33), ("Parse Length Out of Constraint", 34),
    ("PER data out of range", 35), ("per data out of range", 35), ("sequence truncated", 36), ("CHOICE present is 0", 37),
    ("CHOICE Present is bigger", 38), ("OpenType Present is bigger", 39),
]


def errcode(msg):
    for pre, c in ERRMAP:
        if msg.startswith(pre):
            return c
    return 0


def coq_eobs(o):
    """observable of an encoding call as Coq [eobs]"""
    if 'panic' in o:
        return "EPanic"
    if 'err' in o:
        return "(EErr %d)" % errcode(o['err'])
    return "(EOk %s)" % C.cN(bytes.fromhex(o['enc']))


# ----------------------------------------------------------------------------- independent X.691 reference (Python)
class Refuse(Exception): pass
class Frag(Exception): pass
class NoValue(Exception): pass


class W:
    def __init__(self): self.b = []
    def put(self, v, n):
        if not (0 <= v < (1 << n) if n > 0 else v == 0): raise Refuse('put')
        for i in range(n - 1, -1, -1): self.b.append((v >> i) & 1)
    def align(self):
        while len(self.b) % 8: self.b.append(0)
    def bytes_(self, data):
        for x in data: self.put(x, 8)
    def bits_(self, data, nbits):
        if len(data) * 8 < nbits: raise Refuse('short bit string')
        for i in range(nbits): self.b.append((data[i // 8] >> (7 - i % 8)) & 1)
    def out(self):
        b = list(self.b)
        while len(b) % 8: b.append(0)
        if not b: b = [0] * 8
        return bytes(int(''.join(map(str, b[i:i + 8])), 2) for i in range(0, len(b), 8))


def octs_unsigned(n):
    k = 1
    while n >= (1 << (8 * k)): k += 1
    return k


def octs_signed(v):
    k = 1
    while not (-(1 << (8 * k - 1)) <= v < (1 << (8 * k - 1))): k += 1
    return k


def cwn(w, rng, v):
    if not 0 <= v < rng: raise Refuse('cwn')
    if rng == 1: return
    if rng <= 255: w.put(v, (rng - 1).bit_length())
    elif rng == 256: w.align(); w.put(v, 8)
    elif rng <= 65536: w.align(); w.put(v, 16)
    else:
        mx = octs_unsigned(rng - 1); n = octs_unsigned(v)
        cwn(w, mx, n - 1); w.align(); w.put(v, 8 * n)


class Adv:
    """adversarial length determinant: the site-th length / count written while this is installed (adv.cur) claims
    more than what follows.  mode 'frag': k fragment-marker octets (0xC1..0xC4) then the true count; 'max': 16383 /
    the constraint's maximum; 'b127': 127.  site < 0 only counts the sites."""
    def __init__(self, site=-1, mode='frag', k=1, marker=0xC4):
        self.site, self.mode, self.k, self.marker, self.n, self.hit = site, mode, k, marker, 0, False
        self.kinds = []      # per site: 'count' (element count of a SEQUENCE OF) or 'len', + '*' when it is a general length determinant

    def here(self, general=False):
        self.kinds.append(getattr(adv, 'kind', 'len') + ('*' if general else ''))
        self.n += 1
        if self.n - 1 == self.site:
            self.hit = True
            return True
        return False


import threading
adv = threading.local()


def lendet(w, n):
    w.align()
    a = getattr(adv, 'cur', None)
    if a is not None and a.mode != 'bigint' and a.here(True):
        if a.mode == 'frag': w.bytes_([a.marker] * a.k + [n if n < 128 else 0])
        elif a.mode == 'max': w.bytes_([0xBF, 0xFF])
        else: w.bytes_([0x7F])
        return
    if n < 128: w.put(n, 8)
    elif n < 16384: w.put(0x8000 | n, 16)
    else: raise Frag()


def bigint_site(w):
    """mode 'bigint' of Adv: the site-th length-prefixed INTEGER is written with a.k content octets (a consistent encoding
    of a huge or non-minimally encoded number: the enclosing lengths are right); returns True when it wrote it"""
    a = getattr(adv, 'cur', None)
    if a is None or a.mode != 'bigint': return False
    adv.kind = 'int'
    try: hit = a.here(True)
    finally: adv.kind = 'len'
    if not hit: return False
    w.align(); w.put(a.k, 8)
    w.bytes_([(a.marker + 37 * i) & 0xff for i in range(a.k)])
    return True


def unconstrained(w, v):
    if bigint_site(w): return
    k = octs_signed(v); lendet(w, k); w.put(v % (1 << (8 * k)), 8 * k)


def semi(w, n):
    if bigint_site(w): return
    k = octs_unsigned(n); lendet(w, k); w.put(n, 8 * k)


def enc_int(w, lb, ub, ext, v):
    inroot = (lb is None or v >= lb) and (ub is None or v <= ub)
    if ext:
        a = getattr(adv, 'cur', None)
        if a is not None and a.mode == 'bigint':
            # an extensible INTEGER sent as an extension value in a.k content octets
            mark = len(w.b)
            w.put(1, 1)
            if bigint_site(w): return
            del w.b[mark:]
        w.put(0 if inroot else 1, 1)
        if not inroot: unconstrained(w, v); return
    elif not inroot: raise Refuse('int range')
    if lb is not None and ub is not None: cwn(w, ub - lb + 1, v - lb)
    elif lb is not None: semi(w, v - lb)
    else: unconstrained(w, v)


def enc_len(w, lb, ub, n):
    if ub is not None and ub < 65536:
        if lb != ub:
            a = getattr(adv, 'cur', None)
            if a is not None and a.mode != 'bigint' and a.here(): n = ub           # claim the maximum
            cwn(w, ub - lb + 1, n - lb)
    else: lendet(w, n)


def enc_string(w, lb, ub, ext, data, n, bits):
    lb0 = lb or 0
    inroot = n >= lb0 and (ub is None or n <= ub)
    put = (lambda: w.bits_(data, n)) if bits else (lambda: w.bytes_(data))
    if ext:
        w.put(0 if inroot else 1, 1)
        if not inroot:
            lendet(w, n)
            if n: w.align(); put()
            return
    elif not inroot: raise Refuse('size')
    if ub is not None and ub < 65536 and lb0 == ub:
        if n <= (16 if bits else 2): put()
        else: w.align(); put()
        return
    enc_len(w, lb0, ub, n)
    if n: w.align(); put()


class Ref:
    """schema-driven reference encoder: interprets the tags as ASN.1 constraints"""
    def __init__(self, schema): self.S = schema

    def ref_value(self, tname, v):
        t = self.S.types[tname]
        if t['kind'] == 'int': return int(v)
        if t['kind'] == 'struct':
            if self.S.is_choice(t):
                pres = int(v[0])
                if pres <= 0 or pres >= len(t['fields']): raise Refuse('ref present')
                return self.ref_value(t['fields'][pres]['type'], v[pres])
            return self.ref_value(t['fields'][0]['type'], v[0])
        raise Refuse('ref')

    def enc(self, w, tname, p, v):
        S = self.S
        t = S.types[tname]; k = t['kind']
        if k == 'ptr':
            if v is None: raise Refuse('nil')
            return self.enc(w, t['elem'], p, v)
        if k == 'int':
            enc_int(w, p['valueLB'], p['valueUB'], p['valueExt'], int(v))
        elif k == 'enum':
            if p['valueLB'] is None or p['valueUB'] is None: raise Refuse('enum constraint')
            idx = int(v)
            if idx > p['valueUB'] or idx < p['valueLB']: raise Refuse('enum range')
            if p['valueExt']: w.put(0, 1)
            cwn(w, p['valueUB'] - p['valueLB'] + 1, idx)
        elif k == 'bool':
            w.put(1 if v else 0, 1)
        elif k == 'bitstring':
            data = bytes.fromhex(v['hex']); n = int(v['nbits'])
            if len(data) != (n + 7) // 8: raise Refuse('bit string octets')
            enc_string(w, p['sizeLB'], p['sizeUB'], p['sizeExt'], data, n, True)
        elif k in ('octetstring', 'string'):
            data = bytes.fromhex(v['hex'])
            enc_string(w, p['sizeLB'], p['sizeUB'], p['sizeExt'], data, len(data), False)
        elif k == 'slice':
            v = v or []
            n = len(v); lb = p['sizeLB'] or 0; ub = p['sizeUB']
            inroot = n >= lb and (ub is None or n <= ub)
            if p['sizeExt']:
                w.put(0 if inroot else 1, 1)
                if not inroot:
                    adv.kind = 'count'
                    try: lendet(w, n)
                    finally: adv.kind = 'len'
            elif not inroot: raise Refuse('seqof size')
            adv.kind = 'count'
            try:
                if inroot: enc_len(w, lb, ub, n)
            finally:
                adv.kind = 'len'
            ep = dict(p); ep['sizeExt'] = False; ep['sizeLB'] = None; ep['sizeUB'] = None
            for x in v: self.enc(w, t['elem'], ep, x)
        elif k == 'struct':
            fs = t.get('fields') or []
            if S.is_choice(t):
                pres = int(v[0])
                if pres <= 0 or pres >= len(fs): raise Refuse('present')
                fp = fs[pres]['p']
                if p['openType']:
                    if p.get('_ref') is None or fp['refValue'] is None or fp['refValue'] != p['_ref']: raise Refuse('open type ref')
                    if p['valueExt']: raise Refuse('valueExt on open type')
                    iw = W(); self.enc(iw, fs[pres]['type'], fp, v[pres])
                    data = iw.out()
                    lendet(w, len(data)); w.align(); w.bytes_(data)
                else:
                    if p['valueExt']: w.put(0, 1)
                    if p['valueUB'] is None or p['valueUB'] < 0: raise Refuse('choice ub')
                    if pres - 1 > p['valueUB']: raise Refuse('choice index')
                    cwn(w, p['valueUB'] + 1, pres - 1)
                    self.enc(w, fs[pres]['type'], fp, v[pres])
                return
            if p['valueExt']: w.put(0, 1)
            for f, x in zip(fs, v):
                if f['p']['optional']: w.put(0 if x is None else 1, 1)
                elif x is None and S.types[f['type']]['kind'] == 'ptr': raise Refuse('nil mandatory')
            for i, (f, x) in enumerate(zip(fs, v)):
                fp = f['p']
                if fp['optional'] and x is None: continue
                if fp['openType']:
                    idx = [j for j in range(i) if fs[j]['name'] == fp['refName']]
                    if not idx: raise Refuse('no ref field')
                    fp = dict(fp); fp['_ref'] = self.ref_value(fs[idx[0]]['type'], v[idx[0]])
                self.enc(w, f['type'], fp, x)
        else:
            raise Refuse('unsupported ' + k)

    def encode(self, root, params, v):
        """bytes | raises Refuse (value outside its constraints) | Frag"""
        w = W(); self.enc(w, root, parse_tag(params), v); return w.out()


# ----------------------------------------------------------------------------- known deviation classes (DESIGN.md C03, D2..D9)
def go_bytelen_enc(rng):
    u = rng - 1; bl = 1
    while bl <= 127:
        u >>= 8
        if u <= 1: break
        bl += 1
    return bl


def go_ibits(n):
    i = 1
    while i <= 8:
        if (1 << i) >= n: break
        i += 1
    return i


def d2_bad(rng):
    """INTEGER range above 64K whose length-of-length field the encoder sizes differently from X.691"""
    if rng <= 65536: return False
    mx = octs_unsigned(rng - 1)
    return go_ibits(go_bytelen_enc(rng)) != (mx - 1).bit_length()


def prim_classes(kind, p, value):
    """known deviation classes (DESIGN.md C03 D2..D9, plus two found while building) a primitive
    (kind, parsed tag, value or size) falls in"""
    out = []
    if kind == 'int':
        lb, ub, ext = p['valueLB'], p['valueUB'], p['valueExt']
        v = value
        if lb is not None and ub is not None:
            rng = ub - lb + 1
            inroot = lb <= v <= ub
            if rng > 65536 and inroot:
                if lb != 0: out.append('int-big-range-lb-nonzero')          # D3 (no NGAP instance)
                # D2 (length-of-length width, RepetitionPeriod) was repaired by fix 8116821
            if ext and v < lb: out.append('ext-below-root')                 # D7
        elif lb is not None:
            if v >= lb: out.append('int-semi-constrained')                  # D4
        if lb is None and ub is not None: out.append('partial-bounds')      # D8
    elif kind in ('octets', 'string', 'bits', 'seqof'):
        lb, ub, ext = p['sizeLB'], p['sizeUB'], p['sizeExt']
        n = value
        if ub is not None and ub >= 65536: out.append('size-ub>=65536')     # D5
        if (lb is None) != (ub is None): out.append('partial-bounds')       # D8
        if lb is None and ub is None and ext: out.append('partial-bounds')
        if ext and lb is not None and ub is not None and n < lb: out.append('ext-below-root')   # D7
        # D6 (fixed-size BIT STRING of the wrong length not refused) was repaired by fix b7bd054
        if n >= 16384: out.append('fragmented')
        if kind == 'seqof' and n >= 128 and (ub is None or ub >= 65536 or (ext and n > ub)):
            out.append('seqof-count-one-octet')                             # D5 (count & 0xff)
        if lb == 0 and ub == 0 and n == 0 and kind != 'seqof': out.append('string-size-fixed-0')  # D9
    elif kind == 'choice':
        if p['valueUB'] == 0: out.append('choice-single-alternative')
    elif kind == 'enum':
        if p['valueLB'] is None or p['valueUB'] is None: out.append('enum-without-bounds')
    return out


# classes with an instance in the NGAP schema are known findings; the others are outside the quantifier of C03/C04
# (exercised for model == implementation only) and merely counted in the evidence
NGAP_CLASSES = ['size-ub>=65536', 'ext-below-root', 'fragmented']
OUTSIDE_CLASSES = ['int-big-range-lb-nonzero', 'int-semi-constrained', 'partial-bounds', 'string-size-fixed-0',
                   'choice-single-alternative', 'seqof-count-one-octet']


def class_key(pid, classes):
    """finding key of a failing case: a class with an NGAP instance if it is in one, else 'outside:<class>', else None"""
    for c in classes:
        if c in OUTSIDE_CLASSES: return "outside:" + c
    for c in classes:
        if c in NGAP_CLASSES: return pid + ":" + c
    return None


class Classifier:
    def __init__(self, schema): self.S = schema

    def walk(self, tname, p, v, out):
        S = self.S
        t = S.types[tname]; k = t['kind']
        if k == 'ptr':
            if v is not None: self.walk(t['elem'], p, v, out)
        elif k == 'int':
            out.update(prim_classes('int', p, int(v)))
        elif k == 'enum':
            out.update(prim_classes('enum', p, int(v)))
        elif k == 'bitstring':
            out.update(prim_classes('bits', p, int(v['nbits'])))
        elif k in ('octetstring', 'string'):
            out.update(prim_classes('octets', p, len(v['hex']) // 2))
        elif k == 'slice':
            v = v or []
            out.update(prim_classes('seqof', p, len(v)))
            ep = dict(p); ep['sizeExt'] = False; ep['sizeLB'] = None; ep['sizeUB'] = None
            for x in v: self.walk(t['elem'], ep, x, out)
        elif k == 'struct':
            fs = t.get('fields') or []
            if S.is_choice(t):
                try: pres = int(v[0])
                except Exception: return
                if 0 < pres < len(fs): self.walk(fs[pres]['type'], fs[pres]['p'], v[pres], out)
                return
            for f, x in zip(fs, v):
                if x is not None: self.walk(f['type'], f['p'], x, out)

    def classes(self, root, params, v):
        out = set()
        self.walk(root, parse_tag(params), v, out)
        return sorted(out)


# ----------------------------------------------------------------------------- schema-driven value generator
class Gen:
    def __init__(self, schema, rng, wild_num=0, wild_den=100):
        self.S, self.R = schema, rng
        self.wn, self.wd = wild_num, wild_den
        self.wild_used = []
        self.target_core = set()
        self.target = None        # set of type names: optional fields, CHOICE and open-type alternatives leading there are taken

    def wild(self, what):
        if self.wn and self.R.chance(self.wn, self.wd):
            self.wild_used.append(what)
            return True
        return False

    def gen(self, tname, p, depth=0):
        S, R = self.S, self.R
        t = S.types[tname]; k = t['kind']
        if k == 'ptr': return self.gen(t['elem'], p, depth)
        if k == 'int':
            lb, ub = p['valueLB'], p['valueUB']
            if lb is None: return str(R.choice([0, 1, -1, 127, 128, -128, -129, 32767, 32768, -32769, R.range(-2**40, 2**40)]))
            if ub is None: return str(lb + R.choice([0, 1, 127, 128, 255, 256, 65535, 65536, R.range(0, 2**33)]))
            c = [lb, ub, min(ub, lb + 1), max(lb, ub - 1), R.range(lb, ub), R.range(lb, ub)]
            for d in (255, 256, 65535, 65536, 2**24, 2**32):
                if lb + d <= ub: c.append(lb + d)
            x = R.choice(c)
            if p['valueExt'] and self.wild('int-above-root'): x = ub + R.choice([1, 2, 256, 70000])
            elif self.wild('int-outside'): x = R.choice([ub + 1, lb - 1, ub + 300])
            return str(x)
        if k == 'enum':
            lo = p['valueLB'] or 0; hi = p['valueUB'] if p['valueUB'] is not None else 3
            if self.wild('enum-outside'): return str(hi + 1)
            return str(R.range(lo, hi))
        if k == 'bool': return R.chance(1, 2)
        if k in ('bitstring', 'octetstring', 'string'):
            lb = p['sizeLB'] or 0; ub = p['sizeUB']
            hi = ub if ub is not None else lb + 40
            n = R.choice([lb, hi if hi - lb < 300 else lb + R.range(0, 299), R.range(lb, min(hi, lb + 20))])
            if ub is not None and ub >= 65536 and not R.chance(1, 8): n = 0 if lb == 0 else n
            if p['sizeExt'] and ub is not None and self.wild('size-above-root'): n = ub + R.choice([1, 2, 17])
            elif self.wild('size-outside'): n = R.choice([hi + 1, max(0, lb - 1)]) if ub is not None else max(0, lb - 1)
            if k == 'bitstring':
                nb = (n + 7) // 8; b = bytearray(R.bytes(nb))
                # a Go BIT STRING value may carry non-zero bits after BitLength (the emulator builds AMF Set ID / Pointer from
                # hex text): they are not part of the value and must not reach the wire
                if n % 8 and not R.chance(1, 3): b[-1] &= (0xff << (8 - n % 8)) & 0xff
                return {'hex': bytes(b).hex(), 'nbits': str(n)}
            if k == 'string':
                al = b'abcdefghijklmnopqrstuvwxyz0123456789-.'
                return {'hex': bytes(al[R.below(len(al))] for _ in range(n)).hex()}
            return {'hex': R.bytes(n).hex()}
        if k == 'slice':
            lb = p['sizeLB'] or 0; ub = p['sizeUB'] if p['sizeUB'] is not None else lb + 3
            n = R.choice([lb, min(ub, lb + 1), min(ub, lb + 2)]) if depth < 6 else lb
            if self.wild('count-outside'): n = max(0, lb - 1) if R.chance(1, 2) or ub > 40 else ub + 1
            ep = dict(p); ep['sizeExt'] = False; ep['sizeLB'] = None; ep['sizeUB'] = None
            return [self.gen(t['elem'], ep, depth + 1) for _ in range(n)]
        if k == 'struct':
            fs = t.get('fields') or []
            if S.is_choice(t):
                nalt = len(fs) - 1
                if nalt == 0: raise NoValue()
                hi = min(nalt, (p['valueUB'] if p['valueUB'] is not None else nalt - 1) + 1)

                def empty(i):
                    tt = S.types[fs[i]['type']]
                    while tt['kind'] == 'ptr': tt = S.types[tt['elem']]
                    return tt['kind'] == 'struct' and not tt.get('fields')
                cands = [i for i in range(1, hi + 1) if not empty(i)]
                if not cands: raise NoValue()
                if self.target and depth < 14:
                    cands = [i for i in cands if fs[i]['type'] in self.target] or cands
                pres = R.choice(cands)
                v = [str(pres)] + [None] * nalt
                v[pres] = self.gen(fs[pres]['type'], fs[pres]['p'], depth + 1)
                if self.wild('present-0'): v[0] = "0"
                return v
            out = []
            for i, f in enumerate(fs):
                fp = f['p']
                wanted = self.target is not None and depth < 14 and (f['type'] in self.target or tname in self.target_core)
                if fp['optional'] and not wanted and (R.chance(1, 2) or depth > 7):
                    out.append(None); continue
                try:
                    out.append(self.gen_field(fs, i, fp, f, out, depth))
                except NoValue:
                    if fp['optional']: out.append(None)
                    else: raise
                if (not fp['optional']) and S.types[f['type']]['kind'] == 'ptr' and self.wild('nil-mandatory'):
                    out[-1] = None
            return out
        if k == 'oid': raise NoValue()
        raise Exception('gen ' + k)

    def gen_field(self, fs, i, fp, f, out, depth):
        S, R = self.S, self.R
        if fp['openType']:
            vt = S.types[f['type']]
            vfs = vt.get('fields') or []
            alts = [(j, vfs[j]['p']['refValue']) for j in range(1, len(vfs))]
            if not alts: raise NoValue()
            order = R.shuffle(alts)
            if self.target and depth < 14:
                order = sorted(order, key=lambda a: vfs[a[0]]['type'] not in self.target)
            for j, rv in order:
                try:
                    inner = self.gen(vfs[j]['type'], vfs[j]['p'], depth + 1)
                except NoValue:
                    continue
                idx = [q for q in range(i) if fs[q]['name'] == fp['refName']][0]
                out[idx] = self.set_ref(fs[idx]['type'], rv + (1 if self.wild('open-type-mismatch') else 0))
                v = [str(j)] + [None] * (len(vfs) - 1)
                v[j] = inner
                return v
            raise NoValue()
        return self.gen(f['type'], fp, depth + 1)

    def set_ref(self, tname, rv):
        t = self.S.types[tname]
        if t['kind'] == 'int': return str(rv)
        if t['kind'] == 'struct': return [self.set_ref(t['fields'][0]['type'], rv)] + [None] * (len(t['fields']) - 1)
        raise Exception('set_ref')


def ngap_messages(schema):
    """(class index 1..3, alternative index j in the ...Value open type, procedure code)"""
    out = []
    pdu = schema.types['ngapType.NGAPPDU']
    for cls in (1, 2, 3):
        mt = schema.types[schema.types[pdu['fields'][cls]['type']]['elem']]
        vt = schema.types[mt['fields'][2]['type']]
        for j in range(1, len(vt['fields'])):
            out.append((cls, j, vt['fields'][j]['p']['refValue'], vt['fields'][j]['name']))
    return out


def gen_pdu_of(gen, schema, cls, j):
    """a value of NGAPPDU whose message is alternative j of class cls"""
    pdu = schema.types['ngapType.NGAPPDU']
    mname = schema.types[pdu['fields'][cls]['type']]['elem']
    mt = schema.types[mname]
    vt = schema.types[mt['fields'][2]['type']]
    f = vt['fields'][j]
    inner = gen.gen(f['type'], f['p'], 3)
    val = [str(j)] + [None] * (len(vt['fields']) - 1)
    val[j] = inner
    crit = gen.gen(mt['fields'][1]['type'], mt['fields'][1]['p'], 3)
    msg = [gen.set_ref(mt['fields'][0]['type'], f['p']['refValue']), crit, val]
    v = [str(cls), None, None, None]
    v[cls] = msg
    return v


# ----------------------------------------------------------------------------- the frozen TS 38.413 types, fields taken by name
class GoldenSchema(Schema):
    """refamf/ngap_schema_golden.json (types) + refamf/ngap_roots_golden.json (root parameters): what Spec/NgapGolden.v
    transcribes. Used to look for a failing input when the regenerated schema is no longer the frozen one: values are
    generated over the frozen types and handed to the implementation *by field name*."""
    _inst = None

    def __init__(self):
        base = os.path.join(C.VERIF, "refamf")
        d = json.load(open(os.path.join(base, "ngap_schema_golden.json")))
        self.types = d['types']
        self.roots = json.load(open(os.path.join(base, "ngap_roots_golden.json")))
        self.root = {r['Name']: r for r in self.roots}
        for t in self.types.values():
            for f in t.get('fields') or []:
                f['p'] = parse_tag(f['tag'])

    @classmethod
    def get(cls, harness=None):
        if cls._inst is None:
            cls._inst = GoldenSchema()
        return cls._inst


def remap(src, dst, tname, v):
    """the value tree [v] of type [tname], positional in schema [src], as the positional tree of schema [dst] with every
    struct field and CHOICE alternative found by its name; NoValue when the two schemas do not have the same names/types there"""
    ts = src.types[tname]; td = dst.types.get(tname)
    if td is None or td['kind'] != ts['kind']: raise NoValue(tname)
    k = ts['kind']
    if k in ('ptr', 'slice'):
        if td['elem'] != ts['elem']: raise NoValue(tname)
        if v is None: return None
        return remap(src, dst, ts['elem'], v) if k == 'ptr' else [remap(src, dst, ts['elem'], x) for x in v]
    if k != 'struct':
        return v
    fs = ts.get('fields') or []; fd = td.get('fields') or []
    ns = [f['name'] for f in fs]; nd = [f['name'] for f in fd]
    if sorted(ns) != sorted(nd) or len(set(ns)) != len(ns): raise NoValue(tname)
    out = [None] * len(fd)
    if src.is_choice(ts):
        if not dst.is_choice(td): raise NoValue(tname)
        pres = int(v[0])
        if pres <= 0 or pres >= len(fs): raise NoValue(tname)
        j = nd.index(ns[pres])
        if fd[j]['type'] != fs[pres]['type']: raise NoValue(tname)
        out[0] = str(j) if isinstance(v[0], str) else j
        out[j] = remap(src, dst, fs[pres]['type'], v[pres])
        return out
    for i, f in enumerate(fs):
        j = nd.index(f['name'])
        if fd[j]['type'] != f['type']: raise NoValue(tname)
        out[j] = remap(src, dst, f['type'], v[i])
    return out


def differing_types(Gs, S):
    """struct types whose fields (names in order, tags, types) differ between the frozen and the current schema"""
    out = set()
    for tn, tg in Gs.types.items():
        tc = S.types.get(tn)
        if tg['kind'] != 'struct': continue
        sig = lambda t: [(f['name'], f['tag'], f['type']) for f in (t.get('fields') or [])]
        if tc is None or tc['kind'] != 'struct' or sig(tc) != sig(tg): out.add(tn)
    return out


def reaching(Gs, core):
    """type names from which a type of [core] can be reached (over the frozen schema)"""
    kids = {}
    for tn, t in Gs.types.items():
        kids[tn] = [t['elem']] if t['kind'] in ('ptr', 'slice') else [f['type'] for f in (t.get('fields') or [])] if t['kind'] == 'struct' else []
    reach = set(core)
    changed = True
    while changed:
        changed = False
        for tn, ks in kids.items():
            if tn not in reach and any(k in reach for k in ks):
                reach.add(tn); changed = True
    return reach


def golden_cases(S, rng, per_msg, per_root, search=False):
    """(root name, golden root record, value over the frozen types, the same value by name for the current types, canonical hex)"""
    Gs = GoldenSchema.get()
    ref = Ref(Gs)
    out = []
    skipped = 0

    def add(rname, vg, msg):
        nonlocal skipped
        r = Gs.root[rname]
        if rname not in S.root:
            skipped += 1; return
        try:
            hx = ref.encode(r['Type'], r['Params'], vg).hex()
            vc = remap(Gs, S, r['Type'], vg)
        except (Refuse, Frag, NoValue):
            skipped += 1; return
        out.append({"root": rname, "gvalue": vg, "value": vc, "expect": hx, "msg": msg, "wild": False})
    for rep in range(per_msg):
        for (cls, j, code, name) in ngap_messages(Gs):
            try: vg = gen_pdu_of(Gen(Gs, rng), Gs, cls, j)
            except NoValue: continue
            add("NGAPPDU", vg, "%d/%s" % (cls, name))
    for r in Gs.roots[1:]:
        for rep in range(per_root):
            try: vg = Gen(Gs, rng).gen(r['Type'], parse_tag(r['Params']))
            except NoValue: continue
            add(r['Name'], vg, r['Name'])
    if search:
        # the regenerated schema differs from the frozen one: values that CONTAIN the differing types, with every optional
        # field on the way and inside them present
        core = differing_types(Gs, S)
        if core and len(core) < 200:
            reach = reaching(Gs, core)

            def tgen():
                g = Gen(Gs, rng); g.target, g.target_core = reach, core
                return g
            pdu = Gs.types['ngapType.NGAPPDU']
            for (cls, j, code, name) in ngap_messages(Gs):
                mt = Gs.types[Gs.types[pdu['fields'][cls]['type']]['elem']]
                f = Gs.types[mt['fields'][2]['type']]['fields'][j]
                if f['type'] not in reach: continue
                for rep in range(30):
                    try: vg = gen_pdu_of(tgen(), Gs, cls, j)
                    except (NoValue, RecursionError): continue
                    add("NGAPPDU", vg, "%d/%s" % (cls, name))
            for r in Gs.roots[1:]:
                if r['Type'] not in reach: continue
                for rep in range(30):
                    try: vg = tgen().gen(r['Type'], parse_tag(r['Params']))
                    except (NoValue, RecursionError): continue
                    add(r['Name'], vg, r['Name'])
    return out, skipped


# ----------------------------------------------------------------------------- value comparison (Go representation remarks)
def same_value(a, b):
    """equality up to: nil vs empty slice, unused low bits of a BIT STRING's last octet"""
    if isinstance(a, list) and isinstance(b, list):
        return len(a) == len(b) and all(same_value(x, y) for x, y in zip(a, b))
    if isinstance(a, dict) and isinstance(b, dict) and 'nbits' in a and 'nbits' in b:
        if int(a['nbits']) != int(b['nbits']): return False
        n = int(a['nbits']); x = bytes.fromhex(a['hex']); y = bytes.fromhex(b['hex'])
        if len(x) != len(y): return False
        if n % 8 == 0 or not x: return x == y
        m = (0xff << (8 - n % 8)) & 0xff
        return x[:-1] == y[:-1] and (x[-1] & m) == (y[-1] & m)
    if a is None and b == []: return True
    if b is None and a == []: return True
    return a == b


# ----------------------------------------------------------------------------- check base: report every failing case
class AperCheck(Check):
    max_replays = 6

    def run_stream(self, st, harness):
        import hashlib
        if hasattr(st, "prepare"):
            st.prepare(harness, self)
        rng = self.rng.fork(st.name)
        cases = self.corpus_cases(st) + st.generate(rng, self.tier)
        obs = C.harness_call(harness, st.sub, [st.go_case(c) for c in cases], timeout=st.harness_timeout) if st.sub else [None] * len(cases)
        if hasattr(st, "post"):
            cases, obs = st.post(harness, cases, obs)
        info = {"cases": len(cases), "model_bad": 0, "spec_bad": 0, "known": 0}
        dist = {}
        for c, o in zip(cases, obs):
            k = st.key(c, o)
            if k is not None:
                self._distinct.add(hashlib.sha256((st.name + k).encode()).hexdigest())
            cl = st.classify(c, o)
            dist[cl] = dist.get(cl, 0) + 1
        self.cov["evaluations"] += len(cases)
        self.cov["distribution"][st.name] = dist
        if cases:
            self.cov["samples"].append({"stream": st.name, "case": st.go_case(cases[len(cases) // 2]), "observed": obs[len(cases) // 2]})
        reported = 0
        for i, (c, o) in enumerate(zip(cases, obs)):
            msg = st.direct_check(c, o)
            if not msg and isinstance(o, dict) and "input_after" in o:
                msg = "the decoder wrote into its input buffer: it now reads %s" % o["input_after"][:120]
            rf = getattr(st, "retained_field", None)       # see vlib/prop.py: results handed out earlier must not change
            if not msg and rf and i > 0 and isinstance(o, dict) and "prev_now" in o and isinstance(obs[i - 1], dict) and rf in obs[i - 1]:
                if o["prev_now"] != obs[i - 1][rf]:
                    msg = "the result returned by the previous call (%s) reads %s after this call" % (obs[i - 1][rf][:80], o["prev_now"][:80])
            if msg:
                info["spec_bad"] += 1
                if self.report(st, c, o, "direct oracle: " + msg, None, reported < self.max_replays):
                    reported += 1
                else:
                    info["known"] += 1
        bad_model, bad_spec = self.eval_cases(st, cases, obs)
        info["model_bad"] = len(bad_model)
        for i in sorted(set(bad_spec) | set(bad_model)):
            c, o = cases[i], obs[i]
            in_spec = (i in bad_spec) if st.spec_check else True
            if not in_spec:
                continue
            info["spec_bad"] += 1
            why = "implementation differs from %s" % ("specification" if st.spec_check else "model (proved equal to the specification)")
            k0 = st.known(c, o)
            # a recorded deviation is the behaviour of the unchanged tree, which the model mirrors: a case of a known class
            # counts as that finding only while implementation and model still agree on it
            agrees = i not in bad_model
            is_viol = not (k0 is not None and (k0.startswith("outside:") or (self.is_known(k0) and agrees)))
            if k0 is not None and self.is_known(k0) and not agrees:
                why += " and no longer behaves as the recorded finding %s does" % k0
            exp = self.expected(st, c, o) if (is_viol and reported < self.max_replays) else None
            if self.report(st, c, o, why, exp, reported < self.max_replays, agrees):
                reported += 1
            else:
                info["known"] += 1
        # model-only disagreements that are not spec disagreements: handled by Check.run (no-failing-input-found)
        info["model_only"] = [st.go_case(cases[i]) for i in bad_model if st.spec_check and i not in bad_spec][:3]
        self.cov["streams"][st.name] = info
        info2 = dict(info)
        info2["spec_bad"] = info["spec_bad"] - info["known"]
        info2["model_bad"] = len([i for i in bad_model if not (st.known(cases[i], obs[i]) and st.known(cases[i], obs[i]).startswith("outside:"))])
        return info2

    def findings(self):
        fs = list(C.known_findings())
        extra = os.environ.get("APER_FINDINGS_FILE")          # development aid only: entries not yet merged by the coordinator
        if extra and os.path.exists(extra):
            fs += json.load(open(extra))
        return fs

    def is_known(self, k):
        return any(f.get("key") == k and f.get("property") == self.pid and f.get("status") == "known" for f in self.findings())

    def report(self, st, c, o, why, expected, write, model_agrees=True):
        """True when this is a violation (not a listed known finding)"""
        k = st.known(c, o)
        if k is not None and not k.startswith("outside:") and not model_agrees:
            k = None
        if k is not None and k.startswith("outside:"):
            d = self.cov.setdefault("outside_ngap_classes", {})
            d[k[8:]] = d.get(k[8:], 0) + 1
            return False
        if k is not None and self.is_known(k):
            self.known_finding(k, next(f["what"] for f in self.findings() if f.get("key") == k and f.get("property") == self.pid))
            return False
        if write:
            self.violation({"theorem_or_stream": st.name, "input": st.go_case(c), "observed": o, "expected": expected, "why": why,
                            "candidate_class": k, "how_to_replay": "./check %s --replay <this file>" % self.pid})
        return True


# ----------------------------------------------------------------------------- primitive constraint space
def tag_of(kind, lb, ub, ext):
    parts = []
    v = kind in ('int', 'enum', 'choice')
    if ext: parts.append('valueExt' if v else 'sizeExt')
    if lb is not None: parts.append(('valueLB:%d' if v else 'sizeLB:%d') % lb)
    if ub is not None: parts.append(('valueUB:%d' if v else 'sizeUB:%d') % ub)
    return ",".join(parts)


RANGES = sorted(set([1, 2, 3, 4, 5, 7, 8, 9, 15, 16, 17, 31, 32, 33, 63, 64, 65, 127, 128, 129, 254, 255, 256, 257, 258, 511, 512, 1000,
                     4095, 4096, 32767, 32768, 65535, 65536, 65537, 65538, 2**17 - 1, 2**17, 2**17 + 1, 2**24 - 1, 2**24, 2**24 + 1,
                     2**32 - 1, 2**32, 2**32 + 1, 4000000000001, 2**40 - 1, 2**40, 2**40 + 1, 2**48, 2**56 + 1]))


DEEP_LENS = [255, 256, 1023, 4096, 8191, 8192, 8193, 12345, 16383]


def prim_cases(rng, tier, deep_lens=None):
    """list of primitive encode cases over the constraint space (boundary values first)"""
    cs = []
    quick = tier == "quick"

    def add(kind, p_lb, p_ub, ext, **kw):
        # pre / post: BOOLEAN fields before and after the value (bit offsets 0..7 in front; what the codec leaves behind shows
        # in the fields after it)
        c = dict(kind=kind, tag=tag_of(kind, p_lb, p_ub, ext), pre=rng.below(8), post=[0, 1, 3][len(cs) % 3], **kw)
        cs.append(c)
    # INTEGER: constrained around every power of two, values at and around the bounds
    for R in RANGES:
        for ext in (False, True):
            lbs = [0] + ([rng.choice([1, -1, -R // 2, 1000, 2**31, -2**40])] if (not quick or rng.chance(1, 2)) else [])
            for lb in lbs:
                ub = lb + R - 1
                vals = [lb, lb + 1, lb + R // 2, ub - 1, ub, ub + 1, lb - 1, lb + 255, lb + 256, lb + 65535, lb + 65536, ub + 70000]
                if quick: vals = vals[:7] + [rng.choice(vals[7:])]
                for v in sorted(set(vals)):
                    if -2**62 < v < 2**62:
                        add('int', lb, ub, ext, int=str(v))
    # semi-constrained / unconstrained / ub only
    for lb in (0, 1, -128, 5000):
        for v in (lb, lb + 1, lb + 127, lb + 128, lb + 255, lb + 256, lb + 32767, lb + 32768, lb + 65535, lb + 65536, lb + 2**31, lb + 2**40, lb - 1):
            add('int', lb, None, False, int=str(v))
    for v in (0, 1, -1, 127, 128, -128, -129, 255, 256, 32767, 32768, -32768, -32769, 2**31 - 1, 2**31, -2**31 - 1, 2**47, -2**47 - 1, 2**62, -2**62):
        add('int', None, None, False, int=str(v))
        if rng.chance(1, 3): add('int', None, 100, False, int=str(v))
    # ENUMERATED
    for ub in (0, 1, 2, 3, 7, 8, 15, 16, 254, 255, 256, 300):
        for ext in (False, True):
            for v in sorted(set([0, 1, ub // 2, max(0, ub - 1), ub, ub + 1])):
                add('enum', 0, ub, ext, int=str(v))
    add('enum', None, None, False, int="0"); add('enum', 1, 3, False, int="2"); add('enum', 1, 3, False, int="0")
    # BOOLEAN
    for v in (0, 1):
        add('bool', None, None, False, int=str(v))
    # CHOICE index
    for nalt in (1, 2, 3, 4, 5, 8, 9, 16, 17, 40):
        for ext in (False, True):
            for pres in sorted(set([0, 1, 2, nalt // 2, nalt - 1, nalt, nalt + 1])):
                if pres < 0: continue
                cs.append(dict(kind='choice', tag=tag_of('choice', 0, nalt - 1, ext), etag="valueLB:0,valueUB:255", nalt=nalt, pres=pres,
                               int=str(rng.below(256)), pre=rng.below(8)))
    cs.append(dict(kind='choice', tag="", etag="valueLB:0,valueUB:255", nalt=3, pres=1, int="7", pre=1))
    cs.append(dict(kind='choice', tag="valueLB:0,valueUB:5", etag="valueLB:0,valueUB:255", nalt=3, pres=3, int="7", pre=2))
    # sizes: OCTET STRING, PrintableString, BIT STRING, SEQUENCE OF
    big = 300 if quick else 17000
    size_constraints = [(None, None), (0, None), (1, None), (None, 10)]
    for a, b in [(0, 0), (1, 1), (2, 2), (3, 3), (4, 4), (6, 6), (8, 8), (10, 10), (13, 13), (15, 15), (16, 16), (17, 17), (24, 24), (32, 32), (0, 1), (0, 3), (1, 3), (0, 7), (1, 8), (1, 150),
                 (0, 254), (0, 255), (1, 256), (0, 256), (1, 1024), (1, 65535), (0, 65535), (0, 65536), (1, 65536), (1, 131072), (20, 40)]:
        size_constraints.append((a, b))
    for kind in ('octets', 'bits', 'seqof', 'string'):
        for (lb, ub) in size_constraints:
            for ext in (False, True):
                lo = lb or 0
                hi = ub if ub is not None else lo + 200
                ns = [lo, lo + 1, (lo + hi) // 2, hi - 1, hi, hi + 1, lo - 1, 127, 128, 129, 2, 3, 16, 17]
                if kind == 'string' and quick: ns = ns[:6]
                if not quick: ns += [16383, 16384, 16385]
                # every bit of the two-octet length determinant (10.9.3.7): lengths around 2^13 and up to 2^14 - 1,
                # for the unconstrained shapes also in the quick tier
                deep = kind in ('octets', 'bits') and ub is None and not ext
                if deep: ns += (DEEP_LENS if deep_lens is None or not quick else deep_lens)
                for n in sorted(set(ns)):
                    if n < 0 or (n > big and not (deep and n <= 16383)): continue
                    if kind == 'seqof' and n > 300: continue
                    if kind in ('octets', 'string'):
                        add(kind, lb, ub, ext, hex=rng.bytes(n).hex())
                    elif kind == 'bits':
                        nb = (n + 7) // 8; b = bytearray(rng.bytes(nb))
                        if n % 8 and rng.chance(1, 2): b[-1] &= (0xff << (8 - n % 8)) & 0xff
                        elif n % 8: b[-1] |= 1          # stray bits after BitLength: not part of the value
                        add(kind, lb, ub, ext, hex=bytes(b).hex(), nbits=n)
                    else:
                        et = rng.choice(["valueLB:0,valueUB:255", "valueLB:0,valueUB:7", "valueLB:0,valueUB:65535", "valueExt,valueLB:0,valueUB:3"])
                        m = parse_tag(et)['valueUB']
                        add(kind, lb, ub, ext, etag=et, ints=[str(rng.below(m + 1)) for _ in range(n)])
    # BIT STRING with a byte slice that does not match BitLength
    for (n, nb) in [(6, 0), (12, 1), (20, 2), (20, 4), (0, 1), (8, 2)]:
        for (lb, ub) in [(6, 6), (20, 20), (0, 30), (None, None)]:
            add('bits', lb, ub, False, hex=rng.bytes(nb).hex(), nbits=n)
    return cs


def prim_coq_type(c):
    """Coq terms (ty, field-type) of the reflect.StructOf type of a primitive case"""
    kind = c['kind']
    ft = {'int': 'TInt', 'enum': 'TEnum', 'bool': 'TBool', 'octets': 'TOctets', 'string': 'TString', 'bits': 'TBits'}.get(kind)
    if kind == 'seqof':
        ft = '(TSlice (TStruct [("V"%%string, %s, TInt)]))' % coq_params(parse_tag(c.get('etag', '')))
    elif kind == 'choice':
        ep = coq_params(parse_tag(c.get('etag', '')))
        ft = '(TStruct [("Present"%%string, p_empty, TInt)%s])' % "".join('; ("A%d"%%string, %s, TPtr TInt)' % (i, ep) for i in range(1, c['nalt'] + 1))
    pre = "".join('("P%d"%%string, p_empty, TBool); ' % i for i in range(c['pre']))
    post = "".join('; ("Q%d"%%string, p_empty, TBool)' % i for i in range(c.get('post', 0)))
    return '(TStruct [%s("V"%%string, %s, %s)%s])' % (pre, coq_params(parse_tag(c['tag'])), ft, post)


def prim_field_val(c, o=None):
    """Coq [val] of the V field, from the case (encode) or from the decoder's output o"""
    kind = c['kind']
    src = o if o is not None else c
    if kind == 'int': return "(VInt %s)" % cz(int(src['int']))
    if kind == 'enum': return "(VEnum %d)" % int(src['int'])
    if kind == 'bool': return "(VBool %s)" % C.cbool(int(src['int']) != 0)
    if kind in ('octets', 'string'): return "(VOctets %s)" % C.cN(bytes.fromhex(src['hex']))
    if kind == 'bits': return "(VBits %s %d)" % (C.cN(bytes.fromhex(src['hex'])), int(src['nbits']))
    if kind == 'seqof': return "(VList [%s])" % ";".join("(VStruct [(VInt %s)])" % cz(int(x)) for x in src.get('ints') or [])
    if kind == 'choice':
        pres = int(src['pres'])
        alts = ["VNil"] * c['nalt']
        if 1 <= pres <= c['nalt'] and 'int' in src: alts[pres - 1] = "(VPtr (VInt %s))" % cz(int(src['int']))
        return "(VStruct [(VInt %s)%s])" % (cz(pres), "".join(";" + a for a in alts))
    raise ValueError(kind)


def prim_coq_val(c, o=None):
    if o is not None:
        pre = "".join("(VBool %s); " % C.cbool(ch == '1') for ch in o.get('prebits', ''))
        post = "".join("; (VBool %s)" % C.cbool(ch == '1') for ch in o.get('postbits', ''))
    else:
        pre = "".join("(VBool %s); " % C.cbool(i % 2 == 0) for i in range(c['pre']))
        post = "".join("; (VBool %s)" % C.cbool(i % 2 == 0) for i in range(c.get('post', 0)))
    return "(VStruct [%s%s%s])" % (pre, prim_field_val(c, o), post)


def prim_value_size(c):
    kind = c['kind']
    if kind in ('int', 'enum'): return int(c['int'])
    if kind in ('octets', 'string'): return len(c['hex']) // 2
    if kind == 'bits': return int(c['nbits'])
    if kind == 'seqof': return len(c.get('ints') or [])
    return 0


def prim_ref_encode(c):
    """independent X.691 encoding of a primitive case: bytes | raises Refuse / Frag"""
    w = W()
    for i in range(c['pre']): w.put(1 if i % 2 == 0 else 0, 1)
    p = parse_tag(c['tag']); k = c['kind']
    if k == 'int': enc_int(w, p['valueLB'], p['valueUB'], p['valueExt'], int(c['int']))
    elif k == 'enum':
        if p['valueLB'] is None or p['valueUB'] is None: raise Refuse('enum')
        v = int(c['int'])
        if not p['valueLB'] <= v <= p['valueUB']: raise Refuse('enum range')
        if p['valueExt']: w.put(0, 1)
        cwn(w, p['valueUB'] - p['valueLB'] + 1, v)
    elif k == 'bool': w.put(1 if int(c['int']) else 0, 1)
    elif k in ('octets', 'string'):
        d = bytes.fromhex(c['hex']); enc_string(w, p['sizeLB'], p['sizeUB'], p['sizeExt'], d, len(d), False)
    elif k == 'bits':
        d = bytes.fromhex(c['hex']); n = int(c['nbits'])
        if len(d) != (n + 7) // 8: raise Refuse('bits octets')
        enc_string(w, p['sizeLB'], p['sizeUB'], p['sizeExt'], d, n, True)
    elif k == 'seqof':
        xs = [int(x) for x in c.get('ints') or []]; n = len(xs); lb = p['sizeLB'] or 0; ub = p['sizeUB']
        inroot = n >= lb and (ub is None or n <= ub)
        if p['sizeExt']:
            w.put(0 if inroot else 1, 1)
            if not inroot: lendet(w, n)
        elif not inroot: raise Refuse('count')
        if inroot: enc_len(w, lb, ub, n)
        ep = parse_tag(c['etag'])
        for x in xs: enc_int(w, ep['valueLB'], ep['valueUB'], ep['valueExt'], x)
    elif k == 'choice':
        pres = int(c['pres'])
        if pres <= 0 or pres > c['nalt']: raise Refuse('present')
        if p['valueUB'] is None or p['valueUB'] < 0 or pres - 1 > p['valueUB']: raise Refuse('choice')
        if p['valueExt']: w.put(0, 1)
        cwn(w, p['valueUB'] + 1, pres - 1)
        ep = parse_tag(c['etag']); enc_int(w, ep['valueLB'], ep['valueUB'], ep['valueExt'], int(c['int']))
    for i in range(c.get('post', 0)): w.put(1 if i % 2 == 0 else 0, 1)
    return w.out()


def prim_same(c, o):
    """does the decoder's output o carry the value of case c (up to BIT STRING padding bits)?"""
    k = c['kind']
    if o.get('prebits', '') != "".join('1' if i % 2 == 0 else '0' for i in range(c['pre'])): return False
    if o.get('postbits', '') != "".join('1' if i % 2 == 0 else '0' for i in range(c.get('post', 0))): return False
    if k in ('int', 'enum'): return int(o.get('int', -1 << 70)) == int(c['int'])
    if k == 'bool': return int(o['int']) == (1 if int(c['int']) else 0)
    if k in ('octets', 'string'): return o.get('hex') == c['hex']
    if k == 'bits': return same_value({'hex': c['hex'], 'nbits': c['nbits']}, {'hex': o.get('hex', ''), 'nbits': o.get('nbits', -1)})
    if k == 'seqof': return [int(x) for x in o.get('ints') or []] == [int(x) for x in c.get('ints') or []]
    if k == 'choice': return int(o.get('pres', -1)) == int(c['pres']) and int(o.get('int', -1)) == int(c['int'])
    return False


def coq_dobs_prim(c, o):
    if 'panic' in o: return "DPanic"
    if 'err' in o: return "(DErr %d)" % errcode(o['err'])
    return "(DOk %s)" % prim_coq_val(c, o)


def coq_dobs_ngap(schema, root, o):
    """observable of ngapdec / ngaprt / ngapfuzz as Coq [dobs]"""
    r = o.get('r')
    if 'panic' in o or 'decpanic' in o or r == 'panic': return "DPanic"
    if r == 'timeout': return "DTimeout"
    if 'err' in o or 'decerr' in o or r == 'err':
        return "(DErr %d)" % errcode(o.get('err') or o.get('decerr') or o.get('msg') or '')
    return "(DOk %s)" % schema.coq_val(schema.root[root]['Type'], o['value'])
