"""C19 — fail-stop when the AMF disappears or answers garbage.
Theorems over the regenerated driver skeletons/wiring + fault enumeration on the real process."""
import concurrent.futures as cf, re, time
from .. import common as C, gen, proc
from ..prop import Check

COUNT_KEYS = ["Test_ue_registation", "Test_ue_pdu_establishment", "Test_ue_service", "Test_ue_pdu_release", "Test_ue_deregistration"]
BANNER = ">> All tests finished"
# the replies the property lists as consumed by the emulator
CONSUMED = {"NGSetupResponse", "DL:AuthenticationRequest", "DL:SecurityModeCommand", "InitialContextSetupRequest", "PDUSessionResourceSetupRequest",
            "DL:ServiceAccept", "PDUSessionResourceReleaseCommand", "UEContextReleaseCommand"}


class C19(Check):
    pid = "C19"
    prop_files = ["Properties/C19.v"]
    streams = []
    trusted = ["Coq 8.16.1 kernel incl. vm_compute (no native_compute)", "no axioms (Print Assumptions: closed under the global context)",
               "translators harness/gen_driver.go (go/ast): driver skeletons and main() wiring are regenerated from the working tree on every run; statements outside the recognised shapes become Unrecognised, which skeleton_ok rejects",
               "Model/Driver.v: semantics of a closed association / undecodable reply at the level of Write/Read/Decoder results (OS behaviour of a closed SEQPACKET socket is observed on the real process, not proved)",
               "refamf/: independent Python reference AMF as the live peer; golden NGAP schema refamf/ngap_schema_golden.json"]
    assumptions = ["bounded time is proved as bounded steps (index of the stopping event < length of the conversation); wall-clock time to exit is measured on the process runs",
                   "garbage = 3 octets that are not an NGAP PDU, sent in place of the first reply to an uplink message the AMF answers",
                   "a decodable but unexpected message is outside the two fault kinds"]

    def regen(self, harness):
        return gen.regen(harness, {"DriverSkel.v", "MainWiring.v"})

    def model_predictions(self, counts, nrep, faults, golden=False):
        cfg = "[" + ";".join('("%s",%d%%Z)' % (k, v) for k, v in zip(COUNT_KEYS, counts)) + "]"
        fl = ";".join("(%d,%s,%d)" % (f[0], "true" if f[1] == "close" else "false", f[2]) for f in faults)
        txt = ("From Coq Require Import List String Bool Arith ZArith.\nRequire Import DriverTypes Driver DriverConv %s MainWiring.\n"
               "Import ListNotations. Open Scope string_scope.\n"
               "Definition conv := conversation_of driver_skeletons wiring_mode2 %s.\n"
               "Definition nrep := [%s]%%nat.\n"
               "Definition code (o:outcome) : nat := match o with Completed => 0 | Exit1 _ => 1 end.\n"
               "Definition one (f:nat * bool * nat) : nat := let '(j, cl, i) := f in let q := queued_before conv nrep j + i in\n"
               "  code (run (if cl then FClose j q else FGarbage j q) conv pst0 0).\n"
               "Definition rd (f:nat * bool * nat) : nat := let '(j, cl, i) := f in if is_read conv j (queued_before conv nrep j + i) then 1 else 0.\n"
               "Definition pred := Eval vm_compute in (count_w conv, map one [%s], map rd [%s]).\nPrint pred.\n"
               % ("DriverSkelGolden" if golden else "DriverSkel", cfg, ";".join(str(x) for x in nrep), fl, fl))
        rc, out = C.coq_eval(txt)
        flat = " ".join(out.split())
        m = re.search(r"pred = \((\d+), \[([^\]]*)\], \[([^\]]*)\]\)", flat)
        if rc != 0 or not m:
            raise RuntimeError("cannot evaluate the driver model: " + out[-1500:])
        f = lambda t: [int(x) for x in t.replace("%nat", "").split(";") if x.strip()]
        return int(m.group(1)), f(m.group(2)), f(m.group(3))

    def extra(self, harness, build_ok):
        binary, err = C.build_emulator()
        if binary is None:
            raise RuntimeError("emulator build failed: " + err[-1500:])
        # conversations: one UE through all five procedures; and one that ENDS with a release (no read at all in ReleasePDU)
        # ... and one in which a session is established and nothing but deregistrations follow (a fault swallowed inside
        # EstablishPDU is then not caught by a later procedure of the same UE)
        configs = [[1, 1, 1, 1, 1], [1, 1, 0, 1, 0], [2, 1, 0, 0, 2]] if self.tier == "quick" else [[2, 2, 1, 1, 2], [1, 1, 0, 1, 0], [2, 1, 1, 0, 1], [1, 0, 0, 0, 1], [2, 1, 0, 0, 2]]
        self.cov["process"] = []
        with cf.ThreadPoolExecutor(max_workers=len(configs)) as ex:
            list(ex.map(lambda c: self.one_config(binary, c), configs))

    def one_config(self, binary, counts):
        cfg = proc.default_cfg(counts=counts)
        base = proc.run(binary, cfg, self.seed)
        n_up = len(base["uplinks"])
        info = {"counts": counts, "uplink_messages": n_up, "fault_free": {"verdict": base["verdict"], "rc": base["rc"], "banner": BANNER in base["stdout"]}}
        self.cov["process"].append(info)
        if base["rc"] != 0 or BANNER not in base["stdout"]:
            self.violation({"theorem_or_stream": "process: fault-free conversation", "input": {"counts": counts}, "observed": {"rc": base["rc"], "verdict": base["verdict"], "stdout": base["stdout"][-1500:]},
                            "why": "the fault-free test-mode run against the reference AMF did not complete"})
            return
        nrep = base["nrep"]
        kinds = base["kinds"]
        # faults at the granularity of downlink messages: close after i of the answers to uplink j were sent;
        # the i-th answer replaced by undecodable bytes (fixed octets / a truncation of the genuine answer)
        faults = []
        for j in range(n_up):
            for i in range(max(nrep[j], 1)):
                faults.append((j, "close", i))
            for i in range(nrep[j]):
                faults.append((j, "garbage", i, "ff"))
                faults.append((j, "garbage", i, "trunc"))
                faults.append((j, "garbage", i, "fill" if (j + i) % 2 == 0 else "over"))
                faults.append((j, "garbage", i, "minus1"))
                faults.append((j, "garbage", i, "text" if (j + i) % 2 == 0 else "padbits"))
                faults.append((j, "garbage", i, "inner" if (j + i) % 2 == 0 else "idx3"))
                faults.append((j, "garbage", i, "idx3" if (j + i) % 2 == 0 else "inner"))
                faults.append((j, "garbage", i, "emptyval"))
                faults.append((j, "garbage", i, "late"))
        n_model, preds, reads = self.model_predictions(counts, nrep, faults)
        if getattr(self, "search_mode", False):
            # a proof obligation over the regenerated skeleton broke: the positions of the emulator's reads are taken from the
            # frozen skeleton of the unchanged tree (Spec/DriverSkelGolden.v), not from one that may reflect the change
            try:
                C.coq_make(["Spec/DriverSkelGolden.vo"])
                _, _, reads_g = self.model_predictions(counts, nrep, faults, golden=True)
                if len(reads_g) == len(reads):
                    reads = [max(a, b) for a, b in zip(reads, reads_g)]
            except Exception as e:
                C.log("C19: frozen skeleton unavailable: %s" % e)
        if n_model != n_up:
            self.violation({"theorem_or_stream": "correspondence: driver skeleton vs process", "input": {"counts": counts},
                            "observed": {"uplink_messages": n_up}, "expected": {"count_w": n_model},
                            "why": "the regenerated skeleton predicts a different number of uplink messages than the process sends"}, "no-failing-input-found")

        def one(f):
            t0 = time.time()
            r = proc.run(binary, cfg, self.seed, fault=f, timeout=60)
            return f, r, time.time() - t0
        with cf.ThreadPoolExecutor(max_workers=16) as ex:
            results = list(ex.map(one, faults))
        rows = []
        total_down = sum(nrep)
        for (f, r, dt), pred, isread in zip(results, preds, reads):
            j, kind, i = f[0], f[1], f[2]
            banner = BANNER in r["stdout"]
            observed = 0 if (r["rc"] == 0 and banner) else 1
            what = kinds[j][i] if i < len(kinds[j]) else "-"
            rows.append({"j": j, "fault": kind, "reply": i, "variant": f[3] if len(f) > 3 else None, "downlink": what, "rc": r["rc"], "banner": banner,
                         "t_after_fault_s": round(r["t_after_fault"] or -1, 2), "model": pred, "read_by_emulator": isread})
            with self._lock:
                self.cov["evaluations"] += 1
                self._distinct.add("c19-%s-%s" % (counts, f))
            # the property itself, judged WITHOUT the model: a close that cuts off something the emulator still needs
            # (every position but the one after its very last reads/writes), and garbage in place of a reply the property lists
            downlinks_before = sum(nrep[:j]) + i
            late_close = False
            if kind == "close":
                must_stop = not (j == n_up - 1 and i >= nrep[j])      # closing after everything was exchanged is no fault
                must_stop = must_stop and not (j == n_up - 1 and downlinks_before >= total_down)
                # the emulator had already written ALL its remaining messages when the close took effect (ReleasePDU writes three
                # messages 100 ms and 10 ms apart and never reads) and reads nothing from here on: the association was closed
                # after its last I/O, which is no fault either
                sent = r.get("sent_before_close", 0)
                if sent and j + sent == n_up - 1 and not any(rd for (ff, rd) in zip(faults, reads) if ff[0] >= j and ff[1] == "garbage"):
                    must_stop, late_close = False, True
            else:
                # ... that the emulator actually reads (ReleasePDU never reads, so after a release one downlink message
                # stays unread for good: the recorded C02 finding); only the positions of the Reads are taken from the skeleton
                must_stop = what in CONSUMED and isread == 1
            if r["rc"] == "HANG" or (must_stop and (r["rc"] == 0 or banner)) or (r["t_after_fault"] or 0) > 30:
                self.violation({"theorem_or_stream": "process fault enumeration", "input": {"counts": counts, "uplink_index": j, "fault": kind, "reply_index": i, "variant": f[3] if len(f) > 3 else None, "replaced_downlink": what, "garbage": r.get("garbage")},
                                "observed": {"rc": r["rc"], "banner": banner, "t_after_fault_s": r["t_after_fault"], "stdout_tail": r["stdout"][-800:]},
                                "expected": "non-zero exit status within bounded time, no completion banner",
                                "why": "emulator did not fail-stop", "how_to_replay": "./check C19 --tier %s" % self.tier})
            elif observed != pred and not late_close:
                self.violation({"theorem_or_stream": "correspondence: Model/Driver.v vs process", "input": {"counts": counts, "uplink_index": j, "fault": kind, "reply_index": i, "replaced_downlink": what},
                                "observed": {"rc": r["rc"], "banner": banner}, "expected": {"model_outcome": pred},
                                "why": "model and process disagree on the outcome of this fault (property not violated on this input)"}, "no-failing-input-found")
        info["faults"] = rows
        info["max_t_after_fault_s"] = max([x["t_after_fault_s"] for x in rows] + [0])
        with self._lock:
            self.cov["samples"].append({"counts": counts, "fault_runs": rows[:4]})
        self.cov["exhaustive"] = True
        self.cov["rule"] = ("every uplink message index of the test-mode conversation x {close, garbage-as-reply} on the real process against the "
                            "reference AMF; a case is distinct by (index, fault kind); all are non-trivial")
