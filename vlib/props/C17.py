"""C17 — identifier conversion helpers (PLMN, S-NSSAI, AMF-ID, transport layer address, PCO, DNN)."""
from .. import common as C
from ..prop import Check, Stream
from .C11 import PlmnNas


def ob(h):
    return "None" if h in ("", None) else "Some " + C.cN(bytes.fromhex(h))


class Snssai(Stream):
    name, sub = "snssai", "snssai"
    retained_field = "out"
    requires = ["Hex", "Convert", "Convert3gpp"]
    model_check = "(fun c : Z * list N * list N * bool => snssai_check (fst c))"
    # spec: well-formed inputs (sst 0..255, sd absent or 6 hex digits) must decode to the same sst / sd octets
    spec_check = ("(fun c : Z * list N * list N * bool => let '(sst, sd, o, wf) := c in if wf then "
                  "match snssai_decode o with Some (s, None) => (Z.of_N s =? sst)%Z && match sd with [] => true | _ => false end "
                  "| Some (s, Some d) => (Z.of_N s =? sst)%Z && eqb_bytes (hex_encode d) sd | None => false end else true)")
    shard = 1000

    def generate(self, rng, tier):
        cs = [{"sst": s, "sd": "", "wf": True} for s in range(256)]
        for i in range(500 if tier == "quick" else 20000):
            cs.append({"sst": rng.below(256), "sd": rng.bytes(3).hex(), "wf": True})
        # reserved-looking values of the slice differentiator (all ones = "no SD associated" in TS 23.003, all zeros,
        # single set/cleared bits): they are ordinary values for the conversion
        for sd in ["000000", "ffffff", "fffffe", "7fffff", "800000", "000001", "0000ff", "00ff00", "ff0000", "fffff0", "0fffff"]:
            for sst in [0, 1, 255, rng.below(256)]:
                cs.append({"sst": sst, "sd": sd, "wf": True})
        for i in range(60):   # malformed / out-of-range stream
            cs.append({"sst": rng.choice([-1, 256, 300, 2**31 - 1, -2**31, rng.below(256)]),
                       "sd": rng.choice(["", "01020", "zz0102", "0102", "01020304", "ABCDEF", "abCDef0"]), "wf": False})
        return cs

    def go_case(self, c):
        return {"sst": c["sst"], "sd": c["sd"]}

    def coq_case(self, c, o):
        return "((%d)%%Z, %s, %s, %s)" % (c["sst"], C.cstr(c["sd"]), C.cN(bytes.fromhex(o.get("out", ""))), C.cbool(c["wf"]))

    def classify(self, c, o):
        return ("wf-" if c["wf"] else "malformed-") + ("sd" if c["sd"] else "nosd")


class AmfId(Stream):
    name, sub = "amfid", "amfid"
    requires = ["Bytes", "Hex", "Convert", "Convert3gpp"]
    model_check = "(fun c : list N * option (N * N * N) * option N => amfid_check (fst c))"
    spec_check = ("(fun c : list N * option (N * N * N) * option N => let '(s, o, v) := c in match v, o with "
                  "| Some v, Some (r, st, p) => let '(r', st', p') := amf_id_fields v in (r =? r') && (st =? st') && (p =? p') "
                  "| Some _, None => false | None, _ => true end)")
    shard = 2000

    def generate(self, rng, tier):
        vs = [0, 1, 63, 64, 65, 0xFFFF, 0x10000, 0xFFFFFF, 0xCAFE42, 0x00FFC0, 0x0000C0, 0x00003F, 0x010000]
        vs += [rng.below(1 << 24) for _ in range(3000 if tier == "quick" else 200000)]
        # the model form is TS 29.571 AmfId, pattern ^[A-Fa-f0-9]{6}$: both cases of the hexadecimal digits are valid
        def form(i, v):
            t = "%06x" % v
            if i % 4 == 1: return t.upper()
            if i % 4 == 3: return "".join(ch.upper() if (v >> j) & 1 else ch for j, ch in enumerate(t))
            return t
        cs = [{"amfid": form(i, v), "v": v} for i, v in enumerate(vs)]
        cs += [{"amfid": "CAFE42", "v": 0xCAFE42}, {"amfid": "00aBcD", "v": 0xABCD}, {"amfid": "FFFFFF", "v": 0xFFFFFF}]
        cs += [{"amfid": s, "v": None} for s in ["", "ca", "cafe", "cafe4", "cafe4242", "zzzzzz", "cafe4z"]]
        return cs

    def go_case(self, c):
        return {"amfid": c["amfid"]}

    def coq_case(self, c, o):
        obs = "None" if "panic" in o else "Some (%d, %d, %d)" % (o["region"], o["set"], o["pointer"])
        return "(%s, %s, %s)" % (C.cstr(c["amfid"]), obs, "None" if c["v"] is None else "Some %d" % c["v"])

    def classify(self, c, o):
        return "wf" if c["v"] is not None else "malformed"


class IpAddr(Stream):
    name, sub = "ipaddr", "ipaddr"
    retained_field = "bytes"
    requires = ["Convert", "Convert3gpp"]
    model_check = "ipaddr_check"
    # spec: TS 38.414 decoder returns the addresses that were given
    spec_check = ("(fun c : option (list N) * option (list N) * list N * N * option (list N) * option (list N) => "
                  "let '(v4, v6, ob, ol, b4, b6) := c in match v4, v6, tla_decode ob ol with "
                  "| Some a, None, Some (TlaV4 a') => eqb_bytes a a' && eqb_ob b4 (Some a) && eqb_ob b6 None "
                  "| None, Some b, Some (TlaV6 b') => eqb_bytes b b' && eqb_ob b6 (Some b) && eqb_ob b4 None "
                  "| Some a, Some b, Some (TlaBoth a' b') => eqb_bytes a a' && eqb_bytes b b' && eqb_ob b4 (Some a) && eqb_ob b6 (Some b) "
                  "| None, None, _ => true | _, _, _ => false end)")
    shard = 1000

    def generate(self, rng, tier):
        cs = []
        v4s = ["00000000", "ffffffff", "7f000001", "0a000001"]
        v6s = ["00" * 16, "ff" * 16, "20010db8" + "00" * 11 + "01", "00" * 10 + "ffff" + "01020304", "fe80" + "00" * 13 + "01"]
        for a in v4s + [""]:
            for b in v6s + [""]:
                cs.append({"v4": a, "v6": b})
        for i in range(600 if tier == "quick" else 30000):
            k = rng.below(3)
            cs.append({"v4": rng.bytes(4).hex() if k != 1 else "", "v6": rng.bytes(16).hex() if k != 0 else ""})
        # the same IPv6 address in other legal text forms (RFC 4291 2.2): embedded dotted quad (NAT64 64:ff9b::a.b.c.d), upper
        # case, all eight groups written out
        import ipaddress
        for i in range(12 if tier == "quick" else 200):
            b = bytes.fromhex(["0064ff9b" + "00" * 8, "20010db8" + "00" * 8, "00" * 12][i % 3]) + rng.bytes(4) if i % 4 != 3 else rng.bytes(16)
            a = ipaddress.IPv6Address(b)
            quad = ".".join(str(x) for x in b[12:])
            head = a.exploded.rsplit(":", 2)[0]
            text = [head + ":" + quad, a.exploded.upper(), a.exploded, a.compressed.upper()][i % 4]
            cs.append({"v4": rng.bytes(4).hex() if i % 5 == 4 else "", "v6": b.hex(), "v6text": text})
        return cs

    def coq_case(self, c, o):
        if "panic" in o:
            return "(%s, %s, [], 999, None, None)" % (ob(c["v4"]), ob(c["v6"]))
        return "(%s, %s, %s, %d, %s, %s)" % (ob(c["v4"]), ob(c["v6"]), C.cN(bytes.fromhex(o["bytes"])), o["bitlen"], ob(o["back4"]), ob(o["back6"]))

    def classify(self, c, o):
        return ("v4" if c["v4"] else "") + ("v6" if c["v6"] else "") or "none"

    def direct_check(self, c, o):
        return "panic: " + o["panic"] if "panic" in o else None


class IpStr(Stream):
    """arbitrary BIT STRINGs into IPAddressToString (malformed stream: lengths that do not match BitLength)"""
    name, sub = "ipstr", "ipstr"
    requires = ["Convert"]
    model_check = "ipstr_check"

    def generate(self, rng, tier):
        cs = []
        for bl in [0, 1, 31, 32, 33, 64, 127, 128, 159, 160, 161]:
            for ln in [0, 3, 4, 5, 16, 19, 20, 21]:
                if bl == 128 and ln != 16:
                    continue      # net.IP.String() of a non-16-octet slice is not an address: no canonical observable
                cs.append({"bytes": rng.bytes(ln).hex(), "bitlen": bl})
        return cs

    def coq_case(self, c, o):
        obs = "None" if "panic" in o else "Some (%s, %s)" % (ob(o["back4"]), ob(o["back6"]))
        return "(%s, %d, %s)" % (C.cN(bytes.fromhex(c["bytes"])), c["bitlen"], obs)

    def key(self, c, o):
        return None if "panic" in o else super().key(c, o)

    def classify(self, c, o):
        return "panic" if "panic" in o else "bitlen%d" % c["bitlen"]


def units_coq(us):
    return "[" + ";".join("{| u_id := %d; u_len := %d; u_contents := %s |}" % (u["id"], u["len"], C.cN(bytes.fromhex(u["contents"]))) for u in us) + "]"


class Pco(Stream):
    name, sub = "pco", "pco"
    retained_field = "bytes"
    requires = ["Convert", "Convert3gpp"]
    case_type = "list pcu * list N * option (list pcu) * bool"
    model_check = "(fun c : list pcu * list N * option (list pcu) * bool => pco_check (fst c))"
    spec_check = ("(fun c : list pcu * list N * option (list pcu) * bool => let '(us, ob, ou, wf) := c in if wf then "
                  "match pco_decode ob, ou with Some l, Some l' => "
                  "  eqb_units us l' && Nat.eqb (length l) (length us) && "
                  "  forallb (fun p => (fst (fst p) =? u_id (snd p)) && eqb_bytes (snd (fst p)) (u_contents (snd p))) (combine l us) "
                  "| _, _ => false end else true)")
    shard = 40

    def generate(self, rng, tier):
        cs = []
        for i in range(400 if tier == "quick" else 8000):
            n = rng.choice([0, 1, 2, 3, 5, 20]) if not rng.chance(1, 10) else rng.below(40)
            us = []
            for _ in range(n):
                ln = rng.choice([0, 0, 1, 2, 4, 16, 255, rng.below(256)])
                us.append({"id": rng.choice([0x000d, 0x0003, 0x0010, 0x8021, 0xffff, 0, rng.below(65536)]), "len": ln, "contents": rng.bytes(ln).hex()})
            cs.append({"units": us, "wf": True})
        # lists built with the library's own helpers (AddDNSServerIPv4Address, ...IPv6Address, AddIPv4LinkMTU, the request
        # helpers): primary and secondary servers of one family, several lists built one after the other
        for i in range(60 if tier == "quick" else 1500):
            us = []
            for _ in range(rng.choice([1, 2, 2, 3, 4, 6])):
                how = rng.choice(["dns4", "dns4", "dns6", "dns6", "mtu", "dns4req", "dns6req", "ipalloc"])
                ident, ln = {"dns4": (0x000d, 4), "dns6": (0x0003, 16), "mtu": (0x0010, 2), "dns4req": (0x000d, 0), "dns6req": (0x0003, 0), "ipalloc": (0x000a, 0)}[how]
                us.append({"id": ident, "len": ln, "contents": rng.bytes(ln).hex(), "add": how})
            cs.append({"units": us, "wf": True})
        for i in range(40):        # LengthOfContents disagreeing with Contents (not well-formed): model only
            us = [{"id": rng.below(65536), "len": rng.below(6), "contents": rng.bytes(rng.below(6)).hex()} for _ in range(rng.range(1, 4))]
            cs.append({"units": us, "wf": False})
        return cs

    def go_case(self, c):
        return {"units": c["units"]}

    def coq_case(self, c, o):
        ou = "None" if o.get("err") else "Some " + units_coq(o["units"])
        return "(%s, %s, %s, %s)" % (units_coq(c["units"]), C.cN(bytes.fromhex(o["bytes"])), ou, C.cbool(c["wf"]))

    def classify(self, c, o):
        return "wf-%d-units" % min(len(c["units"]), 20) if c["wf"] else "len-mismatch"


class PcoDec(Stream):
    name, sub = "pcodec", "pcodec"
    requires = ["Convert"]
    case_type = "list N * option (list pcu)"
    model_check = "pcodec_check"
    shard = 500

    def generate(self, rng, tier):
        cs = [{"data": ""}, {"data": "80"}, {"data": "80000d"}, {"data": "80000d05"}, {"data": "80000d0501"}]
        for i in range(300 if tier == "quick" else 5000):
            cs.append({"data": rng.bytes(rng.below(24)).hex()})
        return cs

    def coq_case(self, c, o):
        return "(%s, %s)" % (C.cN(bytes.fromhex(c["data"])), "None" if o["err"] else "Some " + units_coq(o["units"]))

    def classify(self, c, o):
        return "err" if o["err"] else "%d-units" % len(o["units"])


class Dnn(Stream):
    name, sub = "dnn", "dnn"
    retained_field = "bytes"
    requires = ["Convert", "Convert3gpp"]
    model_check = "dnn_check"
    spec_check = "(fun c : list N * list N * list N => let '(d, ob, back) := c in match dnn_lv_decode ob with Some d' => eqb_bytes d d' && eqb_bytes d back | None => false end)"

    def generate(self, rng, tier):
        return [{"dnn": rng.bytes(n).hex()} for n in [0, 1, 8, 9, 63, 100, 254, 255] + [rng.below(256) for _ in range(40)]]

    def coq_case(self, c, o):
        return "(%s, %s, %s)" % (C.cN(bytes.fromhex(c["dnn"])), C.cN(bytes.fromhex(o["bytes"])), C.cN(bytes.fromhex(o["back"])))


class Concurrent(Stream):
    """8 parties convert their own AMF ids, PLMNs, S-NSSAIs and addresses at once: each gets what it gets alone"""
    name = "concurrent"
    sub = "conc"
    model_check = None
    spec_check = None
    requires = []

    def generate(self, rng, tier):
        return [{"family": "convert", "goroutines": 8, "iters": 3000 if tier == "quick" else 100000}]

    def classify(self, c, o):
        return "same" if o.get("different") == 0 else "different"

    def key(self, c, o):
        return "convert-conc"

    def coq_case(self, c, o):
        return ""

    def direct_check(self, c, o):
        if o.get("different", 1) != 0 or "harness_error" in o or "panic" in o:
            return "converting concurrently for different parties changes the results: %s" % (o.get("first") or o)
        return None


class C17(Check):
    pid = "C17"
    prop_files = ["Properties/C17.v"]
    extra_targets = ["Model/C11Check.vo"]
    streams = [PlmnNas(), Snssai(), AmfId(), IpAddr(), IpStr(), Pco(), PcoDec(), Dnn(), Concurrent()]
    trusted = ["Coq 8.16.1 kernel incl. vm_compute (no native_compute)", "no axioms (Print Assumptions: closed under the global context)",
               "hand-written models Model/Convert.v, Model/SuciEnc.v (plmn_id_to_nas), Lib/Hex.v (encoding/hex) tied by the correspondence streams",
               "Spec/Convert3gpp.v, Spec/Suci.v: decoders transcribed from memory of TS 24.501 9.11.2.8, TS 23.003 2.10.1, TS 38.414, TS 24.008 10.5.6.3",
               "textual IP forms are produced and parsed by Go's net package in the harness (IP.String / ParseIP), modelled at the octet level only"]
    assumptions = ["transport layer addresses are compared as octets after net.ParseIP (the textual form of an IPv4-mapped IPv6 address is not canonical)",
                   "PCO round trip is for well-formed units (LengthOfContents = len(Contents) < 256, id < 65536); other unit shapes are covered by the model-only stream"]
