"""C20 — concurrency safety of codecs and security functions.
Theorems: footprint conformance (go/ssa translator) + interleaving theorem; runtime: race detector + stress run."""
import concurrent.futures as cf, json, os, shutil, subprocess
from .. import common as C
from ..prop import Check

FAMILIES = [("nas_cipher", 300), ("nas_mac", 300), ("nas_protect", 200), ("nas_codec", 300), ("ngap_codec", 40), ("key_derive", 200), ("key_derive_shared", 300), ("milenage", 300), ("nas_cipher_aes", 2000), ("nas_mac_aes", 2000), ("nas_unprotect", 300), ("ngap_decode_errors", 300), ("ngap_decode_unknown_ie", 300),
            # more parties than any small fixed pool of slots: a bounded resource that is acquired twice shows as a hang
            ("nas_cipher_aes", 150, 48), ("nas_protect", 60, 48)]


def build_footprints():
    os.makedirs(C.BIN, exist_ok=True)
    out = os.path.join(C.BIN, "footprints")
    with C.Lock("gobuild-fp"):
        rc, o, e, dt = C.run(["go", "build", "-o", out, "."], cwd=os.path.join(C.VERIF, "footprints"), env=C.GOENV, timeout=600)
    if rc != 0:
        raise RuntimeError("footprint translator does not build: " + (o + e)[-1500:])
    return out


class C20(Check):
    pid = "C20"
    prop_files = ["Properties/C20.v"]
    streams = []
    trusted = ["Coq 8.16.1 kernel incl. vm_compute (no native_compute)", "no axioms (Print Assumptions: closed under the global context)",
               "translator footprints/main.go (golang.org/x/tools v0.29.0 go/packages + go/ssa from the module cache): package-level variables read/written by functions statically reachable from the entry points of each operation family, with lock regions recognised per basic block; calls through interfaces / function values are not followed",
               "logrus entries are treated as internally synchronised (class 'logger')",
               "Go memory model, scheduler and sync.Mutex are NOT modelled: critical sections are atomic in Spec/Interleave.v by assumption; the race detector (-race build of the harness) and the stress comparison are the runtime evidence",
               "reset-first property of the SNOW 3G sections is C07's state-independence theorem (Proofs/SecProofs.v)"]
    assumptions = ["different UEs = disjoint caller-owned arguments (own RanUeContext, own buffers)",
                   "PARTIAL: logic proved, runtime quantity (absence of races under the real scheduler) observed, not proved"]

    def regen(self, harness):
        fp = build_footprints()
        rc, out, err, dt = C.run([fp, C.REPO], timeout=900, env=C.GOENV)
        if rc != 0:
            raise RuntimeError("footprint translator failed: " + (out + err)[-1500:])
        return ["Footprints.v"] if C.write_if_changed(os.path.join(C.COQ, "Gen", "Footprints.v"), out) else []

    def extra(self, harness, build_ok):
        race, err = C.build_harness(race=True)
        if race is None:
            raise RuntimeError("race build of the harness failed: " + err[-1500:])
        G = 8 if self.tier == "quick" else 64
        if not build_ok:
            G = 64          # a footprint obligation broke: look harder for an interleaving that shows it
        mult = 1 if self.tier == "quick" else 4

        def one(fi):
            fam, iters = fi[0], fi[1]
            d = C.scratch_dir("race")
            try:
                case = {"family": fam, "goroutines": max(G, fi[2] if len(fi) > 2 else 0), "iters": iters * mult, "deadline_s": 240 if self.tier == "quick" else 700}
                p = subprocess.run([race, "conc"], input=json.dumps(case) + "\n", cwd=d, stdout=subprocess.PIPE, stderr=subprocess.PIPE, text=True, timeout=900,
                                   env=dict(os.environ, GORACE="halt_on_error=0 exitcode=66"))
                res = None
                for l in p.stdout.splitlines():
                    if l.startswith("{"):
                        res = json.loads(l)
                return fam, case, res, p.returncode, p.stderr
            finally:
                shutil.rmtree(d, ignore_errors=True)
        with cf.ThreadPoolExecutor(max_workers=3) as ex:
            results = list(ex.map(one, FAMILIES))
        rows = []
        for fam, case, res, rc, stderr in results:
            races = stderr.count("WARNING: DATA RACE")
            row = {"family": fam, "goroutines": case["goroutines"], "calls": (res or {}).get("calls"), "different": (res or {}).get("different"), "data_races": races, "rc": rc}
            rows.append(row)
            with self._lock:
                self.cov["evaluations"] += (res or {}).get("calls", 0) or 0
                self._distinct.add("fam-" + fam)
            if res is None or "panic" in res or res.get("different", 1) != 0 or races > 0:
                self.violation({"theorem_or_stream": "runtime: race detector / concurrent vs sequential", "input": case,
                                "observed": {"result": res, "data_race_reports": races, "first_report": stderr[stderr.find("WARNING: DATA RACE"):][:1500] if races else stderr[-500:]},
                                "expected": "concurrent results equal the sequential ones, no data race report",
                                "how_to_replay": "echo '%s' | .work/bin/harness_race conc" % json.dumps(case)})
        self.cov["runtime"] = rows
        self.cov["samples"].append({"runtime": rows[:3]})
        self.cov["rule"] = ("13 operation families (two of them also with 48 parties) x G goroutines x N calls each for its own UE, first sequentially then concurrently under the race detector; "
                            "distinct_nontrivial counts operation families")
        # at least two distinct cases for the evidence schema
        self._distinct.add("footprints")
