"""C04 — NGAP decode inverts encode; canonical encodings are accepted and re-encoded identically."""
from .. import common as C
from .. import gen as G
from ..prop import Stream
from . import AperLib as A

REQ = ["Coq.Strings.String", "GoSlice", "AperCommon", "AperEnc", "AperDec", "NgapSchema", "AperCheck"]


class PrimDec(Stream):
    """primitive encodings (from the library and from the independent reference) through aper.Unmarshal"""
    name = "prim-dec"
    sub = "aperenc"
    requires = REQ
    model_check = "dec_model_check"
    model_out = "dec_model_out"
    shard = 300

    def generate(self, rng, tier):
        return [c for c in A.prim_cases(rng, tier) if A.prim_value_size(c) < 16384 or c['kind'] in ('int', 'enum')]

    def post(self, harness, cases, obs):
        out = []
        for c, o in zip(cases, obs):
            encs = []
            try:
                r = A.prim_ref_encode(c).hex()
            except (A.Refuse, A.Frag):
                continue                      # not a constraint-satisfying value (or fragmented): outside C04's claim
            if 'enc' in o: encs.append(('go', o['enc']))
            if not encs or encs[0][1] != r: encs.append(('ref', r))
            else: encs[0] = ('go=ref', r)
            for src, hx in encs:
                out.append(dict(c, hex_in=hx, src=src))
        go = [{k: v for k, v in c.items() if k in ('kind', 'tag', 'etag', 'pre', 'post', 'nalt')} for c in out]
        for g, c in zip(go, out): g['hex'] = c['hex_in']
        obs2 = C.harness_call(harness, "aperdec", go, timeout=self.harness_timeout)
        return out, obs2

    def go_case(self, c):
        return {k: v for k, v in c.items() if k not in ('hex_in', 'src')}

    def coq_case(self, c, o):
        return "(%s, p_empty, %s, %s)" % (A.prim_coq_type(c), C.cN(bytes.fromhex(c['hex_in'])), A.coq_dobs_prim(c, o))

    def classify(self, c, o):
        return c['kind'] + ":" + c['src'] + ":" + ("panic" if 'panic' in o else "err" if 'err' in o else "ok")

    def direct_check(self, c, o):
        if 'panic' in o: return "decoder panicked on an encoding of a valid value: " + o['panic']
        if 'err' in o: return "encoding (%s) of a constraint-satisfying value is rejected: %s" % (c['src'], o['err'])
        if not A.prim_same(c, o): return "decoded value differs from the encoded one (%s encoding)" % c['src']
        return None

    def known(self, c, o):
        cl = A.prim_classes(c['kind'], A.parse_tag(c['tag']), A.prim_value_size(c))
        return A.class_key("C04", cl)


class NgapRT(Stream):
    """Go: encode -> decode -> re-encode of schema-generated values; the model decodes the same bytes"""
    name = "ngap-rt"
    sub = "ngaprt"
    requires = REQ
    model_check = "dec_model_check"
    model_out = "dec_model_out"
    shard = 30

    def prepare(self, harness, chk):
        self.S = A.Schema.get(harness)
        self.cls = A.Classifier(self.S)

    def generate(self, rng, tier):
        S = self.S
        cases = []
        per_msg = 1 if tier == "quick" else 6
        if getattr(self, "search", False):
            per_msg = 12            # a proof obligation broke: look harder for a value that exhibits it
        per_root = 2 if tier == "quick" else 10
        if getattr(self, "search", False):
            per_root = 40
        for rep in range(per_msg):
            for (cls, j, code, name) in A.ngap_messages(S):
                g = A.Gen(S, rng)
                try: v = A.gen_pdu_of(g, S, cls, j)
                except A.NoValue: continue
                cases.append({"root": "NGAPPDU", "value": v, "msg": "%d/%s" % (cls, name)})
        for r in S.roots[1:]:
            for rep in range(per_root):
                try: v = A.Gen(S, rng).gen(r['Type'], A.parse_tag(r['Params']))
                except A.NoValue: continue
                cases.append({"root": r['Name'], "value": v, "msg": r['Name']})
        return cases

    def go_case(self, c):
        return {"root": c["root"], "value": c["value"]}

    def coq_case(self, c, o):
        if 'enc' not in o:
            return '(ngap_dec_case "%s"%%string [] (DErr 36))' % c["root"]     # nothing to decode: trivial case
        return '(ngap_dec_case "%s"%%string %s %s)' % (c["root"], C.cN(bytes.fromhex(o['enc'])), A.coq_dobs_ngap(self.S, c["root"], o))

    def classify(self, c, o):
        return "enc-refused" if 'enc' not in o else "decerr" if 'decerr' in o else "decpanic" if 'decpanic' in o else "ok"

    def key(self, c, o):
        return c["msg"] + ":" + str(o.get("enc"))

    def direct_check(self, c, o):
        if 'enc' not in o: return None            # refusal of the value is C03's business
        if 'decpanic' in o: return "decoder panicked on the library's own encoding"
        if 'decerr' in o: return "the library's own encoding is rejected: " + o['decerr']
        if not A.same_value(o['value'], c['value']): return "decode(encode v) differs from v"
        if o.get('re') != o['enc']: return "re-encoding differs from the first encoding"
        return None

    def known(self, c, o):
        r = self.S.root[c["root"]]
        cl = self.cls.classes(r['Type'], r['Params'], c["value"])
        return A.class_key("C04", cl)


class NgapCanon(NgapRT):
    """canonical encodings from the independent X.691 reference into the Go decoder, then re-encoded"""
    name = "ngap-canon"
    sub = "ngapdec"
    requires = REQ + ["X691Check"]
    model_check = "ngap_canon_model_check"
    spec_check = "ngap_canon_spec_check"
    model_out = "ngap_canon_model_out"

    def generate(self, rng, tier):
        ref = A.Ref(self.S)
        out = []
        for c in NgapRT.generate(self, rng, tier):
            r = self.S.root[c["root"]]
            try: c["hex"] = ref.encode(r['Type'], r['Params'], c["value"]).hex()
            except (A.Refuse, A.Frag): continue
            out.append(c)
        return out

    def go_case(self, c):
        return {"root": c["root"], "hex": c["hex"], "re": True}

    def coq_case(self, c, o):
        r = self.S.root[c["root"]]
        return '("%s"%%string, %s, %s, %s)' % (c["root"], self.S.coq_val(r['Type'], c["value"]), C.cN(bytes.fromhex(c['hex'])),
                                                A.coq_dobs_ngap(self.S, c["root"], o))

    def classify(self, c, o):
        return "err" if 'err' in o else "panic" if 'panic' in o else "ok"

    def key(self, c, o):
        return c["msg"] + ":" + c["hex"]

    def direct_check(self, c, o):
        if 'panic' in o: return "decoder panicked on a canonical encoding"
        if 'err' in o: return "canonical encoding rejected: " + o['err']
        if not A.same_value(o['value'], c['value']): return "canonical encoding decodes to a different value"
        if o.get('re') != c['hex']: return "re-encoding differs from the canonical encoding"
        return None


class GoldenCanon(NgapCanon):
    """canonical encodings of values over the frozen TS 38.413 types; the decoded Go value is read back by field name"""
    name = "golden-canon"
    model_check = None
    spec_check = None
    model_out = None

    def generate(self, rng, tier):
        search = getattr(self, "search", False)
        cases, self.skipped = A.golden_cases(self.S, rng, 12 if search else 1 if tier == "quick" else 4,
                                             40 if search else 2 if tier == "quick" else 8, search=search)
        for c in cases: c["hex"] = c["expect"]
        return cases

    def go_case(self, c):
        return {"root": c["root"], "hex": c["hex"], "re": True, "gvalue": c["gvalue"]}

    def from_replay(self, c):
        return dict(c, msg=c["root"], value=None)

    def direct_check(self, c, o):
        if 'panic' in o: return "decoder panicked on a canonical encoding"
        if 'err' in o: return "canonical encoding rejected: " + o['err']
        Gs = A.GoldenSchema.get()
        try: back = A.remap(self.S, Gs, Gs.root[c["root"]]['Type'], o['value'])
        except (A.NoValue, Exception): return None        # the current types cannot be read by the frozen names here
        if not A.same_value(back, c['gvalue']): return "canonical encoding decodes to a different value (fields read by name over the TS 38.413 types)"
        if o.get('re') != c['hex']: return "re-encoding differs from the canonical encoding"
        return None

    def known(self, c, o):
        try:
            if c.get("value") is None:
                c = dict(c, value=A.remap(A.GoldenSchema.get(), self.S, self.S.root[c["root"]]['Type'], c["gvalue"]))
            return NgapCanon.known(self, c, o)
        except Exception: return None


class C04(A.AperCheck):
    pid = "C04"
    prop_files = ["Properties/C04.v"]
    extra_targets = ["Model/AperCheck.vo", "Spec/X691Check.vo"]
    streams = [PrimDec(), NgapRT(), NgapCanon(), GoldenCanon()]
    trusted = ["Coq 8.16.1 kernel incl. vm_compute (no native_compute); no axioms (Print Assumptions: closed under the global context)",
               "hand-written models Model/AperEnc.v, Model/AperDec.v (marshal.go / aper.go) tied by the correspondence streams: implementation == model on every case, incl. error identity and panics",
               "Go slices modelled with capacity == length (the harness hands exact-capacity slices to the codec)",
               "reflect-based translator harness/gen_ngapschema.go (a copy of parseFieldParameters; root parameter strings read from ngap.go / build.go)",
               "Spec/NgapGolden.v: frozen transcription of the TS 38.413 types in tag notation (cross-checked against an independent Python X.691 reference on ~24000 values in the design round)",
               "Spec/X691.v written from ITU-T X.691 (08/2015), aligned variant, lengths below 16384, no extension additions",
               "Python reference encoder in vlib/props/AperLib.py (only used to produce canonical encodings; checked equal to the Coq specification on every case)"]
    assumptions = ["constraint-satisfying values, no fragmented lengths; equality up to nil/empty slice and the unused bits of a BIT STRING's last octet",
                   "round-trip theorems are TODO-PARTIAL (Properties/C04.v); the streams establish them per case for every NGAP message type and the constraint space"]

    def regen(self, harness):
        ch = G.run_translator(harness, "gen-ngapschema", "NgapSchema.v")
        return ["NgapSchema.v"] if ch else []
