"""C03 — NGAP messages are encoded exactly as X.691 aligned PER prescribes; out-of-constraint values are refused."""
from .. import common as C
from .. import gen as G
from ..prop import Stream
from . import AperLib as A


class PrimEnc(Stream):
    """aper.Marshal over reflect.StructOf types: the whole constraint space at bit offsets 0..7"""
    name = "prim-enc"
    sub = "aperenc"
    retained_field = "enc"
    requires = ["Coq.Strings.String", "GoSlice", "AperCommon", "AperEnc", "AperCheck", "X691Check"]
    model_check = "enc_model_check"
    spec_check = "enc_spec_check"
    model_out = "enc_model_out"
    shard = 250

    def generate(self, rng, tier):
        if tier != "quick":
            # strings of 16 Ki units are slow in the bit-list specification: small shards, long timeout
            self.shard, self.eval_timeout = 40, 7200
        return A.prim_cases(rng, tier, deep_lens=[8192])     # the X.691 specification works on bit lists: few long strings

    def coq_case(self, c, o):
        return "(%s, p_empty, %s, %s)" % (A.prim_coq_type(c), A.prim_coq_val(c), A.coq_eobs(o))

    def classify(self, c, o):
        return c['kind'] + ":" + ("panic" if 'panic' in o else "err" if 'err' in o else "ok")

    def known(self, c, o):
        p = A.parse_tag(c['tag'])
        cl = A.prim_classes(c['kind'], p, A.prim_value_size(c))
        return A.class_key("C03", cl)


class NgapEnc(Stream):
    """values of every NGAP message type and every transfer root, generated from the extracted schema"""
    name = "ngap-enc"
    sub = "ngapenc"
    retained_field = "enc"
    requires = ["Coq.Strings.String", "GoSlice", "AperCommon", "AperEnc", "NgapSchema", "AperCheck", "X691Check"]
    model_check = "ngap_enc_model_check"
    spec_check = "ngap_enc_spec_check"
    model_out = "ngap_enc_spec_out"
    shard = 40

    def prepare(self, harness, chk):
        self.S = A.Schema.get(harness)
        self.cls = A.Classifier(self.S)

    def generate(self, rng, tier):
        S = self.S
        cases = []
        per_msg = 1 if tier == "quick" else 6
        if getattr(self, "search", False):
            per_msg = 12            # a proof obligation broke: look harder for a value that exhibits it
        per_root = 2 if tier == "quick" else 10
        if getattr(self, "search", False):
            per_root = 40
        msgs = A.ngap_messages(S)
        for rep in range(per_msg):
            for (cls, j, code, name) in msgs:
                g = A.Gen(S, rng, 5 if rep % 2 == 1 or rng.chance(1, 4) else 0, 100)
                try:
                    v = A.gen_pdu_of(g, S, cls, j)
                except A.NoValue:
                    continue
                cases.append({"root": "NGAPPDU", "value": v, "msg": "%d/%s" % (cls, name), "wild": g.wild_used})
        for r in S.roots[1:]:
            for rep in range(per_root):
                g = A.Gen(S, rng, 5 if rep % 2 == 1 else 0, 100)
                try:
                    v = g.gen(r['Type'], A.parse_tag(r['Params']))
                except A.NoValue:
                    continue
                cases.append({"root": r['Name'], "value": v, "msg": r['Name'], "wild": g.wild_used})
        return cases

    def go_case(self, c):
        return {"root": c["root"], "value": c["value"]}

    def coq_case(self, c, o):
        r = self.S.root[c["root"]]
        return '("%s"%%string, %s, %s)' % (c["root"], self.S.coq_val(r['Type'], c["value"]), A.coq_eobs(o))

    def classify(self, c, o):
        return ("wild:" if c["wild"] else "valid:") + ("panic" if 'panic' in o else "err" if 'err' in o else "ok")

    def key(self, c, o):
        return c["msg"] + ":" + str(o.get("enc", o.get("err", "panic")))

    def known(self, c, o):
        r = self.S.root[c["root"]]
        cl = self.cls.classes(r['Type'], r['Params'], c["value"])
        return A.class_key("C03", cl)


class GoldenEnc(NgapEnc):
    """values over the frozen TS 38.413 types handed to the implementation by field name; oracle: the reference X.691
    encoder over the frozen types. On the unchanged tree this repeats ngap-enc with an independent oracle; when the
    regenerated schema stops being the frozen one (schema_is_golden breaks) it is what finds the failing value."""
    name = "golden-enc"
    model_check = None
    spec_check = None
    model_out = None

    def generate(self, rng, tier):
        search = getattr(self, "search", False)
        cases, self.skipped = A.golden_cases(self.S, rng, 12 if search else 1 if tier == "quick" else 4,
                                             40 if search else 2 if tier == "quick" else 8, search=search)
        return cases

    def go_case(self, c):
        return {"root": c["root"], "value": c["value"], "expect": c["expect"]}

    def from_replay(self, c):
        return dict(c, wild=False, msg=c["root"])

    def direct_check(self, c, o):
        if 'panic' in o: return "a constraint-satisfying value makes the encoder panic: " + str(o['panic'])[:200]
        if 'enc' not in o: return "a constraint-satisfying value is refused: " + str(o.get('err'))[:200]
        if o['enc'] != c['expect']:
            return "the encoding differs from the X.691 encoding of this value over the TS 38.413 types (fields taken by name): expected " + c['expect'][:400]
        return None

    def known(self, c, o):
        try: return NgapEnc.known(self, c, o)
        except Exception: return None


class C03(A.AperCheck):
    pid = "C03"
    prop_files = ["Properties/C03.v"]
    extra_targets = ["Model/AperCheck.vo", "Spec/X691Check.vo"]
    streams = [PrimEnc(), NgapEnc(), GoldenEnc()]
    trusted = ["Coq 8.16.1 kernel incl. vm_compute (no native_compute); no axioms (Print Assumptions: closed under the global context)",
               "hand-written models Model/AperEnc.v, Model/AperDec.v (marshal.go / aper.go) tied by the correspondence streams: implementation == model on every case, incl. error identity and panics",
               "Go slices modelled with capacity == length (the harness hands exact-capacity slices to the codec)",
               "reflect-based translator harness/gen_ngapschema.go (a copy of parseFieldParameters; root parameter strings read from ngap.go / build.go)",
               "Spec/NgapGolden.v: frozen transcription of the TS 38.413 types in tag notation (cross-checked against an independent Python X.691 reference on ~24000 values in the design round)",
               "Spec/X691.v written from ITU-T X.691 (08/2015), aligned variant, lengths below 16384, no extension additions",
               "Python reference encoder in vlib/props/AperLib.py (only used to produce canonical encodings; checked equal to the Coq specification on every case)"]
    assumptions = ["main claim for encodings whose every length determinant is below 16384 (fragmentation swept under C03:fragmented)",
                   "quantifier = NGAP PDUs and transfer containers: constraint classes without an NGAP instance are exercised for model == implementation only and counted in coverage.outside_ngap_classes",
                   "PrivateMessage (OBJECT IDENTIFIER, CHOICE without bound) cannot be encoded by the library and is outside the streams",
                   "byte-level bit writer = bit-list append (refinement) and the structural induction are not proved (Properties/C03.v TODO-PARTIAL); they are covered by the streams"]

    def regen(self, harness):
        ch = G.run_translator(harness, "gen-ngapschema", "NgapSchema.v")
        return ["NgapSchema.v"] if ch else []
