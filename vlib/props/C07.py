"""C07 — NAS ciphering and integrity algorithms are the 3GPP 128-NEA/NIA algorithms
(security.NASEncrypt / NASMacCalculate, NEA1/NEA2/NIA1/NIA2, package snow3g)."""
from .. import common as C
from .. import gen
from ..prop import Check, Stream

K_EEA2 = "d3c5d592327fb11c4035c6680af8c6d1"
K_UEA2 = "2bd6459f82c5b300952c49104881ff48"


def draw_params(rng, style):
    """key/count/bearer/dir: boundary values first, then random"""
    if style == 0:
        return dict(key=K_EEA2, count=0x398A59B4, bearer=0x15, dir=1)
    if style == 1:
        return dict(key="00" * 16, count=0, bearer=0, dir=0)
    if style == 2:
        return dict(key="ff" * 16, count=0xFFFFFFFF, bearer=31, dir=1)
    if style == 3:
        return dict(key=K_UEA2, count=0x80000000, bearer=16, dir=0)
    return dict(key=rng.bytes(16).hex(),
                count=rng.choice([0, 1, 0xFF, 0x100, 0xFFFFFF, 0x1000000, 0x7FFFFFFF, 0x80000000, 0xFFFFFFFE, 0xFFFFFFFF] + [rng.below(1 << 32)] * 10),
                bearer=rng.choice([0, 1, 2, 15, 16, 30, 31, rng.below(32), rng.below(32)]),
                dir=rng.below(2))


def draw_msg(rng, n):
    k = rng.below(10)
    if k == 0:
        return bytes(n)
    if k == 1:
        return b"\xff" * n
    if k in (2, 3) and n >= 10:
        # structured content: runs of zero octets inside random data (whole 32/64/128-bit blocks of zeros at aligned and
        # unaligned offsets), sparse messages
        b = bytearray(rng.bytes(n))
        for _ in range(rng.range(1, 3)):
            ln = rng.choice([4, 8, 8, 16, 24])
            at = rng.choice([8 * rng.below(max(1, n // 8)), rng.below(n)])
            b[at:at + ln] = bytes(min(ln, max(0, n - at)))
        return bytes(b[:n])
    if k == 4 and n >= 4:
        b = bytearray(n)
        for _ in range(rng.range(1, 3)):
            b[rng.below(n)] = rng.range(1, 255)
        return bytes(b)
    return rng.bytes(n)


def sres(o, field):
    if "panic" in o:
        return "SPanic"
    if "err" in o:
        return "(SErr 0)"
    return "(SOk %s)" % C.cN(bytes.fromhex(o.get(field, "")))


class _SecStream(Stream):
    requires = ["Bytes", "AES", "Snow3g", "Security", "Snow3gSpec", "TS33401B"]
    field = "out"
    algs_main = (1, 2)
    shard = 24
    eval_timeout = 1500

    def lengths(self, tier):
        return list(range(1, 131))

    def generate(self, rng, tier):
        quick = tier == "quick"
        cases = []

        def add(alg, msg, kind, p=None, **kw):
            p = dict(p or draw_params(rng, 9))
            c = dict(p, alg=alg, msg=msg.hex() if msg is not None else "", kind=kind)
            if msg is None:
                c["nil"] = True
            if kw.get("dirty") or (kw.get("dirty") is None and rng.chance(1, 3)):
                c["dirty"] = True
            cases.append(c)

        # the all-zero key as the very FIRST use of the algorithms in the process (Go's zero value looks like "nothing loaded
        # yet" to a cache), then again later in the stream
        for alg in self.algs_main:
            add(alg, draw_msg(rng, 11), "zero-key-first", draw_params(rng, 1), dirty=False)
        # every length 1..130 (all residues mod 4, 8, 16, 64) for both real algorithms
        reps = 1 if quick else 4
        for rep in range(reps):
            for n in self.lengths(tier):
                for alg in self.algs_main:
                    add(alg, draw_msg(rng, n), "len<=130", draw_params(rng, (n + alg + rep) % 12))
        # the null algorithm and the refused identifiers
        for n in [1, 2, 3, 4, 5, 8, 15, 16, 17, 64]:
            add(0, draw_msg(rng, n), "alg0")
        for alg in [3, 4, 5, 7, 8, 128, 255]:
            add(alg, draw_msg(rng, rng.range(1, 40)), "alg-refused")
        # parameters out of range, nil and empty messages
        for alg in (0, 1, 2):
            add(alg, draw_msg(rng, 9), "bad-bearer", dict(draw_params(rng, 9), bearer=rng.choice([32, 33, 64, 255])))
            add(alg, draw_msg(rng, 9), "bad-direction", dict(draw_params(rng, 9), dir=rng.choice([2, 3, 255])))
            add(alg, None, "nil-message")
            add(alg, b"", "empty-message")
        # the same input clean and after somebody else's SNOW 3G use
        for alg in self.algs_main:
            for n in [4, 7, 8, 16, 32, 33]:
                p, m = draw_params(rng, 9), draw_msg(rng, n)
                add(alg, m, "state-pair", p, dirty=False)
                add(alg, m, "state-pair", p, dirty=True)
        # longer messages around block boundaries and random sizes
        # 4096 octets = 256 AES blocks = 1024 keystream words: the first length at which a block / word counter needs
        # its second octet; a NAS message may be longer (up to 2^16 octets)
        big = [131, 255, 256, 257, 512, 1024, 4097, 4113, 8193] if quick else \
              [131, 255, 256, 257, 511, 512, 513, 1023, 1024, 1025, 2047, 2048, 2049, 4093, 4094, 4095, 4096, 4097, 4111, 4112, 4113, 8191, 8192, 8193, 9001, 16384, 16385, 20000]     # (a 65535-element list literal overflows coqc's parser stack)
        nrand = 3 if quick else 120
        for n in big + [rng.range(132, 700 if quick else 4096) for _ in range(nrand)]:
            for alg in self.algs_main:
                add(alg, draw_msg(rng, n), "long")
        if not quick:
            for _ in range(1500):
                add(rng.choice(self.algs_main), draw_msg(rng, rng.range(1, 200)), "random-short")
        return cases

    def go_case(self, c):
        return {k: v for k, v in c.items() if k != "kind"}

    def classify(self, c, o):
        return "%s/alg%d%s" % (c["kind"], c["alg"], "/dirty" if c.get("dirty") else "")

    def coq_case(self, c, o):
        msg = "None" if c.get("nil") else "(Some %s)" % C.cN(bytes.fromhex(c["msg"]))
        return "((%s, %d, %s, (%d, %d, %d), %s, %s) : sec_case)" % (C.cbool(bool(c.get("dirty"))), c["alg"], C.cN(bytes.fromhex(c["key"])),
                                                                   c["count"], c["bearer"], c["dir"], msg, sres(o, self.field))

    def direct_check(self, c, o):
        if "harness_error" in o:
            return "harness: " + o["harness_error"]
        if "panic" in o and c["msg"] != "":
            return "the implementation panics on a non-empty message: " + o["panic"]
        return None


class Nea(_SecStream):
    name = "nea"
    sub = "nea"
    model_check = "nea_check"
    model_out = "nea_expected"
    # observed == what TS 33.501 Annex D / TS 33.401 Annex B / TS 35.215 prescribe, wherever they prescribe something
    spec_check = ("(fun c : sec_case => let '(dirty, alg, key, (count, bearer, dir), msg, obs) := c in "
                  "match msg with Some (b :: m) => match nea_spec aes128 alg key count bearer dir (b :: m) with "
                  "Some e => sres_agree (SOk e) obs | None => true end | _ => true end)")


class Nia(_SecStream):
    name = "nia"
    sub = "nia"
    retained_field = "mac"
    field = "mac"
    model_check = "nia_check"
    model_out = "nia_expected"
    spec_check = ("(fun c : sec_case => let '(dirty, alg, key, (count, bearer, dir), msg, obs) := c in "
                  "match msg with Some (b :: m) => match nia_spec aes128 alg key count bearer dir (b :: m) with "
                  "Some e => sres_agree (SOk e) obs | None => true end | _ => true end)")


class Raw(Stream):
    """the exported NEA1 / NIA1 with an explicit bit length that need not be 8*len(msg): ties the model's
    l, r, mask, loop bounds and slice panics to the code (no specification claim is attached)"""
    requires = ["Bytes", "AES", "Snow3g", "Security"]
    shard = 24
    field = "out"

    def generate(self, rng, tier):
        cases = []
        n = 40 if tier == "quick" else 600
        for i in range(n):
            ln = rng.range(0, 40)
            bits = rng.choice([8 * ln, 8 * ln, max(0, 8 * ln - rng.range(0, 40)), 8 * ln + rng.range(1, 70), rng.range(0, 8 * ln + 8)])
            p = draw_params(rng, 9)
            if self.sub == "nea1raw" and rng.chance(1, 6):
                p["bearer"] = rng.below(1 << 32)
                p["dir"] = rng.below(1 << 32)
            c = dict(p, msg=draw_msg(rng, ln).hex(), length=bits)
            if rng.chance(1, 3):
                c["dirty"] = True
            cases.append(c)
        return cases

    def classify(self, c, o):
        ln = len(c["msg"]) // 2
        rel = "eq" if c["length"] == 8 * ln else ("short" if c["length"] < 8 * ln else "long")
        return "bits-%s/%s" % (rel, "panic" if "panic" in o else "ok")

    def coq_case(self, c, o):
        return "((%s, %s, (%d, %d, %d), %s, %d, %s) : raw_case)" % (C.cbool(bool(c.get("dirty"))), C.cN(bytes.fromhex(c["key"])), c["count"], c["bearer"],
                                                                   c["dir"], C.cN(bytes.fromhex(c["msg"])), c["length"], sres(o, self.field))


class Nea1Raw(Raw):
    name = "nea1raw"
    sub = "nea1raw"
    requires = Raw.requires + ["Snow3gSpec"]
    model_check = "nea1raw_check"
    model_out = "nea1raw_expected"
    # the specification speaks when the bit length is the octet length of the message
    spec_check = ("(fun c : raw_case => let '(dirty, key, (count, bearer, dir), msg, len, obs) := c in "
                  "if (len =? 8 * N.of_nat (length msg)) && (bearer <? 32) && (dir <? 2) "
                  "then sres_agree (SOk (eea1 key count bearer dir msg)) obs else true)")


class Nia1Raw(Raw):
    name = "nia1raw"
    sub = "nia1raw"
    field = "mac"
    requires = Raw.requires + ["Snow3gSpec"]
    model_check = "nia1raw_check"
    model_out = "nia1raw_expected"
    spec_check = ("(fun c : raw_case => let '(dirty, key, (count, bearer, dir), msg, len, obs) := c in "
                  "match msg with [] => true | _ => if (len =? 8 * N.of_nat (length msg)) && (bearer <? 32) && (dir <? 2) "
                  "then sres_agree (SOk (eia1 key count bearer dir msg)) obs else true end)")


class Concurrent(Stream):
    """NASEncrypt / NASMacCalculate called for 8 UEs at once give what they give one call at a time (the algorithms are
    functions of their arguments: c07_state_independent)"""
    name = "concurrent"
    sub = "conc"
    model_check = None
    spec_check = None
    requires = []

    def generate(self, rng, tier):
        n = 600 if tier == "quick" else 8000
        return [{"family": "nas_cipher", "goroutines": 8, "iters": n}, {"family": "nas_mac", "goroutines": 8, "iters": n},
                {"family": "nas_cipher_aes", "goroutines": 16, "iters": 10 * n}, {"family": "nas_mac_aes", "goroutines": 16, "iters": 10 * n},
                # ciphering by some parties WHILE others compute MACs (NEA1 alongside NIA1, NEA2 alongside NIA2)
                {"family": "nas_protect", "goroutines": 8, "iters": n // 2}]

    def classify(self, c, o):
        return c["family"] + (":same" if o.get("different") == 0 else ":different")

    def key(self, c, o):
        return "conc-" + c["family"]

    def coq_case(self, c, o):
        return ""

    def direct_check(self, c, o):
        if o.get("different", 1) != 0 or "harness_error" in o or "panic" in o:
            return "concurrent use for different UEs changes the results: %s" % (o.get("first") or o)
        return None


class KeySweep(Stream):
    """300 000 different keys used one after the other in one process under 128-NEA2 and 128-NIA2: every result must be what
    AES-CTR / AES-CMAC (Go standard library, computed from that call's own key and parameters) gives — whatever keys were
    used before (a cache of key schedules indexed by anything shorter than the key would show here)"""
    name = "key-sweep"
    sub = "manykeys"
    harness_timeout = 1800
    model_check = None
    spec_check = None
    requires = []
    history_dependent = False

    def generate(self, rng, tier):
        # when a proof obligation broke (e.g. the AES functions started to keep state) the sweep is a hundred times longer
        return [{"n": 30000000 if getattr(self, "search", False) else 300000 if tier == "quick" else 3000000, "seed": rng.below(1 << 30)}]

    def classify(self, c, o):
        return "all-equal" if o.get("first_bad") == -1 else "differs"

    def key(self, c, o):
        return "key-sweep"

    def coq_case(self, c, o):
        return ""

    def direct_check(self, c, o):
        if o.get("first_bad", 0) != -1:
            return "after %s other keys were used in this process, %s under key %s (COUNT %s, BEARER %s, DIRECTION %s, message %s) gives %s; AES with that key gives %s" % (
                o.get("first_bad"), o.get("what"), o.get("key"), o.get("count"), o.get("bearer"), o.get("dir"), o.get("msg"), o.get("got"), o.get("want"))
        return None


class C07(Check):
    pid = "C07"
    prop_files = ["Properties/C07.v"]
    streams = [Nea(), Nia(), Nea1Raw(), Nia1Raw(), Concurrent(), KeySweep()]
    trusted = ["Coq 8.16.1 kernel incl. vm_compute (no native_compute)", "no axioms (Print Assumptions: closed under the global context)",
               "hand-written models Model/Snow3g.v, Model/Security.v tied to the Go code by the correspondence streams nea, nia, nea1raw, nia1raw "
               "(clean and dirtied package state); S-box tables taken from the source by the translator gen-snow3g",
               "Spec/Snow3gSpec.v, Spec/TS33401B.v transcribed from TS 35.215/35.216 and TS 33.401 Annex B "
               "(test data: SNOW 3G set 1, UEA2 set 1, 128-EEA2 set 1, 128-EIA2 set 2); UIA2 has no published vector in the development",
               "Go crypto/aes, cipher.NewCTR, github.com/aead/cmac are modelled by Crypto/AES.v, Crypto/Modes.v (FIPS-197, SP 800-38A, RFC 4493 vectors); "
               "theorems hold for any block cipher; Go harness cmd_nea.go"]
    assumptions = ["keys are 16 octets (Go type [16]byte), COUNT < 2^32, BEARER < 32, DIRECTION < 2",
                   "messages are non-empty and shorter than 2^29 octets (uint32(len)*8 does not wrap); NAS messages are < 2^16 octets"]

    def regen(self, harness):
        from .C20 import C20
        ch = C20.regen(self, harness)           # Gen/Footprints.v (go/ssa): c07_aes_algorithms_keep_no_package_state
        return ch + (["Snow3gTables.v"] if gen.run_translator(harness, "gen-snow3g", "Snow3gTables.v") else [])
