"""C16 — distinct UE identities (stgutg.CreateUE, tglib.GetUESecurityCapability)."""
from .. import common as C
from ..prop import Check, Stream


class CreateUE(Stream):
    name = "createue"
    sub = "createue"
    requires = ["Dec", "CreateUE"]
    model_check = "c16_check"
    model_out = "(fun c : c16_case => let '(imsi, start, obs, _) := c in ues_from imsi start (Nat.min 3 (length obs)))"
    shard = 40

    def generate(self, rng, tier):
        cases = []
        big = 2 if tier == "quick" else 12
        n = 60 if tier == "quick" else 600

        def imsi(mnclen, msinlen, style):
            mcc = rng.choice(["208", "001", "000", "999", rng.digits(3)])
            mnc = rng.digits(mnclen) if not rng.chance(1, 4) else "0" * (mnclen - 1) + str(rng.below(10))
            if style == "zeros":
                msin = "0" * (msinlen - 1) + str(rng.below(10))
            elif style == "near_full":
                msin = "9" * max(0, msinlen - 4) + ("%04d" % rng.range(0, 9999))[-min(4, msinlen):]
            elif style == "carry":
                k = rng.range(1, msinlen)
                msin = rng.digits(msinlen - k) + "9" * k
            else:
                msin = rng.digits(msinlen)
            return mcc + mnc + msin

        for i in range(n):
            mnclen = rng.choice([2, 3])
            msinlen = rng.choice([9, 10]) if not rng.chance(1, 5) else rng.range(1, 10)
            style = rng.choice(["zeros", "near_full", "carry", "random", "random"])
            count = rng.choice([1, 2, 3, 10, 37])
            start = rng.choice([0, 0, 1, 7, 9990, 9999, rng.below(10000)])
            def key(j):
                # legal but unusual key material: all zero, all one, leading / trailing zeros
                special = ["00" * 16, "ff" * 16, "00" * 15 + "01", "80" + "00" * 15, "00" * 8 + rng.bytes(8).hex()]
                return special[(i + j) % len(special)] if i % 3 == j else rng.bytes(16).hex()
            cases.append({"imsi": imsi(mnclen, msinlen, style), "start": start, "count": count,
                          "k": key(0), "opc": key(1) if (i % 3 == 1 or rng.chance(1, 2)) else "", "op": key(2), "kind": style})
        # credential sets that differ only in WHICH of OPc / OP carries a value (the same K, the same 32 hex digits once as OPc
        # and once as OP): different subscriptions, created one after the other in the same process
        for j in range(3):
            k_, x = rng.bytes(16).hex(), rng.bytes(16).hex()
            im = imsi(2 + j % 2, 10, "random")
            for opc_, op_ in ((x, ""), ("", x), (x, x), ("", x)):
                cases.append({"imsi": im, "start": j, "count": 2, "k": k_, "opc": opc_, "op": op_, "kind": "opc-or-op"})
        # IMSIs shorter than 15 digits with populations larger than a fixed-position cut of the SUPI could tell apart
        for total, count in ((14, 1100), (13, 150), (12, 30), (11, 12), (10, 5)):
            mnclen = 2 + total % 2
            im = (rng.digits(3) + rng.digits(mnclen) + "0" * (total - 3 - mnclen))[:total]
            cases.append({"imsi": im, "start": 0, "count": count, "k": rng.bytes(16).hex(), "opc": rng.bytes(16).hex(), "op": "", "kind": "short-imsi-population"})
        # the population whose last member is the last IMSI of its length (99...9): still a legal SUPI, distinct from UE 0's
        for im, start in (("999999999990000", 9997), ("99999999990000", 9997), ("999999999999990", 7)):
            cases.append({"imsi": im, "start": start, "count": 3, "k": rng.bytes(16).hex(), "opc": rng.bytes(16).hex(), "op": "", "kind": "last-imsi"})
            cases.append({"imsi": im, "start": 0, "count": 3, "k": rng.bytes(16).hex(), "opc": rng.bytes(16).hex(), "op": "", "kind": "last-imsi"})
        for i in range(big):
            # whole population through the implementation: pairwise distinctness is checked on the Go output
            # directly; the model is compared on 40 windows of 3 indices spread over the population
            im = imsi(rng.choice([2, 3]), 10, rng.choice(["zeros", "random", "carry"]))
            cred = {"k": rng.bytes(16).hex(), "opc": "", "op": rng.bytes(16).hex()}
            cases.append(dict(cred, imsi=im, start=0, count=10000, kind="population-10000"))
            for w in [0, 1, 9997] + [rng.below(9998) for _ in range(37)]:
                cases.append(dict(cred, imsi=im, start=w, count=3, kind="population-window"))
        # malformed stream: non-digit / empty IMSI (Atoi error is ignored by CreateUE)
        for s in ["", "2089300000x0003", "abc", "20893 00000003", "٣"]:
            try:
                s.encode("latin1")
            except UnicodeEncodeError:
                continue
            cases.append({"imsi": s, "start": rng.below(50), "count": 2, "k": "00", "opc": "", "op": "", "kind": "malformed"})
        return cases

    def go_case(self, c):
        return {k: v for k, v in c.items() if k != "kind"}

    def classify(self, c, o):
        return c["kind"]

    def key(self, c, o):
        if c["kind"] == "malformed":
            return None
        return c["imsi"] + ":%d:%d" % (c["start"], c["count"])

    def coq_case(self, c, o):
        if "panic" in o:
            return "(%s, %d, [([0],0)], (9,9,[]))" % (C.cstr(c["imsi"]), c["start"])
        if c["kind"] == "population-10000":
            return "([], 0, [], (0,0,[]))"
        pairs = "[" + ";".join("(%s,%d)" % (C.cstr(s), r) for s, r in zip(o["supis"], o["ranids"])) + "]"
        return "(%s, %d, %s, (%d,%d,%s))" % (C.cstr(c["imsi"]), c["start"], pairs, o.get("ea", 0), o.get("ia", 0), C.cN(bytes.fromhex(o.get("cap", ""))))

    def direct_check(self, c, o):
        # the first UE of the population created just before this one, read again now (the harness keeps it): a UE context
        # must not change because other UEs are created
        pn, was = o.get("prev_now"), getattr(self, "_prev", None)
        if "panic" not in o and o.get("supis"):
            self._prev = {"supi": o["supis"][0], "ran": o["ranids"][0], "k": o.get("k"), "opc": o.get("opc"), "op": o.get("op"), "ea": o.get("ea"), "ia": o.get("ia")}
        if pn is not None and was is not None and pn != was:
            return "a UE context changed when later UEs were created: was %r, now %r" % (was, pn)
        if "panic" in o:
            return "CreateUE panicked: " + o["panic"]
        if c["kind"] == "malformed":
            return None
        if o.get("k") != c["k"] or o.get("opc") != c["opc"] or o.get("op") != c["op"]:
            return "configured K/OPc/OP not carried by the UE context"
        s, r = o["supis"], o["ranids"]
        if len(set(s)) != len(s):
            return "two UEs share a SUPI"
        if len(set(r)) != len(r) and c["count"] <= 10000:
            return "two UEs share a RAN-UE-NGAP-ID"
        return None


class SecCap(Stream):
    name = "seccap"
    sub = "seccap"
    requires = ["CreateUE", "UeIdentity"]
    model_check = "seccap_check"
    spec_check = "(fun c : N * N * list N => let '(ea, ia, cap) := c in if (ea <? 4) && (ia <? 4) then advertises_exactly cap ea ia else true)"

    def generate(self, rng, tier):
        cs = [{"ea": e, "ia": i} for e in range(6) for i in range(6)]
        cs += [{"ea": rng.below(256), "ia": rng.below(256)} for _ in range(20)]
        return cs

    def coq_case(self, c, o):
        return "(%d, %d, %s)" % (c["ea"], c["ia"], C.cN(bytes.fromhex(o.get("cap", ""))))

    def classify(self, c, o):
        return "supported" if c["ea"] < 4 and c["ia"] < 4 else "other-id"

    def direct_check(self, c, o):
        if "later_sent" in o:
            return "the UE advertises only NEA%d/NIA%d, which the library does not implement, and yet sends a 'protected' message: %s" % (c["ea"], c["ia"], o["later_sent"][:80])
        # advertise, then authenticate, then use: the algorithms that protect the UE's messages after authentication are the
        # ones advertised before it (the harness recovers them from a protected message)
        if c["ea"] < 3 and c["ia"] < 3:
            if "later_panic" in o or "later_err" in o:
                return "after advertising NEA%d/NIA%d the UE cannot authenticate and protect a message: %s" % (c["ea"], c["ia"], o.get("later_panic") or o.get("later_err"))
            if (o.get("ea_after"), o.get("ia_after")) != (c["ea"], c["ia"]) or o.get("cap_after") != o.get("cap"):
                return "after authenticating the UE context holds NEA%s/NIA%s (capability %s); it advertised NEA%d/NIA%d (capability %s)" % (
                    o.get("ea_after"), o.get("ia_after"), o.get("cap_after"), c["ea"], c["ia"], o.get("cap"))
            if "ea_used" in o and (o.get("ea_used"), o.get("ia_used")) != (c["ea"], c["ia"]):
                return "the UE advertised NEA%d/NIA%d and protects its messages with NEA%s/NIA%s" % (c["ea"], c["ia"], o.get("ea_used"), o.get("ia_used"))
        return None


class C16(Check):
    pid = "C16"
    prop_files = ["Properties/C16.v"]
    streams = [CreateUE(), SecCap()]
    trusted = ["Coq 8.16.1 kernel incl. vm_compute (no native_compute)", "no axioms (Print Assumptions: closed under the global context)",
               "hand-written model Model/CreateUE.v of CreateUE/NewRanUeContext/GetUESecurityCapability tied by the correspondence streams createue and seccap",
               "Go harness cmd_createue.go; strconv.Atoi and fmt %0*d modelled for unsigned digit strings of <= 18 characters"]
    assumptions = ["IMSI strings of at most 18 digits (no int64 overflow in Atoi/addition)",
                   "distinctness of SUPIs is proved for all indices; staying inside the PLMN needs MSIN + index < 10^|MSIN| (the property's own capacity bound)"]

    # ---- process level: the population the real main() creates from a configuration FILE (GetConfiguration -> CreateUE ->
    # RegisterUE): every UE registers under initial IMSI + index, inside the configured PLMN (the reference AMF knows exactly
    # these subscribers and checks the SUCI of every registration)
    def extra(self, harness, build_ok):
        import os, sys
        from .. import proc
        sys.path.insert(0, os.path.join(C.VERIF, "refamf"))
        binary, err = C.build_emulator()
        if binary is None:
            raise RuntimeError("emulator build failed: " + err[-1500:])
        cfgs = []
        plmns = [("310", "410"), ("208", "93"), ("001", "001")] + ([("999", "99"), ("722", "070"), ("234", "15")] if self.tier != "quick" else [])
        for i, (mcc, mnc) in enumerate(plmns):
            r = self.rng.fork("pop%d" % i)
            c = proc.default_cfg(r, counts=[3, 0, 0, 0, 0])
            msin = c["imsi"][len(c["mcc"]) + len(c["mnc"]):][:15 - len(mcc) - len(mnc)]
            c.update(mcc=mcc, mnc=mnc, imsi=mcc + mnc + msin)
            cfgs.append(c)
        proc.registration_runs(self, binary, cfgs, "the population created from the configuration file")
        # an OP-only configuration whose file has NO opc line at all (deleted / commented out): the UEs carry the configured OP
        # and no OPc of anybody else's; the network holds OPc = E_K(OP) xor OP
        import crypto5g
        r = self.rng.fork("oponly")
        c = proc.default_cfg(r, counts=[2, 0, 0, 0, 0])
        op = r.bytes(16)
        k = bytes.fromhex(c["k"])
        c["op"], c["opc"] = op.hex(), bytes(a ^ b for a, b in zip(crypto5g.aes(k, op), op)).hex()
        y = "\n".join(l for l in proc.yaml_of(c).splitlines() if not l.strip().startswith("opc:")) + "\n"
        rr = proc.run(binary, c, self.seed & 0xffff, strict=True, yaml_text=y)
        with self._lock:
            self.cov["evaluations"] += 1
            self._distinct.add("op-only-no-opc-line")
        if not (rr["rc"] == 0 and rr["verdict"].startswith("ok") and not rr["findings"]):
            self.violation({"theorem_or_stream": "process: registration of an OP-only configuration without an opc line", "input": {"config_yaml": y},
                            "observed": {"verdict": rr["verdict"], "rc": rr["rc"], "stdout": rr["stdout"][-500:]},
                            "why": "the UEs created from a configuration file that sets op and has no opc key do not authenticate as the subscribers K/OP describe"})
