"""Shared by C06 / C10: history cases for the harness command `nashist` and their rendering for
Model/NasSecInst.v (hist_case)."""
import ast, os, re
from .. import common as C

# plain 5GMM messages of the emulator's constructors (harness command nasmsgs returns the same list; the
# constant is only the fall-back when the harness binary is not there yet)
FALLBACK_MSGS = ["7e0043", "7e005e770009151100000000000000",
                 "7e00670100142e0501c1ffff917b000a80000a00000d00000300120581220401010203250908696e7465726e6574",
                 "7e004541000c0102f839f0ff000000000010", "7e00670100042e0500d11205", "7e004c11000700fe000000000140020004",
                 "7e0055", "7e00572d100102030405060708090a0b0c0d0e0f10", "7e00646f",
                 "7e005e7700091511000000000000007100037e0043"]
_msgs = None


def plain_msgs():
    """canonical plain messages (PlainNasEncode . PlainNasDecode = id), shortest first"""
    global _msgs
    if _msgs is None:
        try:
            r = C.harness_call(os.path.join(C.BIN, "harness"), "nasmsgs", [{}])[0]
            # constructor-built messages must round-trip through the codec to be usable; the messages written octet by octet
            # from the TS 24.501 tables are canonical by construction and stay in the pool whatever the codec makes of them
            literal = ("DeregistrationAcceptUEOriginating", "ConfigurationUpdateCommandBare")
            _msgs = sorted((bytes.fromhex(m["hex"]) for m in r["msgs"] if m.get("rt") or m.get("name") in literal), key=len)
        except Exception:
            _msgs = []
        if len(_msgs) < 4:
            _msgs = sorted((bytes.fromhex(h) for h in FALLBACK_MSGS), key=len)
    return _msgs


def long_msg(rng, n, uplink):
    """UL / DL NAS TRANSPORT carrying an n-octet payload container (type 1, N1 SM information): a NAS message may be up
    to 2^16 octets; 4096 octets is where a per-message block / word counter needs its second octet"""
    return bytes([0x7e, 0x00, 0x67 if uplink else 0x68, 0x01]) + n.to_bytes(2, "big") + rng.bytes(n)


def pick_msg(rng, short, gsm=False):
    """gsm=True (uplink sender only): also plain 5GSM messages handed directly to the protection functions; on the downlink
    a bare 5GSM message is not a NAS message a conformant AMF sends (5GSM travels inside DL NAS TRANSPORT)"""
    ms = [m for m in plain_msgs() if gsm or m[0] == 0x7e]
    if short:
        ms = [m for m in ms if len(m) <= 24]
    return rng.choice(ms)


def res_coq(o, field="out"):
    if "panic" in o:
        return "Panic"
    if "err" in o:
        return "Err"
    return "(Ok %s)" % C.cN(bytes.fromhex(o.get(field, "")))


def op_coq(op, step):
    k = op["op"]
    if k == "send":
        plain = "(Some %s)" % C.cN(bytes.fromhex(step["plain"])) if "plain" in step else "None"
        return "HSend %s %d %s %s" % (plain, op["hdr"], C.cbool(op["avail"]), C.cbool(op["newctx"]))
    if k == "setul":
        return "HSetUL %d %d" % (op["ovf"], op["sqn"])
    if k == "setdl":
        return "HSetDL %d %d" % (op["ovf"], op["sqn"])
    return "HRecv %s" % C.cN(bytes.fromhex(op["pkt"]))


def hist_coq(c, o):
    """render (ea, ia, kenc, kint, [(op, canon, obs)]) : hist_case"""
    steps = o.get("steps") or []
    items = []
    for op, st in zip(c["ops"], steps):
        canon = op.get("canon", True)
        items.append("(%s, %s, (%s, %d, %d))" % (op_coq(op, st), C.cbool(canon), res_coq(st), st.get("ul", 0), st.get("dl", 0)))
    return "((%d, %d, %s, %s, [%s]) : hist_case)" % (c["ea"], c["ia"], C.cN(bytes.fromhex(c["kenc"])), C.cN(bytes.fromhex(c["kint"])),
                                                      ";\n  ".join(items))


def go_ops(c):
    return {"ea": c["ea"], "ia": c["ia"], "kenc": c["kenc"], "kint": c["kint"], "ops": c["ops"]}


def harness_ok(c, o):
    if "harness_error" in o or ("panic" in o and "steps" not in o):
        return "harness: " + str(o.get("harness_error") or o.get("panic"))
    if len(o.get("steps") or []) != len(c["ops"]):
        return "harness returned %d steps for %d ops" % (len(o.get("steps") or []), len(c["ops"]))
    return None


def parse_coq_value(out):
    """value printed by `Eval vm_compute in ...` built from lists, pairs, numbers, Some/None -> python"""
    flat = " ".join(out.split())
    m = re.search(r"= (.*) : ", flat)
    if not m:
        raise RuntimeError("cannot parse coqc output: " + out[-1500:])
    txt = m.group(1).replace("Some", "").replace(";", ",").replace("%N", "")
    return ast.literal_eval(txt)


# boundary starts (overflow, sqn) just in front of the octet wrap, the 16-bit carry and the 2^24 wrap
def boundary_start(kind, back):
    v = {"octet": 256, "carry": 65536, "wrap24": 1 << 24, "mid": 0x123456 + 256}[kind] - back
    return (v >> 8) & 0xffff, v & 0xff


PAIRS = [(ia, ea) for ia in (1, 2) for ea in (0, 1, 2)]


# ----------------------------------------------------------------------------- shrinking of failing histories
def still_bad(chk, st, c):
    """run one history again through harness + model/spec; (fails?, observation)"""
    o = C.harness_call(os.path.join(C.BIN, "harness"), st.sub, [st.go_case(c)])[0]
    if st.direct_check(c, o):
        return True, o
    bm, bs = chk.eval_cases(st, [c], [o])
    return (bool(bs) if st.spec_check else bool(bm)), o


def cut_ops(c, keep):
    """the history restricted to the op indices in keep (C10 reference histories carry their sender parameters in
    c["spec"]["items"], item i belonging to op i+1: only prefixes keep them meaningful)"""
    d = dict(c, ops=[c["ops"][i] for i in keep])
    if "spec" in c:
        n = len(keep) - 1
        d["spec"] = dict(c["spec"], items=c["spec"]["items"][:n])
    return d


def shrink_history(chk, st, c, o, budget=120):
    """shortest failing prefix (binary search: the checks are cumulative), then, for histories whose ops do not
    depend on each other's outputs, single-op removal; bounded by wall time"""
    import time
    t0 = time.time()
    n = len(c["ops"])
    lo, hi = 1, n            # invariant: prefix of length hi fails
    best, best_o = c, o
    try:
        while lo < hi and time.time() - t0 < budget:
            mid = (lo + hi) // 2
            cand = cut_ops(c, list(range(mid)))
            bad, oo = still_bad(chk, st, cand)
            if bad:
                hi, best, best_o = mid, cand, oo
            else:
                lo = mid + 1
        if "spec" not in c:
            i = 0
            while i < len(best["ops"]) - 1 and time.time() - t0 < budget:
                keep = [j for j in range(len(best["ops"])) if j != i]
                cand = cut_ops(best, keep)
                bad, oo = still_bad(chk, st, cand)
                if bad:
                    best, best_o = cand, oo
                else:
                    i += 1
    except Exception as e:           # shrinking is best effort: report the unshrunk case rather than nothing
        C.log("shrink failed: %s" % str(e)[-500:])
    best = dict(best, shrunk_from=n)
    return best, best_o


class ShrinkMixin:
    """Check mix-in: the first failing history of every stream is shrunk before it becomes a replay file"""
    def report_case(self, st, c, o, why, expected, gc=None, prev=None):
        done = self.__dict__.setdefault("_shrunk", set())
        if isinstance(c, dict) and "ops" in c and st.name not in done and len(c["ops"]) > 1:
            done.add(st.name)            # the first failing history of every stream
            c, o = shrink_history(self, st, c, o)
            expected = self.expected(st, c, o)
            gc = None                    # the shrunk history is what is recorded
        # a history carries its whole context (keys, counters, every message): the preceding cases are not part of it
        super().report_case(st, c, o, why, expected, gc=gc, prev=None)
