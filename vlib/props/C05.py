"""C05 — 5G-AKA: RES* and the NAS key hierarchy equal what the network derives
(tglib DeriveRESstarAndSetKey / DerivateKamf / DerivateAlgKey, UeauCommon KDF, SN name of RegisterUE,
external github.com/wmnsk/milenage).

Streams:
  derive     the real DeriveRESstarAndSetKey on a context built like CreateUE's, SN name built like RegisterUE's:
             shipped config.yaml values, all 4x4 algorithm ids, MNC of 2 and 3 digits (leading zeros), SUPI of 5..15
             digits (leading zeros), OPc-configured and OP-only (with the matching OPc case next to it), upper/lower
             case hex, boundary K/RAND/AUTN
  derive-out outside the property's domain, model only: SUPI with < 5 digits (panic), > 15 digits, "supi-" prefix,
             embedded match, algorithm ids >= 4, 1- and 4-digit MNC is NOT sent (fatal exit)
  wmnsk      the external Milenage library alone: F1, F1*, F2345, F5*, OPc, RES* against model and TS 35.206 / TS 33.501
Only valid hex and lengths are sent: the code calls fatal.Fatalf (os.Exit) otherwise."""
from .. import common as C
from ..prop import Check, Stream
from .C15 import aes, xor, SET1

CONF = dict(k="465B5CE8B199B49FAA5F0A2EE238A6BC", opc="E8ED289DEBA952E4283B54E88E6183CA", op="E8ED289DEBA952E4283B54E88E6183CA",
            mcc="001", mnc="01", supi="imsi-001010000000001", ea=0, ia=2)


def hb(h):
    return C.cN(bytes.fromhex(h))


class Derive(Stream):
    name = "derive"
    sub = "derive"
    requires = ["Bytes", "AES", "SHA256", "RanUe", "TS33501", "RanUeCases"]
    model_check = "c05_model_check"
    spec_check = "c05_spec_check"
    model_out = "c05_expected"
    shard = 7

    _n = 0

    def go_case(self, c):
        # every other derivation goes through the emulator's own stgutg.CreateUE (when the SUPI is imsi-<digits>)
        d = {k: v for k, v in c.items() if k != "kind"}
        Derive._n += 1
        import re
        if Derive._n % 2 == 1 and re.fullmatch(r"imsi-[0-9]{5,15}", str(c.get("supi", ""))):
            d["via"] = "createue"
        elif Derive._n % 4 == 2:
            d["via"] = "literal"          # a UE context built as a struct literal, not by NewRanUeContext
        return d

    def classify(self, c, o):
        return c["kind"]

    def direct_check(self, c, o):
        # the previous subscriber authenticated again with the same challenge, after this one's context was created
        # (the harness keeps the previous UE context): same inputs, same results
        again, was = o.get("prev_again"), getattr(self, "_prev", None)
        self._prev = {k: o.get(k) for k in ("res_star", "kamf", "knasint", "knasenc")} if "panic" not in o and "res_star" in o else None
        if o.get("same_context_mismatch"):
            return "a further challenge on the same UE context is not answered as a fresh context answers it: " + "; ".join(o["same_context_mismatch"])[:1500]
        if again is not None and was is not None and again != was:
            return "re-authenticating the previous subscriber after another UE context was created gives different results: was %r, now %r" % (was, again)
        return None

    def coq_case(self, c, o):
        pan = "panic" in o
        g = lambda k: hb(o.get(k, "")) if not pan else "[]"
        return "(Build_c05_case %s %s %s %s %s %s %s %s %d %d %d %s %s %s %s)" % (
            C.cstr(c["k"]), C.cstr(c["opc"]), C.cstr(c["op"]), hb(c["rand"]), hb(c["autn"]), C.cstr(c["mcc"]), C.cstr(c["mnc"]),
            C.cstr(c["supi"]), c["ea"], c["ia"], 2 if pan else 0, g("res_star"), g("kamf"), g("knasint"), g("knasenc"))

    def case(self, rng, kind, **kw):
        mnclen = rng.choice([2, 3])
        nd = rng.range(5, 15)
        c = dict(k=rng.bytes(16).hex(), opc=rng.bytes(16).hex(), op=rng.bytes(16).hex(), rand=rng.bytes(16).hex(), autn=rng.bytes(16).hex(),
                 mcc=rng.digits(3), mnc=rng.digits(mnclen), supi="imsi-" + rng.digits(nd), ea=rng.below(4), ia=rng.below(4), kind=kind)
        c.update(kw)
        return c

    def generate(self, rng, tier):
        cs = []
        big = tier != "quick"
        rnd16 = lambda: rng.bytes(16).hex()
        # shipped configuration, with a network-chosen RAND/AUTN
        cs.append(dict(CONF, rand=SET1["rand"], autn="55f328b43577b9b94a9ffac354dfafb3", kind="config.yaml"))
        cs.append(dict(CONF, opc="", rand=SET1["rand"], autn="55f328b43577b9b94a9ffac354dfafb3", kind="config.yaml OP-only"))
        # all 4x4 algorithm identifiers on one key set (quick) / fresh key sets (thorough)
        base = self.case(rng, "alg-ids")
        for ea in range(4):
            for ia in range(4):
                cs.append(dict(base if not big else self.case(rng, "alg-ids"), ea=ea, ia=ia))
        # MNC of 2 and 3 digits, with leading zeros
        for mnc in ["00", "01", "93", "99", "000", "001", "093", "930", "999"] + ([rng.digits(2), rng.digits(3)] if big else []):
            cs.append(self.case(rng, "mnc-%d-digits" % len(mnc), mnc=mnc, mcc=rng.choice(["001", "208", "000", "999", rng.digits(3)])))
        # SUPI of 5..15 digits, leading zeros
        for nd in range(5, 16):
            cs.append(self.case(rng, "supi-%d-digits" % nd, supi="imsi-" + rng.digits(nd)))
            cs.append(self.case(rng, "supi-%d-digits" % nd, supi="imsi-" + "0" * (nd - 1) + str(rng.below(10))))
        # OP-only next to the same subscriber configured with OPc = E_K(OP) xor OP
        for i in range(4 if not big else 30):
            c = self.case(rng, "op-only", opc="")
            k, op = bytes.fromhex(c["k"]), bytes.fromhex(c["op"])
            cs.append(c)
            cs.append(dict(c, opc=xor(aes(k, op), op).hex(), op=rng.choice(["", c["op"], rnd16()]), kind="opc-of-that-op"))
        # hex text in upper / mixed case as in config.yaml
        for i in range(2):
            c = self.case(rng, "hex-upper-case")
            cs.append(dict(c, k=c["k"].upper(), opc=c["opc"].upper()))
            c = self.case(rng, "hex-mixed-case", opc="")
            cs.append(dict(c, k="".join(ch.upper() if rng.chance(1, 2) else ch for ch in c["k"]), op=c["op"].upper()))
        # boundary octet strings
        for v in ("00", "ff"):
            cs.append(self.case(rng, "boundary", k=v * 16, opc=v * 16, rand=v * 16, autn=v * 16))
            cs.append(self.case(rng, "boundary", k=v * 16, opc="", op=v * 16, rand=v * 16, autn=v * 16))
        for i in range(6 if not big else 300):
            cs.append(self.case(rng, "random", opc=rng.choice(["", rnd16()])))
        # subscribers that share ONE component (the operator's OP, a K, a RAND, an OPc) and differ in the others, within one
        # process: a result may depend on nothing but its own arguments
        for shared in ("op", "k", "rand", "opc"):
            first = self.case(rng, "shared-" + shared, opc="" if shared in ("op", "k", "rand") else rnd16())
            cs.append(first)
            for j in range(3 if not big else 12):
                c = self.case(rng, "shared-" + shared, opc="" if shared != "opc" else first["opc"])
                c[shared] = first[shared]
                cs.append(c)
            cs.append(dict(first))      # and the first one again
        return cs


class DeriveOut(Derive):
    name = "derive-out"
    spec_check = None
    model_out = "c05_model_expected"

    def generate(self, rng, tier):
        cs = []
        for supi, kind in [("imsi-1234", "supi<5 digits (panic)"), ("imsi-", "supi<5 digits (panic)"), ("", "supi<5 digits (panic)"),
                           ("2089300000001", "no imsi- prefix (panic)"), ("imsi-12a45678", "supi<5 digits (panic)"),
                           ("imsi-" + rng.digits(16), "supi>15 digits"), ("imsi-" + rng.digits(20), "supi>15 digits"),
                           ("supi-" + rng.digits(12), "supi- prefix"), ("nai:imsi-12imsi-" + rng.digits(9) + "@x", "embedded match"),
                           ("imsi-" + rng.digits(7) + "-" + rng.digits(4), "digits then other text")]:
            cs.append(self.case(rng, kind, supi=supi))
        for ea, ia in [(4, 0), (0, 4), (7, 7), (255, 255), (128, 1)]:
            cs.append(self.case(rng, "alg-id>=4", ea=ea, ia=ia))
        return cs


class Wmnsk(Stream):
    name = "wmnsk"
    sub = "wmnsk"
    requires = ["Bytes", "AES", "SHA256", "WmnskMilenage", "TS33501", "RanUeCases"]
    model_check = "wm_model_check"
    spec_check = "wm_spec_check"
    shard = 4

    def go_case(self, c):
        return {k: v for k, v in c.items() if k != "kind"}

    def classify(self, c, o):
        return c["kind"]

    def coq_case(self, c, o):
        if "panic" in o:
            errs = 99
        else:
            errs = sum(1 for k in ("f1_err", "f1s_err", "f2345_err", "f5s_err", "resstar_err") if o.get(k))
        g = lambda k: hb(o.get(k, "") or "")
        return "(Build_wm_case %s %s %s %s %s %s %s %s %d %s %s %s %s %s %s %s %s %s)" % (
            hb(c["k"]), hb(c["op"]), hb(c["opc"]), hb(c["rand"]), hb(c["sqn"]), hb(c["amf"]), C.cstr(c["mcc"]), C.cstr(c["mnc"]), errs,
            g("mac_a"), g("mac_s"), g("res"), g("ck"), g("ik"), g("ak"), g("aks"), g("res_star"), g("opc_out"))

    def generate(self, rng, tier):
        cs = [dict(k=SET1["k"], op=SET1["op"], opc="", rand=SET1["rand"], sqn=SET1["sqn"], amf=SET1["amf"], mcc="001", mnc="01", kind="ts35208-set1 OP"),
              dict(k=SET1["k"], op="", opc=SET1["opc"], rand=SET1["rand"], sqn=SET1["sqn"], amf=SET1["amf"], mcc="208", mnc="093", kind="ts35208-set1 OPc")]
        for i in range(10 if tier == "quick" else 200):
            oponly = rng.chance(1, 2)
            cs.append(dict(k=rng.bytes(16).hex(), op=rng.bytes(16).hex() if oponly else "", opc="" if oponly else rng.bytes(16).hex(),
                           rand=rng.bytes(16).hex(), sqn=rng.bytes(6).hex(), amf=rng.bytes(2).hex(), mcc=rng.digits(3),
                           mnc=rng.digits(rng.choice([2, 3])), kind="random OP" if oponly else "random OPc"))
        return cs


class Concurrent(Stream):
    """key derivations for 8 UEs at once give what they give one at a time (every function of the chain is specified per call)"""
    name = "concurrent"
    sub = "conc"
    model_check = None
    spec_check = None
    requires = []

    def generate(self, rng, tier):
        return [{"family": "key_derive", "goroutines": 8, "iters": 400 if tier == "quick" else 8000}]

    def classify(self, c, o):
        return "same" if o.get("different") == 0 else "different"

    def key(self, c, o):
        return "key-derive-conc"

    def coq_case(self, c, o):
        return ""

    def direct_check(self, c, o):
        if o.get("different", 1) != 0 or "harness_error" in o or "panic" in o:
            return "concurrent derivations for different UEs change the results: %s" % (o.get("first") or o)
        return None


class C05(Check):
    pid = "C05"
    prop_files = ["Properties/C05.v"]
    extra_targets = ["Model/RanUeCases.vo"]
    streams = [Derive(), DeriveOut(), Wmnsk(), Concurrent()]
    trusted = ["Coq 8.16.1 kernel incl. vm_compute (no native_compute)", "no axioms (Print Assumptions: closed under the global context)",
               "hand-written models Model/RanUe.v, Model/Kdf.v, Model/WmnskMilenage.v tied by the correspondence streams derive, derive-out, wmnsk",
               "Crypto/AES.v and Crypto/SHA256.v (FIPS-197 / FIPS-180-4 / RFC 2104; standard vectors as Examples) stand for Go crypto/aes, crypto/hmac, "
               "crypto/sha256 in the executed model; theorems hold for any E with 16-octet and any H with 32-octet output",
               "Go harness cmd_milenage.go: context built by NewRanUeContext + GetAuthSubscription, SN name by a copy of RegisterUE's expression",
               "Go regexp (?:imsi|supi)-([0-9]{5,15}) modelled as leftmost position with >= 5 digits, first <= 15 digits (stream derive-out)"]
    assumptions = ["K, RAND, AUTN, OPc (or OP) of 16 octets given as valid hex; MCC of 3 digits; MNC of 2 or 3 digits (anything else ends in fatal.Fatalf = process exit)",
                   "SUPI = \"imsi-\" followed by 5..15 digits (fewer digits: run-time panic in DerivateKamf; more: only the first 15 are used)",
                   "the UE never verifies MAC-A of the AUTN it receives (DeriveRESstarAndSetKey computes f1 and discards it); no property requires it"]

    # ---- process level: the keys RegisterUE itself installs (serving network name, SUPI, algorithm ids as the procedure forms them)
    def extra(self, harness, build_ok):
        import os, sys
        from .. import proc
        sys.path.insert(0, os.path.join(C.VERIF, "refamf"))
        binary, err = C.build_emulator()
        if binary is None:
            raise RuntimeError("emulator build failed: " + err[-1500:])
        cfgs = []
        plmns = [("001", "001"), ("405", "025"), ("208", "93"), ("999", "070")] + ([("310", "410"), ("001", "01"), ("722", "007"), ("234", "15")] if self.tier != "quick" else [])
        for i, (mcc, mnc) in enumerate(plmns):
            r = self.rng.fork("reg%d" % i)
            c = proc.default_cfg(r, counts=[1, 0, 0, 0, 0])
            msin = c["imsi"][len(c["mcc"]) + len(c["mnc"]):][:15 - len(mcc) - len(mnc)]
            c.update(mcc=mcc, mnc=mnc, imsi=mcc + mnc + msin)
            cfgs.append(c)
        proc.registration_runs(self, binary, cfgs, "key hierarchy: the Security Mode Complete must verify under the network's K_NASint")

