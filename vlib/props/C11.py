"""C11 — SUCI / PLMN encodings (stgutg.EncodeSuci, ManageNGSetup's PLMN slice, nasConvert.PlmnIDToNas)."""
from .. import common as C
from ..prop import Check, Stream


def dl(s):
    return "[" + ";".join(s) + "]"


class Suci(Stream):
    name = "suci"
    sub = "suci"
    retained_field = "buf"
    requires = ["Dec", "SuciEnc", "Suci", "C11Check"]
    shard = 500

    def __init__(self, wellformed):
        self.wellformed = wellformed
        if wellformed:
            self.name = "suci"
            self.model_check = "(fun c : (list N * nat * option (list N) * N * option (list N)) * c11_spec_case => suci_check (fst c))"
            self.spec_check = "(fun c : (list N * nat * option (list N) * N * option (list N)) * c11_spec_case => c11_spec_check (snd c))"
        else:
            self.name = "suci-malformed"
            self.model_check = "suci_check"
            self.spec_check = None

    def generate(self, rng, tier):
        cases = []
        if self.wellformed:
            n = 1500 if tier == "quick" else 40000
            mccs = ["000", "001", "208", "999", "099", "900"]
            for i in range(n):
                mcc = rng.choice(mccs) if rng.chance(1, 3) else rng.digits(3)
                mnclen = 2 + (i % 2)
                mnc = rng.digits(mnclen) if not rng.chance(1, 5) else rng.choice(["0" * mnclen, "9" * mnclen, "0" * (mnclen - 1) + "7", "7" + "0" * (mnclen - 1)])
                msin = rng.digits(1 + (i // 2) % 10)
                cases.append({"mcc": mcc, "mnc": mnc, "msin": msin, "imsi": mcc + mnc + msin, "mnclen": mnclen,
                              "ngap": "1" if (i % 4 == 0 or tier != "quick") else "",
                              # every third identity is the one the emulator itself forms: the SUPI of CreateUE(imsi, 0, ..)
                              "via": "createue" if i % 3 == 1 else ""})
        else:
            alpha = "0123456789abcdefABCDEFxyz :"
            for i in range(200 if tier == "quick" else 3000):
                ln = rng.choice([0, 1, 3, 4, 5, 6, 7, 11, 15, 16])
                s = "".join(rng.choice(alpha) for _ in range(ln))
                cases.append({"imsi": s, "mnclen": rng.choice([0, 1, 2, 3, 4]), "ngap": ""})
        return cases

    def go_case(self, c):
        d = {"imsi": c["imsi"], "mnclen": c["mnclen"], "ngap": c["ngap"]}
        if c.get("via"):
            d["via"] = c["via"]
        return d

    def classify(self, c, o):
        if not self.wellformed:
            return "panic" if "panic" in o else "encoded"
        return "mnc%d-msin%d-%s" % (c["mnclen"], len(c["msin"]), "ngap" if c["ngap"] else "nas")

    def coq_case(self, c, o):
        if "panic" in o:
            m = "(%s, %d%%nat, None, 0, None)" % (C.cstr(c["imsi"]), c["mnclen"])
        else:
            m = "(%s, %d%%nat, Some %s, %d, Some %s)" % (C.cstr(c["imsi"]), c["mnclen"], C.cN(bytes.fromhex(o["buf"])), o["len"], C.cN(bytes.fromhex(o["mobile_plmn"])))
        if not self.wellformed:
            return m
        if "panic" in o:
            s = "([],[],[],[],[],[],[])"
        else:
            plmns = [o["mobile_plmn"]] + [o[k] for k in ("ngsetup_plmn_gnb", "ngsetup_plmn_ta", "uli_plmn_nrcgi", "uli_plmn_tai") if k in o] + list(o.get("more_plmns") or [])
            s = "(%s, %s, %s, %s, %s, %s, %s)" % (dl(c["mcc"]), dl(c["mnc"]), dl(c["msin"]), C.cN(bytes.fromhex(o["buf"])),
                                                   C.cN(bytes.fromhex(o["regreq"])), C.cN(bytes.fromhex(o["deregreq"])),
                                                   "[" + ";".join(C.cN(bytes.fromhex(p)) for p in plmns) + "]")
        return "(%s, %s)" % (m, s)

    def direct_check(self, c, o):
        if self.wellformed and c["ngap"]:
            for k in ("ngsetup_plmn_gnb", "ngsetup_plmn_ta", "uli_plmn_nrcgi", "uli_plmn_tai"):
                if k not in o:
                    return "PLMN %s not found in the encoded NGAP message (%s / %s)" % (k, o.get("ngsetup_err"), o.get("initialue_err"))
        return None


class SuciProc(Stream):
    """the identity the REAL RegisterUE / DeregisterUE put on the wire (first message of the procedure, harness firstmsg) for
    sequences of UEs in one process: consecutive indices, index 10000 (same RAN-UE-NGAP-ID as index 0), subscribers of
    different PLMNs whose IMSIs end in the same digits"""
    name = "suci-procedures"
    sub = "firstmsg"
    requires = ["Dec", "SuciEnc", "Suci", "C11Check"]
    shard = 60
    model_check = None
    spec_check = ("(fun c : list N * list N * list N * list N * bool * list (list N) => let '(mcc, mnc, msin, plain, isreg, plmns) := c in "
                  "forallb (fun o => plmn_is o mcc mnc) plmns && "
                  "match plain with [] => true | _ => "
                  "match mobile_identity_of (if isreg then REGISTRATION_REQUEST else DEREGISTRATION_REQUEST_UE_ORIG) plain with "
                  "Some mi => suci_strict mi mcc mnc msin | None => false end end)")

    def generate(self, rng, tier):
        cs = []

        def add(mcc, mnc, msin, n):
            imsi = mcc + mnc + msin
            supi = "%0*d" % (len(imsi), int(imsi) + n)
            for proc in ("register", "deregister"):
                cs.append({"proc": proc, "imsi": imsi, "n": n, "mnc": mnc, "mcc": mcc, "supi": supi})
            if n == 0:      # the REAL ManageNGSetup for this subscriber's PLMN (every PLMN identity of its NG SETUP REQUEST)
                cs.append({"proc": "ngsetup", "imsi": imsi, "n": 0, "mnc": mnc, "mcc": mcc, "supi": supi})
        tail = rng.digits(4)
        groups = 6 if tier == "quick" else 40
        for g in range(groups):
            mnclen = 2 + g % 2
            mcc, mnc = rng.digits(3), rng.digits(mnclen)
            msin = rng.digits(rng.choice([5, 6, 10 - (mnclen - 2) - 4])) + tail      # every group ends in the same four digits
            # ... and the UE indices at which the addition carries exactly out of the index's own digits (tail 0001: 9, 99, 999)
            carries = [10 ** k - int(tail) % 10 ** k for k in (1, 2, 3)]
            for n in [0, 1, 10000, 2] + [c for c in carries if c not in (0, 1, 2, 10, 100, 1000)][:(2 if tier == "quick" else 3)]:
                if int(msin) + n < 10 ** len(msin):
                    add(mcc, mnc, msin, n)
        # the corners of the PLMN space (000/000 encodes as 00 00 00, 999/999 as 99 99 99): reserved-looking, legal
        for mcc, mnc in (("000", "000"), ("999", "999"), ("000", "00"), ("999", "99")):
            add(mcc, mnc, rng.digits(5) + tail, 0)
        return cs

    def go_case(self, c):
        return {k: c[k] for k in ("proc", "imsi", "n", "mnc", "mcc")}

    def classify(self, c, o):
        return "%s/mnc%d/n=%d" % (c["proc"], len(c["mnc"]), c["n"])

    def key(self, c, o):
        return c["proc"] + c["supi"]

    def direct_check(self, c, o):
        if c["proc"] == "ngsetup":
            if "panic" in o or "read_err" in o or "decode_err" in o or len(o.get("plmns") or []) < 2:
                return "ManageNGSetup did not write an NG SETUP REQUEST with its PLMN identities: %r" % ({k: v for k, v in o.items() if k != "msg"},)
            return None
        if "panic" in o or "read_err" in o or "decode_err" in o or not o.get("plain"):
            return "the procedure did not write a decodable first message: %r" % ({k: v for k, v in o.items() if k != "msg"},)
        if o.get("supi") != "imsi-" + c["supi"]:
            return "CreateUE gave %s for IMSI %s index %d" % (o.get("supi"), c["imsi"], c["n"])
        return None

    def coq_case(self, c, o):
        npl = len(c["mcc"]) + len(c["mnc"])
        if c["proc"] == "ngsetup":
            # user location PLMNs of the uplink messages are a matter of the NG Setup before them: only this message's own PLMNs
            return "(%s, %s, %s, [], true, [%s])" % (dl(c["mcc"]), dl(c["mnc"]), dl(c["supi"][npl:]), ";".join(C.cN(bytes.fromhex(p)) for p in (o.get("plmns") or [])))
        return "(%s, %s, %s, %s, %s, [])" % (dl(c["mcc"]), dl(c["mnc"]), dl(c["supi"][npl:]), C.cN(bytes.fromhex(o.get("plain", ""))), C.cbool(c["proc"] == "register"))


class PlmnNas(Stream):
    name = "plmnnas"
    sub = "plmnnas"
    requires = ["Dec", "SuciEnc", "Suci", "C11Check"]
    model_check = "(fun c : list N * list N * list N => let '(mcc, mnc, o) := c in plmnnas_check (to_ascii mcc, to_ascii mnc, Some o))"
    spec_check = "plmnnas_spec_check"
    shard = 1000

    def generate(self, rng, tier):
        n = 1200 if tier == "quick" else 30000
        out = []
        for i in range(n):
            out.append({"mcc": rng.digits(3), "mnc": rng.digits(2 + i % 2)})
        return out

    def coq_case(self, c, o):
        return "(%s, %s, %s)" % (dl(c["mcc"]), dl(c["mnc"]), C.cN(bytes.fromhex(o.get("plmn", ""))))

    def classify(self, c, o):
        return "mnc%d" % len(c["mnc"])


class C11(Check):
    pid = "C11"
    prop_files = ["Properties/C11.v"]
    extra_targets = ["Model/C11Check.vo"]
    streams = [Suci(True), Suci(False), SuciProc(), PlmnNas()]
    trusted = ["Coq 8.16.1 kernel incl. vm_compute (no native_compute)", "no axioms (Print Assumptions: closed under the global context)",
               "hand-written model Model/SuciEnc.v of EncodeSuci/hexCharToByte/Buffer[1:4]/PlmnIDToNas tied by the correspondence streams suci, suci-malformed, plmnnas",
               "Spec/Suci.v: TS 24.501 9.11.3.4 SUCI decoder and 3-octet PLMN coding transcribed from memory of the standard",
               "Go harness cmd_suci.go (constructor calls copied from RegisterUE/DeregisterUE/ManageNGSetup); ngap.Decoder used to locate PLMN octets inside NGAP messages"]
    assumptions = ["IMSI digits only in the theorem (the malformed stream covers hex letters / other characters / too short strings on the model side)",
                   "NGAP PLMNIdentity is taken to use the TS 24.501/24.008 nibble order, as the property states (agrees with the library's PlmnIDToNas)"]

    # ---- process level: the identities RegisterUE itself sends (initial request AND the request inside the Security Mode Complete)
    def extra(self, harness, build_ok):
        import os, sys
        from .. import proc
        sys.path.insert(0, os.path.join(C.VERIF, "refamf"))
        binary, err = C.build_emulator()
        if binary is None:
            raise RuntimeError("emulator build failed: " + err[-1500:])
        cfgs = []
        plmns = [("208", "93"), ("001", "001"), ("310", "410"), ("999", "07")] + ([("405", "025"), ("001", "01"), ("722", "070"), ("234", "15")] if self.tier != "quick" else [])
        for i, (mcc, mnc) in enumerate(plmns):
            r = self.rng.fork("reg%d" % i)
            c = proc.default_cfg(r, counts=[2, 0, 0, 0, 1])
            msin = c["imsi"][len(c["mcc"]) + len(c["mnc"]):][:15 - len(mcc) - len(mnc)]
            c.update(mcc=mcc, mnc=mnc, imsi=mcc + mnc + msin)
            c["other_plmn_first"] = i % 2 == 0        # the AMF also serves another PLMN and lists it first
            cfgs.append(c)
        proc.registration_runs(self, binary, cfgs, "SUCI and PLMN identities on the wire")

