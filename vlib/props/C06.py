"""C06 — uplink NAS protection over message histories (tglib.EncodeNasPduWithSecurity / NASEncode, security.Count)."""
from .. import common as C
from ..prop import Check, Stream
from . import NasSecLib as L


def send(rng, hdr, short, avail=True, newctx=False, pdu=None):
    return {"op": "send", "pdu": (pdu if pdu is not None else L.pick_msg(rng, short, gsm=True)).hex(), "hdr": hdr, "avail": avail, "newctx": newctx}


def history(rng, ia, ea, kind, nsend, lead_newctx, dl=False):
    """one UE context: [new-context send] ; jump in front of the boundary ; sends across it ; then resets,
    sends without context, DLCount jumps, more sends"""
    short = (ia == 1 or ea == 1)
    ops = []
    h0 = rng.below(4)
    if lead_newctx:
        ops.append(send(rng, rng.choice([3, 4]), short, newctx=True))
    back = rng.range(1, 3)
    ovf, sqn = L.boundary_start(kind, back)
    ops.append({"op": "setul", "ovf": ovf, "sqn": sqn})
    if rng.chance(1, 2):
        ops.append({"op": "setdl", "ovf": rng.below(65536), "sqn": rng.below(256)})
    for i in range(nsend):
        hdr = 1 + (h0 + i) % 4
        late = i > back + 1
        if late and rng.chance(1, 8):
            ops.append(send(rng, hdr, short, avail=False, newctx=rng.chance(1, 2)))
        if late and rng.chance(1, 10):
            ops.append({"op": "setdl", "ovf": rng.below(65536), "sqn": rng.below(256)})
        ops.append(send(rng, hdr, short, newctx=late and rng.chance(1, 6)))
        if dl and rng.chance(1, 3):
            # downlink traffic in between (the uplink COUNT must not notice): a protected-looking downlink message whose
            # sequence number is BELOW the one last seen (the downlink wrap) or above it; it need not verify
            hdr_d = rng.choice([1, 2, 2, 4])
            ops.append({"op": "recv", "pkt": (bytes([0x7e, hdr_d]) + rng.bytes(4) + bytes([rng.choice([0, 1, 5, 200, 254, 255, rng.below(256)])]) + L.pick_msg(rng, True)).hex(), "canon": False})
    return {"ea": ea, "ia": ia, "kenc": rng.bytes(16).hex(), "kint": rng.bytes(16).hex(), "ops": ops, "kind": kind}


class UlHistories(Stream):
    """send histories under every supported algorithm pair and header type 1..4, with the counter pre-set through
    the exported Set so that every run crosses 255->256, 65535->65536 and 2^24-1->0, with new-context resets,
    sends without security context and DLCount jumps in between"""
    name, sub = "ul-histories", "nashist"
    requires = ["NasSec", "RefNasPeer", "NasSecInst"]
    shard = 3
    eval_timeout = 1500
    model_check = "hist_check"
    spec_check = "c06_spec_check"
    model_out = "hist_model"

    def generate(self, rng, tier):
        quick = tier == "quick"
        cs = []
        # systematic: pair x boundary kind (each history cycles through the four header types)
        for ia, ea in L.PAIRS:
            slow = ia == 1 or ea == 1
            for kind in ("octet", "carry", "wrap24"):
                n = (8 if slow else 20) if quick else (16 if slow else 40)
                cs.append(history(rng, ia, ea, kind, n, lead_newctx=rng.chance(1, 2)))
        # one long history per AES-only pair, then random ones
        for ia, ea in [(2, 0), (2, 2)]:
            cs.append(history(rng, ia, ea, "wrap24", 36, True))
        for i in range(30 if quick else 400):
            ia, ea = rng.choice(L.PAIRS)
            slow = ia == 1 or ea == 1
            n = rng.range(1, 8 if slow else 40) if quick else rng.range(1, 40)
            cs.append(history(rng, ia, ea, rng.choice(["octet", "carry", "wrap24", "mid"]), n, rng.chance(1, 2), dl=(i % 3 == 0)))
        # legal but unusual keys: all zero, all one (0^128 is a possible KDF output)
        for j, (ia, ea) in enumerate([(2, 2), (1, 1), (2, 1), (1, 2)] if quick else L.PAIRS + [(2, 2), (1, 1)]):
            h = history(rng, ia, ea, "octet", 4, j % 2 == 0)
            h["kint"], h["kenc"] = [("00" * 16, "00" * 16), ("00" * 16, rng.bytes(16).hex()), (rng.bytes(16).hex(), "00" * 16), ("ff" * 16, "ff" * 16)][j % 4]
            h["kind"] = "boundary-keys"
            cs.append(h)
        # messages longer than 4096 octets (UL NAS TRANSPORT with a large payload container), ciphered
        for ia, ea in ([(2, 2), (1, 1)] if quick else L.PAIRS):
            h = history(rng, ia, ea, "mid", 2, False)
            h["ops"].append(send(rng, 2, False, pdu=L.long_msg(rng, rng.choice([4100, 4200, 5000]), True)))
            h["ops"].append(send(rng, 2, True))
            h["kind"] = "long-message"
            cs.append(h)
        return cs

    def go_case(self, c):
        return c

    def classify(self, c, o):
        return "nia%d-nea%d/%s/%dops" % (c["ia"], c["ea"], c.get("kind", "?"), 10 * (len(c["ops"]) // 10))

    def coq_case(self, c, o):
        return L.hist_coq(c, o)

    def direct_check(self, c, o):
        e = L.harness_ok(c, o)
        if e:
            return e
        for op, st in zip(c["ops"], o["steps"]):
            if op["op"] == "send" and "out" not in st:
                return "a well-formed send under a supported algorithm pair was refused: %r" % (st,)
        return None


class UlMalformed(Stream):
    """outside the claim, model only: unsupported / unknown algorithm identifiers (the error paths and what they
    leave in the counters), NIA0 (no MAC octets), header type octets outside 1..4, PDUs the codec refuses,
    received packets between the sends"""
    name, sub = "ul-malformed", "nashist"
    requires = ["NasSec", "RefNasPeer", "NasSecInst"]
    shard = 6
    eval_timeout = 1500
    model_check = "hist_check"
    model_out = "hist_model"

    def generate(self, rng, tier):
        cs = []
        n = 40 if tier == "quick" else 600
        bad_pdus = [bytes.fromhex(x) for x in ("7e00ff", "7e", "7e00", "0000", "7e0000", "2e0100ff", "ff0043")]
        for i in range(n):
            k = i % 5
            ia, ea = rng.choice([(2, 0), (2, 2), (1, 0), (2, 1)])
            if k == 0:
                ea = rng.choice([3, 4, 7, 128, 255]); kind = "bad-ea"
            elif k == 1:
                ia = rng.choice([3, 4, 9, 255]); kind = "bad-ia"
            elif k == 2:
                ia = 0; ea = rng.choice([0, 1, 2, 3]); kind = "nia0"
            elif k == 3:
                kind = "bad-hdr"
            else:
                kind = "bad-pdu"
            short = True
            ops = []
            if rng.chance(1, 2):
                ops.append({"op": "setul", "ovf": rng.choice([0, 255, 65535, rng.below(65536)]), "sqn": rng.choice([254, 255, rng.below(256)])})
            if rng.chance(1, 2):
                ops.append({"op": "setdl", "ovf": rng.below(65536), "sqn": rng.below(256)})
            for j in range(rng.range(2, 6)):
                hdr = rng.range(1, 4)
                if kind == "bad-hdr" and rng.chance(2, 3):
                    hdr = rng.choice([0, 5, 6, 15, 16, 128, 255])
                pdu = rng.choice(bad_pdus) if kind == "bad-pdu" and rng.chance(1, 2) else None
                ops.append(send(rng, hdr, short, avail=not rng.chance(1, 8), newctx=rng.chance(1, 3), pdu=pdu))
                if rng.chance(1, 4):
                    m = L.pick_msg(rng, True)
                    t = rng.choice([0, 1, 2, 3, 4])
                    pkt = m if t == 0 else bytes([0x7e, t]) + rng.bytes(4) + bytes([rng.below(256)]) + m
                    canon = (t == 0) or (ia != 0 and (ea == 0 or t in (1, 3)))
                    if rng.chance(1, 3):
                        pkt = pkt[:rng.below(8)]; canon = False
                    if len(pkt) >= 2 and pkt[1] == 0 and t != 0:
                        canon = False
                    ops.append({"op": "recv", "pkt": pkt.hex(), "canon": canon})
            cs.append({"ea": ea, "ia": ia, "kenc": rng.bytes(16).hex(), "kint": rng.bytes(16).hex(), "ops": ops, "kind": kind})
        return cs

    def go_case(self, c):
        return c

    def classify(self, c, o):
        steps = o.get("steps") or []
        return "%s/%s" % (c["kind"], "+".join(sorted(set("panic" if "panic" in s else "err" if "err" in s else "ok" for s in steps))))

    def coq_case(self, c, o):
        return L.hist_coq(c, o)

    def direct_check(self, c, o):
        return L.harness_ok(c, o)


class Concurrent(Stream):
    """8 UEs with different algorithm pairs protect their messages (short ones and UL NAS TRANSPORTs of about 2 kB) at once:
    each sends what it sends alone. The emulator runs its UEs concurrently, so "any sequence" is a sequence among others."""
    name = "concurrent"
    sub = "conc"
    model_check = None
    spec_check = None
    requires = []

    def generate(self, rng, tier):
        return [{"family": "nas_protect", "goroutines": 8, "iters": 300 if tier == "quick" else 4000}]

    def classify(self, c, o):
        return "same" if o.get("different") == 0 else "different"

    def key(self, c, o):
        return "nas-protect-conc"

    def coq_case(self, c, o):
        return ""

    def direct_check(self, c, o):
        if o.get("different", 1) != 0 or "harness_error" in o or "panic" in o:
            return "concurrent protection by different UEs changes what is sent: %s" % (o.get("first") or o)
        return None


class C06(L.ShrinkMixin, Check):
    pid = "C06"
    prop_files = ["Properties/C06.v"]
    streams = [UlHistories(), UlMalformed(), Concurrent()]
    trusted = ["Coq 8.16.1 kernel incl. vm_compute (no native_compute)", "no axioms (Print Assumptions: closed under the global context)",
               "hand-written models Model/Count.v, Model/NasSec.v (transcriptions of counter.go, tglib/security.go, packet.go) tied by the history streams "
               "ul-histories / ul-malformed: every op of every history compares the octets and both counters",
               "Model/Security.v (C07) supplies NASEncrypt / NASMacCalculate for execution; the theorems are parametric in the two functions",
               "Spec/RefNasPeer.v: sender, receiver and COUNT estimate transcribed from TS 24.501 4.4.3, 4.4.4, 9.1-9.3 and TS 33.501 6.4; "
               "its executable instance uses Spec/TS33401B.v (128-NEA/NIA from the 3GPP text, C07)",
               "the NAS codec (PlainNasDecode / PlainNasEncode) is outside: the harness reports the plain re-encoding NASEncode protects (C08 owns the codec)",
               "Go harness cmd_nassec.go"]
    assumptions = ["algorithm pairs {NIA1,NIA2} x {NEA0,NEA1,NEA2}, header types 1..4 (NIA0, NEA3/NIA3, unknown identifiers and other header octets: model only)",
                   "the theorems assume of the two algorithms only: they return a result on the inputs used, the MAC has 4 octets, "
                   "deciphering inverts ciphering for equal KEY/COUNT/BEARER/DIRECTION (C07: c07_cipher_involutive)",
                   "the receiver of the theorem gets every message of the history, in order (the history itself is arbitrary)"]
