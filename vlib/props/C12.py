"""C12 — UE address / TEID / UPF address extraction (stgutg.DecodePDUSessionNASPDU,
DecodePDUSessionResourceSetupRequestTransfer)."""
from .. import common as C
from ..prop import Check, Stream

# ---- Python port of Spec/SessionMsgs.v (the reference encoders); the Coq spec re-encodes every
# well-formed case from its parameters and the bytes must be identical (cases.v), so this port is checked
# against the Coq text on every run.
def len1(v): return bytes([len(v)])
def len2(v): return bytes([len(v) // 256, len(v) % 256])
def enc_ie(i):
    k = i[0]
    if k == "TV1": return bytes([i[1] * 16 + i[2]])
    if k == "TVn": return bytes([i[1]]) + i[2]
    if k == "TLV": return bytes([i[1]]) + len1(i[2]) + i[2]
    if k == "TLVE": return bytes([i[1]]) + len2(i[2]) + i[2]
def coq_ie(i):
    k = i[0]
    if k == "TV1": return "TV1 %d %d" % (i[1], i[2])
    return "%s %d %s" % (k, i[1], C.cN(i[2]))
def est_accept(psi, pti, t, qos, ambr, pre, a, post):
    return bytes([46, psi, pti, 194, t]) + len2(qos) + qos + len1(ambr) + ambr + b"".join(enc_ie(i) for i in pre) + bytes([41, 5, 1]) + a + post
def dl_nas_transport(pct, c, trailing): return bytes([126, 0, 104, pct]) + len2(c) + c + trailing
def protected(sht, mac, sqn, plain): return bytes([126, sht]) + mac + bytes([sqn]) + plain
def pie(i, crit, v): return bytes([i // 256, i % 256, crit]) + len1(v) + v


def rand_opt(rng):
    k = rng.below(4)
    if k == 0: return ("TV1", rng.choice([8, 12]), rng.below(16))
    if k == 1:
        iei, n = rng.choice([(89, 1), (86, 1), (24, 3), (31, 2)])
        return ("TVn", iei, rng.bytes(n))
    if k == 2: return ("TLV", rng.choice([34, 37, 23, 102]), rng.bytes(rng.choice([0, 1, 4, 9, 100, 255])))
    return ("TLVE", rng.choice([117, 120, 121, 123, 119]), rng.bytes(rng.choice([0, 1, 3, 255, 256, 700])))


def ob_ip(o):
    # annotated: a shard in which no case yields an address must still type-check
    if "panic" in o or o.get("timeout"):
        return "(None : option (option (list N)))"
    return "(Some None : option (option (list N)))" if o["ip"] is None else "Some (Some %s)" % C.cN(bytes.fromhex(o["ip"]))


class NasWell(Stream):
    name, sub = "nas-wellformed", "extract_nas"
    requires = ["Extract", "SessionMsgs"]
    shard = 25
    model_check = "(fun c : list N * option (option (list N)) * (list N * list N) => extract_nas_check (fst c))"
    # spec: the Coq reference encoder reproduces the bytes from the parameters, and the observed address is the encoded one
    spec_check = ("(fun c : list N * option (option (list N)) * (list N * list N) => let '(b, o, (ref, a)) := c in "
                  "eqb_bytes ref b && match o with Some (Some x) => eqb_bytes x a | _ => false end)")

    def generate(self, rng, tier):
        cs = []
        n = 120 if tier == "quick" else 3000
        qlens = [0, 1, 9, 255, 256, 4000] + ([65000] if tier != "quick" else [])
        for i in range(n):
            qos = rng.bytes(qlens[i % len(qlens)] if i < 3 * len(qlens) else rng.choice([0, 1, 9, 31, 255, 256, 300]))
            pre = [rand_opt(rng) for _ in range(rng.choice([0, 0, 1, 1, 2, 3, 5, 9]))]
            post = b"".join(enc_ie(rand_opt(rng)) for _ in range(rng.below(4)))
            p = dict(sht=rng.choice([1, 2, 3, 4]), mac=rng.bytes(4), sqn=rng.below(256), pct=rng.choice([1, 0x01, 0xF1]),
                     psi=rng.range(1, 15), pti=rng.below(255), t=rng.choice([0x11, 0x12, 0x13, 0x21, 0x91]), qos=qos,
                     ambr=rng.bytes(6), pre=pre, a=rng.choice([bytes([10, 60, 0, 1]), bytes(4), b"\xff" * 4, rng.bytes(4)]),
                     post=post, trailing=rng.choice([b"", bytes([0x12, 5]), rng.bytes(5)]))
            # MAC and sequence-number octets that look like the protocol's own framing (message types, discriminators, IEIs):
            # the security header is skipped whatever it holds
            framing = [0x68, 0x7e, 0x2e, 0x00, 0xc2, 0x29, 0x01, 0x67, 0x12]
            if i % 4 == 0:
                p["mac"] = bytes([framing[(i // 4) % len(framing)]]) + p["mac"][1:]
            if i % 4 == 2:
                p["mac"] = bytes([framing[(i // 4) % len(framing)], framing[(i // 8) % len(framing)]]) + p["mac"][2:]
                p["sqn"] = framing[(i // 4 + 3) % len(framing)]
            if len(est_accept(p["psi"], p["pti"], p["t"], qos, p["ambr"], pre, p["a"], post)) > 65535:
                continue
            cs.append(p)
        # the LV-E limits themselves: payload container of exactly 65535 and 65530 octets (the sums 6+len and
        # 14+len used to be formed in uint16)
        for total in (65535, 65530):
            p = dict(sht=2, mac=rng.bytes(4), sqn=1, pct=1, psi=5, pti=1, t=0x11, qos=b"", ambr=rng.bytes(6), pre=[("TVn", 89, b"\x24")],
                     a=rng.bytes(4), post=b"", trailing=b"")
            base = len(est_accept(5, 1, 0x11, b"", p["ambr"], p["pre"], p["a"], b""))
            p["qos"] = bytes([rng.below(256)]) * (total - base)
            cs.append(p)
        return cs

    def msg(self, p):
        return protected(p["sht"], p["mac"], p["sqn"], dl_nas_transport(p["pct"], est_accept(p["psi"], p["pti"], p["t"], p["qos"], p["ambr"], p["pre"], p["a"], p["post"]), p["trailing"]))

    def go_case(self, p):
        return {"pdu": self.msg(p).hex()}

    def classify(self, p, o):
        return "qos%d-pre%d" % (min(len(p["qos"]), 1000) // 256 * 256, len(p["pre"]))

    def coq_case(self, p, o):
        big = len(p["qos"]) > 5000      # Coq's parser overflows its stack on list literals of this size
        qos = "(repeat %d (N.to_nat %d))" % (p["qos"][0], len(p["qos"])) if big else C.cN(p["qos"])
        ref = "protected %d %s %d (dl_nas_transport %d (est_accept %d %d %d %s %s [%s] %s %s) %s)" % (
            p["sht"], C.cN(p["mac"]), p["sqn"], p["pct"], p["psi"], p["pti"], p["t"], qos, C.cN(p["ambr"]),
            ";".join(coq_ie(i) for i in p["pre"]), C.cN(p["a"]), C.cN(p["post"]), C.cN(p["trailing"]))
        return "(%s, %s, (%s, %s))" % (ref if big else C.cN(self.msg(p)), ob_ip(o), ref, C.cN(p["a"]))

    def direct_check(self, p, o):
        if o.get("timeout"):
            return "extraction did not return within 2 s"
        return None


class NasMal(Stream):
    name, sub = "nas-malformed", "extract_nas"
    requires = ["Extract"]
    shard = 150
    model_check = "extract_nas_check"

    def generate(self, rng, tier):
        gen = NasWell()
        seeds = [gen.msg(p) for p in gen.generate(rng.fork("seedmsgs"), "quick")[:40]]
        cs = []
        n = 600 if tier == "quick" else 20000
        # the hang witness of the unfixed tree first: an IEI outside the table in front of the PDU address
        hdr = bytes([126, 2, 1, 2, 3, 4, 9, 126, 0, 104, 1])
        for iei in [0x00, 0x01, 0x30, 0x7f, 0xff]:
            c = bytes([46, 5, 0, 194, 0x11, 0, 0, 6, 1, 2, 3, 4, 5, 6, iei, 41, 5, 1, 10, 0, 0, 1])
            cs.append({"pdu": (hdr + len2(c) + c).hex(), "kind": "unknown-iei"})
        # every size of length field in front of the PDU address announcing far more than there is: a one-octet length of each
        # value, two-octet lengths in the last 600 values below 65536 (where position + length passes 16 bits) and a few others
        fixed = bytes([46, 5, 0, 194, 0x11, 0, 0, 6, 1, 2, 3, 4, 5, 6])
        addr = bytes([41, 5, 1, 10, 0, 0, 1])
        for L in range(256):
            c = fixed + bytes([rng.choice([0x22, 0x25]), L]) + rng.bytes(rng.below(4)) + addr
            cs.append({"pdu": (hdr + len2(c) + c).hex(), "kind": "length-octet"})
        for L in list(range(65536 - 600, 65536)) + [256, 4096, 32767, 32768, 49152, 65000]:
            c = fixed + bytes([rng.choice([0x7b, 0x79, 0x75, 0x78]), L >> 8, L & 255]) + rng.bytes(rng.below(4)) + (addr if L % 2 else b"")
            cs.append({"pdu": (hdr + len2(c) + c).hex(), "kind": "length-two-octets"})
        for i in range(n):
            s = rng.choice(seeds)
            k = rng.below(5)
            if k == 0:
                m = s[:rng.below(len(s) + 1)]; kind = "prefix"
            elif k == 1:
                j = rng.below(len(s)); m = s[:j] + bytes([s[j] ^ (1 << rng.below(8))]) + s[j + 1:]; kind = "bitflip"
            elif k == 2:
                j = rng.below(len(s)); m = s[:j] + bytes([rng.below(256)]) + s[j + 1:]; kind = "byte"
            elif k == 3:
                m = rng.bytes(rng.below(80)); kind = "random"
            else:
                j = rng.range(13, min(len(s) - 1, 40)); m = s[:j] + rng.bytes(rng.below(6)) + s[j:]; kind = "splice"
            cs.append({"pdu": m.hex(), "kind": kind})
        return cs

    def go_case(self, c):
        return {"pdu": c["pdu"]}

    def classify(self, c, o):
        return c["kind"] + ("/timeout" if o.get("timeout") else "/panic" if "panic" in o else "/nil" if o.get("ip") is None else "/ip")

    def coq_case(self, c, o):
        return "(%s, %s)" % (C.cN(bytes.fromhex(c["pdu"])), ob_ip(o))

    def direct_check(self, c, o):
        if o.get("timeout"):
            return "extraction did not return within 2 s (hang)"
        return None


def ob_tr(o):
    if "panic" in o or o.get("timeout"):
        return "(None : option (N * option (list N)))"
    return "(Some (%d, %s) : option (N * option (list N)))" % (o["teid"], "None" if o["ip"] is None else "Some " + C.cN(bytes.fromhex(o["ip"])))


class TransferSpec(Stream):
    """transfers built by the reference encoder (Python port of Spec/SessionMsgs.v, re-encoded in Coq)"""
    name, sub = "transfer-wellformed", "extract_transfer"
    requires = ["Extract", "SessionMsgs"]
    shard = 100
    model_check = "(fun c : list N * option (N * option (list N)) * (list N * N * list N) => extract_transfer_check (fst c))"
    spec_check = ("(fun c : list N * option (N * option (list N)) * (list N * N * list N) => let '(b, o, (ref, teid, a)) := c in "
                  "eqb_bytes ref b && match o with Some (t, Some x) => (t =? teid) && eqb_bytes x a | _ => false end)")

    def generate(self, rng, tier):
        cs = []
        for i in range(300 if tier == "quick" else 10000):
            pre = []
            for _ in range(rng.choice([0, 1, 1, 2, 4])):
                i_ = rng.choice([130, 126, 127, 134, 138, 129, 136, 0, 65535, rng.below(65536)])
                if i_ == 139:
                    continue
                pre.append((i_, rng.choice([0, 64, 128]), rng.bytes(rng.choice([0, 1, 9, 11, 127]))))
            cs.append({"pre": pre, "addr": rng.bytes(4), "teid": rng.choice([bytes(4), b"\xff" * 4, rng.bytes(4)]), "post": rng.bytes(rng.below(12))})
        return cs

    def msg(self, c):
        n = len(c["pre"]) + 1
        return bytes([0, n // 256, n % 256]) + b"".join(pie(*p) for p in c["pre"]) + pie(139, 0, bytes([1, 240]) + c["addr"] + c["teid"]) + c["post"]

    def go_case(self, c):
        return {"transfer": self.msg(c).hex()}

    def coq_case(self, c, o):
        ref = "setup_request_transfer [%s] %s %s %s" % (";".join("(%d,%d,%s)" % (p[0], p[1], C.cN(p[2])) for p in c["pre"]), C.cN(c["addr"]), C.cN(c["teid"]), C.cN(c["post"]))
        return "(%s, %s, (%s, %d, %s))" % (C.cN(self.msg(c)), ob_tr(o), ref, int.from_bytes(c["teid"], "big"), C.cN(c["addr"]))

    def classify(self, c, o):
        return "pre%d" % len(c["pre"])

    def direct_check(self, c, o):
        return "extraction did not return within 2 s" if o.get("timeout") else None


class TransferLib(Stream):
    """transfers built by the library's own aper encoder from ngapType values (definition order), then extracted"""
    name, sub = "transfer-lib", "transfer_build"
    requires = ["Extract"]
    shard = 200
    model_check = "(fun c : list N * option (N * option (list N)) * (N * list N) => extract_transfer_check (fst c))"
    spec_check = ("(fun c : list N * option (N * option (list N)) * (N * list N) => let '(b, o, (teid, a)) := c in "
                  "match o with Some (t, Some x) => (t =? teid) && eqb_bytes x a | _ => false end)")

    def generate(self, rng, tier):
        rates = [-1, 0, 1, 255, 256, 65535, 65536, 2 ** 32 - 1, 2 ** 32, 4 * 10 ** 12]
        cs = []
        for i in range(300 if tier == "quick" else 8000):
            # values whose octets look like IE headers of the transfer (ids 130, 139, 134, 136, criticality, lengths)
            idlike = lambda: min(4 * 10 ** 12, int.from_bytes(bytes(rng.choice([0x00, 0x8b, 0x82, 0x86, 0x88, 0x01, 0x0a, 0x40]) for _ in range(rng.range(1, 5))), "big"))
            dl = rates[i % len(rates)] if i < 3 * len(rates) else rng.choice(rates + [rng.below(4 * 10 ** 12), idlike(), idlike()])
            cs.append({"dl": dl, "ul": rng.choice([r for r in rates if r >= 0] + [rng.below(4 * 10 ** 12), idlike(), idlike()]), "addr": rng.bytes(4).hex(),
                       "teid": rng.choice([bytes(4), b"\xff" * 4, rng.bytes(4)]).hex(), "pdutype": rng.choice([-1, 0, 1, 2]), "qfi": rng.below(64)})
        return cs

    def coq_case(self, c, o):
        if "err" in o or "transfer" not in o:
            return "([], None, (0, []))"
        return "(%s, %s, (%d, %s))" % (C.cN(bytes.fromhex(o["transfer"])), ob_tr(o), int(c["teid"], 16), C.cN(bytes.fromhex(c["addr"])))

    def classify(self, c, o):
        return "ambr" if c["dl"] >= 0 else "no-ambr"

    def direct_check(self, c, o):
        if "err" in o:
            return "library encoder refused an in-range transfer: " + str(o["err"])
        return "extraction did not return within 2 s" if o.get("timeout") else None


class TransferMal(Stream):
    name, sub = "transfer-malformed", "extract_transfer"
    requires = ["Extract"]
    shard = 200
    model_check = "extract_transfer_check"

    def generate(self, rng, tier):
        gen = TransferSpec()
        seeds = [gen.msg(c) for c in gen.generate(rng.fork("seedtr"), "quick")[:40]]
        cs = []
        for i in range(500 if tier == "quick" else 20000):
            s = rng.choice(seeds)
            k = rng.below(4)
            if k == 0:
                m = s[:rng.below(len(s) + 1)]; kind = "prefix"
            elif k == 1:
                j = rng.below(len(s)); m = s[:j] + bytes([rng.below(256)]) + s[j + 1:]; kind = "byte"
            elif k == 2:
                m = rng.bytes(rng.below(40)); kind = "random"
            else:
                j = rng.below(len(s)); m = s[:j] + bytes([s[j] ^ (1 << rng.below(8))]) + s[j + 1:]; kind = "bitflip"
            cs.append({"transfer": m.hex(), "kind": kind})
        # every value of the length octet of an IE that precedes the tunnel IE (its length is what the walk advances by),
        # with the claimed number of octets present and with the input ending early
        tun = bytes([0x00, 0x8b, 0x00, 0x0a, 0x01, 0xf0]) + rng.bytes(8)
        for L in range(256):
            for ident in ((0x00, 0x7e), (0x00, 0x82)):
                head = bytes([0x00, 0x00, 0x02, ident[0], ident[1], 0x40, L])
                cs.append({"transfer": (head + rng.bytes(L) + tun).hex(), "kind": "length-octet"})
                cs.append({"transfer": (head + rng.bytes(rng.below(6))).hex(), "kind": "length-octet-short"})
        # the tunnel IE itself with every small value length (an IPv4 tunnel value has 10 octets; shorter ones cannot hold
        # address and TEID), first and after another IE, complete and cut short
        for L in range(0, 14):
            for pre in (b"", bytes([0x00, 0x82, 0x00, 0x03, 1, 2, 3])):
                t = bytes([0x00, 0x00, 0x02]) + pre + bytes([0x00, 0x8b, 0x00, L])
                cs.append({"transfer": (t + rng.bytes(L)).hex(), "kind": "tunnel-length"})
                cs.append({"transfer": (t + rng.bytes(L) + bytes([0x00, 0x86, 0x00, 0x01, 0x00])).hex(), "kind": "tunnel-length"})
                cs.append({"transfer": (t + rng.bytes(L // 2)).hex(), "kind": "tunnel-length-short"})
        return cs

    def go_case(self, c):
        return {"transfer": c["transfer"]}

    def classify(self, c, o):
        return c["kind"] + ("/timeout" if o.get("timeout") else "/panic" if "panic" in o else "/nil" if o.get("ip") is None else "/found")

    def coq_case(self, c, o):
        return "(%s, %s)" % (C.cN(bytes.fromhex(c["transfer"])), ob_tr(o))

    def direct_check(self, c, o):
        return "extraction did not return within 2 s (hang)" if o.get("timeout") else None


class C12(Check):
    pid = "C12"
    prop_files = ["Properties/C12.v"]
    streams = [NasWell(), NasMal(), TransferSpec(), TransferLib(), TransferMal()]
    trusted = ["Coq 8.16.1 kernel incl. vm_compute (no native_compute)", "no axioms (Print Assumptions: closed under the global context)",
               "hand-written model Model/Extract.v (Go slice semantics: length/capacity checks explicit) tied by five correspondence streams incl. two malformed streams",
               "Spec/SessionMsgs.v: TS 24.501 8.2.11/8.3.2 and TS 24.007 IE formats, X.691 layout of the transfer derived by hand (confirmed each run against the library's own aper encoder in stream transfer-lib)",
               "Go harness cmd_extract.go: inputs are copied into slices whose capacity equals their length; 2 s watchdog per call"]
    assumptions = ["input slice capacity = length (inside the emulator the NAS-PDU is a sub-slice of the receive buffer: reads past the length then see stale octets instead of panicking)",
                   "transfer IEs in front of id 139 have values shorter than 128 octets (one-octet open-type length), as in every definition-order encoding",
                   "a panic counts as terminating (the property asks for termination)"]

    # ---- process level: the whole procedure (read, decode, extract, report) on requests of every size the property names
    def extra(self, harness, build_ok):
        import concurrent.futures as cf, re, sys, os
        from .. import proc
        sys.path.insert(0, os.path.join(C.VERIF, "refamf"))
        binary, err = C.build_emulator()
        if binary is None:
            raise RuntimeError("emulator build failed: " + err[-1500:])
        sizes = [0, 9, 300, 1400, 1900, 2100, 3000, 4000] if self.tier == "quick" else [0, 1, 9, 127, 128, 300, 1000, 1400, 1850, 1900, 1950, 2048, 2100, 2500, 3000, 3500, 4000]
        # QoS flow descriptions (after the PDU address) that push the NAS message and the NGAP message beyond 16383 octets:
        # their length determinants are then fragmented (X.691 10.9.3.8)
        flows = {300: 16300, 1400: 20000, 4000: 12000} if self.tier == "quick" else {9: 16000, 300: 16300, 1400: 20000, 1900: 33000, 4000: 12000, 3000: 50000}
        cfgs = []
        for i, q in enumerate(sizes):
            c = proc.default_cfg(self.rng.fork("est%d" % i) if i else None, counts=[1, 1, 0, 0, 0])
            c["qos_lens"] = [q]
            c["snssai_shift"] = i % 4          # granted S-NSSAI: as asked / without SD / another slice / SST only
            if q in flows:
                c["flow_desc_len"] = flows[q]
            cfgs.append(c)
        # an open-type value of the NGAP message (the first / the second one found) of EXACTLY 16384 octets: its fragmented
        # length ends with a zero length octet
        for which in (1, 2):
            c = proc.default_cfg(self.rng.fork("exact%d" % which), counts=[1, 1, 0, 0, 0])
            c["qos_lens"] = [9 + which]
            c["flow_desc_len"] = 16250
            c["exact16k"] = which
            cfgs.append(c)
        with cf.ThreadPoolExecutor(max_workers=8) as ex:
            runs = list(ex.map(lambda c: proc.run(binary, c, self.seed + c["qos_lens"][0]), [c for c in cfgs if not c.get("exact16k")]))
        # the exact-16384 runs size their message with the reference encoder's (module-wide) size probe: one at a time
        runs += [proc.run(binary, c, self.seed + c["qos_lens"][0]) for c in cfgs if c.get("exact16k")]
        rows = []
        for c, r in zip(cfgs, runs):
            q = c["qos_lens"][0]
            reported = {}
            for m in re.finditer(r"VERIF-SESSION imsi-(\d+) (\S+) (\d+) (\S+)", r["stdout"]):
                reported[m.group(1)] = (m.group(2), int(m.group(3)), m.group(4))
            exp = {}
            for ue in r["amf"].ues.values():
                if hasattr(ue, "ip"):
                    exp[ue.supi] = (".".join(str(b) for b in ue.ip), int.from_bytes(ue.teid, "big"), ".".join(str(b) for b in ue.upf))
            with self._lock:
                self.cov["evaluations"] += 1
                self._distinct.add("establish-%d" % q)
            rows.append({"qos_rules_octets": q, "flow_descriptions_octets": c.get("flow_desc_len", 0), "rc": r["rc"], "verdict": r["verdict"], "reported": reported, "assigned": exp})
            if r["rc"] != 0 or not exp or reported != exp:
                self.violation({"theorem_or_stream": "process: EstablishPDU against the reference SMF", "input": {"qos_rules_octets": q, "flow_descriptions_octets": c.get("flow_desc_len", 0), "imsi": c["imsi"],
                                                                                                                 "granted_snssai": ["as requested", "SST 1 without SD", "another slice (2/aabbcc)", "SST ff without SD"][c.get("snssai_shift", 0) % 4]},
                                "observed": {"rc": r["rc"], "verdict": r["verdict"], "reported": reported, "stdout": r["stdout"][-500:]}, "expected": {"assigned": exp},
                                "why": "the emulator did not report the assigned UE address / TEID / UPF address for a well-formed setup request"})
        self.cov["establish"] = rows

