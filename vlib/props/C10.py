"""C10 — downlink NAS messages from a conformant AMF are recovered exactly (tglib.NASDecode / GetNasPdu, security.Count)."""
import concurrent.futures as cf
from .. import common as C
from ..prop import Check, Stream
from . import NasSecLib as L

COQ_HDR = ("From Coq Require Import NArith ZArith List Bool.\nImport ListNotations.\n"
           "Require Import NasSec RefNasPeer NasSecInst.\nOpen Scope N_scope.\n")


def scenario(rng, ia, ea, kind, n, lead_newctx):
    """a downlink history of the reference AMF: (plain, hdr, d) items; d chosen so that the history crosses the
    boundary `kind` (python only does the COUNT arithmetic needed to aim; the packets come from the Coq sender)"""
    short = (ia == 1 or ea == 1)
    back = rng.range(1, 60 if n < 8 else 300)
    ovf0, sqn0 = L.boundary_start(kind, back)
    items = []
    if lead_newctx:
        items.append((L.pick_msg(rng, short), rng.choice([3, 4]), rng.range(1, 255)))
    for i in range(n):
        r = rng.below(10)
        if r == 0:
            hdr = 0
        elif r == 1 and i > 2:
            hdr = rng.choice([3, 4])
        else:
            hdr = rng.choice([1, 2, 2])
        d = rng.choice([1, 1, 2, 255, 254, 128, rng.range(1, 255), rng.range(1, 255), rng.range(200, 255)])
        items.append((L.pick_msg(rng, short), hdr, d))
    return {"ea": ea, "ia": ia, "kenc": rng.bytes(16).hex(), "kint": rng.bytes(16).hex(), "kind": kind,
            "spec": {"last0": ovf0 * 256 + sqn0, "ovf0": ovf0, "sqn0": sqn0, "items": [[m.hex(), h, d] for m, h, d in items]}}


def coq_items(sc, with_pkts=None):
    out = []
    for i, (m, h, d) in enumerate(sc["spec"]["items"]):
        if with_pkts is None:
            out.append("(%s, %d, %d)" % (C.cN(bytes.fromhex(m)), h, d))
        else:
            out.append("(%s, %d, %d, %s)" % (C.cN(bytes.fromhex(m)), h, d, C.cN(bytes.fromhex(with_pkts[i]))))
    return "[" + "; ".join(out) + "]"


def reference_packets(scs):
    """run the Coq reference sender (Spec/RefNasPeer.v dl_history with the TS 33.401 algorithms) on the scenarios"""
    def work(group):
        txt = COQ_HDR + "Eval vm_compute in [\n" + ";\n".join(
            "map snd (dl_history nea_s nia_s (mk_ctx %d %d %s %s) %d %s)" % (
                sc["ea"], sc["ia"], C.cN(bytes.fromhex(sc["kenc"])), C.cN(bytes.fromhex(sc["kint"])), sc["spec"]["last0"], coq_items(sc))
            for sc in group) + "\n].\n"
        rc, out = C.coq_eval(txt, name="RefSender", timeout=900)
        if rc != 0:
            raise RuntimeError("reference sender does not evaluate:\n" + out[-2000:])
        return L.parse_coq_value(out)
    groups = [scs[i:i + 4] for i in range(0, len(scs), 4)]
    with cf.ThreadPoolExecutor(max_workers=min(C.NCPU, max(1, len(groups)))) as ex:
        res = [r for g in ex.map(work, groups) for r in g]
    for sc, pk in zip(scs, res):
        if len(pk) != len(sc["spec"]["items"]) or any(p is None for p in pk):
            raise RuntimeError("reference sender refused a supported algorithm pair: %r" % (sc,))
        pkts = [bytes(p).hex() for p in pk]
        sc["ops"] = [{"op": "setdl", "ovf": sc["spec"]["ovf0"], "sqn": sc["spec"]["sqn0"]}] + [{"op": "recv", "pkt": p} for p in pkts]
    return scs


class DlHistories(Stream):
    """histories protected by the reference AMF (Coq, shares no code with Go): plain, types 1/3 in clear, 2/4 ciphered,
    sequence number advancing by 1..255 with several wraps, across 65535->65536 and 2^24-1->0, new-context resets"""
    name, sub = "dl-histories", "nashist"
    requires = ["NasSec", "RefNasPeer", "NasSecInst"]
    shard = 3
    eval_timeout = 1500
    model_check = "c10_model_check"
    spec_check = "c10_spec_check"
    model_out = "(fun c : c10_case => hist_model (fst c))"

    def generate(self, rng, tier):
        quick = tier == "quick"
        scs = []
        for ia, ea in L.PAIRS:
            slow = ia == 1 or ea == 1
            for kind in ("octet", "carry", "wrap24"):
                n = (8 if slow else 20) if quick else (16 if slow else 40)
                scs.append(scenario(rng, ia, ea, kind, n, rng.chance(1, 3)))
        for ia, ea in [(2, 0), (2, 2)]:
            scs.append(scenario(rng, ia, ea, "wrap24", 38, True))
        for i in range(30 if quick else 400):
            ia, ea = rng.choice(L.PAIRS)
            slow = ia == 1 or ea == 1
            n = rng.range(1, 8 if slow else 40) if quick else rng.range(1, 40)
            scs.append(scenario(rng, ia, ea, rng.choice(["octet", "carry", "wrap24", "mid"]), n, rng.chance(1, 2)))
        # messages longer than 4096 octets (DL NAS TRANSPORT with a large payload container), ciphered
        for ia, ea in ([(2, 2), (1, 1)] if quick else L.PAIRS):
            sc = scenario(rng, ia, ea, "mid", 2, False)
            sc["spec"]["items"].append([L.long_msg(rng, rng.choice([4100, 4200, 5000]), False).hex(), 2, 1])
            sc["spec"]["items"].append([L.pick_msg(rng, True).hex(), 2, 1])
            sc["kind"] = "long-message"
            scs.append(sc)
        # legal but unusual keys: all zero, all one (0^128 is a possible KDF output)
        for j, (ia, ea) in enumerate([(2, 2), (1, 1), (2, 1), (1, 2)] if quick else L.PAIRS + [(2, 2), (1, 1)]):
            sc = scenario(rng, ia, ea, "octet", 4, j % 2 == 0)
            sc["kint"], sc["kenc"] = [("00" * 16, "00" * 16), ("00" * 16, rng.bytes(16).hex()), (rng.bytes(16).hex(), "00" * 16), ("ff" * 16, "ff" * 16)][j % 4]
            sc["kind"] = "boundary-keys"
            scs.append(sc)
        # a new security context taken into use exactly when the sequence number has wrapped (COUNT 256k, SQN 0, then SQN 0 again
        # under the new context)
        for j, (ia, ea) in enumerate([(2, 2), (1, 1), (2, 0)] if quick else L.PAIRS):
            sc = scenario(rng, ia, ea, "octet", 0, False)
            k256 = [256, 512, 65536][j % 3]
            sc["spec"]["last0"], sc["spec"]["ovf0"], sc["spec"]["sqn0"] = k256 - 1, ((k256 - 1) >> 8) & 0xffff, (k256 - 1) & 0xff
            sc["spec"]["items"] = [[L.pick_msg(rng, True).hex(), 2, 1], [L.pick_msg(rng, True).hex(), [3, 4][j % 2], 1], [L.pick_msg(rng, True).hex(), 2, 1], [L.pick_msg(rng, True).hex(), 2, 1]]
            sc["kind"] = "new-context-at-wrap"
            scs.append(sc)
        scs += self.plain_looking(rng)
        return reference_packets(scs)

    def plain_looking(self, rng):
        """histories in which a ciphered message's first octets equal the plain ones
        (a COUNT whose keystream begins 00 00, found with the implementation's own cipher as a search aid), i.e. a
        ciphertext that looks like a plain 5GMM message"""
        import os
        h = os.path.join(C.BIN, "harness")
        out = []
        for ea in (2, 1):
            for attempt in range(3):
                kenc = rng.bytes(16).hex()
                try:
                    r = C.harness_call(h, "kssearch", [{"alg": ea, "key": kenc, "bearer": 1, "dir": 1, "want": "0000", "from": 300, "tries": 1 << 19}], timeout=300)[0]
                except Exception:
                    break
                if "count" not in r:
                    continue
                cnt = int(r["count"])
                sc = scenario(rng, 2, ea, "mid", 0, False)
                sc["kenc"] = kenc
                sc["spec"]["last0"], sc["spec"]["ovf0"], sc["spec"]["sqn0"] = cnt - 1, ((cnt - 1) >> 8) & 0xffff, (cnt - 1) & 0xff
                sc["spec"]["items"] = [[L.pick_msg(rng, True).hex(), 2, 1], [L.pick_msg(rng, True).hex(), 2, 1]]
                sc["kind"] = "ciphertext-looks-plain"
                out.append(sc)
                break
        return out

    def go_case(self, c):
        return c

    def from_replay(self, c):
        return c

    def classify(self, c, o):
        hd = "".join(sorted(set(str(i[1]) for i in c["spec"]["items"])))
        return "nia%d-nea%d/%s/hdr%s" % (c["ia"], c["ea"], c["kind"], hd)

    def coq_case(self, c, o):
        pkts = [op["pkt"] for op in c["ops"][1:]]
        return "((%s, (%d, %s)) : c10_case)" % (L.hist_coq(c, o), c["spec"]["last0"], coq_items(c, pkts))

    def direct_check(self, c, o):
        return L.harness_ok(c, o)


class DlMalformed(Stream):
    """outside the claim, model only: truncated packets (the explicit panics of payload[0:6], payload[6], payload[3:],
    byteArray[1]), wrong MACs, header octets above 4, repeated and non-advancing sequence numbers, unsupported
    algorithm identifiers, the NIA0 branch, sends between the receptions"""
    name, sub = "dl-malformed", "nashist"
    requires = ["NasSec", "RefNasPeer", "NasSecInst"]
    shard = 8
    eval_timeout = 1500
    model_check = "hist_check"
    model_out = "hist_model"

    def generate(self, rng, tier):
        cs = []
        n = 60 if tier == "quick" else 900
        for i in range(n):
            ia, ea = rng.choice([(2, 0), (2, 2), (1, 0), (2, 1), (1, 1)])
            k = i % 6
            kind = ["trunc", "bad-ea", "bad-ia", "nia0", "bad-hdr", "sqn-games"][k]
            if kind == "bad-ea":
                ea = rng.choice([3, 4, 200, 255])
            elif kind == "bad-ia":
                ia = rng.choice([3, 4, 200, 255])
            elif kind == "nia0":
                ia = 0; ea = rng.choice([0, 0, 1, 2, 3])
            ops = []
            if rng.chance(2, 3):
                ops.append({"op": "setdl", "ovf": rng.choice([0, 255, 65535, rng.below(65536)]), "sqn": rng.choice([0, 254, 255, rng.below(256)])})
            sqn = rng.below(256)
            for j in range(rng.range(2, 7)):
                m = L.pick_msg(rng, True)
                t = rng.choice([0, 1, 2, 3, 4, 1, 2])
                if kind == "bad-hdr" and rng.chance(1, 2):
                    t = rng.choice([5, 6, 15, 16, 0x12, 128, 255])
                if kind == "sqn-games":
                    sqn = rng.choice([sqn, sqn, (sqn - 1) % 256, (sqn + 1) % 256, 0, 255, rng.below(256)])
                else:
                    sqn = rng.below(256)
                pkt = m if t == 0 else bytes([0x7e, t]) + rng.bytes(4) + bytes([sqn]) + m
                canon = (t == 0) or (ia != 0 and (ea == 0 or t not in (2, 4)))
                if kind == "trunc" or rng.chance(1, 6):
                    pkt = pkt[:rng.below(9)]; canon = False
                ops.append({"op": "recv", "pkt": pkt.hex(), "canon": canon})
                if rng.chance(1, 5):
                    ops.append({"op": "send", "pdu": L.pick_msg(rng, True).hex(), "hdr": rng.range(1, 4), "avail": True, "newctx": rng.chance(1, 2)})
            cs.append({"ea": ea, "ia": ia, "kenc": rng.bytes(16).hex(), "kint": rng.bytes(16).hex(), "ops": ops, "kind": kind})
        return cs

    def go_case(self, c):
        return c

    def classify(self, c, o):
        steps = o.get("steps") or []
        return "%s/%s" % (c["kind"], "+".join(sorted(set("panic" if "panic" in s else "err" if "err" in s else "ok" for s in steps))))

    def coq_case(self, c, o):
        return L.hist_coq(c, o)

    def direct_check(self, c, o):
        return L.harness_ok(c, o)


class Concurrent(Stream):
    """8 UEs with different algorithm pairs receive and recover their messages at once: each recovers what it recovers alone"""
    name = "concurrent"
    sub = "conc"
    model_check = None
    spec_check = None
    requires = []

    def generate(self, rng, tier):
        return [{"family": "nas_unprotect", "goroutines": 8, "iters": 400 if tier == "quick" else 6000}]

    def classify(self, c, o):
        return "same" if o.get("different") == 0 else "different"

    def key(self, c, o):
        return "nas-unprotect-conc"

    def coq_case(self, c, o):
        return ""

    def direct_check(self, c, o):
        if o.get("different", 1) != 0 or "harness_error" in o or "panic" in o:
            return "concurrent reception by different UEs changes what is recovered: %s" % (o.get("first") or o)
        if "NOT-RECOVERED" in str(o.get("sample")):
            return "the plain message is not recovered: %s" % o.get("sample")
        return None


class KeySweep(Stream):
    """300 000 different keys used one after the other in one process under 128-NEA2 and 128-NIA2: every result must be what
    AES-CTR / AES-CMAC (Go standard library, computed from that call's own key and parameters) gives — whatever keys were
    used before (a cache of key schedules indexed by anything shorter than the key would show here)"""
    name = "key-sweep"
    sub = "manykeys"
    harness_timeout = 1800
    model_check = None
    spec_check = None
    requires = []
    history_dependent = False

    def generate(self, rng, tier):
        # when a proof obligation broke (e.g. the AES functions started to keep state) the sweep is a hundred times longer
        return [{"n": 30000000 if getattr(self, "search", False) else 300000 if tier == "quick" else 3000000, "seed": rng.below(1 << 30)}]

    def classify(self, c, o):
        return "all-equal" if o.get("first_bad") == -1 else "differs"

    def key(self, c, o):
        return "key-sweep"

    def coq_case(self, c, o):
        return ""

    def direct_check(self, c, o):
        if o.get("first_bad", 0) != -1:
            return "after %s other keys were used in this process, %s under key %s (COUNT %s, BEARER %s, DIRECTION %s, message %s) gives %s; AES with that key gives %s" % (
                o.get("first_bad"), o.get("what"), o.get("key"), o.get("count"), o.get("bearer"), o.get("dir"), o.get("msg"), o.get("got"), o.get("want"))
        return None


class C10(L.ShrinkMixin, Check):
    pid = "C10"
    prop_files = ["Properties/C10.v"]
    streams = [DlHistories(), DlMalformed(), Concurrent(), KeySweep()]

    def regen(self, harness):
        from .C20 import C20
        return C20.regen(self, harness)         # Gen/Footprints.v (go/ssa): c10_aes_algorithms_keep_no_package_state
    trusted = ["Coq 8.16.1 kernel incl. vm_compute (no native_compute)", "no axioms (Print Assumptions: closed under the global context)",
               "hand-written models Model/Count.v, Model/NasSec.v (transcriptions of counter.go, tglib/security.go NASDecode, decode.go GetNasPdu's "
               "use of GetSecurityHeaderType) tied by the history streams dl-histories / dl-malformed: octets and both counters after every op",
               "the packets of dl-histories are produced by the Coq reference AMF Spec/RefNasPeer.v (dl_history) with the algorithms of Spec/TS33401B.v "
               "and re-derived from the parameters inside every cases.v; no code is shared with the Go side",
               "Model/Security.v (C07) supplies NASEncrypt / NASMacCalculate for execution; the theorems are parametric in the two functions",
               "the NAS codec is outside (C08): the harness re-encodes the returned message with PlainNasEncode; messages are canonical ones "
               "(constructor-built, PlainNasEncode . PlainNasDecode = id, checked by harness command nasmsgs)",
               "Go harness cmd_nassec.go calls the real tglib.GetNasPdu on a DOWNLINK NAS TRANSPORT value carrying the NAS-PDU; the NGAP wrapping of the NAS-PDU is C04/C13's"]
    assumptions = ["algorithm pairs {NIA1,NIA2} x {NEA0,NEA1,NEA2}; NIA0 branch, unsupported identifiers, header octets above 4, truncated packets: model only",
                   "sequence number advance d with 1 <= d <= 255 between consecutive protected messages of one context (an advance of 256 or more is not "
                   "distinguishable by any receiver)",
                   "plain messages carry security header type 0 in their second octet (TS 24.501 9.3)",
                   "a failed MAC check is only printed by the code and not part of the statement",
                   "the theorems assume of the two algorithms only: a result on the inputs used, 4 MAC octets, deciphering inverts ciphering (C07: c07_cipher_involutive)"]
