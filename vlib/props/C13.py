"""C13 — gNB-side NGAP messages carry the caller's values and all mandatory IEs.

One case = one history of the package-level TestPlmn: an ordered list of calls of the 14 build-and-encode
wrappers of tglib/packet.go (harness `getmsg`).  Three oracles per call:
  * direct_check (Python): the bytes are decoded by the independent X.691 reference decoder refamf/perdec.py
    (frozen golden schema) and must give procedure code, class, the IE ids/criticalities of the TS 38.413
    clause 9.2 table and the argument values back; out-of-range arguments must give an error, never bytes;
  * spec_check (Coq): the same judgement with the Coq APER decoder model and Spec/TS38413.v;
  * model_check (Coq): the regenerated template (Gen/Builders.v, sentinel probing) instantiated with the
    arguments and encoded by the APER encoder model gives exactly the Go bytes / both refuse."""
import os, sys
from .. import common as C, gen
from ..prop import Check, Stream

sys.path.insert(0, os.path.join(C.VERIF, "refamf"))

REJECT, IGNORE, NOTIFY = 0, 1, 2
INIT, SUCC, UNSUCC = 1, 2, 3

# ---- Python copy of Spec/TS38413.v (the emulator's eight messages: IE id, presence, assigned criticality);
# C13.extra() has Coq compare this copy with the Coq text on every run.
TS = {
    "NGSetupRequest": dict(proc=21, cls=INIT, crit=REJECT, ies=[(27, "M", REJECT), (82, "O", IGNORE), (102, "M", REJECT), (21, "M", IGNORE), (147, "O", IGNORE)]),
    "InitialUEMessage": dict(proc=15, cls=INIT, crit=IGNORE, ies=[(85, "M", REJECT), (38, "M", REJECT), (121, "M", REJECT), (90, "M", IGNORE), (26, "O", REJECT),
                                                                  (3, "O", IGNORE), (112, "O", IGNORE), (0, "O", REJECT)]),
    "UplinkNASTransport": dict(proc=46, cls=INIT, crit=IGNORE, ies=[(10, "M", REJECT), (85, "M", REJECT), (38, "M", REJECT), (121, "M", IGNORE)]),
    "InitialContextSetupResponse": dict(proc=14, cls=SUCC, crit=REJECT, ies=[(10, "M", IGNORE), (85, "M", IGNORE), (72, "O", IGNORE), (55, "O", IGNORE), (19, "O", IGNORE)]),
    "PDUSessionResourceSetupResponse": dict(proc=29, cls=SUCC, crit=REJECT, ies=[(10, "M", IGNORE), (85, "M", IGNORE), (75, "O", IGNORE), (58, "O", IGNORE), (19, "O", IGNORE)]),
    "PDUSessionResourceReleaseResponse": dict(proc=28, cls=SUCC, crit=REJECT, ies=[(10, "M", IGNORE), (85, "M", IGNORE), (70, "M", IGNORE), (121, "O", IGNORE), (19, "O", IGNORE)]),
    "UEContextReleaseComplete": dict(proc=41, cls=SUCC, crit=REJECT, ies=[(10, "M", IGNORE), (85, "M", IGNORE), (121, "O", IGNORE), (32, "O", IGNORE), (60, "O", REJECT), (19, "O", IGNORE)]),
    "UEContextReleaseRequest": dict(proc=42, cls=INIT, crit=IGNORE, ies=[(10, "M", REJECT), (85, "M", REJECT), (133, "O", REJECT), (15, "M", IGNORE)]),
    # procedure code and class only (the emulator does not send these)
    "PathSwitchRequest": dict(proc=25, cls=INIT),
    "HandoverRequired": dict(proc=12, cls=INIT),
    "HandoverRequestAcknowledge": dict(proc=13, cls=SUCC),
    "HandoverNotify": dict(proc=11, cls=INIT),
}

# wrapper -> message, argument keys, and where TS 38.413 puts each argument
WRAPPERS = {
    "GetNGSetupRequest": ("NGSetupRequest", ["gnbid", "plmn", "bits", "name"]),
    "GetInitialUEMessage": ("InitialUEMessage", ["ran", "nas", "tmsi"]),
    "GetUplinkNASTransport": ("UplinkNASTransport", ["amf", "ran", "nas"]),
    "GetInitialContextSetupResponse": ("InitialContextSetupResponse", ["amf", "ran"]),
    "GetInitialContextSetupResponseForServiceRequest": ("InitialContextSetupResponse", ["amf", "ran", "pdu", "ipv4"]),
    "GetPDUSessionResourceSetupResponse": ("PDUSessionResourceSetupResponse", ["amf", "ran", "pdu", "ipv4"]),
    "GetUEContextReleaseComplete": ("UEContextReleaseComplete", ["amf", "ran", "ids"]),
    "GetUEContextReleaseRequest": ("UEContextReleaseRequest", ["amf", "ran", "ids"]),
    "GetPDUSessionResourceReleaseResponse": ("PDUSessionResourceReleaseResponse", ["amf", "ran", "pdu"]),
    "GetPathSwitchRequest": ("PathSwitchRequest", ["amf", "ran"]),
    "GetHandoverRequired": ("HandoverRequired", ["amf", "ran", "tgnb", "tcell"]),
    "GetHandoverRequestAcknowledge": ("HandoverRequestAcknowledge", ["amf", "ran"]),
    "GetHandoverNotify": ("HandoverNotify", ["amf", "ran"]),
    "GetPDUSessionResourceSetupResponseForPaging": ("PDUSessionResourceSetupResponse", ["amf", "ran", "ipv4"]),
}
EMULATOR = ["GetNGSetupRequest", "GetInitialUEMessage", "GetUplinkNASTransport", "GetInitialContextSetupResponse",
            "GetInitialContextSetupResponseForServiceRequest", "GetPDUSessionResourceSetupResponse", "GetUEContextReleaseComplete",
            "GetUEContextReleaseRequest", "GetPDUSessionResourceReleaseResponse"]
SESSION_LIST_IE = {"InitialContextSetupResponse": 72, "PDUSessionResourceSetupResponse": 75, "PDUSessionResourceReleaseResponse": 70,
                   "UEContextReleaseComplete": 60, "UEContextReleaseRequest": 133}
AMF_ID_IE = {"PathSwitchRequest": 100}          # Source AMF UE NGAP ID there; AMF UE NGAP ID (10) everywhere else


# ---- navigation in the reference decoder's positional trees by the field names of the golden schema
def _types():
    import per
    return per.TYPES


def fld(tname, v, name):
    """(type name, value) of field `name` of struct value v of type tname (pointers looked through)"""
    T = _types()
    t = T[tname]
    while t["kind"] == "ptr":
        tname = t["elem"]
        t = T[tname]
    for i, f in enumerate(t["fields"]):
        if f["name"] == name:
            ft = f["type"]
            while T[ft]["kind"] == "ptr":
                ft = T[ft]["elem"]
            return ft, v[i]
    raise KeyError(name)


def path(tname, v, *names):
    for n in names:
        if isinstance(n, int):
            T = _types()
            tname, v = T[tname]["elem"], v[n]
            while T[tname]["kind"] == "ptr":
                tname = T[tname]["elem"]
        else:
            tname, v = fld(tname, v, n)
    return tname, v


def ip_octets(s):
    return bytes(int(x) for x in s.split("."))


def mask_bits(b, nbits):
    """the octets of a BIT STRING of nbits bits taken from b (unused low bits of the last octet cleared)"""
    n = (nbits + 7) // 8
    b = bytearray(b[:n])
    if nbits % 8 and len(b) == n:
        b[-1] &= (0xFF << (8 - nbits % 8)) & 0xFF
    return bytes(b)


def in_range(fn, c):
    """the argument tuple is inside the ASN.1 ranges of the IEs it is meant for"""
    ok = True
    if "amf" in c:
        ok &= 0 <= int(c["amf"]) < 2 ** 40
    if "ran" in c:
        ok &= 0 <= int(c["ran"]) < 2 ** 32
    if "pdu" in c:
        ok &= 0 <= int(c["pdu"]) <= 255
    if c.get("ids") is not None:
        ok &= 1 <= len(c["ids"]) <= 256 and all(0 <= int(x) <= 255 for x in c["ids"])
    if fn == "GetNGSetupRequest":
        ok &= len(bytes.fromhex(c["plmn"])) == 3 and 22 <= int(c["bits"]) <= 32 and 1 <= len(bytes.fromhex(c["name"])) <= NAME_MAX[0]
    return bool(ok)


# 150 = the extension root of RANNodeName (SIZE(1..150, ...)), the range the wrappers stream and the Coq builder model use; the
# long-names stream judges legal extension values (up to 400 characters) and raises it for its own calls
NAME_MAX = [150]


def judge_call(c, o, plmn):
    """independent judgement of one wrapper call from its observable alone; plmn = PLMN announced by the last
    preceding GetNGSetupRequest call (None when there was none).  Returns None or a message."""
    import perdec
    fn = c["fn"]
    msg, keys = WRAPPERS[fn]
    if "panic" in o:
        return "%s panicked: %s" % (fn, o["panic"][:200])
    if not in_range(fn, c):
        if "hex" in o:
            return "%s: out-of-range argument was encoded (bytes %s...) instead of refused" % (fn, o["hex"][:60])
        return None
    if "err" in o:
        return "%s refused in-range arguments: %s" % (fn, o["err"][:200])
    try:
        v = perdec.decode("ngapType.NGAPPDU", "valueExt,valueLB:0,valueUB:2", bytes.fromhex(o["hex"]))
        cls, proc, ies = perdec.pdu_info(v)
        iel = perdec.ie_list(ies)
    except Exception as e:            # the reference decoder cannot read what the wrapper produced
        return "%s: reference decoder rejects the bytes: %r" % (fn, e)
    ts = TS[msg]
    if (proc, cls) != (ts["proc"], ts["cls"]):
        return "%s: procedure code/class %d/%d, TS 38.413 %s is %d/%d" % (fn, proc, cls, msg, ts["proc"], ts["cls"])
    mcrit = int(v[cls][1][0])
    if "crit" in ts and mcrit != ts["crit"]:
        return "%s: message criticality %d, TS 38.413: %d" % (fn, mcrit, ts["crit"])
    if any(val is None for (_, _, val) in iel):
        return "%s: an IE id outside the message's IE set occurs: %r" % (fn, [i for (i, _, val) in iel if val is None])
    ids = [i for (i, _, _) in iel]
    if "ies" in ts:
        table = {i: (pres, crit) for (i, pres, crit) in ts["ies"]}
        for (i, crit, val) in iel:
            if i not in table:
                return "%s: IE id %d is not in the TS 38.413 table of %s" % (fn, i, msg)
            if crit != table[i][1]:
                return "%s: IE id %d has criticality %d, TS 38.413: %d" % (fn, i, crit, table[i][1])
        for (i, pres, crit) in ts["ies"]:
            if pres == "M" and i not in ids:
                return "%s: mandatory IE id %d of %s is missing" % (fn, i, msg)
        order = [i for (i, _, _) in ts["ies"] if i in ids]
        if ids != order:
            return "%s: IE ids %r are not in the order of the TS 38.413 table (or repeated)" % (fn, ids)
    byid = {i: val for (i, _, val) in iel}
    tn = lambda n: "ngapType." + n

    def want(what, got, exp):
        return None if got == exp else "%s: %s found in the encoding is %r, the argument is %r" % (fn, what, got, exp)
    checks = []
    amf_ie = AMF_ID_IE.get(msg, 10)
    if "amf" in c:
        if amf_ie not in byid:
            return "%s: no AMF-UE-NGAP-ID IE (%d)" % (fn, amf_ie)
        checks.append(want("AMF-UE-NGAP-ID", int(byid[amf_ie][0]), int(c["amf"])))
    if "ran" in c:
        if 85 not in byid:
            return "%s: no RAN-UE-NGAP-ID IE" % fn
        checks.append(want("RAN-UE-NGAP-ID", int(byid[85][0]), int(c["ran"])))
    if "nas" in c:
        if 38 not in byid:
            return "%s: no NAS-PDU IE" % fn
        checks.append(want("NAS-PDU", byid[38][0]["hex"], c["nas"]))
    lst = SESSION_LIST_IE.get(msg)
    if "pdu" in c or c.get("ids") is not None or "ipv4" in c:
        if lst not in byid:
            return "%s: PDU session list IE %d missing" % (fn, lst)
        items = byid[lst][0]
        got_ids = [int(it[0][0]) for it in items]
        if "pdu" in c:
            checks.append(want("PDU session id (IE %d)" % lst, got_ids, [int(c["pdu"])]))
        if c.get("ids") is not None:
            checks.append(want("PDU session ids (IE %d)" % lst, got_ids, [int(x) for x in c["ids"]]))
        if "ipv4" in c:
            for it in items:
                try:
                    tr = perdec.decode(tn("PDUSessionResourceSetupResponseTransfer"), "valueExt", bytes.fromhex(it[1]["hex"]))
                    _, gtp = path(tn("PDUSessionResourceSetupResponseTransfer"), tr, "QosFlowPerTNLInformation", "UPTransportLayerInformation", "GTPTunnel")
                    _, addr = path(tn("GTPTunnel"), gtp, "TransportLayerAddress", "Value")
                except Exception as e:
                    return "%s: reference decoder cannot read the setup response transfer: %r" % (fn, e)
                checks.append(want("GTP transport layer address", (addr["hex"], int(addr["nbits"])), (ip_octets(c["ipv4"]).hex(), 32)))
    elif c.get("ids", 0) is None and lst in byid and msg in ("UEContextReleaseComplete", "UEContextReleaseRequest"):
        return "%s: a PDU session list IE %d is present although no list was given" % (fn, lst)
    if fn == "GetNGSetupRequest":
        _, g = path(tn("GlobalRANNodeID"), byid[27], "GlobalGNBID")
        if g is None:
            return "%s: Global RAN Node ID is not a global gNB id" % fn
        _, gp = path(tn("GlobalGNBID"), g, "PLMNIdentity", "Value")
        _, gid = path(tn("GlobalGNBID"), g, "GNBID", "GNBID")
        bits = int(c["bits"])
        checks.append(want("gNB id", (gid["hex"], int(gid["nbits"])), (mask_bits(bytes.fromhex(c["gnbid"]), bits).hex(), bits)))
        checks.append(want("PLMN of the global gNB id", gp["hex"], c["plmn"]))
        if 82 not in byid:
            return "%s: RAN node name missing" % fn
        checks.append(want("RAN node name", byid[82][0]["hex"], c["name"]))
        for ta in byid[102][0]:
            _, bl = fld(tn("SupportedTAItem"), ta, "BroadcastPLMNList")
            for bp in bl[0]:
                _, p = path(tn("BroadcastPLMNItem"), bp, "PLMNIdentity", "Value")
                checks.append(want("broadcast PLMN", p["hex"], c["plmn"]))
    elif plmn is not None and 121 in byid:
        _, nr = fld(tn("UserLocationInformation"), byid[121], "UserLocationInformationNR")
        if nr is None:
            return ("%s: user location information is not NR" % fn) if "ies" in ts else None
        _, p1 = path(tn("UserLocationInformationNR"), nr, "NRCGI", "PLMNIdentity", "Value")
        _, p2 = path(tn("UserLocationInformationNR"), nr, "TAI", "PLMNIdentity", "Value")
        checks.append(want("PLMN of the NR CGI", p1["hex"], plmn))
        checks.append(want("PLMN of the TAI", p2["hex"], plmn))
    for m in checks:
        if m:
            return m
    return None


def plmn_states(calls, results):
    """PLMN in force before each call: the plmn argument of the last GetNGSetupRequest call made before it
    (BuildNGSetupRequest stores it before anything can fail)"""
    cur, out = None, []
    for c in calls:
        out.append(cur)
        if c["fn"] == "GetNGSetupRequest":
            cur = c["plmn"]
    return out


# ---------------------------------------------------------------------------------------------- generator
AMF_VALUES = [0, 2 ** 40 - 1, 2 ** 40, -1, 2 ** 32, 2 ** 40 + 1, 1, 2 ** 39, 2 ** 63 - 1, -2 ** 63, 0x1111111111, 255, 256, 65535, 65536]
RAN_VALUES = [0, 2 ** 32 - 1, 2 ** 32, -1, 2 ** 40 - 1, 2 ** 31, 1, 2 ** 32 + 1, 2 ** 63 - 1, -2 ** 63, 0x22222222, 255, 256, 65535, 65536]
PDU_VALUES = [0, 255, 256, -1, 91, 257, 1, 15, 16, 511, 2 ** 32 + 5, 10000, -256]
NAS_LENS = [0, 1, 2, 3, 127, 128, 129, 255, 256, 1000, 4095, 5000]
PRINTABLE = "ABCDEFGHIJKLMNOPQRSTUVWXYZabcdefghijklmnopqrstuvwxyz0123456789 '()+,-./:=?"
TMSI_CONST = "fe0000000001"
LABEL = {"amf": "LAmf", "ran": "LRan", "nas": "LNas", "tmsi": "LTmsi", "pdu": "LPdu", "ipv4": "LIpv4", "ids": "LIds", "gnbid": "LGnbId",
         "plmn": "LPlmn", "bits": "LBits", "name": "LName", "tgnb": "LOther", "tcell": "LOther"}


def cz(z):
    return "(%d)%%Z" % z if z < 0 else "%d%%Z" % z


def coq_arg(k, v):
    if k in ("amf", "ran", "pdu", "bits"):
        a = "AInt %s" % cz(int(v))
    elif k in ("nas", "gnbid", "plmn", "name", "tgnb", "tcell"):
        a = "ABytes %s" % C.cN(bytes.fromhex(v))
    elif k == "tmsi":
        a = "ABytes %s" % C.cN(v.encode())
    elif k == "ipv4":
        a = "ABytes %s" % C.cN(ip_octets(v))
    elif k == "ids":
        a = "AInts None" if v is None else "AInts (Some [%s])" % ";".join(cz(int(x)) for x in v)
    else:
        raise ValueError(k)
    return "(%s, %s)" % (LABEL[k], a)


def coq_obs(r):
    if "panic" in r:
        return "OPanic"
    if "err" in r:
        return "OErr"
    return "(OHex %s)" % C.cN(bytes.fromhex(r["hex"]))


PLMNS = ["02f839", "00f110", "214365", "999999", "000000", "ffffff", "13f184"]


def gen_args(rng, fn, i):
    """argument tuple number i of wrapper fn: slot i%4 decides which identifier (AMF id, RAN id, session id(s), none)
    walks through its boundary list, so that every refusal has one cause; everything else is in range"""
    msg, keys = WRAPPERS[fn]
    widx = list(WRAPPERS).index(fn)
    slot, j = i % 4, i // 4
    c = {"fn": fn}

    def bnd(lst, rnd_in, rnd_any):
        if j < 6:                                   # every wrapper sees the bounds and their neighbours
            return lst[j]
        if j < 10:
            return lst[(j + 5 * widx) % len(lst)]
        return rnd_any() if rng.chance(1, 5) else rnd_in()
    for k in keys:
        if k == "amf":
            c[k] = str(bnd(AMF_VALUES, lambda: rng.below(2 ** 40), lambda: rng.range(-2 ** 41, 2 ** 41)) if slot == 0
                       else rng.choice([0, 2 ** 40 - 1, rng.below(2 ** 40), rng.below(2 ** 40)]))
        elif k == "ran":
            c[k] = str(bnd(RAN_VALUES, lambda: rng.below(2 ** 32), lambda: rng.range(-2 ** 33, 2 ** 33)) if slot == 1
                       else rng.choice([0, 2 ** 32 - 1, rng.below(2 ** 32), rng.below(2 ** 32)]))
        elif k == "pdu":
            c[k] = str(bnd(PDU_VALUES, lambda: rng.below(256), lambda: rng.range(-300, 600)) if slot == 2
                       else rng.choice([0, 255, rng.below(256), rng.below(256)]))
        elif k == "nas":
            n = NAS_LENS[(i + widx) % len(NAS_LENS)] if i < 2 * len(NAS_LENS) else rng.choice([rng.below(64), rng.below(5001)])
            c[k] = rng.bytes(n).hex()
        elif k == "tmsi":
            c[k] = "" if not rng.chance(1, 4) else TMSI_CONST      # the two forms the translator probes
        elif k == "ipv4":
            c[k] = rng.choice(["10.203.204.205", "0.0.0.0", "255.255.255.255", "%d.%d.%d.%d" % tuple(rng.below(256) for _ in range(4))])
        elif k == "ids":
            lists = [None, [5], [0, 255], [256], [-1], [], [1, 2, 3], [7, 300], list(range(1, 17)), list(range(256)), list(range(255)), [i % 256 for i in range(257)]]
            if slot == 2 and j < len(lists):
                c[k] = lists[j]
            else:
                c[k] = rng.choice([None, [rng.below(256)], [rng.below(256) for _ in range(rng.range(1, 6))]])
            if c[k] is not None:
                c[k] = [str(x) for x in c[k]]
        elif k == "tgnb":
            c[k] = rng.bytes(3).hex()
        elif k == "tcell":
            c[k] = rng.bytes(5).hex()
    return c


def gen_setup(rng, i, plmn=None):
    bits = 22 + i % 11 if i < 22 else rng.range(22, 32)
    n = (bits + 7) // 8
    gid = rng.bytes(n)
    if i % 2 == 0:
        gid = mask_bits(gid, bits)
    lens = [1, 2, 3, 7, 63, 64, 65, 127, 128, 129, 149, 150]
    ln = lens[i] if i < len(lens) else rng.range(1, 150)
    name = "".join(rng.choice(PRINTABLE) for _ in range(ln))
    if plmn is None:
        plmn = PLMNS[i] if i < len(PLMNS) else rng.bytes(3).hex()
    return {"fn": "GetNGSetupRequest", "gnbid": gid.hex(), "plmn": plmn, "bits": str(bits), "name": name.encode().hex()}


class Wrappers(Stream):
    name, sub = "wrappers", "getmsg"
    shard = 40
    requires = ["Coq.Strings.String", "GoSlice", "AperCommon", "AperEnc", "AperDec", "NgapSchema", "AperCheck", "BuildersT", "TS38413",
                "Builders", "Builders13"]
    model_check = "model_check"
    spec_check = "spec_check"
    model_out = "model_out"

    def coq_case(self, c, o):
        calls = []
        for call, r in zip(c["calls"], o["results"]):
            msg, keys = WRAPPERS[call["fn"]]
            calls.append('("%s"%%string, "%s"%%string, [%s], %s)' % (call["fn"], msg, "; ".join(coq_arg(k, call[k]) for k in keys), coq_obs(r)))
        return "(%s, [%s])" % (C.cN(bytes.fromhex(o["plmn0"])), ";\n  ".join(calls))

    def generate(self, rng, tier):
        per = 40 if tier == "quick" else 400
        cases = []
        # NG Setup itself: id lengths 22..32, names 1..150, PLMNs; a few PLMNs of the wrong size (refusal)
        for i in range(per + 12):
            cases.append({"calls": [gen_setup(rng, i)]})
        # every RAN node name length 1..150: each enclosing length determinant (IE value, message value) passes through
        # 127/128/129 for some name length (82 and 126 with the shipped id sizes)
        for ln in range(1, 151):
            c = gen_setup(rng, 60 + ln)
            c["name"] = "".join(rng.choice(PRINTABLE) for _ in range(ln)).encode().hex()
            cases.append({"calls": [c]})
        # NAS-PDU lengths sweeping the same boundary for the IE value and the message value of the NAS carrying messages
        for fn in ("GetUplinkNASTransport", "GetInitialUEMessage"):
            for ln in range(96, 132):
                c = gen_args(rng, fn, 4 * 11 + 3)
                c["nas"] = rng.bytes(ln).hex()
                cases.append({"calls": [gen_setup(rng, 100 + ln), c]})
        for bad in ["02f8", "02f83900", ""]:
            cases.append({"calls": [gen_setup(rng, 50, plmn=bad)]})
        # two setups in one history: the second PLMN replaces the first
        for i in range(4):
            cases.append({"calls": [gen_setup(rng, 30 + i), gen_args(rng, "GetUplinkNASTransport", 40), gen_setup(rng, 40 + i),
                                    gen_args(rng, "GetUplinkNASTransport", 41), gen_args(rng, "GetUEContextReleaseComplete", 43)]})
        for fn in WRAPPERS:
            if fn == "GetNGSetupRequest":
                continue
            n = per if fn in EMULATOR else max(6, per // 4)
            if fn in ("GetUplinkNASTransport", "GetInitialUEMessage", "GetPDUSessionResourceSetupResponse"):
                n = per * 2
            for i in range(n):
                calls = []
                if i % 5 != 4:                       # most histories start with NG Setup, as the emulator does
                    calls.append(gen_setup(rng, 100 + i))
                calls.append(gen_args(rng, fn, i))
                cases.append({"calls": calls})
        return cases

    def go_case(self, c):
        return {"calls": c["calls"], "value": False}

    def classify(self, c, o):
        fn = c["calls"][-1]["fn"]
        r = o["results"][-1]
        return fn + ":" + ("panic" if "panic" in r else "err" if "err" in r else "ok")

    def key(self, c, o):
        import json
        return json.dumps([c["calls"], [r.get("hex", r.get("err", "panic")) for r in o["results"]]], sort_keys=True)

    def direct_check(self, c, o):
        res = o.get("results")
        if res is None or len(res) != len(c["calls"]):
            return "harness returned no result list: %r" % (o,)
        for call, r, plmn in zip(c["calls"], res, plmn_states(c["calls"], res)):
            m = judge_call(call, r, plmn)
            if m:
                return m
        return None

    def known(self, c, o):
        return None


OUTSIDE_CLAUSE = {
    # builders the emulator never calls whose output departs from TS 38.413: outside the property's criticality clause,
    # reported as findings and never as violations
    "BuildHandoverNotify": ("C13:HandoverNotify:UserLocationInformation-criticality",
                            "BuildHandoverNotify/GetHandoverNotify mark UserLocationInformation (IE 121) 'reject'; TS 38.413 9.2.3.8 assigns 'ignore' (not sent by the emulator)"),
    "GetHandoverNotify": ("C13:HandoverNotify:UserLocationInformation-criticality",
                          "BuildHandoverNotify/GetHandoverNotify mark UserLocationInformation (IE 121) 'reject'; TS 38.413 9.2.3.8 assigns 'ignore' (not sent by the emulator)"),
    "BuildHandoverFailure": ("C13:HandoverFailure:message-criticality",
                             "BuildHandoverFailure sets the unsuccessful outcome's criticality to 'ignore'; the Handover Resource Allocation procedure is 'reject' (not sent by the emulator)"),
}


class LongNames(Wrappers):
    """RAN node names beyond the extension root of RANNodeName (SIZE(1..150, ...)): legal extension values, judged by the
    independent decoder alone (the Coq builder model covers the root range)"""
    name = "long-names"
    model_check = None
    spec_check = None
    model_out = None

    def generate(self, rng, tier):
        cases = []
        for ln in [151, 152, 200, 255, 256, 400]:
            c = gen_setup(rng, 60 + ln)
            c["name"] = "".join(rng.choice(PRINTABLE) for _ in range(ln)).encode().hex()
            cases.append({"calls": [c]})
        return cases

    def direct_check(self, c, o):
        plmn = None
        for call, res in zip(c["calls"], o.get("results", [])):
            if "hex" not in res:
                return "%s refuses a RAN node name of %d characters (a legal extension value): %s" % (call["fn"], len(call["name"]) // 2, res.get("err") or res.get("panic"))
            NAME_MAX[0] = 400
            try:
                msg = judge_call(call, res, plmn)
            finally:
                NAME_MAX[0] = 150
            if msg:
                return "%s: %s" % (call["fn"], msg)
        return None


# builders of messages that TS 38.413 clause 8 has the AMF send to the NG-RAN node (never a gNB-side message): the property
# does not speak about them; the stream still compares their outcome with the model's (four of them, and the two empty
# stubs, are refused by the encoder on the pinned tree because the builder leaves a mandatory list empty)
AMF_ORIGINATED = {"BuildAMFConfigurationUpdate", "BuildAMFStatusIndication", "BuildNGSetupResponse", "BuildOverloadStart", "BuildOverloadStop",
                  "BuildPDUSessionResourceModifyConfirm", "BuildPDUSessionResourceReleaseCommand", "BuildRanConfigurationUpdateAck",
                  "BuildRanConfigurationUpdateFailure", "BuildUERadioCapabilityCheckRequest", "BuildUETNLABindingReleaseRequest"}


class BuildersEnc(Stream):
    """all library builders (the translator's table of 52 minus the two stubs), each called with the translator's three
    sentinel argument sets, list/TMSI arguments present and absent, and encoded with the real ngap.Encoder: the octets are
    the model's encode_call on the translated template, and no in-range call is refused"""
    name, sub = "builders-encode", "buildenc"
    shard = 60
    requires = Wrappers.requires
    model_check = "builder_enc_check"
    model_out = "builder_enc_out"
    history_dependent = False

    def generate(self, rng, tier):
        fns = C.harness_call(self.harness_path, "buildenc", [{"list": True, "root": C.REPO}])[0]["fns"]
        return [{"fn": fn, "set": k, "absent": a} for fn in fns for k in range(3) for a in (False, True)]

    def go_case(self, c):
        return dict(c, root=C.REPO)

    def coq_case(self, c, o):
        args = []
        for n, k, v in o["args"]:
            if k in ("KInt", "KUint"):
                a = "AInt %s" % cz(int(v))
            elif k in ("KBytes", "KIPv4", "KTmsi"):
                a = "ABytes %s" % C.cN(bytes.fromhex(v))
            elif k == "KInts":
                a = "AInts None" if v is None else "AInts (Some [%s])" % ";".join(cz(int(x)) for x in v)
            else:
                a = "AInts None"
            args.append('("%s"%%string, %s)' % (n, a))
        return '("%s"%%string, [%s], %s, %s)' % (c["fn"], "; ".join(args), C.cN(bytes.fromhex(o["plmn"])), coq_obs(o))

    def classify(self, c, o):
        return ("amf-originated:" if c["fn"] in AMF_ORIGINATED else "gnb-side:") + ("panic" if "panic" in o else "err" if "err" in o else "ok")

    def key(self, c, o):
        return "%s/%d/%s" % (c["fn"], c["set"], c["absent"])

    def direct_check(self, c, o):
        if "hex" not in o and c["fn"] not in AMF_ORIGINATED:
            return "%s refuses / fails on in-range arguments: %s" % (c["fn"], o.get("err") or o.get("panic"))
        return None

    def known(self, c, o):
        return None


class C13(Check):
    pid = "C13"
    title = "gNB-side NGAP messages carry the caller's values and all mandatory IEs"
    prop_files = ["Properties/C13.v"]
    extra_targets = ["Model/Builders13.vo"]          # the stream needs the executable model even when a proof breaks
    streams = [Wrappers(), LongNames(), BuildersEnc()]
    trusted = ["Coq 8.16.1 kernel incl. vm_compute (no native_compute)", "no axioms (Print Assumptions: closed under the global context)",
               "translator harness/gen_builders.go (gen-builders): sentinel probing of all 52 Build* functions and 14 Get* wrappers with three sentinel sets per variant, "
               "merged leaf by leaf (a leaf that differs without being a sentinel makes the translator fail for the emulator's messages); wrappers are probed through "
               "the library's own ngap.Decoder; regenerated into Gen/Builders.v on every run",
               "Spec/TS38413.v: procedure codes, classes, criticalities and the clause 9.2 IE tables of the emulator's eight messages (+ HANDOVER NOTIFY) transcribed from memory of "
               "TS 38.413 Rel-15; vlib/props/C13.py holds a Python copy which Coq compares with the Coq text on every run",
               "APER codec model of a colleague (Model/AperEnc.v, AperDec.v over Gen/NgapSchema.v), tied to the implementation by C03/C04 and, here, by every case of the stream",
               "refamf/perdec.py: independent X.691 decoder over the frozen golden schema (direct oracle)",
               "Model/Builders13.v builder_message / role_of_param: which message a function is meant to build and which parameter carries which identifier (hand-written glue)"]
    assumptions = ["the arguments of a builder influence its result only as values copied into the PDU (parametricity): checked by three-fold probing on every run and by the "
                   "random-argument stream, not proved from the Go source",
                   "fiveGSTmsi is exercised in the two forms \"\" (what the emulator passes) and \"fe0000000001\"; IPv4 arguments are well-formed dotted quads; gNB id octets match "
                   "the bit length; structured (pointer / struct-slice) arguments of the remaining Build* functions are probed as nil only",
                   "PLMN 'announced at NG Setup' = the mobilePLMN argument of the last GetNGSetupRequest call of the history; without such a call the package default 02f839 is "
                   "used by the code and only the model check applies to the PLMN"]

    def regen(self, harness):
        for st in self.streams:
            st.harness_path = harness
        changed = gen.regen(harness, {"NgapSchema.v"})
        if any(o == "Builders.v" for _, o, _ in gen.REGISTRY):
            changed += gen.regen(harness, {"Builders.v"})
        elif gen.run_translator(harness, "gen-builders", "Builders.v", (C.REPO,)):      # until the REGISTRY line is in vlib/gen.py
            changed.append("Builders.v")
        return changed

    def extra(self, harness, build_ok):
        import re
        rows = lambda ies: "[" + ";".join("(%d%%Z, %s, %d%%N)" % (i, "true" if p == "M" else "false", c) for i, p, c in ies) + "]"
        py = "[" + ";\n".join('("%s"%%string, (%d%%Z, %d%%Z, %d%%N), %s)' % (n, t["proc"], t["cls"], t.get("crit", 9), rows(t.get("ies", [])))
                               for n, t in TS.items()) + "]"
        txt = ("From Coq Require Import ZArith NArith List String Bool.\nRequire Import AperCommon BuildersT TS38413 Builders Builders13.\nImport ListNotations.\n"
               "Definition py_table : list (string * (Z * Z * N) * list (Z * bool * N)) := %s.\n"
               "Definition row_eqb (r : ie_row) (x : Z * bool * N) : bool := let '(i, m, c) := x in (r_id r =? i)%%Z && Bool.eqb (match r_pres r with PM => true | PO => false end) m && (crit_code (r_crit r) =? c)%%N.\n"
               "Fixpoint rows_eqb (a : list ie_row) (b : list (Z * bool * N)) : bool := match a, b with [], [] => true | x :: a', y :: b' => row_eqb x y && rows_eqb a' b' | _, _ => false end.\n"
               "Definition entry_ok (e : string * (Z * Z * N) * list (Z * bool * N)) : bool := let '(n, (pc, cl, cr), ies) := e in\n"
               "  match find_message n messages with Some m => match msg_proc m with Some p => (p_code p =? pc)%%Z && (class_code (m_class m) =? cl)%%Z &&\n"
               "    match m_ies m with Some rows => mem_str n emulator_messages && (crit_code (p_crit p) =? cr)%%N && rows_eqb rows ies || negb (mem_str n emulator_messages) | None => match ies with [] => true | _ => false end end\n"
               "  | None => false end | None => false end.\n"
               "Definition table_bad := Eval vm_compute in map (fun e => fst (fst e)) (filter (fun e => negb (entry_ok e)) py_table).\nPrint table_bad.\n"
               "Definition deviations := Eval vm_compute in other_deviations.\nPrint deviations.\n") % py
        rc, out = C.coq_eval(txt)
        flat = " ".join(out.split())
        mt = re.search(r"table_bad = (\[[^\]]*\]|nil)", flat)
        md = re.search(r"deviations = (\[[^\]]*\]|nil)", flat)
        if rc != 0 or not mt or not md:
            raise RuntimeError("cannot evaluate the table cross-check: " + out[-1200:])
        bad = re.findall(r'"([^"]+)"', mt.group(1))
        if bad:
            raise RuntimeError("the Python copy of the TS 38.413 tables differs from Spec/TS38413.v for: %s" % ", ".join(bad))
        devs = re.findall(r'"([^"]+)"', md.group(1))
        self.cov["deviations_outside_the_criticality_clause"] = devs
        for d in devs:
            if d in OUTSIDE_CLAUSE:
                self.known_finding(*OUTSIDE_CLAUSE[d])
            else:
                C.log("C13: %s departs from the transcribed TS 38.413 table (not sent by the emulator: outside the criticality clause)" % d)
