"""C09 — NAS wire layout follows the TS 24.501 message tables.

Tie: descriptors regenerated from the Go source (harness gen-nas) -> Properties/C09.v re-checked (layout of every message
against Spec/TS24501Tables.v); constructors of nasTestpacket run for real and read by the Coq reference parser;
messages built by the Coq reference encoder run through the real PlainNasDecode.
Sub-field layer (inside an IE value): accessor descriptors regenerated from nasType (harness gen-nasacc -> Gen/NasAccessors.v)
checked against the field table Spec/TS24501Fields.v (Properties/C09.v c09_accessors_*); the REAL getters/setters called
through reflection (harness nasacc) against model and table on the same inputs (stream "accessors")."""
import json, re
from .. import common as C
from .. import gen
from ..prop import Check, Stream
from . import C08 as K

REQ = ["String", "Bytes", "NasValue", "NasCodec", "NasCorr", "TS24501Tables", "TS24501", "NasLayout", "NasRefCorr"]
HDR = ("From Coq Require Import NArith ZArith List Bool String.\nImport ListNotations.\n"
       + "".join("Require Import %s.\n" % r for r in REQ if r != "String") + "Open Scope N_scope.\n")


def fv(iei, ln, body, present=True):
    return "(mk_fval %s %d %d %s)" % (C.cbool(present), iei, ln, C.cN(body))


ABSENT = "absent"


def nums(text):
    return [int(x) for x in re.findall(r"\d+", text)]


def parse_nested(text, ident):
    """`ident = <Coq list/tuple term of N>` -> python nested lists"""
    flat = " ".join(text.split())
    m = re.search(re.escape(ident) + r" = (.*?) : ", flat)
    if not m:
        raise RuntimeError("cannot find %s in coqc output: %s" % (ident, flat[-800:]))
    t = m.group(1).replace("%N", "").replace(";", ",").replace("(", "[").replace(")", "]").replace("nil", "[]")
    return json.loads(t)


def flat_tuple(x):
    """Coq prints (a, b, c, d) as nested pairs flattened already by our replace; keep as list"""
    return x


# ----------------------------------------------------------------------------- constructors
def labels(dnn):
    out = b""
    for lab in dnn.split("."):
        out += bytes([len(lab)]) + lab.encode()
    return out


class Ctor(Stream):
    """the nasTestpacket constructors the emulator calls, with PRNG-drawn arguments; their bytes are parsed by the
    TS 24.501 reference parser (Spec/TS24501.v) and compared with the values the arguments were meant to carry"""
    name = "constructors"
    sub = "nasctor"
    retained_field = "bytes"
    requires = REQ
    model_check = "ctor_model_check"
    spec_check = "ctor_spec_check"
    model_out = "ctor_expect"
    shard = 60
    dev = False      # True: only the argument classes that fall under a recorded finding (one case per finding)

    def __init__(self, dev=False):
        self.dev = dev
        if dev:
            self.name = "constructors-deviations"

    def generate(self, rng, tier):
        """prop.py stops reporting after three failing cases per stream, so the argument classes with a recorded finding
        (5G-S-TMSI type octet, ngKSI TSC bit, multi-label DNN) live in their own stream; in the main stream the expected
        value follows the library on exactly that octet / those arguments are not drawn."""
        allc = self.generate_all(rng, tier)
        if not self.dev:
            return [c for c in allc if self.known(c, None) is None]
        seen, out = set(), []
        for c in allc:
            k = self.known(c, None)
            if k and k not in seen:
                seen.add(k)
                out.append(c)
        return out

    def generate_all(self, rng, tier):
        n = 12 if tier == "quick" else 120
        cs = []

        def mobid():
            # SUCI as EncodeSuci builds it: type 1, PLMN, routing 0, scheme 0, key id 0, MSIN BCD
            return bytes([0x01]) + rng.bytes(3) + bytes([0xF0, 0xFF, 0x00, 0x00]) + rng.bytes(rng.range(1, 5))

        for i in range(n):
            mid = mobid()
            regtype = rng.choice([1, 1, 2, 3, 4])
            sc = rng.bytes(rng.choice([2, 2, 4, 8]))
            cap = rng.choice([None, bytes([7]), rng.bytes(rng.range(1, 13))])
            cont = rng.choice([None, rng.bytes(rng.range(1, 40))])     # a NAS message container holds a message: never empty
            a = {"name": "GetRegistrationRequest", "regtype": regtype, "mobid": mid.hex(), "seccap": sc.hex(), "seccap_iei": 0x2E}
            opt = [fv(0x2E, len(sc), sc)]
            if cap is not None:
                a.update(cap5gmm=cap.hex(), cap5gmm_iei=0x10)
                opt.append(fv(0x10, len(cap), cap))
            if cont is not None:
                a["container"] = cont.hex()
                opt.append(fv(0x71, len(cont), cont))
            cs.append({"args": a, "mand": [fv(0, 0, [0x7E]), fv(0, 0, [0]), fv(0, 0, [0x41]), fv(0, 0, [0x70 | 0x08 | regtype]), fv(0, len(mid), mid)], "opt": opt})

            res = rng.bytes(16)
            cs.append({"args": {"name": "GetAuthenticationResponse", "res": res.hex()},
                       "mand": [fv(0, 0, [0x7E]), fv(0, 0, [0]), fv(0, 0, [0x57])], "opt": [fv(0x2D, 16, res)]})

            # the EAP variant (EAP-AKA' packets are 8 + 4k octets: lengths with every residue mod 3, i.e. every base64 padding)
            import base64
            eap = rng.bytes([36, 40, 44, 9, 10, 11, 300][i % 7])
            cs.append({"args": {"name": "GetAuthenticationResponse", "eap_b64": base64.b64encode(eap).decode()},
                       "mand": [fv(0, 0, [0x7E]), fv(0, 0, [0]), fv(0, 0, [0x57])], "opt": [fv(0x78, len(eap), eap)]})

            cont = rng.bytes(rng.range(1, 60))
            cs.append({"args": {"name": "GetSecurityModeComplete", "container": cont.hex()},
                       "mand": [fv(0, 0, [0x7E]), fv(0, 0, [0]), fv(0, 0, [0x5E])],
                       # IMEISV: identity type IMEISV (101), first digit 1, then digits 1 1, rest 0 (constants of the constructor)
                       "opt": [fv(0x77, 9, bytes([0x15, 0x11, 0, 0, 0, 0, 0, 0, 0])), fv(0x71, len(cont), cont)]})

            sor = rng.choice([None, None, rng.bytes(17)])
            a = {"name": "GetRegistrationComplete"}
            if sor is not None:
                a["sor"] = sor.hex()
            cs.append({"args": a, "mand": [fv(0, 0, [0x7E]), fv(0, 0, [0]), fv(0, 0, [0x43])], "opt": [fv(0x73, 17, sor)] if sor is not None else []})

            psi = rng.range(1, 15)
            pco = bytes([0x80, 0x00, 0x0A, 0x00, 0x00, 0x0D, 0x00, 0x00, 0x03, 0x00])
            inner = {"GetPduSessionEstablishmentRequest": ([fv(0, 0, [0x2E]), fv(0, 0, [psi]), fv(0, 0, [1]), fv(0, 0, [0xC1]), fv(0, 0, [0xFF, 0xFF])],
                                                           [fv(0x9, 0, [0x91]), fv(0x7B, len(pco), pco)],
                                                           bytes([0x2E, psi, 1, 0xC1, 0xFF, 0xFF, 0x91, 0x7B, 0, len(pco)]) + pco),
                     "GetPduSessionModificationRequest": ([fv(0, 0, [0x2E]), fv(0, 0, [psi]), fv(0, 0, [0]), fv(0, 0, [0xC9])], [], bytes([0x2E, psi, 0, 0xC9])),
                     "GetPduSessionReleaseRequest": ([fv(0, 0, [0x2E]), fv(0, 0, [psi]), fv(0, 0, [0]), fv(0, 0, [0xD1])], [], bytes([0x2E, psi, 0, 0xD1])),
                     "GetPduSessionReleaseComplete": ([fv(0, 0, [0x2E]), fv(0, 0, [psi]), fv(0, 0, [0]), fv(0, 0, [0xD4])], [], bytes([0x2E, psi, 0, 0xD4]))}
            for nm, (mand, opt, _) in inner.items():
                cs.append({"args": {"name": nm, "psi": psi}, "mand": mand, "opt": opt})
            reqtype = rng.choice([1, 1, 2, 3, 4])
            dnn = rng.choice(["internet", "internet", "ims", "a.b", "mnc093.mcc208.gprs", ""]) if self.dev else rng.choice(["internet", "internet", "ims", "x", ""])
            # slice differentiators that look reserved are legal values too (000000, ffffff; ffffff means "no SD" only in NGAP)
            sst, sd = rng.choice([1, 1, 2, 255, 0]), [rng.bytes(3), bytes(3), rng.bytes(3), b"\xff\xff\xff", b"\x00\x00\x01", b"\x01\x00\x00"][i % 6]
            for outer, innm, with_rt in (("GetUlNasTransport_PduSessionEstablishmentRequest", "GetPduSessionEstablishmentRequest", True),
                                         ("GetUlNasTransport_PduSessionModificationRequest", "GetPduSessionModificationRequest", True),
                                         ("GetUlNasTransport_PduSessionReleaseComplete", "GetPduSessionReleaseComplete", True),
                                         ("GetUlNasTransport_PduSessionReleaseRequest", "GetPduSessionReleaseRequest", False)):
                ib = inner[innm][2]
                a = {"name": outer, "psi": psi}
                opt = [fv(0x12, 0, [psi])]
                if with_rt:
                    a.update(reqtype=reqtype, dnn=dnn)
                    opt.append(fv(0x8, 0, [0x80 | reqtype]))
                    if i % 6 in (1, 3) or rng.chance(3, 4):
                        a.update(sst=sst, sd=sd.hex())
                        opt.append(fv(0x22, 4, bytes([sst]) + sd))
                    if dnn != "":
                        opt.append(fv(0x25, len(labels(dnn)), labels(dnn)))
                cs.append({"args": a, "mand": [fv(0, 0, [0x7E]), fv(0, 0, [0]), fv(0, 0, [0x67]), fv(0, 0, [0x01]), fv(0, len(ib), ib)], "opt": opt})

            st = rng.choice([0, 1, 1, 2])
            opt = {0: [], 1: [fv(0x40, 2, [0, 4])], 2: [fv(0x25, 2, [0, 8])]}[st]
            # 5G-S-TMSI (9.11.3.4): 1111 0 100 | AMF set id 0x3F8 (10 bits), AMF pointer 0 | 5G-TMSI 00000001
            # (main stream: octet 1 as the library sends it, 0x00 -- finding C09:ctor:GetServiceRequest:..., asserted by the deviations stream)
            cs.append({"args": {"name": "GetServiceRequest", "servicetype": st},
                       "mand": [fv(0, 0, [0x7E]), fv(0, 0, [0]), fv(0, 0, [0x4C]), fv(0, 0, [st << 4 | 1]),
                                fv(0, 7, [0xF4 if self.dev else 0x00, 0xFE, 0, 0, 0, 0, 1])], "opt": opt})

            access, so = rng.choice([1, 1, 2, 3]), rng.below(2)
            ngksi = rng.choice([1, 8, 3, 0xE]) if self.dev else rng.choice([4, 4, 0, 0xF, 2, 6, 9, 0xB, 0xD])
            mid = mobid()
            cs.append({"args": {"name": "GetDeregistrationRequest", "access": access, "switchoff": so, "ngksi": ngksi, "mobid": mid.hex()},
                       "mand": [fv(0, 0, [0x7E]), fv(0, 0, [0]), fv(0, 0, [0x45]), fv(0, 0, [(ngksi & 15) << 4 | so << 3 | access]), fv(0, len(mid), mid)], "opt": []})
        return cs

    def go_case(self, c):
        # keys starting with "_" are ignored by the harness; they make the replay file self-contained
        return dict(c["args"], _mand=c["mand"], _opt=c["opt"])

    def from_replay(self, c):
        return {"args": {k: v for k, v in c.items() if not k.startswith("_")}, "mand": c.get("_mand", []), "opt": c.get("_opt", [])}

    def classify(self, c, o):
        return c["args"]["name"]

    def key(self, c, o):
        return json.dumps(c["args"], sort_keys=True)

    def coq_case(self, c, o):
        b = bytes.fromhex(o.get("bytes", "")) if "bytes" in o else b""
        return "(%s, [%s], [%s])" % (C.cN(b), ";".join(c["mand"]), ";".join(c["opt"]))

    def direct_check(self, c, o):
        if "panic" in o:
            return "constructor panicked: " + o["panic"]
        return None

    def known(self, c, o):
        a = c["args"]
        if a["name"] == "GetServiceRequest" and self.dev:
            return "C09:ctor:GetServiceRequest:5G-S-TMSI-type-of-identity"
        if "." in a.get("dnn", ""):
            return "C09:ctor:DNN-multi-label"
        if a["name"] == "GetDeregistrationRequest" and ((a["ngksi"] >> 3) & 1) != (a["ngksi"] & 1):
            return "C09:ctor:GetDeregistrationRequest:ngKSI-TSC-bit"
        return None


# ----------------------------------------------------------------------------- reference-encoded messages
TABLES = {}


def load_tables():
    if TABLES:
        return TABLES
    rc, out = C.coq_eval(HDR + "Definition td := Eval vm_compute in table_dump.\nPrint td.\n", timeout=300)
    if rc != 0:
        raise RuntimeError("cannot evaluate table_dump: " + out[-1500:])
    for row in parse_nested(out, "td"):
        epd, ty, mand, opt = row
        TABLES[(epd, ty)] = {"mand": mand, "opt": opt}
    return TABLES


DEVIATIONS = {(0x7E, 0x41, 0x52): "C09:layout:126:65:82", (0x2E, 0xC9, 0x7A): "C09:layout:46:201:122"}
DOWNLINK = {(0x7E, 0x56), (0x7E, 0x5D), (0x7E, 0x42), (0x7E, 0x68), (0x2E, 0xC2), (0x7E, 0x46), (0x7E, 0x4E)}


class RefEnc(Stream):
    """messages of every type built by the TS 24.501 reference encoder (all optional-IE subsets for k <= 4, empty / full /
    every single IE / sampled beyond; value lengths at the table's bounds) decoded by the real PlainNasDecode"""
    name = "refenc"
    sub = "nasdec"
    requires = REQ
    model_check = "refenc_model_check"
    spec_check = "refenc_spec_check"
    model_out = "refenc_expect"
    shard = 40
    dev = False      # True: only messages carrying an IE with a recorded layout finding (same reason as for Ctor)

    def __init__(self, dev=False):
        self.dev = dev
        if dev:
            self.name = "refenc-deviations"

    def value(self, rng, u, style, tier):
        kind, iei, lw, lo, hi, unc = u
        if kind == 0:
            return (0, 0, rng.bytes(lo))
        if kind == 2:
            nib = {"min": 0, "max": 15}.get(style, rng.below(16))
            return (iei, 0, bytes([iei << 4 | nib]))
        if kind == 3:
            return (iei, 0, rng.bytes(lo))
        cap = 255 if lw == 1 else (300 if tier == "quick" else 2000)
        top = min(hi if hi else 40, cap)
        top = max(top, lo)
        n = {"min": lo, "max": top}.get(style, rng.range(lo, min(top, lo + 24)))
        return (iei if kind == 4 else 0, n, rng.bytes(n))

    def generate(self, rng, tier):
        tabs = load_tables()
        protos = []
        for (epd, ty), t in sorted(tabs.items()):
            optu = [(i, u) for i, u in enumerate(t["opt"]) if not u[5]]
            devs = [j for j, (i, u) in enumerate(optu) if (epd, ty, u[1]) in DEVIATIONS]
            if self.dev:
                if not devs:
                    continue
            else:
                optu = [x for j, x in enumerate(optu) if j not in devs]
            k = len(optu)
            if k <= 4:
                subs = [set(j for j in range(k) if (s >> j) & 1) for s in range(1 << k)]
            else:
                subs = [set(), set(range(k))] + [{j} for j in range(k)] + [set(j for j in range(k) if rng.chance(1, 2)) for _ in range(2 if tier == "quick" else 30)]
            if (epd, ty) in DOWNLINK and tier == "quick":
                subs += [set(j for j in range(k) if rng.chance(1, 2)) for _ in range(4)]
            if self.dev:
                subs = [{j, min(j + 1, k - 1)} for j in devs]
            for si, s in enumerate(subs):
                style = "min" if self.dev else ["rand", "min", "max"][si % 3]
                if style == "max" and len(s) > 3 and tier == "quick":
                    style = "rand"
                mand = [self.value(rng, u, style, tier) for u in t["mand"]]
                mand[0] = (0, 0, bytes([epd]))
                mand[2 if epd == 0x7E else 3] = (0, 0, bytes([ty]))
                opt = []
                present = [optu[j][0] for j in sorted(s)]
                for i, u in enumerate(t["opt"]):
                    opt.append(self.value(rng, u, style, tier) if i in present else None)
                protos.append({"epd": epd, "ty": ty, "mand": mand, "opt": opt, "ieis": [t["opt"][i][1] for i in present],
                               "cls": ("downlink-on-path" if (epd, ty) in DOWNLINK else "other") + "/k=%d" % min(k, 10)})
        # bytes from the Coq reference encoder
        out_cases = []
        for off in range(0, len(protos), 150):
            chunk = protos[off:off + 150]
            txt = HDR + "Definition cs := [\n" + ";\n".join(self.coq_proto(p) for p in chunk) + "\n].\n"
            txt += ("Definition enc := Eval vm_compute in map (fun c => match ref_encode_case c with Ok b => b | _ => [999] end) cs.\nPrint enc.\n")
            rc, out = C.coq_eval(txt, timeout=600)
            if rc != 0:
                raise RuntimeError("reference encoder does not evaluate: " + out[-1500:])
            encs = parse_nested(out, "enc")
            if len(encs) != len(chunk):
                raise RuntimeError("reference encoder: %d results for %d cases" % (len(encs), len(chunk)))
            for p, b in zip(chunk, encs):
                if b == [999]:
                    raise RuntimeError("reference encoder refused a generated message: %r" % (p,))
                p["hex"] = bytes(b).hex()
                out_cases.append(p)
        return out_cases

    def coq_vals(self, vals):
        return "[" + ";".join(ABSENT if v is None else fv(v[0], v[1], v[2]) for v in vals) + "]"

    def coq_proto(self, p):
        mand = [(0, v[1], v[2]) for v in p["mand"]]
        return "(%d, %d, %s, %s)" % (p["epd"], p["ty"], self.coq_vals(mand), self.coq_vals(p["opt"]))

    def go_case(self, c):
        return {"hex": c["hex"], "_epd": c["epd"], "_ty": c["ty"], "_ieis": c["ieis"], "_cls": c["cls"],
                "_mand": [[v[0], v[1], bytes(v[2]).hex()] for v in c["mand"]],
                "_opt": [None if v is None else [v[0], v[1], bytes(v[2]).hex()] for v in c["opt"]]}

    def from_replay(self, c):
        un = lambda v: None if v is None else (v[0], v[1], bytes.fromhex(v[2]))
        return {"hex": c["hex"], "epd": c["_epd"], "ty": c["_ty"], "ieis": c.get("_ieis", []), "cls": c.get("_cls", "replay"),
                "mand": [un(v) for v in c["_mand"]], "opt": [un(v) for v in c["_opt"]]}

    def classify(self, c, o):
        return c["cls"]

    def key(self, c, o):
        return c["hex"]

    def coq_case(self, c, o):
        mand = [(0, v[1], v[2]) for v in c["mand"]]
        od = K.coq_odec(o)
        if len(od) > K.OVERSIZE:
            od = "ONone"      # a mis-parsed length made the library allocate tens of kilobytes: not given to coqc; counts as a failure
        return "(%d, %d, %s, %s, %s, %s)" % (c["epd"], c["ty"], self.coq_vals(mand), self.coq_vals(c["opt"]),
                                             C.cN(bytes.fromhex(c["hex"])), od)

    def known(self, c, o):
        for iei in c["ieis"]:
            k = DEVIATIONS.get((c["epd"], c["ty"], iei))
            if k:
                return k
        return None


# ----------------------------------------------------------------------------- accessors (sub-fields inside an IE value)
ACC_REQ = ["String", "NasAcc", "NasAccessors", "TS24501Fields", "NasAccConform", "NasAccCheck"]
ACC_HDR = ("From Coq Require Import NArith String List.\nImport ListNotations.\n"
           + "".join("Require Import %s.\n" % r for r in ACC_REQ if r != "String") + "Open Scope N_scope.\n")
ACC_KEY = "C09:acc:SetAMFSetID-clears-AMFPointer"
ACC_DEVIATIONS = {("AdditionalGUTI", "AMF Set ID"): ACC_KEY, ("GUTI5G", "AMF Set ID"): ACC_KEY, ("TMSI5GS", "AMF Set ID"): ACC_KEY}
ACC_TABLE = {}


def load_acc_table():
    """the field table of Spec/TS24501Fields.v joined with the Go containers of Gen/NasAccessors.v, as Coq prints it:
    {type: {"container": (kind, n), "fields": [{"kind": (code, a, b, c), "get": .., "set": ..}]}} in table order"""
    if ACC_TABLE:
        return ACC_TABLE
    rc, out = C.coq_eval(ACC_HDR + "Open Scope string_scope.\nDefinition fd := Eval vm_compute in fields_dump.\nPrint fd.\n", timeout=300)
    if rc != 0:
        raise RuntimeError("cannot evaluate fields_dump: " + out[-1500:])
    flat = " ".join(out.split())
    row = re.compile(r'\("([^"]*)"(?:%string)?, \[([^\]]*)\](?:%N)?, \[([^\]]*)\](?:%N)?, "([^"]*)"(?:%string)?, "([^"]*)"(?:%string)?\)')
    for ty, cc, kc, g, st in row.findall(flat):
        cc, kc = nums(cc), nums(kc)
        t = ACC_TABLE.setdefault(ty, {"container": (["octet", "array", "buffer", "none"][cc[0]], cc[1]), "fields": []})
        t["fields"].append({"kind": tuple(kc), "get": g, "set": st})
    if not ACC_TABLE:
        raise RuntimeError("cannot parse fields_dump: " + flat[:800])
    return ACC_TABLE


def acc_need(kind):
    """octets a value must have for the field to lie inside it"""
    code, a, b, _ = kind
    return {0: a + 1, 1: a + 2, 2: a + b, 3: a}[code]


def acc_table_apply(st, kind, v):
    """store v into the field as the table says (python copy of Spec/TS24501Fields.spec_set, used ONLY to recognise the recorded
    deviation among failing cases -- the verdict itself comes from Coq)"""
    code, a, b, _ = kind
    st = bytearray(st)
    if code == 0:
        w = b - _ + 1
        st[a] = (st[a] & ~(((1 << w) - 1) << (_ - 1)) & 0xFF) | ((v & ((1 << w) - 1)) << (_ - 1))
    elif code == 1:
        X = ((st[a] << 8 | st[a + 1]) & ((1 << (16 - b)) - 1)) | (v << (16 - b))
        st[a], st[a + 1] = X >> 8, X & 0xFF
    elif code == 2:
        st[a:a + b] = v
    else:
        st[a:] = v
    return bytes(st)


class Acc(Stream):
    """the REAL accessor methods of nasType (through reflection) against the model (descriptors regenerated by gen-nasacc) and
    against the field table of TS 24.501 clause 9: per tabulated field, setter then getter on an all-zero, an all-ones and a
    random value with boundary and random arguments (neighbouring fields therefore hold DISTINCT values: 0x00 next to 0xff);
    per type, every setter of the table in table order and in reverse order with pairwise different arguments, then every
    getter; arguments wider than the field (the setter must mask them) and buffers shorter than the field (must panic, as the
    model says) as boundary classes"""
    name = "accessors"
    sub = "nasacc"
    requires = ACC_REQ
    model_check = "acc_model_check"
    spec_check = "acc_spec_check"
    model_out = "acc_spec_expect"      # shown as "expected" in a replay: what the table says
    case_type = "acc_case"
    shard = 450

    def values(self, rng, kind, room, tier):
        code, a, b, c = kind
        if code in (0, 1):
            w = (b - c + 1) if code == 0 else b
            top = (1 << w) - 1
            vs = [0, top, 1, 1 << (w - 1), 0x5555 & top, 0xAAAA & top] + [rng.below(top + 1) for _ in range(1 if tier == "quick" else 4)]
            out = []
            for v in vs:
                if v not in out:
                    out.append(v)
            return out
        n = b if code == 2 else room - a
        vs = [bytes(n), bytes([0xFF]) * n, bytes((i + 1) & 0xFF for i in range(n))] + [rng.bytes(n) for _ in range(1 if tier == "quick" else 3)]
        out = []
        for v in vs:
            if v not in out:
                out.append(v)
        return out

    def generate(self, rng, tier):
        tab = load_acc_table()
        cs = []
        for ty, t in tab.items():
            ckind, n = t["container"]
            need = max(acc_need(f["kind"]) for f in t["fields"])
            size = {"octet": 1, "array": n}.get(ckind, need + (3 if any(f["kind"][0] == 3 for f in t["fields"]) else 0))
            if ckind == "array" and need > n:
                size = n          # the conformance check reports it; keep the harness callable
            zeros, ones = bytes(size), bytes([0xFF]) * size
            for f in t["fields"]:
                kind = f["kind"]
                if acc_need(kind) > size:
                    continue
                cls = {0: "bits%d" % (kind[2] - kind[3] + 1), 1: "span%d" % kind[2], 2: "octets", 3: "rest"}[kind[0]]
                vals = self.values(rng, kind, size, tier)
                for st in (zeros, ones):
                    for v in vals:
                        cs.append({"type": ty, "state": st, "ops": [(f["set"], v)], "gets": [f["get"]], "cls": "single/" + cls})
                for _ in range(1 if tier == "quick" else 4):
                    cs.append({"type": ty, "state": rng.bytes(size), "ops": [(f["set"], rng.choice(vals))], "gets": [f["get"]], "cls": "single/" + cls})
                cs.append({"type": ty, "state": rng.bytes(size), "ops": [], "gets": [f["get"]], "cls": "get-only"})
                if kind[0] == 0 and kind[2] - kind[3] + 1 < 8:
                    # wider than the field: the table says nothing, the setter must mask (model)
                    cs.append({"type": ty, "state": rng.choice([zeros, ones]), "ops": [(f["set"], 0xFF)], "gets": [f["get"]], "cls": "oversize-argument"})
                if ckind == "buffer" and acc_need(kind) > 0 and kind[0] != 3:
                    short = acc_need(kind) - 1
                    cs.append({"type": ty, "state": rng.bytes(short), "ops": [(f["set"], vals[-1])], "gets": [], "cls": "short-buffer"})
                    cs.append({"type": ty, "state": rng.bytes(short), "ops": [], "gets": [f["get"]], "cls": "short-buffer"})
            # all fields of the value at once, pairwise different arguments; numeric fields first differ from their neighbours
            flds = [f for f in t["fields"] if acc_need(f["kind"]) <= size]
            for st in (zeros, ones, rng.bytes(size)):
                for order in (flds, flds[::-1]):
                    ops = []
                    for i, f in enumerate(order):
                        kind = f["kind"]
                        if kind[0] in (0, 1):
                            w = (kind[2] - kind[3] + 1) if kind[0] == 0 else kind[2]
                            v = (rng.below(1 << w) if st is not zeros and st is not ones else (0x11 * (i + 1) + (i & 1) * 0xA5)) & ((1 << w) - 1)
                        else:
                            k = kind[2] if kind[0] == 2 else size - kind[1]
                            v = bytes((0x10 * (i + 1) + j) & 0xFF for j in range(k)) if st is zeros else rng.bytes(k)
                        ops.append((f["set"], v))
                    cs.append({"type": ty, "state": st, "ops": ops, "gets": [f["get"] for f in flds], "cls": "sequence"})
        return cs

    def go_case(self, c):
        return {"type": c["type"], "state": bytes(c["state"]).hex(), "gets": c["gets"], "_cls": c["cls"],
                "ops": [{"set": nm, "n": v} if isinstance(v, int) else {"set": nm, "b": bytes(v).hex()} for nm, v in c["ops"]]}

    def from_replay(self, c):
        return {"type": c["type"], "state": bytes.fromhex(c["state"]), "gets": c["gets"], "cls": c.get("_cls", "replay"),
                "ops": [(o["set"], o["n"] if "n" in o else bytes.fromhex(o["b"])) for o in c["ops"]]}

    def classify(self, c, o):
        return c["cls"]

    def cval(self, v):
        return "inl %d" % v if isinstance(v, int) else "inr %s" % C.cN(v)

    def coq_case(self, c, o):
        if "after" in o:
            gets = [g["n"] if "n" in g else bytes.fromhex(g["b"]) for g in o["gets"]]
            obs = "Some (%s, [%s])" % (C.cN(bytes.fromhex(o["after"])), "; ".join(self.cval(g) for g in gets))
        else:
            obs = "None"
        return '("%s"%%string, %s, [%s], [%s], %s)' % (
            c["type"], C.cN(c["state"]), "; ".join('("%s"%%string, %s)' % (nm, self.cval(v)) for nm, v in c["ops"]),
            "; ".join('"%s"%%string' % g for g in c["gets"]), obs)

    def direct_check(self, c, o):
        if "harness_error" in o or ("panic" in o and str(o["panic"]).startswith("harness:")):
            return "the harness could not make the call: %s" % (o.get("panic") or o.get("harness_error"))
        return None

    def known(self, c, o):
        """SetAMFSetID of the three GUTI/TMSI types clears the AMF pointer: a failing case falls under the finding when what the
        library did is exactly the table's semantics plus that clearing"""
        if o is None or "after" not in o or not any(nm == "SetAMFSetID" for nm, _ in c["ops"]):
            return None
        t = load_acc_table().get(c["type"])
        if t is None or (c["type"], "AMF Set ID") not in ACC_DEVIATIONS:
            return None
        by_set = {f["set"]: f for f in t["fields"]}
        st = bytes(c["state"])
        try:
            for nm, v in c["ops"]:
                st = acc_table_apply(st, by_set[nm]["kind"], v)
                if nm == "SetAMFSetID":
                    j = by_set[nm]["kind"][1] + 1
                    st = st[:j] + bytes([st[j] & 0xC0]) + st[j + 1:]
        except (KeyError, IndexError, TypeError, ValueError):
            return None
        return ACC_KEY if st.hex() == o["after"] else None


from . import C12 as _C12


from . import C11 as _C11


class EmulatorFirstMessages(_C11.SuciProc):
    """the REGISTRATION REQUEST and the DEREGISTRATION REQUEST the real RegisterUE / DeregisterUE put on the wire (subscriber
    identities of every MSIN length, both MNC lengths), read by the TS 24.501 reference parser: the mobile identity IE must be
    where 8.2.6 / 8.2.12 put it, with the length it announces, and hold the intended SUCI"""
    name = "emulator-first-messages"


class AcceptExtract(_C12.NasWell):
    """PDU SESSION ESTABLISHMENT ACCEPT messages (inside protected DL NAS TRANSPORT) built by the independent encoder of the
    C12 check — any 5GSM cause, optional IEs of every format before and after the PDU address — read by the emulator's own
    parser of that message (stgutg.DecodePDUSessionNASPDU): the address it finds is the one encoded"""
    name = "accept-extract"


class C09(Check):
    pid = "C09"
    prop_files = ["Properties/C09.v"]
    extra_targets = ["Model/NasCorr.vo", "Model/NasLayout.vo", "Model/NasRefCorr.vo", "Model/NasAccCheck.vo", "Model/Extract.vo", "Spec/SessionMsgs.vo", "Model/C11Check.vo"]
    streams = [Ctor(), Ctor(dev=True), RefEnc(), RefEnc(dev=True), Acc(), AcceptExtract(), EmulatorFirstMessages()]
    trusted = ["Coq 8.16.1 kernel incl. vm_compute (no native_compute)", "no axioms (Print Assumptions: closed under the global context)",
               "Spec/TS24501Tables.v: TS 24.501 Rel-15 tables 8.2.x/8.3.x transcribed from memory (rows marked uncertain are not compared)",
               "translator harness/gen_nas.go and the interpreter semantics of Model/NasCodec.v (tied by C08's streams)",
               "Go harness cmd_nas.go (nasctor, nasdec), cmd_nasacc.go (nasacc: reflection calls of the real accessors)",
               "Spec/TS24501Fields.v: field layouts of TS 24.501 clause 9 transcribed from memory (fields I was not sure of are left out and listed there)",
               "translator harness/gen_nasacc.go and the descriptor semantics of Model/NasAcc.v (tied by the accessors stream)"]
    assumptions = ["uncertain rows (Release-15 version differences) are outside the comparison: REGISTRATION REQUEST 8- and 60, REGISTRATION ACCEPT D- and 60, "
                   "PDU SESSION MODIFICATION COMMAND 7F/75",
                   "SecurityProtected5GSNASMessage (8.2.28) is not dispatched by PlainNasEncode/Decode and is not compared",
                   "intended values of the constructors are those documented next to each case in vlib/props/C09.py (TS 24.501 9.11 encodings of the arguments)",
                   "sub-field layer: IE types of the 16 messages on the emulator's path; DNN (string conversion) and MaximumNumberOfSupportedPacketFilters (layout not "
                   "remembered with certainty) are not tabulated; a Buffer is taken with len = cap"]

    def regen(self, harness):
        K.load_desc(harness)
        changed = []
        if gen.run_translator(harness, "gen-nas", "NasDesc.v", ("coq",)):
            changed.append("NasDesc.v")
        if gen.run_translator(harness, "gen-nasacc", "NasAccessors.v", (C.REPO,)):
            changed.append("NasAccessors.v")
        self._fresh = True
        return changed

    def eval_cases(self, st, cases, obs):
        # `./check Cxx --replay f` evaluates cases without going through run(): make sure the model is the one of the current tree
        if not getattr(self, "_fresh", False):
            h, err = C.build_harness()
            if h is None:
                raise RuntimeError(err)
            self.regen(h)
            C.coq_make([t for t in self.extra_targets])
        return super().eval_cases(st, cases, obs)

    def extra(self, harness, build_ok):
        """Diag: list the layout differences computed on the regenerated descriptors; known ones are reported as findings,
        any other one is a violation (the refenc stream normally supplies the concrete failing message for it)."""
        txt = HDR + ("Definition dk := Eval vm_compute in map (fun x => let '(a, b, c, _) := x in [a; b; c]) layout_diffs.\nPrint dk.\n"
                     "Definition dw := Eval vm_compute in map (fun x => snd x) layout_diffs.\nPrint dw.\n")
        rc, out = C.coq_eval(txt, timeout=600)
        if rc != 0:
            raise RuntimeError("layout_diffs does not evaluate: " + out[-1500:])
        keys = parse_nested(out, "dk")
        flat = " ".join(out.split())
        m = re.search(r"dw = (.*?) : list", flat)
        whats = re.findall(r'"((?:[^"]|"")*)"', m.group(1)) if m else []
        known = {f["key"]: f for f in C.known_findings() if f.get("property") == self.pid and f.get("status") == "known"}
        self.cov["layout_differences"] = []
        for i, k in enumerate(keys):
            key = "C09:layout:%d:%d:%d" % tuple(k)
            what = whats[i] if i < len(whats) else ""
            self.cov["layout_differences"].append({"key": key, "what": what})
            if key in known:
                self.known_finding(key, known[key]["what"])
            else:
                self.violation({"theorem_or_stream": "Properties/C09.v c09_layout_follows_tables (Diag: layout_diffs)",
                                "difference": {"epd": k[0], "message_type": k[1], "iei": k[2], "what": what},
                                "note": "library layout differs from the TS 24.501 table; see the refenc stream replay (if any) for a concrete message",
                                "how_to_replay": "./check C09"}, "" if self.violations else "no-failing-input-found")
        self.extra_accessors()

    def extra_accessors(self):
        """Diag of the sub-field layer: the differences between the regenerated accessor descriptors and the field table; a
        known one is reported as a finding, any other one is a violation (the accessors stream supplies the concrete call)."""
        txt = ACC_HDR + ("Open Scope string_scope.\nDefinition ad := Eval vm_compute in acc_diffs.\nPrint ad.\n"
                         "Definition an := Eval vm_compute in (length acc_types, length acc_descs, length (flat_map ie_fields ts24501_fields), "
                         "length conforming_fields, length (filter (fun a => is_unrecognised (a_body a)) acc_descs)).\nPrint an.\n")
        rc, out = C.coq_eval(txt, timeout=600)
        if rc != 0:
            raise RuntimeError("acc_diffs does not evaluate: " + out[-1500:])
        flat = " ".join(out.split())
        m = re.search(r"ad = (.*?) : list acc_diff", flat)
        if not m:
            raise RuntimeError("cannot find acc_diffs in coqc output: " + flat[-800:])
        diffs = re.findall(r'\("((?:[^"]|"")*)"(?:%string)?, "((?:[^"]|"")*)"(?:%string)?, "((?:[^"]|"")*)"(?:%string)?\)', m.group(1))
        if not diffs and m.group(1).strip() not in ("[]", "nil"):
            raise RuntimeError("cannot parse acc_diffs: " + m.group(1)[:800])
        cnt = nums(re.search(r"an = (.*?) : ", flat).group(1))
        self.cov["accessor_layer"] = {"ie_types": cnt[0], "accessors": cnt[1], "tabulated_fields": cnt[2], "conforming_pairs": cnt[3],
                                      "unrecognised_bodies": cnt[4], "differences": [{"type": a, "field": b, "what": c} for a, b, c in diffs]}
        known = {f["key"]: f for f in C.known_findings() if f.get("property") == self.pid and f.get("status") == "known"}
        for ty, fld, what in diffs:
            key = ACC_DEVIATIONS.get((ty, fld))
            if key and key in known:
                self.known_finding(key, known[key]["what"])
            else:
                self.violation({"theorem_or_stream": "Properties/C09.v c09_accessors_address_their_fields_partial (Diag: acc_diffs)",
                                "difference": {"type": ty, "field": fld, "what": what.replace('""', '"')},
                                "note": "an accessor of nasType does not address the bits TS 24.501 clause 9 gives the field; see the accessors stream replay (if any) for a concrete call",
                                "how_to_replay": "./check C09"}, "" if self.violations else "no-failing-input-found")
