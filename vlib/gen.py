"""Translators: regenerate coq/Gen/*.v from /repo's current working tree (DESIGN.md 4.1).
Each function returns True when the generated file changed."""
import os
from . import common as C


def run_translator(harness, sub, outfile, args=()):
    rc, out, err, dt = C.run([harness, sub, *args], timeout=600, cwd=C.REPO)
    if rc != 0:
        raise RuntimeError("translator %s failed: %s" % (sub, (out + err)[-1500:]))
    return C.write_if_changed(os.path.join(C.COQ, "Gen", outfile), out)


REGISTRY = [
    ("gen-ngapschema", "NgapSchema.v", ()),
    ("gen-driverskel", "DriverSkel.v", (C.REPO,)),
    ("gen-mainwiring", "MainWiring.v", (C.REPO,)),
    ("gen-conftags", "ConfTags.v", ()),
    ("gen-nas", "NasDesc.v", ("coq",)),
    ("gen-nasacc", "NasAccessors.v", (C.REPO,)),
    ("gen-builders", "Builders.v", (C.REPO,)),
    ("gen-snow3g", "Snow3gTables.v", (C.REPO,)),
    ("gen-minfn", "MinFn.v", (C.REPO,)),
]   # (sub, outfile, args)


def regen(harness, outfiles):
    """regenerate the named Gen files only"""
    changed = []
    for sub, outfile, args in REGISTRY:
        if outfile in outfiles and run_translator(harness, sub, outfile, args):
            changed.append(outfile)
    return changed


def regen_all(harness):
    changed = []
    for sub, outfile, args in REGISTRY:
        if run_translator(harness, sub, outfile, args):
            changed.append(outfile)
    return changed
