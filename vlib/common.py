"""Shared machinery for ./check: paths, PRNG, subprocess helpers, Coq and Go drivers,
evidence / replay / known-findings handling.  Nothing here is property specific."""
import fcntl, hashlib, json, os, re, shutil, subprocess, sys, time, tempfile

VERIF = os.path.dirname(os.path.dirname(os.path.abspath(__file__)))
REPO = os.environ.get("VERIF_REPO", "/repo")
COQ = os.path.join(VERIF, "coq")
WORK = os.path.join(VERIF, ".work")
BIN = os.path.join(WORK, "bin")
HARNESS_DIR = os.path.join(VERIF, "harness")
EVID = os.path.join(VERIF, "evidence")
REPLAYS = os.path.join(VERIF, "replays")
NCPU = os.cpu_count() or 4

GOENV = dict(os.environ, GOFLAGS="-mod=mod", GOPROXY="off", GOSUMDB="off", GOTOOLCHAIN="local",
             CGO_ENABLED=os.environ.get("CGO_ENABLED", "0"))


def log(*a):
    print(*a, file=sys.stderr, flush=True)


# ----------------------------------------------------------------------------- PRNG
class SplitMix64:
    """Single PRNG from which every random choice of a run derives (seed = VERIF_SEED)."""
    M = (1 << 64) - 1

    def __init__(self, seed):
        self.s = seed & self.M

    def next(self):
        self.s = (self.s + 0x9E3779B97F4A7C15) & self.M
        z = self.s
        z = ((z ^ (z >> 30)) * 0xBF58476D1CE4E5B9) & self.M
        z = ((z ^ (z >> 27)) * 0x94D049BB133111EB) & self.M
        return z ^ (z >> 31)

    def below(self, n):
        return self.next() % n if n > 0 else 0

    def range(self, lo, hi):          # inclusive
        return lo + self.below(hi - lo + 1)

    def choice(self, xs):
        return xs[self.below(len(xs))]

    def bytes(self, n):
        out = bytearray()
        while len(out) < n:
            out += self.next().to_bytes(8, "big")
        return bytes(out[:n])

    def chance(self, num, den):
        return self.below(den) < num

    def fork(self, label):
        h = hashlib.sha256((str(self.s) + ":" + label).encode()).digest()
        return SplitMix64(int.from_bytes(h[:8], "big"))

    def shuffle(self, xs):
        xs = list(xs)
        for i in range(len(xs) - 1, 0, -1):
            j = self.below(i + 1)
            xs[i], xs[j] = xs[j], xs[i]
        return xs

    def digits(self, n):
        return "".join(str(self.below(10)) for _ in range(n))


def seed_from_env():
    try:
        return int(os.environ.get("VERIF_SEED", "20260930"))
    except ValueError:
        return 20260930


# ----------------------------------------------------------------------------- subprocess
def run(cmd, cwd=None, env=None, timeout=600, input=None, check=False):
    t0 = time.time()
    try:
        p = subprocess.run(cmd, cwd=cwd, env=env, input=input, stdout=subprocess.PIPE,
                           stderr=subprocess.PIPE, timeout=timeout, text=isinstance(input, str) or input is None)
        rc, out, err = p.returncode, p.stdout, p.stderr
    except subprocess.TimeoutExpired as e:
        rc, out, err = 124, (e.stdout or ""), (e.stderr or "") + "\nTIMEOUT"
        if isinstance(out, bytes):
            out = out.decode("utf8", "replace")
        if isinstance(err, bytes):
            err = err.decode("utf8", "replace")
    if check and rc != 0:
        raise RuntimeError("command failed (%d): %s\n%s\n%s" % (rc, cmd, out[-3000:], err[-3000:]))
    return rc, out, err, time.time() - t0


class Lock:
    def __init__(self, name):
        os.makedirs(WORK, exist_ok=True)
        self.path = os.path.join(WORK, name + ".lock")

    def __enter__(self):
        self.f = open(self.path, "w")
        fcntl.flock(self.f, fcntl.LOCK_EX)
        return self

    def __exit__(self, *a):
        fcntl.flock(self.f, fcntl.LOCK_UN)
        self.f.close()


def scratch_dir(prefix):
    os.makedirs(WORK, exist_ok=True)
    return tempfile.mkdtemp(prefix=prefix + "-", dir=WORK)


def write_if_changed(path, text):
    try:
        if open(path).read() == text:
            return False
    except FileNotFoundError:
        pass
    os.makedirs(os.path.dirname(path), exist_ok=True)
    tmp = path + ".tmp%d" % os.getpid()
    open(tmp, "w").write(text)
    os.replace(tmp, path)
    return True


# ----------------------------------------------------------------------------- Go side
def sync_gosum():
    """go.sum of the harness module = union of the sums shipped in /repo (nothing is fetched)."""
    lines = set()
    for p in ["go.sum", "go.work.sum", "src/free5gclib/go.sum", "src/stgutg/go.sum", "src/tglib/go.sum"]:
        fp = os.path.join(REPO, p)
        if os.path.exists(fp):
            lines.update(l for l in open(fp).read().splitlines() if l.strip())
    extra = os.path.join(HARNESS_DIR, "go.sum.extra")
    if os.path.exists(extra):
        lines.update(l for l in open(extra).read().splitlines() if l.strip())
    write_if_changed(os.path.join(HARNESS_DIR, "go.sum"), "\n".join(sorted(lines)) + "\n")


def build_harness(race=False):
    """(Re)build the Go harness against /repo's current working tree, hooks on."""
    os.makedirs(BIN, exist_ok=True)
    out = os.path.join(BIN, "harness_race" if race else "harness")
    with Lock("gobuild"):
        sync_gosum()
        env = dict(GOENV)
        cmd = ["go", "build", "-tags", "verif", "-o", out]
        if REPO != "/repo":
            # VERIF_REPO (background runs on a snapshot of the repository): same module file with the replace
            # directives pointing at the snapshot
            alt = os.path.join(WORK, "harness_mod")
            os.makedirs(alt, exist_ok=True)
            mod = open(os.path.join(HARNESS_DIR, "go.mod")).read().replace("=> /repo/", "=> " + REPO.rstrip("/") + "/")
            write_if_changed(os.path.join(alt, "go.mod"), mod)
            shutil.copyfile(os.path.join(HARNESS_DIR, "go.sum"), os.path.join(alt, "go.sum"))
            cmd.append("-modfile=" + os.path.join(alt, "go.mod"))
        if race:
            env["CGO_ENABLED"] = "1"
            cmd.insert(2, "-race")
        cmd.append(".")
        rc, o, e, dt = run(cmd, cwd=HARNESS_DIR, env=env, timeout=900)
    if rc != 0:
        return None, (o + e)
    return out, ""


def build_emulator():
    """Build /repo's main package with the verif hook (inherited socket)."""
    os.makedirs(BIN, exist_ok=True)
    out = os.path.join(BIN, "stgutg_verif")
    env = dict(os.environ, GOPROXY="off", GOSUMDB="off", GOTOOLCHAIN="local")
    env.pop("GOFLAGS", None)
    with Lock("gobuild"):
        rc, o, e, dt = run(["go", "build", "-tags", "verif", "-o", out, "."], cwd=REPO, env=env, timeout=900)
    if rc != 0:
        return None, o + e
    # a DIFFERENT config.yaml beside the binary (as after `go build` in the repository root): the emulator reads the one in
    # its working directory; a run that picks this one up announces 3 repetitions of everything under PLMN 999/99
    decoy = ("info:\n  version: 0.0.0\nconfiguration:\n  amf_ngap_ip: \"192.0.2.1\"\n  amf_ngap_port: 1\n  gnb_gtp_ip: \"192.0.2.2\"\n"
             "  stg_ngap_ip: \"192.0.2.3\"\n  stg_ngap_port: 2\n  gnb_id: \"abc\"\n  gnb_bitlength: 24\n  gnb_name: \"decoy\"\n"
             "  initial_imsi: \"999990000000001\"\n  mcc: \"999\"\n  mnc: \"99\"\n  k: \"00000000000000000000000000000000\"\n"
             "  opc: \"00000000000000000000000000000000\"\n  op: \"00000000000000000000000000000000\"\n  sst: 9\n  sd: \"999999\"\n"
             "  downlink_iface: \"decoy0\"\n  uplink_iface: \"decoy1\"\n  ue_number: 3\n  ue_registration: 3\n  ue_pdu: 3\n  ue_service: 3\n"
             "  ue_pdu_release: 3\n  ue_deregistration: 3\n")
    write_if_changed(os.path.join(BIN, "config.yaml"), decoy)
    return out, ""


# Environment variables the pinned tree reads (the hook's descriptor, the logger's sudo ids).  Any OTHER variable that /repo's
# non-test Go sources read is an ambient input of the code under test: every harness call is then repeated with those
# variables set, and an answer that differs from the plain run replaces it (marked "_ambient_env") so that the oracles judge
# it.  On the unchanged tree there is no such variable and nothing is repeated.
PINNED_ENV_READS = {"STGUTG_VERIF_FD", "SUDO_UID", "SUDO_GID"}
_ambient = None
FORCE_ENV = {}          # set by the replay from a recorded "_ambient_env"


def ambient_env_vars():
    global _ambient
    if _ambient is None:
        import re
        names, idents, texts = set(), set(), []
        for root, dirs, files in os.walk(REPO):
            dirs[:] = [d for d in dirs if d not in (".git", "_seed")]
            for f in files:
                if f.endswith(".go") and not f.endswith("_test.go"):
                    try:
                        txt = open(os.path.join(root, f), errors="replace").read()
                    except OSError:
                        continue
                    texts.append(txt)
                    names.update(re.findall(r'os\.(?:Getenv|LookupEnv)\(\s*"([A-Za-z_][A-Za-z0-9_]*)"', txt))
                    # the name given through a constant or variable (possibly of another package)
                    idents.update(re.findall(r'os\.(?:Getenv|LookupEnv)\(\s*(?:[A-Za-z_][A-Za-z0-9_]*\.)?([A-Za-z_][A-Za-z0-9_]*)\s*\)', txt))
        for ident in idents:
            for txt in texts:
                names.update(re.findall(r'\b%s\b\s*(?:string\s*)?=\s*"([A-Za-z_][A-Za-z0-9_]*)"' % re.escape(ident), txt))
        _ambient = sorted(names - PINNED_ENV_READS)
    return _ambient


def harness_call(binary, sub, cases, timeout=600, extra_args=(), _env_extra=None):
    """Feed JSON lines to a harness sub-command; returns list of JSON results (one per case)."""
    if _env_extra is None and not FORCE_ENV and ambient_env_vars():
        plain = harness_call(binary, sub, cases, timeout, extra_args, _env_extra={})
        extra = {n: os.path.join(WORK, "ambient-" + n) for n in ambient_env_vars()}
        try:
            amb = harness_call(binary, sub, cases, timeout, extra_args, _env_extra=extra)
        except HarnessDied as e:
            e.stderr = "(with the ambient environment %s) " % extra + (e.stderr or "")
            raise
        for i, (a, b) in enumerate(zip(plain, amb)):
            if a != b and isinstance(b, dict):
                plain[i] = dict(b, _ambient_env=extra)
        return plain
    inp = "".join(json.dumps(c, separators=(",", ":")) + "\n" for c in cases)
    env = dict(os.environ)
    env.update(FORCE_ENV)
    env.update(_env_extra or {})
    d = scratch_dir("h")
    try:
        rc, out, err, dt = run([binary, sub, *extra_args], input=inp, timeout=timeout, cwd=d, env=env)
    finally:
        shutil.rmtree(d, ignore_errors=True)
    res = []
    for l in out.splitlines():
        l = l.strip()
        if l.startswith("{"):
            try:
                res.append(json.loads(l))
            except json.JSONDecodeError:
                pass
    if len(res) != len(cases):
        e = HarnessDied("harness %s: %d results for %d cases (rc=%d)\n%s" % (sub, len(res), len(cases), rc, err[-2000:]))
        # the harness answers one line per case, in order: the first case without an answer is the one during which the
        # process ended (os.Exit / log.Fatal inside the code under test, a fatal runtime error, a kill)
        e.sub, e.index, e.rc, e.stderr = sub, len(res), rc, err[-1500:]
        e.case = cases[len(res)] if len(res) < len(cases) else None
        e.before = cases[max(0, len(res) - 400):len(res)]
        raise e
    return res


class HarnessDied(RuntimeError):
    pass


# ----------------------------------------------------------------------------- Coq side
COQ_DIRS = ["Lib", "Crypto", "Spec", "Gen", "Model", "Proofs", "Properties"]


def coq_project_files():
    fs = []
    for d in COQ_DIRS:
        dd = os.path.join(COQ, d)
        if os.path.isdir(dd):
            for f in sorted(os.listdir(dd)):
                if f.endswith(".v"):
                    fs.append(d + "/" + f)
    return fs


def coq_prepare():
    """Write _CoqProject and the Makefile (only when the file list changed)."""
    txt = "".join("-Q %s \"\"\n" % d for d in COQ_DIRS if os.path.isdir(os.path.join(COQ, d)))
    txt += "-arg -w -arg -notation-overridden,-deprecated-hint-without-locality,-deprecated-instance-without-locality\n"
    txt += "\n".join(coq_project_files()) + "\n"
    changed = write_if_changed(os.path.join(COQ, "_CoqProject"), txt)
    if changed or not os.path.exists(os.path.join(COQ, "Makefile")):
        run(["coq_makefile", "-f", "_CoqProject", "-o", "Makefile"], cwd=COQ, check=True)


def coq_make(targets, timeout=1500):
    """make the given .vo targets (full .vo build).  Returns (ok, output, failing_file)."""
    # no global build lock (a long proof in one file must not block everybody else): each invocation gets
    # its own dependency file; only the (cheap) _CoqProject/Makefile generation is serialised
    with Lock("coqprep"):
        coq_prepare()
    vd = ".Makefile.d.%d" % os.getpid()
    try:
        rc, out, err, dt = run(["make", "-j%d" % NCPU, "-k", "VDFILE=" + vd] + list(targets), cwd=COQ, timeout=timeout)
    finally:
        for f in (vd, vd + ".tmp"):
            try:
                os.unlink(os.path.join(COQ, f))
            except OSError:
                pass
    text = out + "\n" + err
    failing = None
    if rc != 0:
        m = re.search(r'File "\./([^"]+)", line (\d+)', text)
        if m:
            failing = "%s:%s" % (m.group(1), m.group(2))
        else:
            m = re.search(r"\*\*\* \[[^\]]*?([A-Za-z0-9_/]+\.vo)", text)
            failing = m.group(1) if m else "unknown"
    return rc == 0, text, failing, dt


def coq_assumptions(prop_file):
    """Re-run coqc on a Properties file (cheap: deps are compiled) to capture Print Assumptions output.
    Returns list of (theorem, text)."""
    # compile a private copy so that the shared .vo is not rewritten while others read it
    d = scratch_dir("assum")
    try:
        base = os.path.basename(prop_file)
        shutil.copy(os.path.join(COQ, prop_file), os.path.join(d, base))
        rc, out, err, dt = run(["coqc"] + coq_args() + [base], cwd=d, timeout=900)
    finally:
        shutil.rmtree(d, ignore_errors=True)
    return rc, out + err


def coq_args():
    a = []
    for d in COQ_DIRS:
        if os.path.isdir(os.path.join(COQ, d)):
            a += ["-Q", os.path.join(COQ, d), ""]
    a += ["-w", "-notation-overridden,-deprecated-hint-without-locality,-deprecated-instance-without-locality"]
    return a


def coq_eval(text, name="Cases", timeout=900):
    """Compile a throw-away .v file against the built development; returns (rc, stdout+stderr)."""
    d = scratch_dir("coq")
    try:
        fp = os.path.join(d, name + ".v")
        open(fp, "w").write(text)
        rc, out, err, dt = run(["coqc"] + coq_args() + [fp], cwd=d, timeout=timeout)
        return rc, out + err
    finally:
        shutil.rmtree(d, ignore_errors=True)


def parse_nat_list(output, ident):
    """Parse `ident = [1; 2]%nat : list nat` (possibly wrapped) from coqc output."""
    flat = " ".join(output.split())
    m = re.search(re.escape(ident) + r" = (\[[^\]]*\]|nil)", flat)
    if not m:
        return None
    body = m.group(1)
    if body == "nil" or body == "[]":
        return []
    return [int(x.replace("%nat", "").strip()) for x in body.strip("[]").split(";") if x.strip()]


def cN(b):
    """bytes / list of ints -> Coq list N literal (to be read in N_scope)."""
    return "[" + ";".join(str(x) for x in b) + "]"


def cstr(s):
    """python str -> Coq list N of code units (ASCII)."""
    return cN(s.encode("latin1"))


def cbool(b):
    return "true" if b else "false"


def hexs(b):
    return bytes(b).hex()


# ----------------------------------------------------------------------------- evidence / findings
def known_findings():
    p = os.path.join(VERIF, "known_findings.json")
    try:
        return json.load(open(p))
    except FileNotFoundError:
        return []


def write_evidence(pid, tier, seed, coverage, wall, violations, assumptions):
    os.makedirs(EVID, exist_ok=True)
    ev = {"property_id": pid, "tier": tier, "seed": seed, "level": "proof", "coverage": coverage,
          "assumptions": assumptions, "wall_s": round(wall, 2), "violations": violations}
    p = os.path.join(EVID, pid + ".json")
    tmp = p + ".tmp%d" % os.getpid()
    json.dump(ev, open(tmp, "w"), indent=1, default=str)
    os.replace(tmp, p)


def write_replay(pid, payload):
    os.makedirs(REPLAYS, exist_ok=True)
    blob = json.dumps(payload, sort_keys=True, default=str)
    h = hashlib.sha256(blob.encode()).hexdigest()[:12]
    p = os.path.join(REPLAYS, "%s-%s.json" % (pid, h))
    json.dump(payload, open(p, "w"), indent=1, default=str)
    return p
